import sys
sys.path.insert(0,'/repo')
from concurrent.futures import Future
from more_executors.futures import f_proxy, f_map
u = Future()
box = {}
u.add_done_callback(lambda f: box['p'].cancel())
p = f_map(u, lambda x: x)
box['p'] = p
try:
    print('cancel ->', p.cancel(), p)
except Exception as e:
    print('cancel RAISED', type(e).__name__, e, p)
