# Candidate finding (cousin of G10, no RetryExecutor involved): gate inversion through SyncExecutor.
# T1: outer.submit -> holds the map executor's gate, wants the sync executor's gate.
# T2: sync.submit(callable) -> holds the sync gate while the callable runs; the callable submits to `outer`.
# Coq: Props/C04_layers.v c04_layers_gate_inversion_refuted.
import sys, threading, time
sys.path.insert(0, '/repo')
from more_executors import Executors
sync = Executors.sync()
outer = sync.with_map(lambda x: x)
t1_in_gate = threading.Event(); t2_in_callable = threading.Event()
done = []
def callable2():
    t2_in_callable.set()
    time.sleep(0.5)            # let T1 take the outer gate and block on the sync gate
    outer.submit(lambda: 1)     # nested submission, not waited for
    return 0
def t2():
    sync.submit(callable2); done.append('t2')
def t1():
    t2_in_callable.wait()
    outer.submit(lambda: 2); done.append('t1')
a = threading.Thread(target=t2, daemon=True); b = threading.Thread(target=t1, daemon=True)
a.start(); b.start(); a.join(3); b.join(3)
print("done:", done, "alive:", a.is_alive(), b.is_alive())
