(* An imperative IR for the METHODS of the library's Future protocol - common._Future, MapFuture, FlatMapFuture,
   and the helpers copy_exception / copy_future_exception / try_set_result - and its path semantics over the
   instruction alphabet of Model/MapFut.v.

   The method bodies are not written here: tools/map2coq.py regenerates them from the Python AST on every check
   run (coq/Gen/MapSkel.v, one term per method plus the method table).  The leaves of the IR are the VISIBLE
   operations of MapFut.v (acquire / release of the future's RLock, each stdlib Future method on self or on the
   delegate, each call of user code, _me_invoke_callbacks); if / try-except / return / raise / calls between the
   translated methods are kept as structure.

   [exec] is a list-monad big-step interpreter: it enumerates EVERY path through a method (the answers of user
   code - value / raise / re-raise / future, callbacks raising or not - are enumerated; the answers of stdlib
   Future methods are computed with Base/Fut.v from the symbolic object state carried in [env]) and yields, for
   each path, the list of MapFut.instr that must successively stand at the head of the executing thread's
   program (re-entrant acquisitions of M by its owner are silent: they emit nothing), i.e. the program that
   MapFut.step pushes / continues with for that case.  [drive] runs MapFut.step itself along such a list.
   A construct the machine has no counterpart for (a callback loop that is not entered right after leaving M, a
   write of _delegate outside the head of a with-block, truthiness of a user value, ...) ends the path in
   [KStuck]: conformance then fails.

   Definitions only (Proofs/MapIR_Conf*.v prove; Props/C02_ir.v, C13_ir.v state). *)
From Coq Require Import ZArith List Bool Arith String.
From RecordUpdate Require Import RecordSet.
From ME Require Import Base.Machine Base.Fut Model.MapFut.
Import ListNotations RecordSetNotations.


(* ---- syntax ----------------------------------------------------------------------------------- *)
Definition var := string.

Inductive attr := A_delegate | A_error_fn | A_map_fn | A_flattened | A_callbacks | A_lock.

Inductive expr :=
| ENone | EBool (b : bool) | EVar (x : var) | ESelf | EAttr (a : attr)
| ECurExc                      (* sys.exc_info()[1] *)
| ECurTb                       (* sys.exc_info()[2] *)
| EIdentity                    (* identity / lambda x: x *)
| EFReturn                     (* futures.f_return *)
| EEmptyList                   (* [] *)
| ENewRLock                    (* RLock() *)
| EOr (a b : expr).            (* a or b *)

Inductive cond :=
| CTruthy (e : expr) | CNot (c : cond) | CIsNone (e : expr) | CIs (a b : expr)
| CNotFuture (e : expr)        (* not callable(getattr(e, 'add_done_callback', None)) *)
| CConst (b : bool).           (* decided at translation time (facts about the interpreter's stdlib Future) *)

Inductive site := AtCancel | AtAddCb | AtResolved | AtRunning.

Inductive vop :=
| VSelfCancelled               (* self.cancelled() *)
| VSelfDone (s : site)         (* self.done() *)
| VSuperCancel                 (* super(_Future, self).cancel() *)
| VSrnc                        (* self.set_running_or_notify_cancel() *)
| VSuperSetResult              (* super(MapFuture, self).set_result(result) *)
| VSuperSetException           (* super(MapFuture, self).set_exception(exception) *)
| VSuperSetExceptionInfo       (* super(MapFuture, self).set_exception_info(..): AttributeError on Python 3 *)
| VSuperInit                   (* super(_Future, self).__init__(): the stdlib constructor, silent *)
| VDelCancel                   (* self._delegate.cancel() *)
| VDelCancelled                (* delegate.cancelled() *)
| VDelAddCb                    (* self._delegate.add_done_callback(self._delegate_resolved) *)
| VDelException                (* delegate.exception() on a done delegate: not a visible operation of MapFut.v *)
| VDelResult                   (* delegate.result()    on a done delegate: not a visible operation of MapFut.v *)
| VDelRunning | VDelDone       (* MapFuture.running(): outside MapFut.v's alphabet *)
| VMapFn                       (* self._map_fn(result) *)
| VErrFn                       (* self._error_fn(ex) *)
| VCallback (direct : bool).   (* fn(self) in add_done_callback (direct) / callback(self) in _me_invoke_callbacks *)

Inductive xclass := XCException | XCAttributeError | XCInvalidStateError.
Inductive rclass := RTypeError.

Inductive mname :=
| M_future_init | M_invoke_callbacks | M_add_done_callback | M_cancel
| M_copy_future_exception | M_copy_exception | M_try_set_result
| M_map_init | M_set_delegate | M_delegate_failed | M_delegate_resolved | M_map_on_mapped
| M_set_result | M_set_exception | M_set_exception_info | M_running | M_me_cancel
| M_flat_init | M_flat_on_mapped
| M_new                        (* virtual: the constructor of the future's class *)
| M_on_mapped.                 (* virtual: self._on_mapped *)

Inductive stmt :=
| SWithM (body : list stmt)                                  (* with self._me_lock: *)
| SIf (c : cond) (th el : list stmt)
| STry (body : list stmt) (handlers : list (xclass * option var * list stmt))
| SReturn (e : expr)
| SRaise (r : rclass)
| SAssign (x : var) (e : expr)                               (* local = expr, silent *)
| SSetAttr (a : attr) (e : expr)                             (* self.attr = expr, silent *)
| SOp (x : option var) (v : vop) (args : list expr)          (* one operation; its value goes to local x *)
| SCall (x : option var) (m : mname) (args : list expr)      (* call of a translated method *)
| SForCbs (x : var) (body : list stmt)                       (* for x in self._me_done_callbacks: *)
| SAppendCb (e : expr).                                      (* self._me_done_callbacks.append(e) *)

Definition method := (list var * list stmt)%type.
Definition mtable := kind -> mname -> option method.

(* ---- symbolic values, environment ---------------------------------------------------------------- *)
Inductive sval :=
| SVNone | SVBool (b : bool) | SVVal (v : nat) | SVFut (d : nat) | SVExc (e : nat)
| SVUserFn | SVUserEfn | SVIdentity | SVFReturn | SVCb (c : nat) | SVSelf | SVList | SVLock.

Definition sval_eqb (a b : sval) : bool :=
  match a, b with
  | SVNone, SVNone | SVUserFn, SVUserFn | SVUserEfn, SVUserEfn | SVIdentity, SVIdentity
  | SVFReturn, SVFReturn | SVSelf, SVSelf | SVList, SVList | SVLock, SVLock => true
  | SVBool x, SVBool y => Bool.eqb x y
  | SVVal x, SVVal y | SVFut x, SVFut y | SVExc x, SVExc y | SVCb x, SVCb y => Nat.eqb x y
  | _, _ => false
  end.

Inductive exn := XUser (e : nat) | XAttr | XInvalid | XType.
Definition exn_id (x : exn) : nat := match x with XUser e => e | XType => type_error | XAttr => 997 | XInvalid => 996 end.
Definition catches (c : xclass) (x : exn) : bool :=
  match c, x with
  | XCException, _ => true             (* AttributeError, InvalidStateError, TypeError and user exceptions are Exceptions *)
  | XCAttributeError, XAttr => true
  | XCInvalidStateError, XInvalid => true
  | _, _ => false
  end.

(* one step of the expected machine run: thread it_t performs the visible operation it_instr (which must be the head of its
   program); or, when it_call is given, an idle thread performs that call / environment event *)
Record item := mkItem { it_t : nat; it_instr : instr; it_ans : answer; it_raises : bool; it_call : option ev }.

Inductive completion := KNormal | KReturn (v : sval) | KRaise (x : exn) | KStuck (why : nat).

Record env := mkEnv {
  o_j : nat; o_kind : kind;
  o_self : fstate; o_out : option outcome;
  o_delegate : sval; o_mapfn : sval; o_errfn : sval; o_flat : bool; o_pflat : bool;
  o_cbs : list nat;
  o_es : nat -> fstate; o_eout : nat -> option outcome; o_reg : nat -> bool;
  o_t : nat;                    (* the executing thread *)
  o_intf : nat;                 (* how many interferences by a second thread may still be inserted *)
  o_held : nat;                 (* depth of M_j held by the executing thread *)
  o_rel : nat;                  (* 1: the last thing done was a visible release of M; 2: a silent one; 0: neither *)
  o_exc : option exn;           (* the exception being handled (sys.exc_info()) *)
  o_items : list item           (* emitted so far, newest first *)
}.
#[export] Instance eta_env : Settable _ := settable! mkEnv
  <o_j; o_kind; o_self; o_out; o_delegate; o_mapfn; o_errfn; o_flat; o_pflat; o_cbs; o_es; o_eout; o_reg; o_t; o_intf; o_held; o_rel; o_exc; o_items>.

Definition frame := list (var * sval).
Fixpoint lookup (fr : frame) (x : var) : option sval :=
  match fr with [] => None | (y, v) :: r => if String.eqb x y then Some v else lookup r x end.
Definition bind_var (fr : frame) (x : var) (v : sval) : frame := (x, v) :: fr.
Definition bind_opt (fr : frame) (x : option var) (v : sval) : frame := match x with Some x => bind_var fr x v | None => fr end.

Definition emit (E : env) (i : instr) : env := E <| o_items := mkItem (o_t E) i (ARet 0) false None :: o_items E |> <| o_rel := 0 |>.
Definition emit_a (E : env) (i : instr) (a : answer) (r : bool) : env := E <| o_items := mkItem (o_t E) i a r None :: o_items E |> <| o_rel := 0 |>.
Definition emit_call (E : env) (e : ev) : env := E <| o_items := mkItem (o_t E) IRet (ARet 0) false (Some e) :: o_items E |> <| o_rel := 0 |>.

(* truthiness: unknown for user values and exception objects (they may be falsy): the library must not test it *)
Definition truthy (v : sval) : option bool :=
  match v with
  | SVNone => Some false | SVBool b => Some b | SVFut _ => Some true
  | SVUserFn | SVUserEfn | SVIdentity | SVFReturn | SVCb _ | SVSelf | SVLock => Some true
  | SVVal _ | SVExc _ | SVList => None
  end.

Fixpoint eval (E : env) (fr : frame) (e : expr) : option sval :=
  match e with
  | ENone => Some SVNone | EBool b => Some (SVBool b) | EVar x => lookup fr x | ESelf => Some SVSelf
  | EAttr A_delegate => Some (o_delegate E) | EAttr A_error_fn => Some (o_errfn E) | EAttr A_map_fn => Some (o_mapfn E)
  | EAttr A_flattened => Some (SVBool (o_flat E)) | EAttr A_callbacks => Some SVList | EAttr A_lock => Some SVLock
  | ECurExc => match o_exc E with Some x => Some (SVExc (exn_id x)) | None => Some SVNone end
  | ECurTb => Some SVNone
  | EIdentity => Some SVIdentity | EFReturn => Some SVFReturn | EEmptyList => Some SVList | ENewRLock => Some SVLock
  | EOr a b => match eval E fr a with
               | Some va => match truthy va with Some true => Some va | Some false => eval E fr b | None => None end
               | None => None end
  end.

Fixpoint eval_cond (E : env) (fr : frame) (c : cond) : option bool :=
  match c with
  | CTruthy e => match eval E fr e with Some v => truthy v | None => None end
  | CNot c => option_map negb (eval_cond E fr c)
  | CIsNone e => match eval E fr e with Some v => Some (sval_eqb v SVNone) | None => None end
  | CIs a b => match eval E fr a, eval E fr b with Some x, Some y => Some (sval_eqb x y) | _, _ => None end
  | CNotFuture e => match eval E fr e with Some (SVFut _) => Some false | Some _ => Some true | None => None end
  | CConst b => Some b
  end.

Fixpoint eval_args (E : env) (fr : frame) (l : list expr) : option (list sval) :=
  match l with
  | [] => Some []
  | e :: r => match eval E fr e, eval_args E fr r with Some v, Some vs => Some (v :: vs) | _, _ => None end
  end.

(* ---- the answers enumerated for user code -------------------------------------------------------- *)
Definition fn_answers : list answer := [ARet 11; ARaise 21; ARetFut 3].
Definition efn_answers : list answer := [ARet 12; ARaise 22; ARaiseSame; ARetFut 3].
Definition cb_raises : list bool := [false; true].
Definition cb_exn : exn := XUser 900.

(* ---- one operation ------------------------------------------------------------------------------- *)
(* result: successor environment, value or exception, and possibly "the stdlib now runs the done-callback
   self._delegate_resolved(d) inline" *)
Inductive opval := OV (v : sval) | OX (x : exn) | OStuck (why : nat).
Definition opres := (env * opval * option nat)%type.

Definition value_code (v : sval) : option nat :=
  match v with SVVal v => Some v | SVFut d => Some (1000 + d) | SVNone => Some none_value | _ => None end.
Definition cont_of (v : sval) : option (option mapped) :=
  match v with SVNone => Some None | SVVal v => Some (Some (MVal v)) | SVFut d => Some (Some (MFut d)) | _ => None end.

Definition do_op (E : env) (v : vop) (args : list sval) : list opres :=
  let j := o_j E in
  let stuck n := [(E, OStuck n, None)] in
  match v, args with
  | VSelfCancelled, [] => [(emit E (ICancelled j), OV (SVBool (fcancelled (o_self E))), None)]
  | VSelfDone AtCancel, [] => [(emit E (IDoneC j), OV (SVBool (fdone (o_self E))), None)]
  | VSelfDone AtAddCb, [SVCb c] => [(emit E (IDoneA j c), OV (SVBool (fdone (o_self E))), None)]
  | VSelfDone AtResolved, [r] =>
      match cont_of r with
      | Some k => [(emit E (IDoneQ j k), OV (SVBool (fdone (o_self E))), None)]
      | None => stuck 10
      end
  | VSuperCancel, [] =>
      let '(n, b) := f_cancel (o_self E) in [(emit (E <| o_self := n |>) (IFCancel j), OV (SVBool b), None)]
  | VSrnc, [] =>
      match f_srnc (o_self E) with
      | Some (n, b) => [(emit (E <| o_self := n |>) (IFSrnc j), OV (SVBool b), None)]
      | None => stuck 11
      end
  | VSuperSetResult, [r] =>
      match value_code r with
      | Some c =>
          match f_set (o_self E) with
          | Some n => [(emit (E <| o_self := n |> <| o_out := Some (Ok c) |>) (IFSetRes j c), OV SVNone, None)]
          | None => [(emit E (IFSetRes j c), OX XInvalid, None)]
          end
      | None => stuck 12
      end
  | VSuperSetException, [SVExc e] =>
      match f_set (o_self E) with
      | Some n => [(emit (E <| o_self := n |> <| o_out := Some (Err e) |>) (IFSetExc j e), OV SVNone, None)]
      | None => [(emit E (IFSetExc j e), OX XInvalid, None)]
      end
  | VSuperSetExceptionInfo, [_; _] => [(E, OX XAttr, None)]
  | VSuperInit, [] => [(E, OV SVNone, None)]
  | VDelCancel, [SVFut d] =>
      let '(n, b) := f_cancel (o_es E d) in
      let E1 := emit (E <| o_es := upd (o_es E) d n |>) (IDCancel j d) in
      if b && f_cancel_fires (o_es E d) then
        if o_reg E d then [(E1 <| o_reg := upd (o_reg E) d false |>, OV (SVBool b), Some d)]
        else [(E1, OV (SVBool b), None)]
      else [(E1, OV (SVBool b), None)]
  | VDelCancelled, [SVFut d] => [(emit E (IDCancelledQ j d), OV (SVBool (fcancelled (o_es E d))), None)]
  | VDelAddCb, [SVFut d] =>
      if fdone (o_es E d) then [(emit E (IAddCbE d j), OV SVNone, Some d)]
      else [(emit (E <| o_reg := upd (o_reg E) d true |>) (IAddCbE d j), OV SVNone, None)]
  | VDelException, [SVFut d] =>
      if negb (fdone (o_es E d)) || fcancelled (o_es E d) then stuck 13 else
      match o_eout E d with Some (Err e) => [(E, OV (SVExc e), None)] | Some (Ok _) => [(E, OV SVNone, None)] | None => stuck 14 end
  | VDelResult, [SVFut d] =>
      if negb (fdone (o_es E d)) || fcancelled (o_es E d) then stuck 15 else
      match o_eout E d with Some (Ok v) => [(E, OV (SVVal v), None)] | _ => stuck 16 end
  | VMapFn, [r; SVFut d] =>
      match o_mapfn E with
      | SVUserFn =>
          map (fun a => (emit_a E (IUserFn j d) a false,
                         match a with ARet v => OV (SVVal v) | ARetFut d' => OV (SVFut d') | ARaise e => OX (XUser e) | ARaiseSame => OStuck 17 end,
                         None)) fn_answers
      | SVIdentity => [(E, OV r, None)]
      | _ => stuck 18
      end
  | VErrFn, [SVExc e0; SVFut d] =>
      match o_errfn E with
      | SVUserEfn =>
          map (fun a => (emit_a E (IUserEfn j d) a false,
                         match a with ARet v => OV (SVVal v) | ARetFut d' => OV (SVFut d') | ARaise e => OX (XUser e) | ARaiseSame => OX (XUser e0) end,
                         None)) efn_answers
      | _ => stuck 19
      end
  | VCallback direct, [SVCb c; SVSelf] =>
      map (fun r => (emit_a E (IUserCb j c direct) (ARet 0) r, if r then OX cb_exn else OV SVNone, None)) cb_raises
  | _, _ => stuck 20
  end.

(* ---- statements ---------------------------------------------------------------------------------- *)
Definition res := (env * frame * completion)%type.

Definition del_of (v : sval) : option (option nat) :=
  match v with SVFut d => Some (Some d) | SVNone => Some None | _ => None end.

Fixpoint zip_params (ps : list var) (vs : list sval) : option frame :=
  match ps, vs with
  | [], [] => Some []
  | p :: ps, v :: vs => option_map (cons (p, v)) (zip_params ps vs)
  | _, _ => None
  end.

Fixpoint find_handler (hs : list (xclass * option var * list stmt)) (x : exn) : option (option var * list stmt) :=
  match hs with
  | [] => None
  | (c, v, b) :: r => if catches c x then Some (v, b) else find_handler r x
  end.

(* the callback loop must start right after M has been left: the machine leaves M and takes the snapshot of the
   callbacks in ONE step (IRelMCbs) *)
Definition enter_invoke (E : env) : option env :=
  match o_rel E, o_items E with
  | 1, mkItem t (IRelM j) a r None :: rest => Some (E <| o_items := mkItem t (IRelMCbs j) a r None :: rest |> <| o_rel := 0 |>)
  | 2, _ => Some (E <| o_rel := 0 |>)
  | _, _ => None
  end.

Definition J := 0.      (* the library future *)
Definition T := 0.      (* the executing thread *)
Definition T2 := 1.     (* the interfering thread *)

Section Exec.
Variable tbl : mtable.

Fixpoint exec (fuel : nat) (E : env) (fr : frame) (p : list stmt) {struct fuel} : list res :=
  match fuel with
  | 0 => [(E, fr, KStuck 1)]
  | S f =>
    let call (E : env) (m : mname) (vs : list sval) : list (env * completion) :=
      match tbl (o_kind E) m with
      | Some (ps, body) =>
          match zip_params ps vs with
          | Some fr0 =>
              match (if match m with M_invoke_callbacks => true | _ => false end then enter_invoke E else Some E) with
              | Some E0 =>
                  map (fun '(E1, _, k) => (E1, match k with KNormal => KReturn SVNone | _ => k end)) (exec f E0 fr0 body)
              | None => [(E, KStuck 2)]
              end
          | None => [(E, KStuck 3)]
          end
      | None => [(E, KStuck 4)]
      end in
    (* before a visible operation made while M is not held, a SECOND thread may run a whole cancel() of the future, or the
       environment may finish d3 (running _delegate_resolved(d3) in its thread if the future is registered there); at most
       o_intf such interferences per path.  Result: the environments to go on with (the first is E itself), or a stuck code *)
    let interfere (E : env) : list (env * option nat) :=
      if Nat.eqb (o_intf E) 0 || negb (Nat.eqb (o_held E) 0) then [(E, None)] else
      let E0 := E <| o_intf := pred (o_intf E) |> <| o_t := T2 |> <| o_exc := None |> in
      let restore (E2 : env) : env := E2 <| o_t := o_t E |> <| o_rel := o_rel E |> <| o_exc := o_exc E |> in
      (E, None)
      :: map (fun '(E2, k) => match k with
                              | KReturn (SVBool b) => (restore (emit E2 (IRetB b)), None)
                              | KStuck n => (E2, Some n) | _ => (E2, Some 30) end)
             (call (emit_call E0 (ECallCancel T2 (o_j E))) M_cancel [])
      ++ (if fdone (o_es E 3) then [] else
          let E1 := emit_call (E0 <| o_es := upd (o_es E) 3 Finished |> <| o_eout := upd (o_eout E) 3 (Some (Ok 6)) |>
                                  <| o_reg := upd (o_reg E) 3 false |>) (EEnvFinish T2 3 (o_es E 3) (Ok 6)) in
          if o_reg E 3 then
            map (fun '(E2, k) => match k with KReturn _ => (restore E2, None) | KStuck n => (E2, Some n) | _ => (E2, Some 31) end)
                (call E1 M_delegate_resolved [SVFut 3])
          else [(restore E1, None)]) in
    let with_interference (E : env) (fr : frame) (k : env -> list res) : list res :=
      flat_map (fun '(E1, bad) => match bad with None => k E1 | Some n => [(E1, fr, KStuck n)] end) (interfere E) in
    match p with
    | [] => [(E, fr, KNormal)]
    | s :: rest =>
      let after (rs : list res) : list res :=
        flat_map (fun '(E1, fr1, k) => match k with KNormal => exec f E1 fr1 rest | _ => [(E1, fr1, k)] end) rs in
      match s with
      | SWithM body =>
          with_interference E fr (fun E =>
          let j := o_j E in
          let start : option (env * list stmt) :=
            match body with
            | SSetAttr A_delegate e :: r =>
                match eval E fr e with
                | Some v => match del_of v with
                            | Some x =>
                                let E1 := E <| o_delegate := v |> <| o_pflat := false |> in
                                Some (if Nat.eqb (o_held E) 0 then emit E1 (IAcqMSet j x (o_pflat E)) else E1, r)
                            | None => None end
                | None => None
                end
            | _ => Some (if Nat.eqb (o_held E) 0 then emit E (IAcqM j) else E, body)
            end in
          match start with
          | None => [(E, fr, KStuck 5)]
          | Some (E1, body1) =>
              let d := o_held E in
              after (map (fun '(E2, fr2, k) =>
                            (if Nat.eqb d 0 then (emit (E2 <| o_held := 0 |>) (IRelM j)) <| o_rel := 1 |>
                             else E2 <| o_held := d |> <| o_rel := 2 |>, fr2, k))
                         (exec f (E1 <| o_held := S d |>) fr body1))
          end)
      | SIf c th el =>
          match eval_cond E fr c with
          | Some b => after (exec f E fr (if b then th else el))
          | None => [(E, fr, KStuck 6)]
          end
      | STry body hs =>
          after (flat_map (fun '(E1, fr1, k) =>
                   match k with
                   | KRaise x =>
                       match find_handler hs x with
                       | Some (v, hb) =>
                           let old := o_exc E1 in
                           map (fun '(E2, fr2, k2) => (E2 <| o_exc := old |>, fr2, k2))
                               (exec f (E1 <| o_exc := Some x |>) (bind_opt fr1 v (SVExc (exn_id x))) hb)
                       | None => [(E1, fr1, k)]
                       end
                   | _ => [(E1, fr1, k)]
                   end) (exec f E fr body))
      | SReturn e => match eval E fr e with Some v => [(E, fr, KReturn v)] | None => [(E, fr, KStuck 7)] end
      | SRaise RTypeError => [(E, fr, KRaise XType)]
      | SAssign x e => match eval E fr e with Some v => after [(E, bind_var fr x v, KNormal)] | None => [(E, fr, KStuck 8)] end
      | SSetAttr a e =>
          match eval E fr e with
          | Some v =>
              match a, v with
              | A_map_fn, _ => after [(E <| o_mapfn := v |>, fr, KNormal)]
              | A_error_fn, _ => after [(E <| o_errfn := v |>, fr, KNormal)]
              | A_flattened, SVBool b => after [(E <| o_flat := b |> <| o_pflat := b |>, fr, KNormal)]
              | A_callbacks, SVList => after [(E <| o_cbs := [] |>, fr, KNormal)]
              | A_lock, SVLock => after [(E, fr, KNormal)]
              | _, _ => [(E, fr, KStuck 9)]      (* in particular: self._delegate written outside the head of a with-block *)
              end
          | None => [(E, fr, KStuck 8)]
          end
      | SOp x v args =>
          with_interference E fr (fun E =>
          match eval_args E fr args with
          | None => [(E, fr, KStuck 8)]
          | Some vs =>
              after (flat_map (fun '(E1, ov, cb) =>
                       match ov with
                       | OStuck n => [(E1, fr, KStuck n)]
                       | _ =>
                         let fin (E2 : env) : res :=
                           match ov with OV w => (E2, bind_opt fr x w, KNormal) | OX ex => (E2, fr, KRaise ex) | OStuck n => (E2, fr, KStuck n) end in
                         match cb with
                         | None => [fin E1]
                         | Some d =>
                             (* the stdlib future runs self._delegate_resolved(d) inline; an exception escaping it would be
                                logged and swallowed by the stdlib: the machine has no such case *)
                             map (fun '(E2, k) => match k with KReturn _ => fin E2 | KStuck n => (E2, fr, KStuck n) | _ => (E2, fr, KStuck 21) end)
                                 (call E1 M_delegate_resolved [SVFut d])
                         end
                       end) (do_op E v vs))
          end)
      | SCall x m args =>
          match eval_args E fr args with
          | None => [(E, fr, KStuck 8)]
          | Some vs =>
              after (map (fun '(E1, k) =>
                            match k with
                            | KReturn w => (E1, bind_opt fr x w, KNormal)
                            | _ => (E1, fr, k)
                            end) (call E m vs))
          end
      | SForCbs x body =>
          after ((fix loop (cs : list nat) (E0 : env) (fr0 : frame) : list res :=
                    match cs with
                    | [] => [(E0, fr0, KNormal)]
                    | c :: r => flat_map (fun '(E1, fr1, k) => match k with KNormal => loop r E1 fr1 | _ => [(E1, fr1, k)] end)
                                         (exec f E0 (bind_var fr0 x (SVCb c)) body)
                    end) (o_cbs E) E fr)
      | SAppendCb e =>
          match eval E fr e with
          | Some (SVCb c) => after [(E <| o_cbs := o_cbs E ++ [c] |>, fr, KNormal)]
          | _ => [(E, fr, KStuck 8)]
          end
      end
    end
  end.

Definition FUEL := 80.

(* a call of method m from the outside (an API call or a done-callback fired by the environment) *)
Definition argnames : list var := ["%a0"%string; "%a1"%string; "%a2"%string].
Definition run_method (E : env) (m : mname) (vs : list sval) : list (env * completion) :=
  map (fun '(E1, _, k) => (E1, k))
      (exec FUEL E (combine argnames vs)
            [SCall (Some "%ret"%string) m (map EVar (firstn (List.length vs) argnames)); SReturn (EVar "%ret"%string)]).
End Exec.

(* ---- configurations, scenarios and the machine state they denote -------------------------------- *)
Record cfg := mkCfg { c_kind : kind; c_fn : bool; c_efn : bool; c_flat : bool; c_cbs : list nat }.
Record scn := mkScn { s_self : fstate; s_del : option nat; s_e1 : fstate; s_o1 : outcome; s_e3 : fstate; s_o3 : outcome }.


Definition es_of (x : scn) (d : nat) : fstate := if Nat.eqb d 1 then s_e1 x else if Nat.eqb d 3 then s_e3 x else Pending.
Definition eout_of (x : scn) (d : nat) : option outcome :=
  if Nat.eqb d 1 then (if fstate_eqb (s_e1 x) Finished then Some (s_o1 x) else None)
  else if Nat.eqb d 3 then (if fstate_eqb (s_e3 x) Finished then Some (s_o3 x) else None) else None.
Definition reg_of (x : scn) (d : nat) : bool :=
  match s_del x with Some d' => Nat.eqb d d' && negb (fdone (es_of x d)) | None => false end.

Definition env_of (c : cfg) (x : scn) : env :=
  mkEnv J (c_kind c) (s_self x) None
        (match s_del x with Some d => SVFut d | None => SVNone end)
        (if c_flat c then SVIdentity else if c_fn c then SVUserFn else match c_kind c with KMap => SVIdentity | KFlat => SVFReturn end)
        (if c_flat c then SVNone else if c_efn c then SVUserEfn else SVNone)
        (c_flat c) false (c_cbs c) (es_of x) (eout_of x) (reg_of x) T 0 0 0 None [].

Definition state_of (c : cfg) (x : scn) : st :=
  mkSt 1 (fun _ => s_self x) (fun _ => None) (fun _ => c_cbs c) (fun _ => c_cbs c) (fun _ => s_del x)
       (fun _ => c_kind c) (fun _ => c_flat c) (fun _ => c_fn c) (fun _ => c_efn c) (fun _ => None)
       (es_of x) (eout_of x) (fun d => if reg_of x d then [J] else []) (fun _ => []) (fun _ => None) [].

(* ---- driving MapFut.step along a list of items --------------------------------------------------- *)
Definition instr_eqb (a b : instr) : bool :=
  let oeq (x y : option nat) := match x, y with Some a, Some b => Nat.eqb a b | None, None => true | _, _ => false end in
  let meq (x y : option mapped) :=
    match x, y with
    | Some (MVal a), Some (MVal b) | Some (MFut a), Some (MFut b) => Nat.eqb a b
    | None, None => true | _, _ => false end in
  match a, b with
  | IAcqM x, IAcqM y | IRelM x, IRelM y | IRelMCbs x, IRelMCbs y | ICancelled x, ICancelled y | IDoneC x, IDoneC y
  | IFCancel x, IFCancel y | IFSrnc x, IFSrnc y => Nat.eqb x y
  | IAcqMSet x o f, IAcqMSet y p g => Nat.eqb x y && oeq o p && Bool.eqb f g
  | IAddCbE x u, IAddCbE y v | IDCancel x u, IDCancel y v | IDoneA x u, IDoneA y v | IDCancelledQ x u, IDCancelledQ y v
  | IUserFn x u, IUserFn y v | IUserEfn x u, IUserEfn y v | IFSetRes x u, IFSetRes y v | IFSetExc x u, IFSetExc y v =>
      Nat.eqb x y && Nat.eqb u v
  | IUserCb x u f, IUserCb y v g => Nat.eqb x y && Nat.eqb u v && Bool.eqb f g
  | IDoneQ x k, IDoneQ y l => Nat.eqb x y && meq k l
  | IRet, IRet | IRetRaise, IRetRaise | ICatch, ICatch | IThrow, IThrow | IDead, IDead => true
  | IRetB x, IRetB y => Bool.eqb x y
  | _, _ => false
  end.

(* the event by which thread t performs the visible operation i in state s (the pre-state of a stdlib method is
   read from the machine, the answer of user code from the item) *)
Definition ev_of (s : st) (t : nat) (it : item) : option ev :=
  match it_instr it with
  | IAcqM j | IAcqMSet j _ _ => Some (EAcqM t j)
  | IRelM j | IRelMCbs j => Some (ERelM t j)
  | ICancelled j => Some (EFM t 0 j (ms s j))
  | IDoneC j | IDoneA j _ | IDoneQ j _ => Some (EFM t 1 j (ms s j))
  | IFCancel j => Some (EFM t 2 j (ms s j))
  | IFSrnc j => Some (EFM t 3 j (ms s j))
  | IFSetRes j _ => Some (EFM t 4 j (ms s j))
  | IFSetExc j _ => Some (EFM t 6 j (ms s j))
  | IDCancelledQ _ d => Some (EFE t 0 d (es s d))
  | IDCancel _ d => Some (EFE t 2 d (es s d))
  | IAddCbE d _ => Some (EFE t 5 d (es s d))
  | IUserFn _ _ => Some (EUserFn t (it_ans it))
  | IUserEfn _ _ => Some (EUserEfn t (it_ans it))
  | IUserCb j c _ => Some (EUserCb t j c (it_raises it))
  | IRet => Some (ERet t 0)
  | IRetB b => Some (ERet t (if b then 2 else 1))
  | IRetRaise => Some (ERet t 9)
  | ICatch | IThrow | IDead => None
  end.

(* Some (events, final state): at every item the head of the item's thread's program IS the item's instruction and the
   machine accepts the corresponding event; a call item is an event of an idle thread *)
Fixpoint drive (s : st) (its : list item) : option (list ev * st) :=
  match its with
  | [] => Some ([], s)
  | it :: r =>
      let go (e : ev) :=
        match step s e with
        | Some s' => match drive s' r with Some (es, s2) => Some (e :: es, s2) | None => None end
        | None => None
        end in
      match it_call it, thr s (it_t it) with
      | Some e, [] => go e
      | None, i :: _ =>
          if instr_eqb i (it_instr it) then
            match ev_of s (it_t it) it with Some e => go e | None => None end
          else None
      | _, _ => None
      end
  end.

(* what stands at the head of the program of the thread that moves, before each event of a run *)
Definition it_head (it : item) : option instr := match it_call it with Some _ => None | None => Some (it_instr it) end.
Fixpoint heads (s : st) (ts : list nat) (es : list ev) : option (list (option instr)) :=
  match ts, es with
  | [], [] => Some []
  | t :: ts', e :: r => match step s e with
                        | Some s' => option_map (cons (hd_error (thr s t))) (heads s' ts' r)
                        | None => None
                        end
  | _, _ => None
  end.

(* agreement of the machine's final state with the IR's symbolic object state *)
Definition list_eqb (a b : list nat) : bool := Nat.eqb (List.length a) (List.length b) && forallb (fun '(x, y) => Nat.eqb x y) (combine a b).
Definition outcome_eqb (a b : option outcome) : bool :=
  match a, b with
  | Some (Ok x), Some (Ok y) | Some (Err x), Some (Err y) => Nat.eqb x y
  | None, None => true | _, _ => false end.
Definition agree (s : st) (E : env) : bool :=
  let j := o_j E in
  fstate_eqb (ms s j) (o_self E)
  && (match o_out E with Some _ => outcome_eqb (mout s j) (o_out E) | None => true end)
  && (match del_of (o_delegate E), mdel s j with Some (Some a), Some b => Nat.eqb a b | Some None, None => true | _, _ => false end)
  && Bool.eqb (mflat s j) (o_flat E)
  && list_eqb (mcbs s j) (o_cbs E)
  && forallb (fun d => fstate_eqb (es s d) (o_es E d) && list_eqb (ecbs s d) (if o_reg E d then [j] else [])) [1; 3]
  && match mown s j with None => true | Some _ => false end.
