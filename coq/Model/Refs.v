(* The weak-reference protocol of the worker loops (retry/poll/throttle/timeout __init__ and *_loop):
   the thread holds weakref.ref(executor, callback = event.set); each iteration it derefs (None =>
   exit), works with a temporary strong reference, drops it before waiting.  CPython finalises on
   the last decref, in the thread that drops it.  Model + proof (C12, safety form). *)
From Coq Require Import List Bool Arith Lia.
From ME Require Import Base.Machine.
Import ListNotations.

Inductive wpc := WDeref | WHold | WDropped | WBlocked (notified : bool) | WClear | WExit.
(* WorkerDeref carries what the real `executor_ref()` returned (alive or None), WorkerWait whether the real wait found
   the event set: the acceptor checks both observations against its own state (lockstep, harness/p_c12w.py).
   WorkerLoop: an iteration that ends with `continue` (no wait): the temporary reference is simply rebound by the next
   deref.  WorkerTimeout: a timed wait that expired un-notified. *)
Inductive ev := UserDrop | WorkerDeref (alive : bool) | WorkerRelease | WorkerWait (found_set : bool) | WorkerWoke | WorkerClear
              | OtherSet | WorkerLoop | WorkerTimeout.

Record st := { userref : bool; wstrong : bool; collected : bool; flag : bool; wp : wpc }.
Definition init : st := {| userref := true; wstrong := false; collected := false; flag := false; wp := WDeref |}.

Definition notify (p : wpc) : wpc := match p with WBlocked _ => WBlocked true | q => q end.

Definition step (s : st) (e : ev) : option st :=
  match e with
  | UserDrop =>
      if userref s then
        if wstrong s then Some {| userref := false; wstrong := true; collected := false; flag := flag s; wp := wp s |}
        else Some {| userref := false; wstrong := false; collected := true; flag := true; wp := notify (wp s) |}   (* finalised: callback sets the event *)
      else None
  | WorkerDeref alive =>
      if negb (Bool.eqb alive (negb (collected s))) then None else
      match wp s with
      | WDeref => if collected s then Some {| userref := userref s; wstrong := false; collected := true; flag := flag s; wp := WExit |}
                  else Some {| userref := userref s; wstrong := true; collected := false; flag := flag s; wp := WHold |}
      | _ => None end
  | WorkerRelease =>                       (* `del executor` before waiting *)
      match wp s with
      | WHold => if userref s then Some {| userref := true; wstrong := false; collected := false; flag := flag s; wp := WDropped |}
                 else Some {| userref := false; wstrong := false; collected := true; flag := true; wp := WDropped |}
      | _ => None end
  | WorkerWait found_set =>
      if negb (Bool.eqb found_set (flag s)) then None else
      match wp s with
      | WDropped => Some {| userref := userref s; wstrong := wstrong s; collected := collected s; flag := flag s;
                            wp := if flag s then WClear else WBlocked false |}
      | _ => None end
  | WorkerWoke => match wp s with WBlocked true => Some {| userref := userref s; wstrong := wstrong s; collected := collected s; flag := flag s; wp := WClear |} | _ => None end
  | WorkerClear => match wp s with WClear => Some {| userref := userref s; wstrong := wstrong s; collected := collected s; flag := false; wp := WDeref |} | _ => None end
  | OtherSet => Some {| userref := userref s; wstrong := wstrong s; collected := collected s; flag := true; wp := notify (wp s) |}
  | WorkerLoop => match wp s with WHold => Some s | _ => None end
  | WorkerTimeout => match wp s with
                     | WBlocked _ => Some {| userref := userref s; wstrong := wstrong s; collected := collected s; flag := flag s; wp := WClear |}
                     | _ => None end
  end.

Definition heading_to_deref (p : wpc) : bool := match p with WDeref | WClear | WBlocked true | WExit => true | _ => false end.

Record Inv (s : st) : Prop := {
  i_col : collected s = true -> flag s = true \/ heading_to_deref (wp s) = true;
  i_blk : wp s = WBlocked false -> flag s = false;
  i_alive : collected s = false -> userref s = true \/ wstrong s = true;
  i_hold : wstrong s = true <-> wp s = WHold
}.

Lemma inv_init : Inv init.
Proof. constructor; simpl; auto; try discriminate. split; discriminate. Qed.

Lemma inv_step s e s' : Inv s -> step s e = Some s' -> Inv s'.
Proof.
  intros [Ic Ib Ia Ih] H. destruct s as [u w c f p]. simpl in *.
  destruct e as [|al| |fs| | | | |]; simpl in H;
    try destruct al; try destruct fs;
    destruct u, w, c, f; destruct p as [| | |[|]| |]; simpl in H; try discriminate;
    inversion H; subst; clear H; constructor; simpl in *;
    intuition (try discriminate; try congruence).
Qed.

Theorem reachable_inv s : reachable_from step init s -> Inv s.
Proof. apply invariant_rule; [apply inv_init|intros; eapply inv_step; eauto]. Qed.

(* after the last reference is gone the worker never sleeps un-notified: whatever the moment of the
   drop relative to the loop (holding its temporary reference, about to wait, waiting), the event is
   set or the worker is on its way to the deref that makes it exit *)
Theorem worker_not_asleep_after_collection s : reachable_from step init s -> collected s = true -> wp s <> WBlocked false.
Proof.
  intros R C B. destruct (reachable_inv s R) as [Ic Ib _ _].
  destruct (Ic C) as [F|X]; [rewrite (Ib B) in F; discriminate|rewrite B in X; discriminate].
Qed.

(* conversely the executor is not finalised while the user or the loop still holds it *)
Theorem not_collected_while_referenced s : reachable_from step init s -> collected s = false -> userref s = true \/ wstrong s = true.
Proof. intros R. apply (reachable_inv s R). Qed.

(* the deref after collection exits the loop *)
Theorem deref_after_collection_exits s s' al : collected s = true -> wp s = WDeref -> step s (WorkerDeref al) = Some s' -> wp s' = WExit /\ al = false.
Proof. intros C W H. simpl in H. rewrite W, C in H. destruct al; simpl in H; [discriminate|]. inversion H; split; reflexivity. Qed.

(* what the real deref returns is determined: the executor object while it has not been finalised, None afterwards *)
Theorem deref_observation s s' al : step s (WorkerDeref al) = Some s' -> al = negb (collected s).
Proof. simpl. destruct al, (collected s); simpl; intros H; try discriminate; reflexivity. Qed.

(* a timed wait changes nothing: after collection the worker is still never asleep un-notified, and a worker that timed
   out goes through clear to the deref that ends it *)
Theorem timeout_leads_to_deref s s' : step s WorkerTimeout = Some s' -> wp s' = WClear.
Proof. simpl. destruct (wp s); intros H; try discriminate; inversion H; reflexivity. Qed.

(* if the loop waited BEFORE dropping its strong reference, a drop by the user during the wait would
   never be noticed (no finaliser runs): witness *)
Theorem holding_while_waiting_refuted :
  exists s, userref s = false /\ collected s = false /\ wstrong s = true.
Proof. exists {| userref := false; wstrong := true; collected := false; flag := false; wp := WHold |}. repeat split. Qed.

(* ---- wire format (harness/p_c12w.py) --------------------------------------------------------------- *)
From Coq Require Import ZArith.
Local Open Scope Z_scope.
Definition decode (l : list Z) : option ev :=
  match l with
  | [0] => Some UserDrop
  | [1; a] => Some (WorkerDeref (Z.eqb a 1))
  | [2] => Some WorkerRelease
  | [3; f] => Some (WorkerWait (Z.eqb f 1))
  | [4] => Some WorkerWoke
  | [5] => Some WorkerClear
  | [6] => Some OtherSet
  | [7] => Some WorkerLoop
  | [8] => Some WorkerTimeout
  | _ => None
  end.
Fixpoint decode_all (ls : list (list Z)) : option (list ev) :=
  match ls with
  | [] => Some []
  | l :: r => match decode l, decode_all r with Some e, Some es => Some (e :: es) | _, _ => None end
  end.
Definition accept (ls : list (list Z)) : list Z :=
  match decode_all ls with
  | None => [-2]
  | Some es => match first_reject step init es 0%nat with None => [-1] | Some i => [Z.of_nat i] end
  end.
