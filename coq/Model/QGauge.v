(* Queue gauges in lockstep (C20): RetryExecutor._jobs / RETRY_QUEUE and ThrottleExecutor._to_submit /
   THROTTLE_QUEUE.  A trace acceptor over the visible operations of the real code on executor
   instance i: outermost acquisition / release of the executor lock X_i, every mutation of the
   queue container (append, removal of a present element), every inc()/dec() of the queue gauge.

   What the acceptor checks is LOCAL: container and gauge are touched only by the holder of X_i, and
   inside one critical section mutations and gauge updates come in adjacent pairs
       append;inc | inc;append | remove;dec | dec;remove
   (retry.py: _append_job = inc;append, _pop_job = dec;pop -- the element has been found before the
   decrement; throttle.py: submit = append;inc, _submit_loop_iter = popleft;dec, _do_cancel = remove;dec),
   and the section ends with no half pair open.  What is PROVED from that (Proofs/QGauge_Inv.v) is
   GLOBAL: the gauge equals the queue length whenever the lock is free, differs by at most one inside
   a section, and is never negative.  Definitions only. *)
From Coq Require Import ZArith List Bool Arith.
From ME Require Import Base.Machine.
Import ListNotations.

Inductive pend := PNone | PApp | PInc | PPop | PDec.

Inductive ev :=
| QAcq (i t : nat) | QRel (i t : nat)
| QApp (i t x : nat) | QPop (i t x : nat)
| QInc (i t : nat) | QDec (i t : nat).

Record st := mkSt {
  owner : nat -> option nat;      (* holder of X_i *)
  q : nat -> list nat;            (* the container, oldest first *)
  gauge : nat -> Z;
  pd : nat -> pend                (* the half pair open in the current section of X_i *)
}.

Definition init : st := mkSt (fun _ => None) (fun _ => []) (fun _ => 0%Z) (fun _ => PNone).

Fixpoint remove_first (x : nat) (l : list nat) : option (list nat) :=
  match l with
  | [] => None
  | y :: r => if Nat.eqb y x then Some r
              else match remove_first x r with Some r' => Some (y :: r') | None => None end
  end.

Definition holds (s : st) (i t : nat) : bool :=
  match owner s i with Some o => Nat.eqb o t | None => false end.

Definition set_owner s i o := mkSt (upd (owner s) i o) (q s) (gauge s) (pd s).
Definition set_q s i l p := mkSt (owner s) (upd (q s) i l) (gauge s) (upd (pd s) i p).
Definition set_g s i g p := mkSt (owner s) (q s) (upd (gauge s) i g) (upd (pd s) i p).

Definition step (s : st) (e : ev) : option st :=
  match e with
  | QAcq i t => match owner s i with None => Some (set_owner s i (Some t)) | Some _ => None end
  | QRel i t => if holds s i t then
                  match pd s i with PNone => Some (set_owner s i None) | _ => None end
                else None
  | QApp i t x =>
      if holds s i t then
        match pd s i with
        | PNone => Some (set_q s i (q s i ++ [x]) PApp)
        | PInc => Some (set_q s i (q s i ++ [x]) PNone)
        | _ => None
        end
      else None
  | QInc i t =>
      if holds s i t then
        match pd s i with
        | PNone => Some (set_g s i (gauge s i + 1)%Z PInc)
        | PApp => Some (set_g s i (gauge s i + 1)%Z PNone)
        | _ => None
        end
      else None
  | QPop i t x =>
      if holds s i t then
        match remove_first x (q s i) with
        | None => None
        | Some l =>
            match pd s i with
            | PNone => Some (set_q s i l PPop)
            | PDec => Some (set_q s i l PNone)
            | _ => None
            end
        end
      else None
  | QDec i t =>
      if holds s i t then
        match pd s i with
        | PNone => match q s i with [] => None      (* a decrement announces the removal of a present element *)
                                  | _ :: _ => Some (set_g s i (gauge s i - 1)%Z PDec) end
        | PPop => Some (set_g s i (gauge s i - 1)%Z PNone)
        | _ => None
        end
      else None
  end.

(* the same machine without the pairing discipline on removals (the code before the repairs G7 / G7b:
   a cancel path that removes without decrementing) -- used for the refutation only *)
Definition step_nodec (s : st) (e : ev) : option st :=
  match e with
  | QPop i t x =>
      if holds s i t then
        match remove_first x (q s i) with
        | Some l => Some (set_q s i l PNone)
        | None => None
        end
      else None
  | _ => step s e
  end.

(* ---- wire format ------------------------------------------------------------------------------- *)
Local Open Scope Z_scope.
Definition n (z : Z) : nat := Z.to_nat z.
Definition decode (l : list Z) : option ev :=
  match l with
  | [0; i; t] => Some (QAcq (n i) (n t))
  | [1; i; t] => Some (QRel (n i) (n t))
  | [2; i; t; x] => Some (QApp (n i) (n t) (n x))
  | [3; i; t; x] => Some (QPop (n i) (n t) (n x))
  | [4; i; t] => Some (QInc (n i) (n t))
  | [5; i; t] => Some (QDec (n i) (n t))
  | _ => None
  end.

Fixpoint decode_all (ls : list (list Z)) : option (list ev) :=
  match ls with
  | [] => Some []
  | l :: r => match decode l, decode_all r with Some e, Some es => Some (e :: es) | _, _ => None end
  end.

Definition accept (ls : list (list Z)) : list Z :=
  match decode_all ls with
  | None => [-2]
  | Some es => match first_reject step init es 0 with None => [-1] | Some i => [Z.of_nat i] end
  end.
