(* A small imperative IR for the bodies of TimeoutExecutor.submit / submit_timeout / shutdown /
   _on_future_done / _do_cancel / _job_loop (+ _job_loop_iter inlined) of timeout.py, with
   ShutdownHelper.ensure_alive / __call__ (helpers.py) inlined, and its reading over the instruction
   alphabet of Model/Timeout.v.

   The programs are not written here: tools/timeout2coq.py regenerates them from the Python AST on
   every check run (coq/Gen/TimeoutSkel.v).  This file gives
     1. the syntax ([stmt], [cond]);
     2. [flat]: the sequence of VISIBLE operations ([sop]) along one path through a method - branches
        resolved by an oracle for the tests that read shared / environment state and by the value of the
        last inlined call for `if not event` / `if self._shutdown()`; with-blocks open and close around
        their bodies, `return` / `raise` leave the enclosing with-blocks innermost first;
     3. [inst]: the instructions of Model/Timeout.v a path stands for, given the data bound on the way
        (the per-call timeout, the ids of the new future and of the delegate future, the clock readings,
        the job list, the overdue jobs, the computed wait);
     4. [gstep]: Timeout.step in which every continuation that belongs to a method of TimeoutExecutor is
        NOT the list written inside Timeout.step but the corresponding SEGMENT of the generated method
        (the part of the path between two binding operations), instantiated with the data the event
        binds.  The Future protocol underneath (MapFuture / _Future: `MapFuture(delegate_future)`,
        `future.add_done_callback(...)`, `job.future.cancel()`, the delegate's callbacks) keeps the
        instruction programs of Model/Timeout.v; those are leaves here.

   Reading conventions (DESIGN.md section 3).  A `with self._jobs_lock:` block without inner visible
   operation is ONE event (EXSec; instruction IXAppend); one with inner visible operations (the job
   thread's: the clock read and one done() per job of _partition_jobs) is EXAcq ... EXRel, where the
   release instruction IXRelP of Timeout.v stands for "`_jobs = pending`; leave X": [inst] only accepts
   the publication IMMEDIATELY before the release.  `wait_time = None` is the instruction IWaitCalc; the
   clock read of `max(earliest - monotonic(), 0)` is the event that consumes it; when `pending` is empty
   no clock is read and IWaitCalc is read as IWWait None (Timeout.wait_view).

   Definitions only. *)
From Coq Require Import ZArith List Bool Arith.
From RecordUpdate Require Import RecordSet.
From ME Require Import Base.Machine Base.Fut Base.GenPrelude Gen.TimeoutGen Model.Timeout.
Import ListNotations RecordSetNotations.

(* ---- syntax ----------------------------------------------------------------------------------- *)
Inductive lockname := LG | LX.       (* ShutdownHelper._lock ; TimeoutExecutor._jobs_lock *)

Inductive cond :=
| CGateFlag                    (* self.is_shutdown                      [ShutdownHelper] *)
| CRet                         (* truthiness of the value of the inlined call just made *)
| CExecutor                    (* executor          (the dereferenced weak reference) *)
| CShutdown                    (* executor._shutdown.is_shutdown or is_shutdown() *)
| CPending                     (* pending           (truthiness of the list) *)
| CCancelResult                (* cancel_result *)
| CWaitArg                     (* wait              (parameter of shutdown) *)
| CNot (c : cond).

Inductive rexpr :=
| ENone | EBool (b : bool)
| EFuture                      (* the local `future` *)
| ELast                        (* the value of the inlined call just made *)
| ENoEvent                     (* (None, None) *)
| EEventWait.                  (* (executor._jobs_write, wait_time) *)

Inductive stmt :=
| SWith (l : lockname) (body : list stmt)
| SIf (c : cond) (th el : list stmt)
| SRaise
| SReturn (v : rexpr)
| SBreak
| SCall (body : list stmt)             (* an inlined call *)
| SWhileTrue (body : list stmt)
| SForOverdue (body : list stmt)       (* for job in overdue: body *)
| SSetGateFlag                         (* self.is_shutdown = True *)
| SDelegateSubmit                      (* delegate_future = self._delegate.submit(fn, *args, **kwargs) *)
| SNewMapFuture                        (* future = MapFuture(delegate_future) *)
| SAddDoneCbWake                       (* future.add_done_callback(self._on_future_done) *)
| SMkJob                               (* job = Job(future, delegate_future, monotonic() + timeout) *)
| SJobsAppend                          (* self._jobs.append(job) *)
| SEvSet                               (* self._jobs_write.set() *)
| SPartition                           (* (pending, overdue) = executor._partition_jobs() : kernel Gen/TimeoutGen.v *)
| SPublishPending                      (* executor._jobs = pending *)
| SFutureCancel                        (* cancel_result = job.future.cancel() *)
| SWaitNone                            (* wait_time = None *)
| SEarliest                            (* earliest = min([job.deadline for job in pending]) : silent *)
| SWaitClock                           (* wait_time = max(earliest - monotonic(), 0) *)
| SEvWait                              (* event.wait(wait_time) *)
| SEvClear                             (* event.clear() *)
| SDelegateShutdown                    (* self._delegate.shutdown(wait, **_kwargs) *)
| SJoinJobThread.                      (* self._job_thread.join(MAX_TIMEOUT) *)

(* ---- visible operations along a path ---------------------------------------------------------- *)
Inductive sop :=
| OpAcqG | OpRelG | OpRet | OpRaise | OpBreak | OpSetGateFlag
| OpDSubmit | OpNewMap | OpAddCbWake | OpClockJob | OpXSecAppend | OpAppendBare | OpEvSet
| OpXAcq | OpXRel | OpClockP | OpPDoneAll | OpPublish | OpCancelAll | OpFutureCancel
| OpWaitNone | OpWaitClock | OpWait | OpClear | OpDShutdown | OpJoin.

Definition sop_eqb (a b : sop) : bool :=
  match a, b with
  | OpAcqG, OpAcqG | OpRelG, OpRelG | OpRet, OpRet | OpRaise, OpRaise | OpBreak, OpBreak
  | OpSetGateFlag, OpSetGateFlag | OpDSubmit, OpDSubmit | OpNewMap, OpNewMap | OpAddCbWake, OpAddCbWake
  | OpClockJob, OpClockJob | OpXSecAppend, OpXSecAppend | OpAppendBare, OpAppendBare | OpEvSet, OpEvSet
  | OpXAcq, OpXAcq | OpXRel, OpXRel | OpClockP, OpClockP | OpPDoneAll, OpPDoneAll | OpPublish, OpPublish
  | OpCancelAll, OpCancelAll | OpFutureCancel, OpFutureCancel | OpWaitNone, OpWaitNone
  | OpWaitClock, OpWaitClock | OpWait, OpWait | OpClear, OpClear | OpDShutdown, OpDShutdown | OpJoin, OpJoin => true
  | _, _ => false
  end.

Inductive item :=
| IS (s : stmt)
| KRel (l : lockname)          (* end of a with-block: release *)
| KEndCall                     (* end of an inlined call that falls off its end: value None *)
| KRet (raised : bool).        (* bottom of the API call: return / raise to the caller *)

Fixpoint unwind_ret (k : list item) : list item :=
  match k with
  | [] => []
  | KRel l :: r => KRel l :: unwind_ret r
  | KEndCall :: r => r
  | KRet _ :: _ => [KRet false]
  | IS _ :: r => unwind_ret r
  end.
Fixpoint unwind_raise (k : list item) : list item :=
  match k with
  | [] => []
  | KRel l :: r => KRel l :: unwind_raise r
  | KRet _ :: _ => [KRet true]
  | _ :: r => unwind_raise r
  end.

Fixpoint evalc (o : cond -> bool) (ret : bool) (c : cond) : bool :=
  match c with
  | CRet => ret
  | CNot c => negb (evalc o ret c)
  | _ => o c
  end.

Definition truthy (v : rexpr) (ret : bool) : bool :=
  match v with
  | ENone | ENoEvent => false
  | EBool b => b
  | EFuture | EEventWait => true
  | ELast => ret
  end.

Definition leaf_op (s : stmt) : list sop :=
  match s with
  | SSetGateFlag => [OpSetGateFlag]
  | SDelegateSubmit => [OpDSubmit]
  | SNewMapFuture => [OpNewMap]
  | SAddDoneCbWake => [OpAddCbWake]
  | SMkJob => [OpClockJob]
  | SJobsAppend => [OpAppendBare]          (* outside `with self._jobs_lock: self._jobs.append(job)`: no counterpart *)
  | SEvSet => [OpEvSet]
  | SPartition => [OpClockP; OpPDoneAll]   (* now = monotonic(); one job.future.done() per job, in order *)
  | SPublishPending => [OpPublish]
  | SFutureCancel => [OpFutureCancel]
  | SWaitNone => [OpWaitNone]
  | SEarliest => []
  | SWaitClock => [OpWaitClock]
  | SEvWait => [OpWait]
  | SEvClear => [OpClear]
  | SDelegateShutdown => [OpDShutdown]
  | SJoinJobThread => [OpJoin]
  | _ => []
  end.

Definition ocons (x : list sop) (r : option (list sop)) : option (list sop) :=
  match r with Some l => Some (x ++ l) | None => None end.

(* the visible operations along the path chosen by the oracle [o]; a `while True:` contributes ONE
   iteration (the path ends when the body falls off its end, at OpBreak, or with the API return) *)
Fixpoint flatk (fuel : nat) (o : cond -> bool) (ret : bool) (k : list item) : option (list sop) :=
  match fuel with
  | 0 => None
  | S n =>
      match k with
      | [] => Some []
      | KRet raised :: _ => Some [if raised then OpRaise else OpRet]
      | KRel LG :: r => ocons [OpRelG] (flatk n o ret r)
      | KRel LX :: r => ocons [OpXRel] (flatk n o ret r)
      | KEndCall :: r => flatk n o false r
      | IS (SWith LG body) :: r => ocons [OpAcqG] (flatk n o ret (map IS body ++ KRel LG :: r))
      | IS (SWith LX body) :: r =>
          match body with
          | [SJobsAppend] => ocons [OpXSecAppend] (flatk n o ret r)
          | _ => ocons [OpXAcq] (flatk n o ret (map IS body ++ KRel LX :: r))
          end
      | IS (SIf c th el) :: r => flatk n o ret (map IS (if evalc o ret c then th else el) ++ r)
      | IS SRaise :: r => flatk n o ret (unwind_raise r)
      | IS (SReturn v) :: r => flatk n o (truthy v ret) (unwind_ret r)
      | IS SBreak :: _ => Some [OpBreak]
      | IS (SCall body) :: r => flatk n o ret (map IS body ++ KEndCall :: r)
      | IS (SWhileTrue body) :: _ => flatk n o ret (map IS body)
      | IS (SForOverdue body) :: r =>
          match flatk n o ret (map IS body) with
          | Some [OpFutureCancel] => ocons [OpCancelAll] (flatk n o ret r)
          | _ => None
          end
      | IS s :: r => ocons (leaf_op s) (flatk n o ret r)
      end
  end.

Definition FUEL := 64.
Definition flat_api (o : cond -> bool) (p : list stmt) : option (list sop) := flatk FUEL o false (map IS p ++ [KRet false]).
Definition flat_body (o : cond -> bool) (p : list stmt) : option (list sop) := flatk FUEL o false (map IS p).

(* ---- from a path to the instructions of Model/Timeout.v ----------------------------------------- *)
Record data := mkD {
  d_tmo : Z;                 (* the timeout of this submission *)
  d_j : nat; d_d : nat;      (* ids of the new MapFuture and of the delegate future *)
  d_w : Z;                   (* clock reading of `monotonic() + timeout` *)
  d_jobs : list tjob;        (* executor._jobs when _partition_jobs runs *)
  d_ovd : list tjob;         (* overdue *)
  d_tau : option Z           (* the computed wait_time *)
}.
Definition d0 : data := mkD 0 0 0 0 [] [] None.

Definition inst1 (d : data) (x : sop) : option (list instr) :=
  match x with
  | OpAcqG => Some [IAcqG]
  | OpRelG => Some [IRelG]
  | OpRet => Some [IRet]
  | OpDSubmit => Some [IDSubmit (d_tmo d)]
  | OpNewMap => Some [IAcqMSet (d_j d) (Some (d_d d)); IRelM (d_j d); IAddCbD (d_d d) (d_j d)]   (* MapFuture.__init__ *)
  | OpAddCbWake => Some [IAcqM (d_j d); IDoneA (d_j d) CbWake]                                   (* _Future.add_done_callback *)
  | OpClockJob => Some [IClockD (d_j d) (d_tmo d)]
  | OpXSecAppend => Some [IXAppend (mkjob (d_j d) (deadline_of (d_w d) (d_tmo d)))]
  | OpEvSet => Some [IEvSet]
  | OpXAcq => Some []                      (* EXAcq is accepted on the job thread's empty program *)
  | OpClockP => Some [IClockP]
  | OpPDoneAll => Some (map (fun job => IPDone (tj_id job)) (d_jobs d))
  | OpCancelAll => Some (map ITCancel (d_ovd d))
  | OpWaitNone => Some [IWaitCalc None]
  | OpWaitClock => Some []                 (* the event that consumes IWaitCalc *)
  | OpWait => Some [IWWait (d_tau d)]
  | OpClear => Some [IWClear]
  | _ => None                              (* no counterpart in Model/Timeout.v *)
  end.

Definition oapp (x : list instr) (r : option (list instr)) : option (list instr) :=
  match r with Some l => Some (x ++ l) | None => None end.

Fixpoint inst (d : data) (l : list sop) : option (list instr) :=
  match l with
  | [] => Some []
  | OpPublish :: OpXRel :: r => oapp [IXRelP] (inst d r)       (* `_jobs = pending` immediately before leaving X *)
  | OpWaitNone :: OpWait :: r => oapp [IWaitCalc None] (inst d r)   (* pending empty: IWaitCalc is read as IWWait None *)
  | x :: r => match inst1 d x with Some i => oapp i (inst d r) | None => None end
  end.

(* ---- segments ----------------------------------------------------------------------------------- *)
(* operations whose event binds data the rest of the method needs (or, for the X-sections and the wait,
   at which Timeout.step loads the next part of the program) *)
Definition is_barrier (x : sop) : bool :=
  match x with
  | OpDSubmit | OpClockJob | OpXSecAppend | OpClockP | OpXRel | OpWaitNone | OpWait => true
  | _ => false
  end.

Fixpoint upto_barrier (l : list sop) : list sop :=
  match l with
  | [] => []
  | x :: r => if is_barrier x then [x] else x :: upto_barrier r
  end.
Fixpoint after (b : sop) (l : list sop) : list sop :=
  match l with
  | [] => []
  | x :: r => if sop_eqb x b then r else after b r
  end.
Definition first_seg (p : option (list sop)) : list sop := match p with Some l => upto_barrier l | None => [OpRaise] end.
Definition seg_after (b : sop) (p : option (list sop)) : list sop :=
  match p with Some l => upto_barrier (after b l) | None => [OpRaise] end.

(* the oracle of the modelled situation: executor alive, not shut down; `pending` as given *)
Definition o_model (pend : bool) (c : cond) : bool :=
  match c with
  | CExecutor => true
  | CPending => pend
  | CCancelResult => true
  | _ => false
  end.

(* ---- the machine run on the generated methods ---------------------------------------------------- *)
Section Sem.
  Variables submit_timeout_m loop_m : list stmt.

  Definition path_submit : option (list sop) := flat_api (o_model true) submit_timeout_m.
  Definition path_iter (pend : bool) : option (list sop) := flat_body (o_model pend) loop_m.

  (* replace the head instruction of thread t by the instantiated segment *)
  Definition load (s : st) (t : nat) (d : data) (seg : list sop) (rest : list instr) : option st :=
    match inst d seg with Some p => Some (set_prog s t (p ++ rest)) | None => None end.

  Definition gstep0 (s : st) (e : ev) : option st :=
    let ts := clock s in
    match e with
    | ECallSubmit t tmo =>
        match thr s t with
        | [] => if Nat.eqb t jt then None else
                load s t (mkD tmo 0 0 0 [] [] None) (first_seg path_submit) []
        | _ => None
        end
    | EDSubmit t d inline =>
        match thr s t with
        | IDSubmit tmo :: rest =>
            if negb (Nat.eqb d (ndel s)) then None else
            let j := nfut s in
            let s1 := s <| nfut := S j |> <| ndel := S d |>
                        <| ds := upd (ds s) d (if issome inline then Finished else Pending) |>
                        <| dout := upd (dout s) d inline |> <| dcb := upd (dcb s) d None |> in
            let s2 := match inline with Some o => log s1 (HEnvDone d o ts) | None => s1 end in
            match load s2 t (mkD tmo j d 0 [] [] None) (seg_after OpDSubmit path_submit) rest with
            | Some s3 => Some (log s3 (HNew j d tmo ts))
            | None => None
            end
        | _ => None
        end
    | EXSec t =>
        if issome (xown s) then None else
        match thr s t with
        | IXAppend job :: rest =>
            match load (s <| jobs := jobs s ++ [job] |>) t d0 (seg_after OpXSecAppend path_submit) rest with
            | Some s3 => Some (log s3 (HSub (tj_id job) (tj_deadline job) ts))
            | None => None
            end
        | _ => None
        end
    | EXAcq t =>
        if issome (xown s) || negb (Nat.eqb t jt) then None else
        match thr s t with
        | [] => load (s <| xown := Some t |>) t d0 (first_seg (path_iter true)) []
        | _ => None
        end
    | EXRel t =>
        match thr s t, xown s with
        | IXRelP :: rest, Some t' =>
            if negb (Nat.eqb t t') || negb (Nat.eqb t jt) then None else
            let '(pending, overdue) := partition s in
            match load (s <| xown := None |> <| jobs := pending |>) t (mkD 0 0 0 0 [] overdue None)
                       (seg_after OpXRel (path_iter true)) rest with
            | Some s3 => Some (log s3 (HPart (pnow s) pending overdue))
            | None => None
            end
        | _, _ => None
        end
    | EClock t w =>
        if negb (Z.eqb w ts) then None else
        match thr s t with
        | IClockP :: rest =>
            if negb (Nat.eqb t jt) then None else
            load (s <| pnow := w |>) t (mkD 0 0 0 0 (jobs s) [] None) (seg_after OpClockP (path_iter true)) rest
        | IClockD j tmo :: rest => load s t (mkD tmo j 0 w [] [] None) (seg_after OpClockJob path_submit) rest
        | IWaitCalc _ :: rest =>
            if isnil (jobs s) || negb (Nat.eqb t jt) then None else
            load (s <| wclk := w |>) t (mkD 0 0 0 0 [] [] (wait_time (jobs s) w)) (seg_after OpWaitClock (path_iter true)) rest
        | _ => None
        end
    | _ => step0 s e
    end.

  Definition gstep (s : st) (te : Z * ev) : option st :=
    match tick s (fst te) with Some s1 => gstep0 s1 (snd te) | None => None end.

  Definition gaccept (ls : list (list Z)) : list Z :=
    match decode_all ls with
    | None => [(-2)%Z]
    | Some es => match first_reject gstep init es 0 with None => [(-1)%Z] | Some i => [Z.of_nat i] end
    end.
End Sem.
