(* Sequential evaluation of one submission through a stack of with_* layers (outermost first) over a
   sync / thread-pool base: the reference semantics of C01 (and of C19's "same outcomes").
   Values are numbers; a map / flat_map / poll layer with tag t sends v to v*16+t or raises the
   exception 2000+t; the callable's k-th invocation answers script k.  Pure; proofs at the end. *)
From Coq Require Import List ZArith Bool Arith Lia.
Import ListNotations.

Inductive outcome := Ok (v : Z) | Err (e : Z).

Inductive layer :=
| LMap (t : Z) (raises : bool)       (* with_map(fn) *)
| LFlatMap (t : Z) (raises : bool)   (* with_flat_map(fn): fn returns f_return(..) *)
| LPoll (t : Z)                      (* with_poll: the poll function yields a tagged result at once *)
| LMapE (t : Z)                      (* with_map(fn, error_fn): fn tags; error_fn swallows the failure and returns None (= -1) *)
| LRetry (max_attempts : nat)          (* with_retry(max_attempts=..), ExceptionRetryPolicy over Exception *)
| LIdent.                              (* throttle, timeout (not expiring), cancel_on_shutdown *)

Definition tagv (t v : Z) : Z := (v * 16 + t)%Z.
Definition apply_fn (t : Z) (raises : bool) (o : outcome) : outcome * nat :=
  match o with
  | Err e => (Err e, 0)
  | Ok v => (if raises then Err (2000 + t)%Z else Ok (tagv t v), 1)
  end.

Definition none_val : Z := (-1)%Z.
Definition apply_fn_e (t : Z) (o : outcome) : outcome * nat :=
  match o with
  | Err _ => (Ok none_val, 1)
  | Ok v => (Ok (tagv t v), 1)
  end.

(* state: number of callable invocations so far; result: outcome, invocations, user-function calls *)
Fixpoint retry_loop (eval_below : nat -> outcome * nat * nat) (fuel attempt maxa k : nat) (calls : nat)
  : outcome * nat * nat :=
  let '(o, k', c) := eval_below k in
  match fuel with
  | O => (o, k', calls + c)
  | S f => match o with
           | Err _ => if attempt <? maxa then retry_loop eval_below f (S attempt) maxa k' (calls + c) else (o, k', calls + c)
           | Ok _ => (o, k', calls + c)
           end
  end.

Fixpoint eval (ls : list layer) (script : nat -> outcome) (k : nat) : outcome * nat * nat :=
  match ls with
  | [] => (script k, S k, 0)
  | LMap t r :: below => let '(o, k', c) := eval below script k in let '(o', n) := apply_fn t r o in (o', k', c + n)
  | LFlatMap t r :: below => let '(o, k', c) := eval below script k in let '(o', n) := apply_fn t r o in (o', k', c + n)
  | LPoll t :: below => let '(o, k', c) := eval below script k in let '(o', n) := apply_fn t false o in (o', k', c + n)
  | LMapE t :: below => let '(o, k', c) := eval below script k in let '(o', n) := apply_fn_e t o in (o', k', c + n)
  | LRetry m :: below => retry_loop (eval below script) m 1 m k 0
  | LIdent :: below => eval below script k
  end.

Definition seq_eval (ls : list layer) (script : nat -> outcome) : outcome * nat * nat := eval ls script 0.

(* ---- laws ---------------------------------------------------------------------------------------- *)
(* identity layers are transparent *)
Lemma eval_ident ls script k : eval (LIdent :: ls) script k = eval ls script k.
Proof. reflexivity. Qed.

(* without a retry layer the callable is invoked exactly once, with nothing swapped: the outcome is
   a function of that single invocation's answer *)
Fixpoint no_retry (ls : list layer) : bool :=
  match ls with [] => true | LRetry _ :: _ => false | _ :: r => no_retry r end.
Lemma eval_no_retry_once ls script k : no_retry ls = true -> snd (fst (eval ls script k)) = S k.
Proof.
  induction ls as [|l r IH]; intros H; simpl; [reflexivity|].
  destruct l; simpl in H; try discriminate;
    try (specialize (IH H); destruct (eval r script k) as [[o k'] c]; simpl in *;
         match goal with |- context [apply_fn ?t ?b ?o] => destruct (apply_fn t b o) | |- context [apply_fn_e ?t ?o] => destruct (apply_fn_e t o) end; simpl; exact IH).
  exact (IH H).
Qed.

(* invocations are consecutive: evaluation consumes script positions k, k+1, ... without gaps *)
Lemma retry_loop_mono eb fuel : forall attempt maxa k calls,
  (forall k0, k0 < snd (fst (eb k0))) ->
  k < snd (fst (retry_loop eb fuel attempt maxa k calls)).
Proof.
  induction fuel as [|f IH]; intros attempt maxa k calls H; simpl.
  - specialize (H k). destruct (eb k) as [[o k'] c]. simpl in *. exact H.
  - pose proof (H k) as Hk. destruct (eb k) as [[o k'] c] eqn:E. simpl in Hk.
    destruct o; simpl; auto. destruct (attempt <? maxa); simpl; auto.
    specialize (IH (S attempt) maxa k' (calls + c) H). lia.
Qed.
Lemma eval_mono ls script : forall k, k < snd (fst (eval ls script k)).
Proof.
  induction ls as [|l r IH]; intros k; simpl; [lia|].
  destruct l; try (specialize (IH k); destruct (eval r script k) as [[o k'] c]; simpl in *;
    match goal with |- context [apply_fn ?t ?b ?o] => destruct (apply_fn t b o) | |- context [apply_fn_e ?t ?o] => destruct (apply_fn_e t o) end; simpl; exact IH).
  - apply retry_loop_mono. exact IH.
  - apply IH.
Qed.

(* a propagated exception is one that was raised: by some invocation of the callable, or by a
   map/flat_map function of the stack *)
Definition raised_by_stack (ls : list layer) (e : Z) : Prop :=
  exists t, e = (2000 + t)%Z /\ (In (LMap t true) ls \/ In (LFlatMap t true) ls).
Lemma retry_loop_err eb fuel : forall attempt maxa k calls e (P : Z -> Prop),
  (forall k0 e0, fst (fst (eb k0)) = Err e0 -> P e0) ->
  fst (fst (retry_loop eb fuel attempt maxa k calls)) = Err e -> P e.
Proof.
  induction fuel as [|f IH]; intros attempt maxa k calls e P H; simpl.
  - pose proof (H k) as Hk. destruct (eb k) as [[o k'] c]. simpl in *. intros E; eauto.
  - pose proof (H k) as Hk. destruct (eb k) as [[o k'] c] eqn:E. simpl in Hk.
    destruct o as [v|e0]; simpl; [discriminate|].
    destruct (attempt <? maxa); simpl; [apply IH; exact H|intros E1; apply Hk; exact E1].
Qed.
Theorem eval_exception_identity ls script : forall k e,
  fst (fst (eval ls script k)) = Err e -> (exists i, script i = Err e) \/ raised_by_stack ls e.
Proof.
  induction ls as [|l r IH]; intros k e; simpl.
  - intros H. left. exists k. exact H.
  - assert (W : forall e0, ((exists i, script i = Err e0) \/ raised_by_stack r e0) ->
                           (exists i, script i = Err e0) \/ raised_by_stack (l :: r) e0).
    { intros e0 [A|(t & Et & Hin)]; [left; exact A|right]. exists t. split; auto. destruct Hin; [left|right]; right; auto. }
    destruct l as [t b|t b|t|t|m|];
      try (specialize (IH k); destruct (eval r script k) as [[o k'] c]; simpl in *; destruct o as [v|e0]; simpl;
           [ try destruct b; simpl; intros H; try discriminate; inversion H; subst; right; exists t; split; auto; simpl; auto
           | intros H; try discriminate; inversion H; subst; apply W; apply IH; reflexivity ]).
    intros H. apply (retry_loop_err (eval r script) m 1 m k 0 e
                       (fun e0 => (exists i, script i = Err e0) \/ raised_by_stack (LRetry m :: r) e0)); auto.
    intros k0 e0 E0. apply W. eapply IH; eauto.
Qed.

(* ---- wire: [[layer codes...]; [script codes...]] -> [kind; value; invocations; fncalls] ----------- *)
Local Open Scope Z_scope.
Fixpoint layers_of (l : list Z) : list layer :=
  match l with
  | 0 :: t :: r :: rest => LMap t (Z.eqb r 1) :: layers_of rest
  | 1 :: t :: r :: rest => LFlatMap t (Z.eqb r 1) :: layers_of rest
  | 2 :: t :: _ :: rest => LPoll t :: layers_of rest
  | 3 :: m :: _ :: rest => LRetry (Z.to_nat m) :: layers_of rest
  | 4 :: _ :: _ :: rest => LIdent :: layers_of rest
  | 5 :: t :: _ :: rest => LMapE t :: layers_of rest
  | _ => []
  end.
Definition script_of (l : list Z) (k : nat) : outcome :=
  match nth k l (-1) with
  | Z.neg _ => Ok 1
  | z => if Z.eqb (z mod 2) 0 then Ok (z / 2) else Err (z / 2)
  end.
Definition run_line (ls : list (list Z)) : list Z :=
  match ls with
  | [lay; scr] =>
      let '(o, k, c) := seq_eval (layers_of lay) (script_of scr) in
      match o with
      | Ok v => [0; v; Z.of_nat k; Z.of_nat c]
      | Err e => [1; e; Z.of_nat k; Z.of_nat c]
      end
  | _ => [-99]
  end.
