(* Executor gauges / counters and future gauges / counters in lockstep (C20).

   A trace acceptor over what the real code does to the series
       exec_inprogress / exec_total                                (every executor class)
       future_inprogress / future_total / future_cancel / future_error   (metrics.track_future / record_done)
   as observed from outside (harness/p_c20e.py): the registry update itself, the executor INSTANCE in whose
   __init__ / shutdown() it happens, the answer of that instance's ShutdownHelper (the test-and-set under the
   gate lock), the entry and exit of every shutdown() call, the future a track_future / record_done call is
   about and that future's real outcome.

   Executor side, instance e, thread t:
     XIncTotal e / XIncProg e   the two increments of __init__ (either order: retry / throttle increment
                                INPROGRESS first, the other classes TOTAL first); each at most once
     XCall t e                  t enters e.shutdown(): only on an instance whose __init__ passed both lines
     XWin t e / XLose t e       the ShutdownHelper answers True (flag was clear: it is set) / False (flag set)
                                to the innermost open call of t, which must be on e and still unanswered
     XDec t e                   the gauge decrement: only by the winner, in its winning call, once
     XRet t e                   the innermost open call of t (on e) ends, by return or by exception: a loser
                                any time after its answer, the winner only after its decrement
     XObs e b                   an observation of the real object (made by the harness at final quiescence):
                                instance e exists and its ShutdownHelper.is_shutdown reads b; no state change
   What the acceptor checks is LOCAL to a call; what is PROVED from it (Proofs/ExecGauge_*.v) is GLOBAL: the
   gauge of an instance is 1 exactly while it is created and not shut down, plus the single decrement the
   winner still owes; never negative; the labelled series (instances share a (type, name) label) are sums.

   Future side, series (label) l, future f:
     FTotal l f ; FProg l f                     track_future: total += 1 then inprogress += 1 (fresh future)
     FDec l f ; [FCnt l f k] ; FEnd l f k       record_done as f's done-callback: inprogress -= 1; then
                                                cancel += 1 (k = KCancel) or error += 1 (k = KErr) or nothing;
                                                FEnd carries the REAL outcome k of f: the counter touched must
                                                be the one of that outcome.
     FObs f o                                   an observation of the real future at final quiescence: f is done
                                                with outcome k (o = Some k) - then its record_done has run and
                                                recorded k - or still pending (o = None) - then it is in progress;
                                                no state change
   Definitions only. *)
From Coq Require Import ZArith List Bool Arith.
From ME Require Import Base.Machine.
Import ListNotations.

(* ================================ executor side ===================================================== *)
(* phase of an open shutdown() call.  FPre ("decremented before the answer") is produced only by the
   ablated step (step_gen true _): the faithful machine never creates it. *)
Inductive fph := FCalled | FPre | FWon | FWonDec | FLost.

Record frame := mkF { ft : nat; fe : nat; fp : fph }.

Inductive xev :=
| XIncTotal (e : nat) | XIncProg (e : nat)
| XCall (t e : nat) | XWin (t e : nat) | XLose (t e : nat) | XDec (t e : nat) | XRet (t e : nat)
| XObs (e : nat) (b : bool).

Record xst := mkX {
  counted : nat -> bool;          (* EXEC_TOTAL incremented for this instance *)
  gauged : nat -> bool;           (* EXEC_INPROGRESS incremented for this instance *)
  flag : nat -> bool;             (* ShutdownHelper.is_shutdown *)
  pend : nat -> option nat;       (* the winner that still owes the decrement *)
  gauge : nat -> Z;               (* this instance's share of exec_inprogress *)
  total : nat -> Z;               (* this instance's share of exec_total *)
  wins : nat -> nat;              (* ghost: True answers given *)
  decs : nat -> nat;              (* ghost: decrements made *)
  open : list frame               (* open shutdown() calls of all threads, innermost first *)
}.

Definition xinit : xst :=
  mkX (fun _ => false) (fun _ => false) (fun _ => false) (fun _ => None) (fun _ => 0%Z) (fun _ => 0%Z)
      (fun _ => 0) (fun _ => 0) [].

Definition created (s : xst) (e : nat) : bool := counted s e && gauged s e.
(* not between the two metrics lines of __init__ *)
Definition settled (s : xst) (e : nat) : bool := Bool.eqb (counted s e) (gauged s e).
Definition in_use (s : xst) (e : nat) : bool := created s e && negb (flag s e).

Definition fph_eqb (a b : fph) : bool :=
  match a, b with
  | FCalled, FCalled | FPre, FPre | FWon, FWon | FWonDec, FWonDec | FLost, FLost => true
  | _, _ => false
  end.

(* the innermost open call of thread t *)
Fixpoint top (t : nat) (l : list frame) : option frame :=
  match l with
  | [] => None
  | f :: r => if Nat.eqb (ft f) t then Some f else top t r
  end.

Fixpoint set_top (t : nat) (p : fph) (l : list frame) : list frame :=
  match l with
  | [] => []
  | f :: r => if Nat.eqb (ft f) t then mkF (ft f) (fe f) p :: r else f :: set_top t p r
  end.

Fixpoint pop (t : nat) (l : list frame) : list frame :=
  match l with
  | [] => []
  | f :: r => if Nat.eqb (ft f) t then r else f :: pop t r
  end.

Definition top_is (t e : nat) (p : fph) (l : list frame) : bool :=
  match top t l with
  | Some f => Nat.eqb (fe f) e && fph_eqb (fp f) p
  | None => false
  end.

(* a shutdown() call on e is in progress *)
Definition busy (s : xst) (e : nat) : bool := existsb (fun f => Nat.eqb (fe f) e) (open s).

Definition is_some {A} (o : option A) : bool := match o with Some _ => true | None => false end.
Definition pend_is (s : xst) (e t : nat) : bool :=
  match pend s e with Some w => Nat.eqb w t | None => false end.

Definition with_open (s : xst) (l : list frame) : xst :=
  mkX (counted s) (gauged s) (flag s) (pend s) (gauge s) (total s) (wins s) (decs s) l.

(* decfirst: the decrement is placed before `if self._shutdown():` (every caller decrements, before the
   answer is known); skipdec: a winning call may end without its decrement (shutdown() raises / returns
   between the flag flip and the dec).  The faithful machine is step_gen false false. *)
Definition xstep_gen (decfirst skipdec : bool) (s : xst) (ev : xev) : option xst :=
  match ev with
  | XIncTotal e =>
      if counted s e then None
      else Some (mkX (upd (counted s) e true) (gauged s) (flag s) (pend s) (gauge s)
                     (upd (total s) e (total s e + 1)%Z) (wins s) (decs s) (open s))
  | XIncProg e =>
      if gauged s e then None
      else Some (mkX (counted s) (upd (gauged s) e true) (flag s) (pend s)
                     (upd (gauge s) e (gauge s e + 1)%Z) (total s) (wins s) (decs s) (open s))
  | XCall t e =>
      if created s e then Some (with_open s (mkF t e FCalled :: open s)) else None
  | XWin t e =>
      if (top_is t e FCalled (open s) || (decfirst && top_is t e FPre (open s))) && negb (flag s e) then
        if top_is t e FCalled (open s) then
          Some (mkX (counted s) (gauged s) (upd (flag s) e true) (upd (pend s) e (Some t)) (gauge s) (total s)
                    (upd (wins s) e (S (wins s e))) (decs s) (set_top t FWon (open s)))
        else
          Some (mkX (counted s) (gauged s) (upd (flag s) e true) (pend s) (gauge s) (total s)
                    (upd (wins s) e (S (wins s e))) (decs s) (set_top t FWonDec (open s)))
      else None
  | XLose t e =>
      if (top_is t e FCalled (open s) || (decfirst && top_is t e FPre (open s))) && flag s e then
        Some (with_open s (set_top t FLost (open s)))
      else None
  | XDec t e =>
      if top_is t e FWon (open s) && pend_is s e t then
        Some (mkX (counted s) (gauged s) (flag s) (upd (pend s) e None) (upd (gauge s) e (gauge s e - 1)%Z) (total s)
                  (wins s) (upd (decs s) e (S (decs s e))) (set_top t FWonDec (open s)))
      else if decfirst && top_is t e FCalled (open s) then
        Some (mkX (counted s) (gauged s) (flag s) (pend s) (upd (gauge s) e (gauge s e - 1)%Z) (total s)
                  (wins s) (upd (decs s) e (S (decs s e))) (set_top t FPre (open s)))
      else None
  | XRet t e =>
      if top_is t e FWonDec (open s) || top_is t e FLost (open s) || (skipdec && top_is t e FWon (open s)) then
        Some (with_open s (pop t (open s)))
      else None
  | XObs e b =>
      if created s e && Bool.eqb (flag s e) b then Some s else None
  end.

Definition xstep := xstep_gen false false.

(* ================================ future side ======================================================= *)
Inductive kind := KOk | KCancel | KErr.
Definition kind_eqb (a b : kind) : bool :=
  match a, b with KOk, KOk | KCancel, KCancel | KErr, KErr => true | _, _ => false end.

Inductive fstate :=
| SNone                            (* never seen by track_future *)
| STot (l : nat)                   (* total incremented, inprogress not yet *)
| STracked (l : nat)               (* in progress *)
| SRec (l : nat) (c : kind)        (* record_done running: decremented; c = the counter touched so far (KOk: none) *)
| SDone (l : nat) (k : kind).      (* recorded, real outcome k *)

Inductive fev :=
| FTotal (l f : nat) | FProg (l f : nat) | FDec (l f : nat) | FCnt (l f : nat) (k : kind) | FEnd (l f : nat) (k : kind)
| FObs (f : nat) (o : option kind).

Record fst := mkFs {
  fs : nat -> fstate;
  seen : list nat;                 (* ghost: every future track_future has been called on, newest first *)
  fprog : nat -> Z; ftot : nat -> Z; fcancel : nat -> Z; ferr : nat -> Z
}.

Definition finit : fst := mkFs (fun _ => SNone) [] (fun _ => 0%Z) (fun _ => 0%Z) (fun _ => 0%Z) (fun _ => 0%Z).

Definition fstep (s : fst) (ev : fev) : option fst :=
  match ev with
  | FTotal l f =>
      match fs s f with
      | SNone => Some (mkFs (upd (fs s) f (STot l)) (f :: seen s) (fprog s) (upd (ftot s) l (ftot s l + 1)%Z) (fcancel s) (ferr s))
      | _ => None
      end
  | FProg l f =>
      match fs s f with
      | STot l0 => if Nat.eqb l0 l then
                     Some (mkFs (upd (fs s) f (STracked l)) (seen s) (upd (fprog s) l (fprog s l + 1)%Z) (ftot s) (fcancel s) (ferr s))
                   else None
      | _ => None
      end
  | FDec l f =>
      match fs s f with
      | STracked l0 => if Nat.eqb l0 l then
                         Some (mkFs (upd (fs s) f (SRec l KOk)) (seen s) (upd (fprog s) l (fprog s l - 1)%Z) (ftot s) (fcancel s) (ferr s))
                       else None
      | _ => None
      end
  | FCnt l f k =>
      match fs s f with
      | SRec l0 KOk =>
          if Nat.eqb l0 l then
            match k with
            | KOk => None
            | KCancel => Some (mkFs (upd (fs s) f (SRec l KCancel)) (seen s) (fprog s) (ftot s) (upd (fcancel s) l (fcancel s l + 1)%Z) (ferr s))
            | KErr => Some (mkFs (upd (fs s) f (SRec l KErr)) (seen s) (fprog s) (ftot s) (fcancel s) (upd (ferr s) l (ferr s l + 1)%Z))
            end
          else None
      | _ => None
      end
  | FEnd l f k =>
      match fs s f with
      | SRec l0 c => if Nat.eqb l0 l && kind_eqb c k then
                       Some (mkFs (upd (fs s) f (SDone l k)) (seen s) (fprog s) (ftot s) (fcancel s) (ferr s))
                     else None
      | _ => None
      end
  | FObs f o =>
      match fs s f, o with
      | STracked _, None => Some s
      | SDone _ c, Some k => if kind_eqb c k then Some s else None
      | _, _ => None
      end
  end.

(* ================================ the product machine =============================================== *)
Inductive ev := EX (x : xev) | EF (f : fev).
Record st := mkSt { xs : xst; fu : fst }.
Definition init : st := mkSt xinit finit.

Definition step_gen (decfirst skipdec : bool) (s : st) (e : ev) : option st :=
  match e with
  | EX x => match xstep_gen decfirst skipdec (xs s) x with Some x' => Some (mkSt x' (fu s)) | None => None end
  | EF f => match fstep (fu s) f with Some f' => Some (mkSt (xs s) f') | None => None end
  end.
Definition step := step_gen false false.

(* ---- wire format ------------------------------------------------------------------------------- *)
Local Open Scope Z_scope.
Definition n (z : Z) : nat := Z.to_nat z.
Definition dkind (z : Z) : option kind :=
  match z with 0 => Some KOk | 1 => Some KCancel | 2 => Some KErr | _ => None end.
Definition decode (l : list Z) : option ev :=
  match l with
  | [0; e] => Some (EX (XIncTotal (n e)))
  | [1; e] => Some (EX (XIncProg (n e)))
  | [2; t; e] => Some (EX (XCall (n t) (n e)))
  | [3; t; e] => Some (EX (XWin (n t) (n e)))
  | [4; t; e] => Some (EX (XLose (n t) (n e)))
  | [5; t; e] => Some (EX (XDec (n t) (n e)))
  | [6; t; e] => Some (EX (XRet (n t) (n e)))
  | [7; e; 0] => Some (EX (XObs (n e) false))
  | [7; e; 1] => Some (EX (XObs (n e) true))
  | [10; l; f] => Some (EF (FTotal (n l) (n f)))
  | [11; l; f] => Some (EF (FProg (n l) (n f)))
  | [12; l; f] => Some (EF (FDec (n l) (n f)))
  | [13; l; f; k] => match dkind k with Some k' => Some (EF (FCnt (n l) (n f) k')) | None => None end
  | [14; l; f; k] => match dkind k with Some k' => Some (EF (FEnd (n l) (n f) k')) | None => None end
  | [15; f; 3] => Some (EF (FObs (n f) None))
  | [15; f; k] => match dkind k with Some k' => Some (EF (FObs (n f) (Some k'))) | None => None end
  | _ => None
  end.

Fixpoint decode_all (ls : list (list Z)) : option (list ev) :=
  match ls with
  | [] => Some []
  | l :: r => match decode l, decode_all r with Some e, Some es => Some (e :: es) | _, _ => None end
  end.

Definition accept (ls : list (list Z)) : list Z :=
  match decode_all ls with
  | None => [-2]
  | Some es => match first_reject step init es 0 with None => [-1] | Some i => [Z.of_nat i] end
  end.
