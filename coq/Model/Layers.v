(* Layered lock programs for C04: executors are STACKED (layer 0 on top delegates to layer 1, ... down to a
   base pool).  A thread's lock program is a tree: at a layer it acquires / releases LOCAL locks of that layer,
   calls DOWN into the next layer (delegate.submit / delegate.shutdown / delegate_future.cancel /
   delegate_future.add_done_callback; the locks of the calling layer stay held) or calls UP into the layer above
   (a done-callback of the layer above run by the completing thread).  Bodies of calls are themselves programs
   (call/return: a body gives back the lock context it was entered with).
   `flat` interprets a layered program as a program of Model/Locks.v over the global lock numbering
   glob K i k = i * K + k (K bounds the local lock numbers), which is lexicographic in (layer, local number).
   `wf_layers` is the layer-local side condition: each layer's own acquisitions respect that layer's local order
   w.r.t. the locks of THAT layer it holds (re-acquisition of a held lock exempt), releases are nested, bodies
   are balanced, and an upward call is made only while no lock of the calling layer is held.
   Definitions only; proofs in Proofs/Layers_*.v. *)
From Coq Require Import List Bool Arith Lia.
From ME Require Import Base.Machine Model.Locks.
Import ListNotations.

Inductive lp :=
| LAcq (k : nat)               (* acquire local lock k of the current layer *)
| LRel (k : nat)               (* release local lock k of the current layer *)
| LDown (body : list lp)       (* run body one layer further down; the current layer's locks stay held *)
| LUp (body : list lp).        (* run body one layer further up (a callback of the layer above) *)

(* global lock number of local lock k of layer i, for a bound K on local numbers *)
Definition glob (K i k : nat) : nat := i * K + k.

Fixpoint flat1 (K i : nat) (x : lp) : list op :=
  match x with
  | LAcq k => [Acq (glob K i k)]
  | LRel k => [Rel (glob K i k)]
  | LDown b => flat_map (flat1 K (S i)) b
  | LUp b => flat_map (flat1 K (pred i)) b
  end.
Definition flat (K i : nat) (p : list lp) : list op := flat_map (flat1 K i) p.

(* left fold that may fail *)
Section OFold.
  Context {A B : Type}.
  Variable f : A -> B -> option A.
  Fixpoint ofold (a : A) (l : list B) : option A :=
    match l with
    | [] => Some a
    | b :: r => match f a b with Some a' => ofold a' r | None => None end
    end.
End OFold.

Fixpoint list_eqb (a b : list nat) : bool :=
  match a, b with
  | [], [] => true
  | x :: a', y :: b' => Nat.eqb x y && list_eqb a' b'
  | _, _ => false
  end.

(* one local acquisition against the locks of the same layer that are held: bounded, and either a re-acquisition
   or strictly above every held lock of this layer *)
Definition acq_ok (K : nat) (cur : list nat) (k : nat) : bool :=
  Nat.ltb k K && (existsb (Nat.eqb k) cur || forallb (fun h => Nat.ltb h k) cur).

(* The checker.  `cur` = stack of local locks of the current layer the thread holds; `above` = the stacks of the
   layers above it, nearest first (so the current layer is number `length above`).  Layers below the current
   one hold nothing: that is the invariant the LUp rule maintains.  Result: the new `cur`, or None. *)
Fixpoint wf1 (K : nat) (above : list (list nat)) (cur : list nat) (x : lp) : option (list nat) :=
  match x with
  | LAcq k => if acq_ok K cur k then Some (k :: cur) else None
  | LRel k => match cur with
              | h :: r => if Nat.eqb h k then Some r else None
              | [] => None
              end
  | LDown b => match ofold (wf1 K (cur :: above)) [] b with
               | Some [] => Some cur                      (* the callee returns holding nothing of its own *)
               | _ => None
               end
  | LUp b => match cur, above with
             | [], a :: ab =>                             (* lock-free w.r.t. the calling layer; a layer above exists *)
                 match ofold (wf1 K ab) a b with
                 | Some a' => if list_eqb a' a then Some [] else None   (* the callback gives the context back *)
                 | None => None
                 end
             | _, _ => None
             end
  end.
Definition wfs (K : nat) (above : list (list nat)) (cur : list nat) (p : list lp) : option (list nat) :=
  ofold (wf1 K above) cur p.

(* a thread that starts at layer i0 holding nothing *)
Definition wf_layers (K i0 : nat) (p : list lp) : bool :=
  match wfs K (repeat [] i0) [] p with
  | Some [] => true
  | _ => false
  end.

(* a thread of the stack: its starting layer and its layered program *)
Record lthread := { l_start : nat; l_prog : list lp }.
Definition lflat (K : nat) (th : lthread) : list op := flat K (l_start th) (l_prog th).
Definition lwf (K : nat) (th : lthread) : bool := wf_layers K (l_start th) (l_prog th).
Definition idle : lthread := {| l_start := 0; l_prog := [] |}.

(* the held stack of Locks.ordered that corresponds to a checker context *)
Fixpoint gstack (K : nat) (cur : list nat) (above : list (list nat)) : list nat :=
  map (glob K (length above)) cur ++
  match above with
  | [] => []
  | a :: ab => gstack K a ab
  end.

(* `Locks.ordered` as a function that returns the held stack after the program (None = violation) *)
Fixpoint exec (held : list nat) (p : list op) : option (list nat) :=
  match p with
  | [] => Some held
  | Acq l :: r => if existsb (Nat.eqb l) held || forallb (fun h => Nat.ltb h l) held then exec (l :: held) r
                  else None
  | Rel l :: r => match held with
                  | h :: hs => if Nat.eqb h l then exec hs r else None
                  | [] => None
                  end
  end.

(* Locks.step with some locks NOT re-entrant (rl l = false): their owner blocks on them like anybody else.
   With rl = fun _ => true this is Locks.step. *)
Definition step_nr (rl : nat -> bool) (s : st) (t : nat) : option st :=
  match prog s t with
  | Acq l :: _ =>
      match owner s l with
      | Some u => if Nat.eqb u t && negb (rl l) then None else step s t
      | None => step s t
      end
  | _ => step s t
  end.

(* a thread runs alone for n steps *)
Definition solo (t n : nat) : list nat := repeat t n.

(* balanced: releases are nested and everything taken is given back -- NO order condition *)
Fixpoint balanced (held : list nat) (p : list op) : bool :=
  match p with
  | [] => match held with [] => true | _ => false end
  | Acq l :: r => balanced (l :: held) r
  | Rel l :: r => match held with
                  | h :: hs => Nat.eqb h l && balanced hs r
                  | [] => false
                  end
  end.

(* thread t0 runs p, nobody else runs anything *)
Definition only (t0 : nat) (p : list op) : nat -> list op := fun t => if Nat.eqb t t0 then p else [].

(* flattening with an arbitrary numbering of (layer, local lock); flat K = flatn (glob K) *)
Fixpoint flatn1 (num : nat -> nat -> nat) (i : nat) (x : lp) : list op :=
  match x with
  | LAcq k => [Acq (num i k)]
  | LRel k => [Rel (num i k)]
  | LDown b => flat_map (flatn1 num (S i)) b
  | LUp b => flat_map (flatn1 num (pred i)) b
  end.
Definition flatn (num : nat -> nat -> nat) (i : nat) (p : list lp) : list op := flat_map (flatn1 num i) p.

(* gates first: local lock 0 (the shutdown gate) of the layers 0 .. L-1 in layer order, then every other lock
   lexicographically.  The order for stacks over a SYNCHRONOUS executor, whose gate is held while the callable runs *)
Definition gate_first (L K i k : nat) : nat :=
  match k with
  | 0 => i
  | _ => L + i * K + k
  end.
