(* _Future (common.py) + MapFuture (map.py) + FlatMapFuture (flat_map.py) as a trace acceptor over
   visible operations: library futures j, each over environment-controlled delegate futures d
   (plain stdlib futures: completed, failed or cancelled by the environment at any time).
   Threads carry programs; callbacks run inline; M_j is a re-entrant lock (re-entrant acquisitions
   are silent).  User functions (map fn, error fn, done-callbacks) answer through the event.
   Definitions only. *)
From Coq Require Import ZArith List Bool Arith.
From RecordUpdate Require Import RecordSet.
From ME Require Import Base.Machine Base.Fut Base.GenPrelude.
Import ListNotations RecordSetNotations.

Inductive outcome := Ok (v : nat) | Err (e : nat).
Definition type_error : nat := 999.      (* TypeError raised by FlatMapFuture._on_mapped *)
Definition none_value : nat := 998.

Inductive kind := KMap | KFlat.

(* what a user function call answered *)
Inductive answer :=
| ARet (v : nat)          (* returned a plain value *)
| ARaise (e : nat)        (* raised a new exception *)
| ARaiseSame              (* error_fn re-raised the very exception it was given *)
| ARetFut (d : nat).      (* returned a future (for flat_map) *)

Inductive mapped := MVal (v : nat) | MFut (d : nat).

Inductive instr :=
| IAcqM (j : nat)
| IAcqMSet (j : nat) (x : option nat) (flat : bool)   (* _set_delegate: with M: self._delegate = x; flat: FlatMapFuture just flattened *)
| IRelM (j : nat)
| IRelMCbs (j : nat)                     (* leave M, then _me_invoke_callbacks *)
| IAddCbE (d j : nat)                    (* delegate.add_done_callback(self._delegate_resolved) *)
| IRet
| IRetB (b : bool)
| IRetRaise                              (* the API call raises to its caller *)
| ICancelled (j : nat)
| IDoneC (j : nat)
| IDCancel (j d : nat)                   (* self._delegate.cancel() *)
| IFCancel (j : nat)
| IFSrnc (j : nat)
| IDoneA (j c : nat)
| IUserCb (j c : nat) (direct : bool)    (* a done-callback runs; direct = called from add_done_callback on a done future *)
| IDCancelledQ (j d : nat)               (* _delegate_resolved: delegate.cancelled() *)
| IUserFn (j d : nat)
| IUserEfn (j d : nat)
| IDoneQ (j : nat) (cont : option mapped)   (* `if self.done(): return`; otherwise _on_mapped(cont) *)
| IFSetRes (j : nat) (v : nat)
| IFSetExc (j : nat) (e : nat)
| ICatch | IThrow | IDead.

Inductive hev :=
| HNew (j d : nat)
| HFn (j d : nat) (a : answer)
| HEfn (j d : nat) (a : answer)
| HSet (j : nat) (o : outcome)
| HSetLost (j : nat)                     (* a tolerated InvalidStateError: the future was already done *)
| HCancelled (j : nat)
| HCb (j c : nat)
| HCancelCall (j : nat)
| HCancelRet (j : nat) (b : bool)
| HDCancel (j d : nat) (b : bool)        (* cancel forwarded to the delegate, its answer *)
| HEnvDone (d : nat) (o : outcome)
| HEnvCancel (d : nat).

Record st := mkSt {
  nfut : nat;
  ms : nat -> fstate; mout : nat -> option outcome;
  mcbs : nat -> list nat;             (* _me_done_callbacks (user callback ids) *)
  mreg : nat -> list nat;             (* ghost: every callback id ever passed to add_done_callback(j) *)
  mdel : nat -> option nat;           (* MapFuture._delegate *)
  mkind : nat -> kind; mflat : nat -> bool; mfn : nat -> bool; mefn : nat -> bool;
  mown : nat -> option (nat * nat);   (* owner and depth of M_j *)
  es : nat -> fstate; eout : nat -> option outcome;
  ecbs : nat -> list nat;             (* lib futures whose _delegate_resolved is registered on d *)
  thr : nat -> list instr;
  cancelling : nat -> option nat;
  hist : list hev
}.
#[export] Instance eta_st : Settable _ := settable! mkSt
  <nfut; ms; mout; mcbs; mreg; mdel; mkind; mflat; mfn; mefn; mown; es; eout; ecbs; thr; cancelling; hist>.

Definition init : st :=
  mkSt 0 (fun _ => Pending) (fun _ => None) (fun _ => []) (fun _ => []) (fun _ => None) (fun _ => KMap) (fun _ => false)
       (fun _ => false) (fun _ => false) (fun _ => None) (fun _ => Pending) (fun _ => None) (fun _ => [])
       (fun _ => []) (fun _ => None) [].

Definition log (s : st) (h : hev) : st := s <| hist := h :: hist s |>.

(* silent steps at the head of thread t's program: try/except bookkeeping and re-entrant lock ops *)
Fixpoint settle (fuel : nat) (throwing : bool) (s : st) (t : nat) (p : list instr) : st * list instr :=
  match fuel with
  | O => (s, p)
  | S f =>
      match p with
      | [] => (s, if throwing then [IDead] else [])
      | ICatch :: r => settle f false s t r
      | IThrow :: r => settle f true s t r
      | i :: r =>
          if throwing then settle f true s t r else
          match i with
          | IAcqM j =>
              match mown s j with
              | Some (o, k) => if Nat.eqb o t then settle f false (s <| mown := upd (mown s) j (Some (o, S k)) |>) t r else (s, p)
              | None => (s, p)
              end
          | IAcqMSet j x fl =>
              match mown s j with
              | Some (o, k) => if Nat.eqb o t then settle f false (s <| mown := upd (mown s) j (Some (o, S k)) |> <| mdel := upd (mdel s) j x |>
                                                                     <| mflat := upd (mflat s) j (fl || mflat s j) |>) t r else (s, p)
              | None => (s, p)
              end
          | IRelM j =>
              match mown s j with
              | Some (o, S (S k)) => if Nat.eqb o t then settle f false (s <| mown := upd (mown s) j (Some (o, S k)) |>) t r else (s, p)
              | _ => (s, p)
              end
          | IRelMCbs j =>
              match mown s j with
              | Some (o, S (S k)) =>
                  if Nat.eqb o t then
                    settle f false (s <| mown := upd (mown s) j (Some (o, S k)) |> <| mcbs := upd (mcbs s) j [] |>) t
                           (map (fun c => IUserCb j c false) (mcbs s j) ++ r)
                  else (s, p)
              | _ => (s, p)
              end
          | _ => (s, p)
          end
      end
  end.

Definition set_prog (s : st) (t : nat) (p : list instr) : st :=
  let '(s1, p1) := settle (S (length p) + 8) false s t p in s1 <| thr := upd (thr s1) t p1 |>.

Definition oc_of (s : st) (d : nat) : outcome := match eout s d with Some o => o | None => Ok none_value end.

(* RetFuture.set_result via try_set_result / set_exception via copy_exception (both tolerant) *)
Definition setres_prog (j v : nat) : list instr := [IAcqM j; IFSetRes j v; IRelMCbs j].
Definition setexc_prog (j e : nat) : list instr := [IAcqM j; IRelM j; IAcqM j; IFSetExc j e; IRelMCbs j].

Definition on_mapped (s : st) (j : nat) (x : mapped) : list instr :=
  match mkind s j, mflat s j, x with
  | KFlat, false, MFut d => [IAcqMSet j (Some d) true; IRelM j; IAddCbE d j]
  | KFlat, false, MVal _ => setexc_prog j type_error
  | _, _, MVal v => setres_prog j v
  | _, _, MFut d => setres_prog j (1000 + d)      (* a future object as a plain value *)
  end.

Definition resolved_prog (j d : nat) : list instr := [IAcqMSet j None false; IRelM j; IDCancelledQ j d; ICatch].

Inductive ev :=
| ECallNew (t j : nat) (k : kind) (hasfn hasefn : bool) (d : nat)
| ECallCancel (t j : nat)
| ECallAddCb (t j c : nat)
| ERet (t : nat) (code : nat)               (* 0 normal, 1 False, 2 True, 9 raised *)
| EAcqM (t j : nat) | ERelM (t j : nat)
| EFM (t : nat) (op : nat) (j : nat) (pre : fstate)    (* stdlib method on lib future j: 0 cancelled 1 done 2 cancel 3 srnc 4 set_result 6 set_exception *)
| EFE (t : nat) (op : nat) (d : nat) (pre : fstate)    (* on delegate d by library code: 0 cancelled 2 cancel 5 add_done_callback *)
| EUserFn (t : nat) (a : answer)
| EUserEfn (t : nat) (a : answer)
| EUserCb (t j c : nat) (raises : bool)
| EEnvRun (t d : nat) (pre : fstate)
| EEnvFinish (t d : nat) (pre : fstate) (o : outcome)
| EEnvCancel (t d : nat) (pre : fstate)
| EDied (t : nat).

Definition fires (s : st) (d : nat) (rest : list instr) : list instr :=
  flat_map (fun j => resolved_prog j d) (ecbs s d) ++ rest.

Definition step (s : st) (e : ev) : option st :=
  match e with
  | ECallNew t j k hasfn hasefn d =>
      match thr s t with
      | [] => if negb (Nat.eqb j (nfut s)) then None else
              Some (log (set_prog (s <| nfut := S j |> <| ms := upd (ms s) j Pending |> <| mout := upd (mout s) j None |>
                                     <| mcbs := upd (mcbs s) j [] |> <| mreg := upd (mreg s) j [] |> <| mdel := upd (mdel s) j None |>
                                     <| mkind := upd (mkind s) j k |> <| mflat := upd (mflat s) j false |>
                                     <| mfn := upd (mfn s) j hasfn |> <| mefn := upd (mefn s) j hasefn |>
                                     <| mown := upd (mown s) j None |>)
                                  t [IAcqMSet j (Some d) false; IRelM j; IAddCbE d j; IRet]) (HNew j d))
      | _ => None
      end
  | ECallCancel t j =>
      match thr s t with
      | [] => if negb (j <? nfut s) then None else
              Some (log (set_prog (s <| cancelling := upd (cancelling s) t (Some j) |>) t [IAcqM j; ICancelled j]) (HCancelCall j))
      | _ => None
      end
  | ECallAddCb t j c =>
      match thr s t with
      | [] => if negb (j <? nfut s) || existsb (Nat.eqb c) (mreg s j) then None
              else Some (set_prog (s <| mreg := upd (mreg s) j (c :: mreg s j) |>) t [IAcqM j; IDoneA j c])
      | _ => None
      end
  | ERet t code =>
      match thr s t with
      | IRet :: rest => if Nat.eqb code 0 then Some (set_prog s t rest) else None
      | IRetRaise :: rest => if Nat.eqb code 9 then Some (set_prog s t rest) else None
      | IRetB b :: rest =>
          if Nat.eqb code (if b then 2 else 1) then
            match cancelling s t with
            | Some j => Some (log (set_prog (s <| cancelling := upd (cancelling s) t None |>) t rest) (HCancelRet j b))
            | None => None
            end
          else None
      | _ => None
      end
  | EAcqM t j =>
      match thr s t, mown s j with
      | IAcqM j' :: rest, None =>
          if Nat.eqb j j' then Some (set_prog (s <| mown := upd (mown s) j (Some (t, 1)) |>) t rest) else None
      | IAcqMSet j' x fl :: rest, None =>
          if Nat.eqb j j' then Some (set_prog (s <| mown := upd (mown s) j (Some (t, 1)) |> <| mdel := upd (mdel s) j x |>
                                                <| mflat := upd (mflat s) j (fl || mflat s j) |>) t rest)
          else None
      | _, _ => None
      end
  | ERelM t j =>
      match thr s t, mown s j with
      | IRelM j' :: rest, Some (t', 1) =>
          if Nat.eqb j j' && Nat.eqb t t' then Some (set_prog (s <| mown := upd (mown s) j None |>) t rest) else None
      | IRelMCbs j' :: rest, Some (t', 1) =>
          if Nat.eqb j j' && Nat.eqb t t' then
            Some (set_prog (s <| mown := upd (mown s) j None |> <| mcbs := upd (mcbs s) j [] |>) t
                           (map (fun c => IUserCb j c false) (mcbs s j) ++ rest))
          else None
      | _, _ => None
      end
  | EFM t op j pre =>
      if negb (fstate_eqb pre (ms s j)) then None else
      match thr s t, op with
      | ICancelled j' :: rest, 0 =>
          if negb (Nat.eqb j j') then None else
          if fcancelled pre then Some (set_prog s t (IRelM j :: IRetB true :: rest)) else Some (set_prog s t (IDoneC j :: rest))
      | IDoneC j' :: rest, 1 =>
          if negb (Nat.eqb j j') then None else
          if fdone pre then Some (set_prog s t (IRelM j :: IRetB false :: rest)) else
          match mdel s j with
          | Some d => Some (set_prog s t (IDCancel j d :: rest))
          | None => Some (set_prog s t (IRelM j :: IRetB false :: rest))
          end
      | IDoneA j' c :: rest, 1 =>
          if negb (Nat.eqb j j') then None else
          if fdone pre then Some (set_prog s t (IRelM j :: IUserCb j c true :: IRet :: rest))
          else Some (set_prog (s <| mcbs := upd (mcbs s) j (mcbs s j ++ [c]) |>) t (IRelM j :: IRet :: rest))
      | IDoneQ j' cont :: rest, 1 =>
          if negb (Nat.eqb j j') then None else
          if fdone pre then Some (set_prog s t rest) else
          match cont with
          | Some x => Some (set_prog s t (on_mapped s j x ++ rest))
          | None => Some (set_prog s t (on_mapped s j (MVal none_value) ++ rest))
          end
      | IFCancel j' :: rest, 2 =>
          if negb (Nat.eqb j j') then None else
          let '(n, b) := f_cancel pre in
          if b then Some (log (set_prog (s <| ms := upd (ms s) j n |>) t rest) (HCancelled j)) else None
      | IFSrnc j' :: rest, 3 =>
          if negb (Nat.eqb j j') then None else
          match f_srnc pre with Some (n, _) => Some (set_prog (s <| ms := upd (ms s) j n |>) t rest) | None => None end
      | IFSetRes j' v :: rest, 4 =>
          if negb (Nat.eqb j j') then None else
          match f_set pre with
          | Some n => Some (log (set_prog (s <| ms := upd (ms s) j n |> <| mout := upd (mout s) j (Some (Ok v)) |>) t rest) (HSet j (Ok v)))
          | None => Some (log (set_prog s t (IRelM j :: tl rest)) (HSetLost j))
          end
      | IFSetExc j' e :: rest, 6 =>
          if negb (Nat.eqb j j') then None else
          match f_set pre with
          | Some n => Some (log (set_prog (s <| ms := upd (ms s) j n |> <| mout := upd (mout s) j (Some (Err e)) |>) t rest) (HSet j (Err e)))
          | None => Some (log (set_prog s t (IRelM j :: tl rest)) (HSetLost j))
          end
      | _, _ => None
      end
  | EFE t op d pre =>
      if negb (fstate_eqb pre (es s d)) then None else
      match thr s t, op with
      | IAddCbE d' j :: rest, 5 =>
          if negb (Nat.eqb d d') then None else
          if fdone pre then Some (set_prog s t (resolved_prog j d ++ rest))
          else Some (set_prog (s <| ecbs := upd (ecbs s) d (ecbs s d ++ [j]) |>) t rest)
      | IDCancelledQ j d' :: rest, 0 =>
          if negb (Nat.eqb d d') then None else
          if fcancelled pre then Some (set_prog s t (IThrow :: rest))      (* plain `return`: unwinds to the enclosing frame *)
          else
            match oc_of s d with
            | Err e => if mefn s j && negb (mflat s j) then Some (set_prog s t (IUserEfn j d :: rest))
                       else Some (set_prog s t (setexc_prog j e ++ IDoneQ j None :: rest))
            | Ok v => if mflat s j then Some (set_prog s t (on_mapped s j (MVal v) ++ rest))
                      else if mfn s j then Some (set_prog s t (IUserFn j d :: rest))
                      else match mkind s j with
                           | KMap => Some (set_prog s t (on_mapped s j (MVal v) ++ rest))
                           | KFlat => None      (* flat_map without fn wraps through f_return: not in this machine *)
                           end
            end
      | IDCancel j d' :: rest, 2 =>
          if negb (Nat.eqb d d') then None else
          let '(n, b) := f_cancel pre in
          let s1 := log (s <| es := upd (es s) d n |>) (HDCancel j d b) in
          if b then
            let cont := IFCancel j :: IFSrnc j :: IRelMCbs j :: IRetB true :: rest in
            if f_cancel_fires pre then Some (set_prog (s1 <| ecbs := upd (ecbs s1) d [] |>) t (fires s d cont))
            else Some (set_prog s1 t cont)
          else Some (set_prog s1 t (IRelM j :: IRetB false :: rest))
      | _, _ => None
      end
  | EUserFn t a =>
      match thr s t with
      | IUserFn j d :: rest =>
          let s1 := log s (HFn j d a) in
          match a with
          | ARet v => Some (set_prog s1 t (on_mapped s j (MVal v) ++ rest))
          | ARetFut d' => Some (set_prog s1 t (on_mapped s j (MFut d') ++ rest))
          | ARaise e => Some (set_prog s1 t (setexc_prog j e ++ IThrow :: rest))
          | ARaiseSame => None
          end
      | _ => None
      end
  | EUserEfn t a =>
      match thr s t with
      | IUserEfn j d :: rest =>
          let s1 := log s (HEfn j d a) in
          match a, oc_of s d with
          | ARet v, _ => Some (set_prog s1 t (IDoneQ j (Some (MVal v)) :: rest))
          | ARetFut d', _ => Some (set_prog s1 t (IDoneQ j (Some (MFut d')) :: rest))
          | ARaise e, _ => Some (set_prog s1 t (setexc_prog j e ++ IDoneQ j None :: rest))
          | ARaiseSame, Err e => Some (set_prog s1 t (setexc_prog j e ++ IDoneQ j None :: rest))
          | ARaiseSame, Ok _ => None
          end
      | _ => None
      end
  | EUserCb t j c raises =>
      match thr s t with
      | IUserCb j' c' direct :: rest =>
          if Nat.eqb j j' && Nat.eqb c c' then
            (* an exception from a callback is logged and swallowed on both paths *)
            Some (log (set_prog s t rest) (HCb j c))
          else None
      | _ => None
      end
  | EEnvRun t d pre =>
      match thr s t with
      | [] => if negb (fstate_eqb pre (es s d)) then None else
              match f_srnc pre with Some (n, _) => Some (s <| es := upd (es s) d n |>) | None => Some s end
      | _ => None
      end
  | EEnvFinish t d pre o =>
      match thr s t with
      | [] => if negb (fstate_eqb pre (es s d)) then None else
              match f_set pre with
              | Some n => Some (log (set_prog (s <| es := upd (es s) d n |> <| eout := upd (eout s) d (Some o) |>
                                                 <| ecbs := upd (ecbs s) d [] |>) t (fires s d [])) (HEnvDone d o))
              | None => Some s
              end
      | _ => None
      end
  | EEnvCancel t d pre =>
      match thr s t with
      | [] => if negb (fstate_eqb pre (es s d)) then None else
              let '(n, b) := f_cancel pre in
              if f_cancel_fires pre then
                Some (log (set_prog (s <| es := upd (es s) d n |> <| ecbs := upd (ecbs s) d [] |>) t (fires s d [])) (HEnvCancel d))
              else Some (s <| es := upd (es s) d n |>)
      | _ => None
      end
  | EDied t => match thr s t with IDead :: _ => Some s | _ => None end
  end.

(* all threads with id < n have an empty program *)
Definition quiescent_b (s : st) (n : nat) : bool :=
  forallb (fun t => match thr s t with [] => true | _ => false end) (seq 0 n).

(* ---- wire format ------------------------------------------------------------------------------- *)
Local Open Scope Z_scope.
Definition n (z : Z) : nat := Z.to_nat z.
Definition oc (k v : Z) : outcome := if Z.eqb k 0 then Ok (n v) else Err (n v).
Definition ans (k v : Z) : option answer :=
  match k with 0 => Some (ARet (n v)) | 1 => Some (ARaise (n v)) | 2 => Some ARaiseSame | 3 => Some (ARetFut (n v)) | _ => None end.
Definition decode (l : list Z) : option ev :=
  match l with
  | [0; t; j; k; f; e; d] => Some (ECallNew (n t) (n j) (if Z.eqb k 1 then KFlat else KMap) (Z.eqb f 1) (Z.eqb e 1) (n d))
  | [1; t; j] => Some (ECallCancel (n t) (n j))
  | [2; t; j; c] => Some (ECallAddCb (n t) (n j) (n c))
  | [7; t; c] => Some (ERet (n t) (n c))
  | [8; t; j] => Some (EAcqM (n t) (n j))
  | [9; t; j] => Some (ERelM (n t) (n j))
  | [10; t; op; j; p] => match fstate_of p with Some p => Some (EFM (n t) (n op) (n j) p) | None => None end
  | [11; t; op; d; p] => match fstate_of p with Some p => Some (EFE (n t) (n op) (n d) p) | None => None end
  | [12; t; k; v] => match ans k v with Some a => Some (EUserFn (n t) a) | None => None end
  | [13; t; k; v] => match ans k v with Some a => Some (EUserEfn (n t) a) | None => None end
  | [14; t; j; c; r] => Some (EUserCb (n t) (n j) (n c) (Z.eqb r 1))
  | [19; t; d; p] => match fstate_of p with Some p => Some (EEnvRun (n t) (n d) p) | None => None end
  | [21; t; d; p; k; v] => match fstate_of p with Some p => Some (EEnvFinish (n t) (n d) p (oc k v)) | None => None end
  | [23; t; d; p] => match fstate_of p with Some p => Some (EEnvCancel (n t) (n d) p) | None => None end
  | [22; t] => Some (EDied (n t))
  | _ => None
  end.

Fixpoint decode_all (ls : list (list Z)) : option (list ev) :=
  match ls with
  | [] => Some []
  | l :: r => match decode l, decode_all r with Some e, Some es => Some (e :: es) | _, _ => None end
  end.

Definition accept (ls : list (list Z)) : list Z :=
  match decode_all ls with
  | None => [-2]
  | Some es => match first_reject step init es 0 with None => [-1] | Some i => [Z.of_nat i] end
  end.
