(* A small imperative IR for the method bodies of RetryExecutor / RetryFuture (retry.py) and _Future.cancel
   (common.py), its ALL-PATHS semantics, and the control-flow table of the hand-written machine Model/Retry.v
   over the same atoms.

   The programs are not written here: tools/retry2coq.py regenerates them from the Python AST on every check run
   (coq/Gen/RetrySkel.v).  What is trusted in place of the instruction lists of Retry.v is (a) the translator's
   vocabulary (Python statement text -> IR statement, printed with its whitelist in the generated file) and (b) the
   path semantics below.

   PATHS.  `exec` enumerates every path through a term: the sequence of ATOMS it performs (lock acquisitions and
   releases by a non-owner - re-entrant ones are silent -, visible operations with their outcome, silent heap
   actions, silent tests with their outcome) and how it completes (falls through / returns values / raises /
   break / continue).  Locals carry values abstracted to None / object / bool; an `if` on a local follows the
   value, an `if` on the heap or on a visible operation branches both ways and records the outcome.

   MACHINE SIDE.  `shape` erases the ids of a Retry.instr; `mcont o` lists, for an instruction shape, the branch
   outcomes of Retry.step0 with the continuation each one prepends (Proofs/RetryIR_Step.v PROVES that step0 does
   exactly this); `atoms_of o b` says which atoms of the source an instruction with that outcome stands for;
   `mpaths` enumerates the machine's paths from an entry program.  Proofs/RetryIR_Paths.v compares the two path
   sets per method by vm_compute.

   Definitions only. *)
From Coq Require Import List Bool Arith.
From ME Require Import Model.Retry.
Import ListNotations.

(* ---- syntax ----------------------------------------------------------------------------------- *)
Inductive lock := LX (* executor._lock *) | LM (* <retry future>._me_lock *).
Inductive role := RD (* the attempt's delegate future *) | ROld (* job.old_delegate: may be None *).
Inductive jkind := K0      (* RetryJob(policy, None, future, 0, monotonic(), ...) *)
                 | KFlight (* RetryJob(job.policy, delegate_future, job.future, job.attempt + 1, None, ...) *)
                 | KRetry. (* RetryJob(job.policy, None, job.future, job.attempt, monotonic() + sleep_time, ..., old_delegate=job.delegate_future) *)
Inductive src := ILive (* self._jobs *) | ISnap (* self._jobs[:] *).
Inductive key := KJobIs (* pending is job *) | KFutureIs (* job.future is future *) | KDelegateEq (* job.delegate_future == delegate_future *).

Inductive lvar := VFuture | VJob | VNewJob | VDelegate | VFound | VOut | VExecutor | VShould | VSleep | VException | VResult | VTmp.

Inductive act :=
(* visible operations (logged by the harness, events of Retry.v) *)
| AEvSet | AEvWait (timed : bool) | AEvClear
| AFDone | AFCancelled | AFCancelSuper | AFSrnc | AFSet           (* stdlib Future methods on the retry future *)
| ADDone | ADCancelled | ADCancel | ADAddCb | ADRunning           (* ... on the delegate future *)
| ADSubmit | ADShutdown | AJoin
| APolSR | APolST
| AInvokeCbs                                                      (* common._Future._me_invoke_callbacks *)
| AUserCb                                                         (* fn(self): a user done-callback *)
(* silent actions *)
| ZNewFuture | ZNewJob (k : jkind) | ZAppend | ZPopIdx | ZNextJob | ZClock
| ZLink | ZClearDelegate | ZClearExecutor | ZSetStop | ZCopyStop
| ZDeref | ZReadExecutor | ZExcOf (r : role) | ZResultOf (r : role)
| ZSuperInit | ZSetExecutor | ZAddCbClearExecutor | ZGateClose | ZAppendCb
| ZScan (s : src) (k : key).                                      (* produced by SForFind only *)

Inductive test := TJobHasDelegate | TJobStop | TJobDue | TShutdown | TFutHasDelegate | TWaitArg.

Inductive cond :=
| CL (x : lvar)          (* truthiness of a local / `x is not None` *)
| CT (t : test)          (* a silent read of the heap *)
| CA (a : act)           (* an operation whose boolean result is tested *)
| CNot (c : cond).

Inductive val := VNone | VObj | VB (b : bool).
Inductive rexpr := ENone | EObj | EBool (b : bool) | EVar (x : lvar).

Inductive stmt :=
| SWith (l : lock) (body : list stmt)
| SGate (body : list stmt)                       (* with self._shutdown.ensure_alive(): -- outside this machine's alphabet *)
| SIf (c : cond) (th el : list stmt)
| SAct (x : option lvar) (a : act)
| SAssign (x : lvar) (v : val)
| SForFind (s : src) (k : key) (body : list stmt)   (* for .. in <s>: if <k>: body   (body ends in break / return) *)
| SCall (xs : list lvar) (body : list stmt)
| STry (body : list stmt) (any : bool) (handler : list stmt)   (* any = except Exception; else except InvalidStateError *)
| SAssert (c : cond)
| SReturn (vs : list rexpr)
| SBreak
| SContinue.

(* ---- outcomes --------------------------------------------------------------------------------- *)
Inductive ekind := EInvalid (* InvalidStateError *) | EOther.
Inductive outc := OU | OB (b : bool) | OR (k : ekind).

Definition outcomes (a : act) : list outc :=
  match a with
  | AFDone | AFCancelled | AFCancelSuper | ADDone | ADCancelled | ADCancel | ADRunning => [OB true; OB false]
  | AFSet => [OU; OR EInvalid]
  | APolSR => [OB true; OB false; OR EOther]
  | APolST => [OU; OR EOther]
  | AUserCb => [OU; OR EOther]
  | ZNextJob | ZDeref | ZReadExecutor | ZGateClose => [OB true; OB false]
  | ZExcOf RD => [OB true; OB false]
  | ZExcOf ROld => [OB true; OB false; OR EOther]          (* None.exception(): AttributeError *)
  | ZScan _ _ => [OB true; OB false]
  | _ => [OU]
  end.

Inductive atom :=
| AtAcq (l : lock) | AtRel (l : lock)
| AtAct (a : act) (o : outc)
| AtTest (t : test) (b : bool)
| AtReturn (b : option bool)       (* the API call returns (to the harness): Some b for a bool *)
| AtRaise                          (* an exception leaves the activation *)
| AtFuel.                          (* enumeration ran out of fuel (never in a proved path set) *)

Inductive completion := CNorm | CRet (vs : list val) | CRaise (k : ekind) | CBrk | CCont.

(* ---- locals ----------------------------------------------------------------------------------- *)
Definition lvar_eqb (a b : lvar) : bool :=
  match a, b with
  | VFuture, VFuture | VJob, VJob | VNewJob, VNewJob | VDelegate, VDelegate | VFound, VFound | VOut, VOut
  | VExecutor, VExecutor | VShould, VShould | VSleep, VSleep | VException, VException | VResult, VResult | VTmp, VTmp => true
  | _, _ => false
  end.
Definition env := lvar -> val.
Definition env0 : env := fun _ => VNone.
Definition bind (e : env) (x : lvar) (v : val) : env := fun y => if lvar_eqb y x then v else e y.
Definition truth (v : val) : bool := match v with VNone => false | VObj => true | VB b => b end.
Definition val_of (o : outc) : val := match o with OB b => VB b | _ => VObj end.
Definition eval (e : env) (r : rexpr) : val :=
  match r with ENone => VNone | EObj => VObj | EBool b => VB b | EVar x => e x end.
Fixpoint bind_all (e : env) (xs : list lvar) (vs : list val) : env :=
  match xs with
  | [] => e
  | x :: xr => match vs with v :: vr => bind_all (bind e x v) xr vr | [] => bind_all (bind e x VNone) xr [] end
  end.

Definition lock_eqb (a b : lock) : bool := match a, b with LX, LX | LM, LM => true | _, _ => false end.
Definition holds (held : list lock) (l : lock) : bool := existsb (lock_eqb l) held.

(* ---- all paths -------------------------------------------------------------------------------- *)
Definition res := (list atom * completion * env)%type.
Definition pre (tr : list atom) (r : res) : res := let '(t, c, e) := r in (tr ++ t, c, e).

(* a condition: every way of evaluating it, with the atoms it performs *)
Fixpoint evalc (c : cond) (e : env) : list (list atom * (bool + ekind)) :=
  match c with
  | CL x => [([], inl (truth (e x)))]
  | CT t => [([AtTest t true], inl true); ([AtTest t false], inl false)]
  | CA a => map (fun o => ([AtAct a o], match o with OB b => inl b | OU => inl true | OR k => inr k end)) (outcomes a)
  | CNot c => map (fun cr : list atom * (bool + ekind) => let '(tr, r) := cr in (tr, match r with inl b => inl (negb b) | inr k => inr k end)) (evalc c e)
  end.

Definition catches (any : bool) (k : ekind) : bool := any || match k with EInvalid => true | EOther => false end.

Fixpoint exec (n : nat) (held : list lock) (ss : list stmt) (e : env) : list res :=
  match n with
  | O => [([AtFuel], CNorm, e)]
  | S n =>
    match ss with
    | [] => [([], CNorm, e)]
    | s :: rest =>
      let first : list res :=
        match s with
        | SWith l body =>
            if holds held l then exec n held body e
            else map (fun r0 : res => let '(t, c, e') := r0 in ([AtAcq l] ++ t ++ [AtRel l], c, e')) (exec n (l :: held) body e)
        | SGate body => exec n held body e
        | SIf c th el =>
            flat_map (fun cr : list atom * (bool + ekind) => let '(tr, r) := cr in
              match r with
              | inl b => map (pre tr) (exec n held (if b then th else el) e)
              | inr k => [(tr, CRaise k, e)]
              end) (evalc c e)
        | SAct x a =>
            map (fun o => match o with
                          | OR k => ([AtAct a o], CRaise k, e)
                          | _ => ([AtAct a o], CNorm, match x with Some x => bind e x (val_of o) | None => e end)
                          end) (outcomes a)
        | SAssign x v => [([], CNorm, bind e x v)]
        | SForFind sc k body =>
            ([AtAct (ZScan sc k) (OB false)], CNorm, e) ::
            map (fun r0 : res => let '(t, c, e') := r0 in (AtAct (ZScan sc k) (OB true) :: t, match c with CBrk => CNorm | _ => c end, e'))
                (exec n held body e)
        | SCall xs body =>
            map (fun r : res => let '(t, c, _) := r in
                   match c with
                   | CRet vs => (t, CNorm, bind_all e xs vs)
                   | CRaise k => (t, CRaise k, e)
                   | _ => (t, CNorm, bind_all e xs [])
                   end) (exec n held body env0)
        | STry body any handler =>
            flat_map (fun r0 : res => let '(t, c, e') := r0 in
                        match c with
                        | CRaise k => if catches any k then map (pre t) (exec n held handler e') else [(t, c, e')]
                        | _ => [(t, c, e')]
                        end) (exec n held body e)
        | SAssert c =>
            map (fun cr : list atom * (bool + ekind) => let '(tr, r) := cr in match r with
                                 | inl true => (tr, CNorm, e)
                                 | inl false => (tr, CRaise EOther, e)
                                 | inr k => (tr, CRaise k, e)
                                 end) (evalc c e)
        | SReturn vs => [([], CRet (map (eval e) vs), e)]
        | SBreak => [([], CBrk, e)]
        | SContinue => [([], CCont, e)]
        end in
      flat_map (fun r0 : res => let '(t, c, e') := r0 in match c with CNorm => map (pre t) (exec n held rest e') | _ => [(t, c, e')] end) first
    end
  end.

Definition FUEL := 60.

(* an API call: how it returns is visible (ERet) *)
Definition paths_api (p : list stmt) : list (list atom) :=
  map (fun r : res => let '(t, c, _) := r in t ++ match c with
                              | CRet [VB b] => [AtReturn (Some b)]
                              | CRaise _ => [AtRaise]
                              | _ => [AtReturn None]
                              end) (exec FUEL [] p env0).
(* a callback / one iteration of the loop / an internal method: only an escaping exception is visible *)
Definition paths_in (held : list lock) (p : list stmt) : list (list atom) :=
  map (fun r : res => let '(t, c, _) := r in t ++ match c with CRaise _ => [AtRaise] | _ => [] end) (exec FUEL held p env0).

(* ---- the machine's control-flow table ------------------------------------------------------------ *)
Inductive op :=
| OXAppend0 | OEvSet | ORet | ORetB (b : bool) | ORaise | OAcqM | ORelM | ORelMCbs | OCancelled | ODoneC | OXCancelScan
| ODCancel | OFCancel | OFSrnc | ODoneA | OUserCb | ODCbDone | ODCbCancelled | OPolSR | OPolST | OXRetry | OFSet | OXPop
| OWWait (timed : bool) | OWWoke | OWClear | OXAcqPop | ODoneW | ODSubmit | OXRel | OAddCbD | OCatch | OThrow | ODead
| OXNext.     (* pseudo: the top of the submit loop (the machine's worker with an empty program, event EXSec) *)

Definition shape (i : instr) : op :=
  match i with
  | IXAppend0 => OXAppend0 | IEvSet => OEvSet | IRet => ORet | IRetB b => ORetB b | IRaise => ORaise
  | IAcqM _ => OAcqM | IRelM _ => ORelM | IRelMCbs _ => ORelMCbs | ICancelled _ => OCancelled | IDoneC _ => ODoneC
  | IXCancelScan _ => OXCancelScan | IDCancel _ _ _ => ODCancel | IFCancel _ => OFCancel | IFSrnc _ => OFSrnc
  | IDoneA _ _ => ODoneA | IUserCb _ _ => OUserCb | IDCbDone _ => ODCbDone | IDCbCancelled _ _ => ODCbCancelled
  | IPolSR _ => OPolSR | IPolST _ => OPolST | IXRetry _ _ => OXRetry | IFSet _ _ => OFSet | IXPop _ => OXPop
  | IWWait tau => OWWait (match tau with Some _ => true | None => false end) | IWWoke => OWWoke | IWClear => OWClear
  | IXAcqPop _ => OXAcqPop | IDoneW _ => ODoneW | IDSubmit _ => ODSubmit | IXRel => OXRel | IAddCbD _ => OAddCbD
  | ICatch => OCatch | IThrow => OThrow | IDead => ODead
  end.

(* Retry.norm on shapes; also reports whether an exception was propagated *)
Fixpoint onorm (throwing : bool) (p : list op) : list op :=
  match p with
  | [] => if throwing then [ODead] else []
  | OCatch :: r => onorm false r
  | OThrow :: r => onorm true r
  | _ :: r => if throwing then onorm true r else p
  end.
Fixpoint othrows (p : list op) : bool :=
  match p with
  | OCatch :: r => othrows r
  | OThrow :: _ => true
  | _ => false
  end.

Definition finalize_ops : list op := [OAcqM; OFSet; ORelMCbs; OXPop].

(* (outcome label, continuation prepended, instructions of the old rest dropped) *)
Definition mcont (o : op) : list (nat * list op * nat) :=
  match o with
  | OCancelled => [(1, [ORelM; ORetB true], 0); (0, [ODoneC], 0)]
  | ODoneC => [(1, [ORelM; ORetB false], 0); (0, [OXCancelScan], 0)]
  | OXCancelScan => [(0, [ORelM; ORetB false], 0);                                       (* no job of this future queued *)
                     (1, [OFCancel; OFSrnc; ORelMCbs; ORetB true], 0);                   (* queued, no delegate: popped *)
                     (2, [ODCancel], 0)]                                                 (* in flight: stop_retry set *)
  | ODCancel => [(0, [ODCbDone; OCatch; OXPop; OFCancel; OFSrnc; ORelMCbs; ORetB true], 0);   (* cancelled; callbacks fire inline *)
                 (1, [OXPop; OFCancel; OFSrnc; ORelMCbs; ORetB true], 0);
                 (2, [OEvSet; ORelM; ORetB false], 0)]
  | ODoneA => [(1, [ORelM; OUserCb; ORet], 0); (0, [ORelM; ORet], 0)]
  | ODoneW => [(1, [OXRel; ORelM], 0); (0, [ODSubmit], 0)]
  | OFSet => [(1, [], 0); (0, [ORelM], 1)]                                               (* 0: InvalidStateError, callbacks skipped *)
  | ODCbDone => [(1, [ODCbCancelled], 0); (0, [OThrow], 0)]
  | ODCbCancelled => [(0, [], 0); (1, finalize_ops, 0); (2, [OPolSR], 0)]
  | OAddCbD => [(1, [ODCbDone; OCatch], 0); (0, [], 0)]
  | OPolSR => [(1, [OPolST], 0); (0, finalize_ops, 0); (2, finalize_ops, 0);             (* True / False / raises *)
               (3, tl finalize_ops, 0)]                                                  (* stop_retry seen: the event is the AcqM *)
  | OPolST => [(1, [OXRetry; OEvSet], 0); (0, finalize_ops, 0)]
  | ODSubmit => [(0, [OXRel; ORelM; OAddCbD; OEvSet], 0)]
  | OWWait _ => [(0, [OWClear], 0); (1, [OWWoke], 0)]
  | OWWoke => [(0, [OWClear], 0)]
  | OXAcqPop => [(1, [ODoneW], 0); (0, [ODoneW], 0)]                                     (* 1: the job was still queued *)
  | OXPop | OXRetry => [(1, [], 0); (0, [], 0)]
  | OXNext => [(0, [OWWait false], 0);                                                   (* no job *)
               (1, [OXPop; OAcqM; OFSet; ORelMCbs], 0);                                  (* stop_retry job with an old delegate *)
               (2, [OXPop; OThrow], 0);                                                  (* stop_retry job without: copy_future(None, ..) *)
               (3, [OAcqM; OXAcqPop], 0);                                                (* due *)
               (4, [OWWait true], 0)]                                                    (* not yet due *)
  | OCatch | OThrow | ODead => []
  | _ => [(0, [], 0)]
  end.

(* ---- which atoms of the source an instruction (with an outcome) stands for ---------------------------- *)
Definition pop_atoms (found : bool) : list atom :=
  if found then [AtAct (ZScan ILive KJobIs) (OB true); AtAct ZPopIdx OU] else [AtAct (ZScan ILive KJobIs) (OB false)].
Definition xsec (body : list atom) : list atom := [AtAcq LX] ++ body ++ [AtRel LX].
Definition bl (n : nat) : bool := Nat.eqb n 1.

Definition atoms_of (o : op) (b : nat) : list (list atom) :=
  match o with
  | OXAppend0 => [[AtAct ZNewFuture OU; AtAct (ZNewJob K0) OU] ++ xsec [AtAct ZAppend OU]]
  | OEvSet => [[AtAct AEvSet OU]]
  | ORet => [[AtReturn None]]
  | ORetB v => [[AtReturn (Some v)]]
  | OAcqM => [[AtAcq LM]]
  | ORelM => [[AtRel LM]]
  | ORelMCbs => [[AtRel LM; AtAct AInvokeCbs OU]]
  | OCancelled => [[AtAct AFCancelled (OB (bl b))]]
  | ODoneC => [[AtAct AFDone (OB (bl b))]]
  | OXCancelScan =>
      map (fun body => AtAct ZReadExecutor (OB true) :: xsec body)
        match b with
        | 0 => [[AtAct (ZScan ILive KFutureIs) (OB false)]]
        | 1 => [[AtAct (ZScan ILive KFutureIs) (OB true); AtTest TJobHasDelegate false; AtAct ZClearDelegate OU] ++ pop_atoms true;
                [AtAct (ZScan ILive KFutureIs) (OB true); AtTest TJobHasDelegate false; AtAct ZClearDelegate OU] ++ pop_atoms false]
        | _ => [[AtAct (ZScan ILive KFutureIs) (OB true); AtTest TJobHasDelegate true; AtAct ZSetStop OU]]
        end
  | ODCancel => match b with
                | 2 => [[AtAct ADCancel (OB false)]]
                | _ => [[AtAct ADCancel (OB true); AtAct ZClearDelegate OU]]
                end
  | OFCancel => [[AtAct AFCancelSuper (OB true)]]
  | OFSrnc => [[AtAct AFSrnc OU]]
  | ODoneW => [[AtAct AFDone (OB (bl b))]]
  | ODoneA => [AtAct AFDone (OB (bl b)) :: (if bl b then [] else [AtAct ZAppendCb OU])]
  | OUserCb => [[AtAct AUserCb OU]; [AtAct AUserCb (OR EOther)]]     (* an exception of the callback is logged, not propagated *)
  | OFSet => [[AtAct ZClearDelegate OU; AtAct AFSet (if bl b then OU else OR EInvalid)]]
  | ODCbDone => [[AtAct ADDone (OB true); AtAct (ZScan ISnap KDelegateEq) (OB (bl b))]]
  | ODCbCancelled => match b with
                     | 0 => [[AtAct ADCancelled (OB true)]]
                     | 1 => [[AtAct ADCancelled (OB false); AtTest TJobStop true]]
                     | _ => [[AtAct ADCancelled (OB false)]]
                     end
  | OAddCbD => [[AtAct ADAddCb OU]]
  | OPolSR => match b with
              | 1 => [[AtTest TJobStop false; AtAct APolSR (OB true)]]
              | 0 => [[AtTest TJobStop false; AtAct APolSR (OB false)]]
              | 2 => [[AtTest TJobStop false; AtAct APolSR (OR EOther)]]
              | _ => [[AtTest TJobStop true; AtAcq LM]]
              end
  | OPolST => [[AtAct APolST (if bl b then OU else OR EOther)]]
  | OXRetry => [xsec (pop_atoms (bl b) ++ [AtAct (ZNewJob KRetry) OU; AtAct ZCopyStop OU; AtAct ZAppend OU])]
  | OXPop => [xsec (pop_atoms (bl b))]
  | OWWait timed => [[AtAct (AEvWait timed) OU]]
  | OWWoke => [[]]
  | OWClear => [[AtAct AEvClear OU]]
  | OXAcqPop => [AtAcq LX :: pop_atoms (bl b)]
  | ODSubmit => [[AtAct ADSubmit OU; AtAct ZLink OU; AtAct (ZNewJob KFlight) OU; AtAct ZAppend OU]]
  | OXRel => [[AtRel LX]]
  | OXNext =>
      map (fun tail => [AtAct ZDeref (OB true); AtTest TShutdown false] ++ tail)
        match b with
        | 0 => [xsec [AtAct ZNextJob (OB false)]]
        | 1 | 2 => [xsec [AtAct ZNextJob (OB true)] ++ [AtTest TJobStop true]]
        | 3 => [xsec [AtAct ZNextJob (OB true)] ++ [AtTest TJobStop false; AtAct ZClock OU; AtTest TJobDue true]]
        | _ => [xsec [AtAct ZNextJob (OB true)] ++ [AtTest TJobStop false; AtAct ZClock OU; AtTest TJobDue false]]
        end
  | _ => [[]]
  end.

(* Nested activations are compared on their own: the done-callbacks a completion runs inline (stdlib: _delegate_callback
   inside delegate_future.cancel() / add_done_callback(); _me_invoke_callbacks: the registered callbacks). *)
Definition strip_inline (k : list op) : list op :=
  match k with ODCbDone :: OCatch :: r => r | _ => k end.

Fixpoint mpaths (n : nat) (p : list op) : list (list atom) :=
  match n with
  | O => [[AtFuel]]
  | S n =>
    match p with
    | [] => [[]]
    | ODead :: _ => [[]]
    | o :: rest =>
        flat_map (fun bkd : nat * list op * nat => let '(b, k, d) := bkd in
          let q := strip_inline k ++ skipn d rest in
          let tails := map (fun t => (if othrows q then [AtRaise] else []) ++ t) (mpaths n (onorm false q)) in
          flat_map (fun a => map (app a) tails) (atoms_of o b)) (mcont o)
    end
  end.

(* ---- comparison ------------------------------------------------------------------------------------ *)
Scheme Equality for lock.
Scheme Equality for role.
Scheme Equality for jkind.
Scheme Equality for src.
Scheme Equality for key.
Scheme Equality for ekind.
Scheme Equality for test.
Definition outc_eqb (a b : outc) : bool :=
  match a, b with
  | OU, OU => true | OB x, OB y => Bool.eqb x y | OR x, OR y => ekind_beq x y | _, _ => false
  end.
Definition act_eqb (a b : act) : bool :=
  match a, b with
  | AEvSet, AEvSet | AEvClear, AEvClear | AFDone, AFDone | AFCancelled, AFCancelled | AFCancelSuper, AFCancelSuper
  | AFSrnc, AFSrnc | AFSet, AFSet | ADDone, ADDone | ADCancelled, ADCancelled | ADCancel, ADCancel | ADAddCb, ADAddCb
  | ADRunning, ADRunning | ADSubmit, ADSubmit | ADShutdown, ADShutdown | AJoin, AJoin | APolSR, APolSR | APolST, APolST
  | AInvokeCbs, AInvokeCbs | ZNewFuture, ZNewFuture | ZAppend, ZAppend | ZPopIdx, ZPopIdx | ZNextJob, ZNextJob
  | ZClock, ZClock | ZLink, ZLink | ZClearDelegate, ZClearDelegate | ZClearExecutor, ZClearExecutor | ZSetStop, ZSetStop
  | ZCopyStop, ZCopyStop | ZDeref, ZDeref | ZReadExecutor, ZReadExecutor | ZSuperInit, ZSuperInit
  | ZSetExecutor, ZSetExecutor | ZAddCbClearExecutor, ZAddCbClearExecutor | ZGateClose, ZGateClose
  | AUserCb, AUserCb | ZAppendCb, ZAppendCb => true
  | AEvWait x, AEvWait y => Bool.eqb x y
  | ZNewJob x, ZNewJob y => jkind_beq x y
  | ZExcOf x, ZExcOf y | ZResultOf x, ZResultOf y => role_beq x y
  | ZScan s k, ZScan s' k' => src_beq s s' && key_beq k k'
  | _, _ => false
  end.
Definition atom_eqb (a b : atom) : bool :=
  match a, b with
  | AtAcq x, AtAcq y | AtRel x, AtRel y => lock_beq x y
  | AtAct x o, AtAct y p => act_eqb x y && outc_eqb o p
  | AtTest t x, AtTest u y => test_beq t u && Bool.eqb x y
  | AtReturn None, AtReturn None => true
  | AtReturn (Some x), AtReturn (Some y) => Bool.eqb x y
  | AtRaise, AtRaise | AtFuel, AtFuel => true
  | _, _ => false
  end.
Fixpoint path_eqb (p q : list atom) : bool :=
  match p, q with
  | [], [] => true
  | a :: p, b :: q => atom_eqb a b && path_eqb p q
  | _, _ => false
  end.
Definition subset (a b : list (list atom)) : bool := forallb (fun p => existsb (path_eqb p) b) a.
Definition same_paths (a b : list (list atom)) : bool := subset a b && subset b a.

(* Atoms the machine does not represent (the harness drops F.exception / F.result; RetryFuture._executor is not modelled) *)
Definition unmodelled (a : atom) : bool :=
  match a with
  | AtAct (ZExcOf _) _ | AtAct (ZResultOf _) _ | AtAct ZClearExecutor _ => true
  | _ => false
  end.
(* Outcomes the machine excludes (its step rejects the event, or the scenario fixes them); each is a modelling
   assumption validated by the lockstep replay, listed here and nowhere else:
     super().cancel() returns False while M is held and the future was seen not done;
     self._executor already cleared while the future is not done;  the executor collected / shut down while the scenario runs;
     the done-callback invoked on a future that is not done *)
Definition excluded (a : atom) : bool :=
  match a with
  | AtAct AFCancelSuper (OB false) | AtAct ZReadExecutor (OB false) | AtAct ZDeref (OB false) | AtTest TShutdown true
  | AtAct ADDone (OB false) => true
  | _ => false
  end.
Definition view_paths (ps : list (list atom)) : list (list atom) :=
  map (filter (fun a => negb (unmodelled a))) (filter (forallb (fun a => negb (excluded a))) ps).

Definition conforms (ir : list (list atom)) (entry : list op) : bool :=
  same_paths (view_paths ir) (mpaths FUEL entry).
