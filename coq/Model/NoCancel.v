(* f_nocancel: NoCancelFuture = a MapFuture (Model/MapFut.v's machine, unchanged) whose cancel() is the body REGENERATED from
   futures/nocancel.py (Gen/Proxy2Gen.v: nocancel_cancel_body) and whose map function is the regenerated constructor argument
   (nocancel_map_fn: the identity lambda).  A wrapper's cancel() with a constant body performs no visible operation: it does not
   take the future's lock, does not look at the delegate, and answers the constant.  Definitions only.
   Proofs: Proofs/NoCancel_*.v; statements: Props/C17_more.v. *)
From Coq Require Import ZArith List Bool Arith.
From RecordUpdate Require Import RecordSet.
From ME Require Import Base.Machine Base.Fut Base.GenPrelude Base.ProxyPrelude Gen.Proxy2Gen Model.MapFut.
Import ListNotations RecordSetNotations.

Record ncst := mkNc {
  base : MapFut.st;
  isnc : nat -> bool;                 (* which library futures are NoCancelFutures *)
  nans : nat -> list bool             (* ghost: the answers wrapper j's cancel() has given, latest first *)
}.
#[export] Instance eta_ncst : Settable _ := settable! mkNc <base; isnc; nans>.
Definition ncinit : ncst := mkNc MapFut.init (fun _ => false) (fun _ => []).

Inductive ncev :=
| NNew (t j d : nat)                  (* f_nocancel(d): NoCancelFuture(d, lambda x: x) *)
| NCancel (t j : nat)                 (* wrapper.cancel() *)
| NBase (e : MapFut.ev).              (* everything else: the MapFuture protocol, the environment, other futures *)

Definition has_fn (f : nfn) : bool := match f with NFAbsent => false | _ => true end.
Definition is_identity (f : nfn) : bool := match f with NFIdentity => true | _ => false end.

(* the user function of a NoCancelFuture is the identity: its answer is the delegate's value *)
Definition fn_answer_ok (s : ncst) (t : nat) (a : answer) : bool :=
  match thr (base s) t with
  | IUserFn j d :: _ =>
      if isnc s j && is_identity nocancel_map_fn then
        match a, eout (base s) d with
        | ARet v, Some (Ok w) => Nat.eqb v w
        | _, _ => false
        end
      else true
  | _ => true
  end.

Definition nstep (s : ncst) (e : ncev) : option ncst :=
  match e with
  | NNew t j d =>
      match step (base s) (ECallNew t j KMap (has_fn nocancel_map_fn) (has_fn nocancel_error_fn) d) with
      | Some b => Some (s <| base := b |> <| isnc := upd (isnc s) j true |> <| nans := upd (nans s) j [] |>)
      | None => None
      end
  | NCancel t j =>
      if negb (isnc s j) || negb (j <? nfut (base s)) then None else
      match thr (base s) t with
      | [] =>
          match nocancel_cancel_body with
          | NCReturnConst b => Some (s <| nans := upd (nans s) j (b :: nans s j) |>)
          | NCSuper => match step (base s) (ECallCancel t j) with Some b => Some (s <| base := b |>) | None => None end
          end
      | _ => None
      end
  | NBase e =>
      match e with
      | ECallCancel _ j =>
          (* the inherited _Future.cancel is hidden behind the override *)
          if isnc s j then None else match step (base s) e with Some b => Some (s <| base := b |>) | None => None end
      | ECallNew _ j _ _ _ _ =>
          match step (base s) e with Some b => Some (s <| base := b |> <| isnc := upd (isnc s) j false |>) | None => None end
      | EUserFn t a =>
          if fn_answer_ok s t a then match step (base s) e with Some b => Some (s <| base := b |>) | None => None end else None
      | _ => match step (base s) e with Some b => Some (s <| base := b |>) | None => None end
      end
  end.

Definition ncreachable := reachable_from nstep ncinit.
