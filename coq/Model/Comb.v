(* f_or / f_and (futures/bool.py BoolOperation) and f_zip (futures/zip.py Zipper) as a trace acceptor:
   one combinator instance over n input positions (inputs are environment-controlled stdlib
   futures; the same future may occur at several positions), its lock L, its output future.
   The decision kernels or_update / and_update / zip_update are regenerated from the source
   (Gen/BoolGen.v, Gen/ZipGen.v).  Threads carry programs; callbacks run inline.  Definitions only. *)
From Coq Require Import ZArith List Bool Arith.
From RecordUpdate Require Import RecordSet.
From ME Require Import Base.Machine Base.Fut Base.GenPrelude Gen.BoolGen Gen.ZipGen.
Import ListNotations RecordSetNotations.

Inductive outcome := Ok (v : nat) (truthy : bool) | Err (e : nat).
Inductive ckind := KOr | KAnd | KZip.

Definition out_id : nat := 999.
Definition notify_id : nat := 998.   (* the notify_cancel callback in the output's callback list *)     (* the output future, as it appears in cancel lists *)

Inductive instr :=
| IAddCbNotify                     (* out.add_done_callback(notify_cancel) *)
| INotifyQ                         (* notify_cancel: f.cancelled() on the output *)
| ISrncOut                         (* notify_cancel: out.set_running_or_notify_cancel() *)
| IAddCbOut (i : nat)              (* chain_cancel(out, inputs[i]): out.add_done_callback(...) *)
| IAddCbIn (i : nat)               (* inputs[i].add_done_callback(handle_done [bound to i for zip]) *)
| IRet
| IRetB (b : bool)
| IRetRaise                        (* constructor raises to its caller (KeyError out of f_or/f_and) *)
| IOutCancelledQ (i : nat)         (* chain_cancel callback: f.cancelled() on the output *)
| ICancelIn (d : nat)              (* <input d>.cancel() *)
| ICancelOut                       (* out.cancel() *)
| IAcqL (i : nat) (d : nat)        (* handle_done(d) [position i for zip]: with self.lock *)
| ICancelledQ (i : nat) (d : nat)  (* f.cancelled() inside get_state_update / Zipper.handle_done *)
| ICancelledQ2 (d : nat)           (* OrOperation: the second f.cancelled() once the condition held with inputs remaining *)
| IRelL
| ISetOut (o : outcome)            (* try_set_result(out, ...) / copy_future_exception(f, out) *)
| ICatch | IThrow | IDead.

Inductive hev :=
| HSeen (d : nat) (v : fview)              (* handle_done evaluated input d under the lock (bool: after removal from fs) *)
| HDecide (d : nat) (o : option outcome)   (* the combinator decided on input d's completion (None: cancelled) *)
| HSetOut (o : outcome)
| HSetLost
| HOutCancelled
| HCancelReq (d : nat) (pre : fstate)      (* cancel() requested on input d *)
| HEnvDone (d : nat) (o : outcome)
| HEnvCancel (d : nat)
| HStore (i : nat) (v : nat)               (* zip: slot i := result *)
| HKeyError (d : nat).

Record st := mkSt {
  ck : ckind;
  inputs : list nat;                 (* positions -> input future id *)
  fsd : list nat;                    (* BoolOperation.fs: remaining inputs (dict keys, insertion order) *)
  slots : nat -> option nat;         (* Zipper.fs[i] once stored *)
  remaining : Z;                     (* Zipper.count_remaining *)
  cdone : bool;
  lown : option nat;
  os : fstate; oout : option outcome;
  ocbs : list nat;                   (* chain_cancel callbacks registered on out: input positions *)
  es : nat -> fstate; eout : nat -> option outcome;
  ecbs : nat -> list nat;            (* handle_done registrations on input d: positions *)
  built : bool;
  ready : bool;                      (* the constructor has returned the output to its caller *)
  thr : nat -> list instr;
  hist : list hev
}.
#[export] Instance eta_st : Settable _ := settable! mkSt
  <ck; inputs; fsd; slots; remaining; cdone; lown; os; oout; ocbs; es; eout; ecbs; built; ready; thr; hist>.

Definition init : st :=
  mkSt KOr [] [] (fun _ => None) 0 false None Pending None [] (fun _ => Pending) (fun _ => None) (fun _ => [])
       false false (fun _ => []) [].

Definition log (s : st) (h : hev) : st := s <| hist := h :: hist s |>.

Fixpoint norm (throwing : bool) (p : list instr) : list instr :=
  match p with
  | [] => if throwing then [IDead] else []
  | ICatch :: r => norm false r
  | IThrow :: r => norm true r
  | i :: r => if throwing then norm true r else p
  end.
Definition set_prog (s : st) (t : nat) (p : list instr) : st := s <| thr := upd (thr s) t (norm false p) |>.

Fixpoint dedup (l : list nat) : list nat :=
  match l with [] => [] | x :: r => x :: filter (fun y => negb (Nat.eqb y x)) (dedup r) end.
Definition remove_id (x : nat) (l : list nat) := filter (fun y => negb (Nat.eqb y x)) l.
Definition memb (x : nat) (l : list nat) := existsb (Nat.eqb x) l.
Definition input_at (s : st) (i : nat) : nat := nth i (inputs s) 0.

Definition view (s : st) (d : nat) : fview :=
  {| v_cancelled := fcancelled (es s d);
     v_failed := match eout s d with Some (Err _) => true | _ => false end;
     v_truthy := match eout s d with Some (Ok _ t) => t | _ => false end |}.
Definition oc_of (s : st) (d : nat) : outcome := match eout s d with Some o => o | None => Ok 0 false end.

(* callbacks of the output future: chain_cancel per input position, each in its own try/except *)
Definition out_fires (s : st) (rest : list instr) : list instr :=
  flat_map (fun i => if Nat.eqb i notify_id then [INotifyQ; ICatch] else [IOutCancelledQ i; ICatch]) (ocbs s) ++ rest.
(* callbacks of input d: handle_done per registration *)
Definition in_fires (s : st) (d : nat) (rest : list instr) : list instr :=
  flat_map (fun i => [IAcqL i d; ICatch]) (ecbs s d) ++ rest.

Definition cancel_instr (x : nat) : instr := if Nat.eqb x out_id then ICancelOut else ICancelIn x.

Inductive ev :=
| ECallNew (t : nat) (k : ckind) (ins : list nat)
| ECallCancelOut (t : nat)
| ERet (t : nat) (code : nat)
| EAcqL (t : nat) | ERelL (t : nat)
| EFO (t : nat) (op : nat) (pre : fstate)            (* on the output: 0 cancelled 2 cancel 3 set_running_or_notify_cancel 4 set_result 5 add_done_callback 6 set_exception *)
| EFI (t : nat) (op : nat) (d : nat) (pre : fstate)  (* on input d by library code: 0 cancelled 2 cancel 5 add_done_callback *)
| EEnvFinish (t d : nat) (pre : fstate) (o : outcome)
| EEnvCancel (t d : nat) (pre : fstate)
| EDied (t : nat).

Definition step (s : st) (e : ev) : option st :=
  match e with
  | ECallNew t k ins =>
      match thr s t with
      | [] => if built s || (length ins <? 2) && negb (match k with KZip => true | _ => false end) then None else
              Some (set_prog (s <| ck := k |> <| inputs := ins |> <| fsd := dedup ins |> <| remaining := Z.of_nat (length ins) |>
                               <| built := true |>)
                             t (IAddCbNotify :: flat_map (fun i => [IAddCbOut i; IAddCbIn i]) (seq 0 (length ins)) ++ [IRet]))
      | _ => None
      end
  | ECallCancelOut t =>
      match thr s t with
      | [] => if ready s then Some (set_prog s t [ICancelOut; IRetB true]) else None
      | _ => None
      end
  | ERet t code =>
      match thr s t with
      | IRet :: rest => if Nat.eqb code 0 then Some (set_prog (s <| ready := true |>) t rest) else None
      | IRetRaise :: rest => if Nat.eqb code 9 then Some (set_prog s t rest) else None
      | IRetB b :: rest => if Nat.eqb code (if b then 2 else 1) then Some (set_prog s t rest) else None
      | _ => None
      end
  | EAcqL t =>
      match thr s t, lown s with
      | IAcqL i d :: rest, None =>
          let s1 := s <| lown := Some t |> in
          match ck s with
          | KZip => if cdone s then Some (set_prog s1 t (IRelL :: rest))   (* `if self.done: pass` *)
                    else Some (set_prog s1 t (ICancelledQ i d :: rest))
          | _ =>
              if cdone s then Some (set_prog s1 t (IRelL :: rest))
              else if memb d (fsd s) then Some (set_prog (s1 <| fsd := remove_id d (fsd s) |>) t (ICancelledQ i d :: rest))
              else if bool_remove_tolerant then Some (set_prog s1 t (ICancelledQ i d :: rest))
              else Some (log (set_prog s1 t (IRelL :: IThrow :: rest)) (HKeyError d))   (* del self.fs[f]: KeyError *)
          end
      | _, _ => None
      end
  | ERelL t =>
      match thr s t, lown s with
      | IRelL :: rest, Some t' => if Nat.eqb t t' then Some (set_prog (s <| lown := None |>) t rest) else None
      | _, _ => None
      end
  | EFO t op pre =>
      if negb (fstate_eqb pre (os s)) then None else
      match thr s t, op with
      | IAddCbNotify :: rest, 5 =>
          if fdone pre then None else Some (set_prog (s <| ocbs := ocbs s ++ [notify_id] |>) t rest)
      | INotifyQ :: rest, 0 =>
          if fcancelled pre then Some (set_prog s t (ISrncOut :: rest)) else Some (set_prog s t rest)
      | ISrncOut :: rest, 3 =>
          match f_srnc pre with
          | Some (n, _) => Some (set_prog (s <| os := n |>) t rest)
          | None => Some (set_prog s t rest)            (* RuntimeError: already notified; swallowed *)
          end
      | IAddCbOut i :: rest, 5 =>
          if fdone pre then Some (set_prog s t (IOutCancelledQ i :: ICatch :: rest))
          else Some (set_prog (s <| ocbs := ocbs s ++ [i] |>) t rest)
      | IOutCancelledQ i :: rest, 0 =>
          if fcancelled pre then Some (set_prog s t (ICancelIn (input_at s i) :: rest)) else Some (set_prog s t rest)
      | ICancelOut :: rest, 2 =>
          let '(n, b) := f_cancel pre in
          let s1 := s <| os := n |> in
          let rest' := match rest with IRetB _ :: r => IRetB b :: r | _ => rest end in
          if f_cancel_fires pre then Some (log (set_prog (s1 <| ocbs := [] |>) t (out_fires s rest')) HOutCancelled)
          else Some (set_prog s1 t rest')
      | ISetOut o :: rest, (4 | 6) =>
          match f_set pre with
          | Some n => Some (log (set_prog (s <| os := n |> <| oout := Some o |> <| ocbs := [] |>) t (out_fires s rest)) (HSetOut o))
          | None => Some (log (set_prog s t rest) HSetLost)
          end
      | _, _ => None
      end
  | EFI t op d pre =>
      if negb (fstate_eqb pre (es s d)) then None else
      match thr s t, op with
      | IAddCbIn i :: rest, 5 =>
          if negb (Nat.eqb d (input_at s i)) then None else
          if fdone pre then
            (* inline; an exception propagates out of the constructor only through the library's own
               add_done_callback of library futures -- a plain stdlib future logs it *)
            Some (set_prog s t (IAcqL i d :: ICatch :: rest))
          else Some (set_prog (s <| ecbs := upd (ecbs s) d (ecbs s d ++ [i]) |>) t rest)
      | ICancelledQ i d' :: rest, 0 =>
          if negb (Nat.eqb d d') then None else
          match ck s with
          | KZip =>
              let '(dn, rem, store, sr, se, cn) := zip_update (cdone s) (remaining s) (view s d) in
              let s1 := log (s <| cdone := dn |> <| remaining := rem |>) (HSeen d (view s d)) in
              let s2 := if store then log (s1 <| slots := upd (slots s1) i (match oc_of s d with Ok v _ => Some v | _ => None end) |>)
                                         (HStore i (match oc_of s d with Ok v _ => v | _ => 0 end)) else s1 in
              let s3 := if cn || sr || se then log s2 (HDecide d (if cn then None else Some (oc_of s d))) else s2 in
              let post := (if cn then [ICancelOut] else []) ++
                          (if sr then [ISetOut (Ok 0 true)] else []) ++        (* the tuple of slots: value checked by slots *)
                          (if se then [ISetOut (oc_of s d)] else []) in
              Some (set_prog s3 t (IRelL :: post ++ rest))
          | k =>
              let '(dn, sr, se, cl) := match k with KOr => or_update (fsd s) out_id (view s d) | _ => and_update (fsd s) out_id (view s d) end in
              let s1 := log (s <| cdone := dn |>) (HSeen d (view s d)) in
              let s2 := if dn then log s1 (HDecide d (if fcancelled pre then None else Some (oc_of s d))) else s1 in
              let post := (if sr then [ISetOut (oc_of s d)] else []) ++ (if se then [ISetOut (oc_of s d)] else []) ++
                          map cancel_instr cl in
              (* OrOperation evaluates f.cancelled() a second time when its condition held through the
                 truthiness clause (inputs still remaining) *)
              let second := match k with
                            | KOr => negb (isnil (fsd s)) && dn
                            | _ => false
                            end in
              Some (set_prog s2 t ((if second then [ICancelledQ2 d] else []) ++ IRelL :: post ++ rest))
          end
      | ICancelledQ2 d' :: rest, 0 =>
          if Nat.eqb d d' then Some (set_prog s t rest) else None
      | ICancelIn d' :: rest, 2 =>
          if negb (Nat.eqb d d') then None else
          let '(n, b) := f_cancel pre in
          let s1 := log (s <| es := upd (es s) d n |>) (HCancelReq d pre) in
          if f_cancel_fires pre then Some (set_prog (s1 <| ecbs := upd (ecbs s1) d [] |>) t (in_fires s d rest))
          else Some (set_prog s1 t rest)
      | _, _ => None
      end
  | EEnvFinish t d pre o =>
      match thr s t with
      | [] => if negb (fstate_eqb pre (es s d)) then None else
              match f_set pre with
              | Some n => Some (log (set_prog (s <| es := upd (es s) d n |> <| eout := upd (eout s) d (Some o) |>
                                                 <| ecbs := upd (ecbs s) d [] |>) t (in_fires s d [])) (HEnvDone d o))
              | None => Some s
              end
      | _ => None
      end
  | EEnvCancel t d pre =>
      match thr s t with
      | [] => if negb (fstate_eqb pre (es s d)) then None else
              let '(n, b) := f_cancel pre in
              if f_cancel_fires pre then
                Some (log (set_prog (s <| es := upd (es s) d n |> <| ecbs := upd (ecbs s) d [] |>) t (in_fires s d [])) (HEnvCancel d))
              else Some (s <| es := upd (es s) d n |>)
      | _ => None
      end
  | EDied t => match thr s t with IDead :: _ => Some s | _ => None end
  end.

(* ---- wire ---------------------------------------------------------------------------------------- *)
Local Open Scope Z_scope.
Definition n (z : Z) : nat := Z.to_nat z.
Definition oc (k v tr : Z) : outcome := if Z.eqb k 0 then Ok (n v) (Z.eqb tr 1) else Err (n v).
Definition kind_of (z : Z) : ckind := match z with 0 => KOr | 1 => KAnd | _ => KZip end.
Definition decode (l : list Z) : option ev :=
  match l with
  | 0 :: t :: k :: ins => Some (ECallNew (n t) (kind_of k) (map n ins))
  | [1; t] => Some (ECallCancelOut (n t))
  | [7; t; c] => Some (ERet (n t) (n c))
  | [8; t] => Some (EAcqL (n t))
  | [9; t] => Some (ERelL (n t))
  | [10; t; op; p] => match fstate_of p with Some p => Some (EFO (n t) (n op) p) | None => None end
  | [11; t; op; d; p] => match fstate_of p with Some p => Some (EFI (n t) (n op) (n d) p) | None => None end
  | [21; t; d; p; k; v; tr] => match fstate_of p with Some p => Some (EEnvFinish (n t) (n d) p (oc k v tr)) | None => None end
  | [23; t; d; p] => match fstate_of p with Some p => Some (EEnvCancel (n t) (n d) p) | None => None end
  | [22; t] => Some (EDied (n t))
  | _ => None
  end.
Fixpoint decode_all (ls : list (list Z)) : option (list ev) :=
  match ls with
  | [] => Some []
  | l :: r => match decode l, decode_all r with Some e, Some es => Some (e :: es) | _, _ => None end
  end.
Definition accept (ls : list (list Z)) : list Z :=
  match decode_all ls with
  | None => [-2]
  | Some es => match first_reject step init es 0 with None => [-1] | Some i => [Z.of_nat i] end
  end.
