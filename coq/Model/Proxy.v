(* Python's special-method dispatch for operators and builtins over an abstract universe of values
   with arbitrary method tables, and the ProxyFuture method forms read off futures/proxy.py
   (Gen/ProxyGen.v).  Used by C17. *)
From Coq Require Import String List Bool Arith.
From ME Require Import Base.GenPrelude Gen.ProxyGen.
Import ListNotations.
Local Open Scope string_scope.

Section Dispatch.
  Variable val : Type.
  Inductive res := RVal (v : val) | RNotImpl | RExc (e : nat).
  Definition type_error : nat := 1.
  Definition attribute_error : nat := 2.

  (* special-method lookup on type(v), already bound to v *)
  Variable meth : val -> string -> option (list val -> res).

  (* binary operator protocol (operands of unrelated types: no subclass priority) *)
  Definition reflected (rop : string) (a b : val) : res :=
    match meth b rop with
    | Some g => match g [a] with RNotImpl => RExc type_error | r => r end
    | None => RExc type_error
    end.
  Definition binop (op rop : string) (a b : val) : res :=
    match meth a op with
    | Some f => match f [b] with RNotImpl => reflected rop a b | r => r end
    | None => reflected rop a b
    end.
  (* unary operators and builtins that call one special method (len, abs, iter, int, ...);
     post = the builtin's own check of the returned value *)
  Definition unop (op : string) (a : val) : res :=
    match meth a op with Some f => match f [] with RNotImpl => RExc type_error | r => r end | None => RExc type_error end.
  Definition builtin1 (post : res -> res) (op : string) (a : val) (args : list val) : res :=
    match meth a op with Some f => post (f args) | None => RExc type_error end.
  (* an explicit method call  v.__name__(args) *)
  Definition method_call (name : string) (a : val) (args : list val) : res :=
    match meth a name with Some f => f args | None => RExc attribute_error end.

  Lemma binop_never_notimpl op rop a b : binop op rop a b <> RNotImpl.
  Proof.
    unfold binop, reflected. destruct (meth a op) as [f|].
    - destruct (f [b]); try discriminate. destruct (meth b rop) as [g|]; [destruct (g [a])|]; discriminate.
    - destruct (meth b rop) as [g|]; [destruct (g [a])|]; discriminate.
  Qed.
  Lemma unop_never_notimpl op a : unop op a <> RNotImpl.
  Proof. unfold unop. destruct (meth a op) as [f|]; [destruct (f [])|]; discriminate. Qed.

  (* the proxy object p for the resolved value v: each forwarded dunder has one of the body forms *)
  Variable p v : val.

  (* FBinOp: body is `self.__result <op> other` *)
  Theorem binop_form_transparent op rop b :
    meth p op = Some (fun args => binop op rop v (hd v args)) ->
    binop op rop p b = binop op rop v b.
  Proof.
    intros H. unfold binop at 1. rewrite H. simpl.
    destruct (binop op rop v b) eqn:E; try reflexivity. exfalso; eapply binop_never_notimpl; eauto.
  Qed.

  (* FUnOp: body is `<op> self.__result` *)
  Theorem unop_form_transparent op :
    meth p op = Some (fun _ => unop op v) -> unop op p = unop op v.
  Proof.
    intros H. unfold unop at 1. rewrite H.
    destruct (unop op v) eqn:E; try reflexivity. exfalso; eapply unop_never_notimpl; eauto.
  Qed.

  (* FBuiltin: body is `builtin(self.__result, ...)`; the builtin's own check of the returned value
     is idempotent and passes exceptions through *)
  Theorem builtin_form_transparent post op args :
    (forall r, post (post r) = post r) -> (forall e, post (RExc e) = RExc e) ->
    meth p op = Some (fun a => builtin1 post op v a) ->
    builtin1 post op p args = builtin1 post op v args.
  Proof.
    intros Hp He H. unfold builtin1 at 1. rewrite H. unfold builtin1.
    destruct (meth v op); auto.
  Qed.

  (* item access / containment are single special-method calls too *)
  Theorem item_form_transparent op args :
    meth p op = Some (fun a => builtin1 (fun r => r) op v a) ->
    builtin1 (fun r => r) op p args = builtin1 (fun r => r) op v args.
  Proof. intros H. apply builtin_form_transparent; auto. Qed.
End Dispatch.

Arguments RVal {val} v.
Arguments RNotImpl {val}.
Arguments RExc {val} e.

(* An explicit dunder call in the body is NOT transparent: with an int-like and a float-like type
   (int.__truediv__(float) returns NotImplemented, float.__rtruediv__ handles ints only),
   `proxy / 2.0` raises TypeError although `3 / 2.0` has a value.  Values: 0 = the int 3,
   1 = the float 2.0, 2 = the proxy of 3, 3 = the quotient. *)
Definition w_base (y : nat) (n : string) : option (list nat -> res nat) :=
  match y, n with
  | 0, "__truediv__" => Some (fun a => match a with [0] => RVal 3 | _ => RNotImpl end)
  | 1, "__rtruediv__" => Some (fun a => match a with [0] => RVal 3 | _ => RNotImpl end)
  | _, _ => None
  end.
Definition w_meth (x : nat) (name : string) : option (list nat -> res nat) :=
  match x, name with
  | 2, "__truediv__" => Some (fun args => method_call nat w_base "__truediv__" 0 args)
  | _, _ => w_base x name
  end.
Theorem method_call_form_not_transparent :
  binop nat w_meth "__truediv__" "__rtruediv__" 0 1 = RVal 3 /\
  binop nat w_meth "__truediv__" "__rtruediv__" 2 1 = RExc type_error.
Proof. split; reflexivity. Qed.

(* ---- the table read off the source ---------------------------------------------------------------- *)
Definition transparent_form (f : pform) : bool :=
  match f with FBinOp _ | FUnOp _ | FBuiltin _ | FGetItem | FSetItem | FDelItem | FContains => true | _ => false end.
(* dunders no Python 3 operator or builtin ever looks up *)
Definition legacy (name : string) : bool := String.eqb name "__div__" || String.eqb name "__nonzero__".
Definition const_ok (name : string) (f : pform) : bool :=
  match f with FConst => String.eqb name "__bool__" || String.eqb name "__nonzero__" | _ => false end.
Definition entry_ok (e : string * pform) : bool :=
  let '(name, f) := e in transparent_form f || legacy name || const_ok name f.
Definition in_table (name : string) : bool := existsb (fun e => String.eqb (fst e) name) proxy_table.
(* operations that must NOT resolve the future: not forwarded at all (or constant) *)
Definition non_forwarded : list string :=
  ["__eq__"; "__ne__"; "__hash__"; "__repr__"; "__str__"; "__lt__"; "__le__"; "__gt__"; "__ge__"].
