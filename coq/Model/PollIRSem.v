(* The DATA meaning of the items of Model/PollIR.v: what each visible operation / thread-local write does to the shared state
   of Model/Poll.v (all fields except the thread programs, the clock and the ghost fields veto / owed / tok / cancelling / hist).
   [effs] folds the effects of the items an instruction stands for ([table]); Proofs/PollIR_Eff.v proves that this IS the state
   change of Poll.v's [step] for that instruction (step_effect).  Definitions only. *)
From Coq Require Import ZArith List Bool Arith.
From RecordUpdate Require Import RecordSet.
From ME Require Import Base.Machine Base.Fut Base.GenPrelude Model.Poll Model.PollIR.
Import ListNotations RecordSetNotations.

(* what the acting thread knows: its id, the future `self` / `future`, the descriptor value / result being set, the exception,
   and what the event reports: the pre-state of the stdlib Future it touches, the inline outcome of delegate.submit *)
Record actx := mkCtx { a_t : nat; a_j : nat; a_v : nat; a_e : nat; a_pre : fstate; a_inline : option outcome }.

Definition eff (c : actx) (it : item) (s : st) : st :=
  let t := a_t c in let j := a_j c in
  match it with
  | (OAcq LG, _) => s <| gown := Some t |>
  | (ORel LG, _) => s <| gown := None |>
  | (OAcq LX, _) => s <| xown := Some t |>
  | (ORel LX, _) => s <| xown := None |>
  | (OAcq LM, _) => s <| mown := upd (mown s) j (Some t) |>
  | (ORel LM, _) => s <| mown := upd (mown s) j None |>
  | (ODSubmit, _) => s <| nfut := S j |>
                       <| ds := upd (ds s) j (if issome (a_inline c) then Finished else Pending) |>
                       <| dout := upd (dout s) j (a_inline c) |> <| dcb := upd (dcb s) j false |>
  | (WFutInit, _) => s <| pcb := upd (pcb s) j false |>
  | (WSetDelegate, _) => s <| pdel := upd (pdel s) j true |>
  | (WSetExecutor, _) => s <| pexec := upd (pexec s) j true |>
  | (OAddCbD, 0) => s <| dcb := upd (dcb s) j true |>
  | (WCbAppend, _) => s <| pcb := upd (pcb s) j true |>
  | (WCbReset, _) => s <| pcb := upd (pcb s) j false |>
  | (WClrDelegate, _) => s <| pdel := upd (pdel s) j false |>
  | (WExecNone, _) => s <| pexec := upd (pexec s) j false |>
  | (WDescAppend, _) => s <| descs := descs s ++ [(j, a_v c)] |>
  | (WDescFilter, _) => s <| descs := remove_fut j (descs s) |>
  | (OEvSet, _) => s <| evf := true |> <| wnotif := issome (wblock s) || wnotif s |>
  | (OFCancel, 1) => s <| ps := upd (ps s) j (fst (f_cancel (a_pre c))) |>
  | (OFSrnc, _) => match f_srnc (a_pre c) with Some (n, _) => s <| ps := upd (ps s) j n |> | None => s end
  | (OFSetRes, 0) => match f_set (a_pre c) with
                     | Some n => s <| ps := upd (ps s) j n |> <| pout := upd (pout s) j (Some (Ok (a_v c))) |>
                     | None => s
                     end
  | (OFSetExc, 0) => match f_set (a_pre c) with
                     | Some n => s <| ps := upd (ps s) j n |> <| pout := upd (pout s) j (Some (Err (a_e c))) |>
                     | None => s
                     end
  | (ODCancel, 0) => s <| ds := upd (ds s) j (fst (f_cancel (a_pre c))) |>
  | (ODCancel, 1) => s <| ds := upd (ds s) j (fst (f_cancel (a_pre c))) |> <| dcb := upd (dcb s) j false |>
  | (ODCancel, _) => s <| ds := upd (ds s) j (fst (f_cancel (a_pre c))) |>
  | _ => s          (* tests, reads, local bindings, calls into user code, the API return: no shared field changes *)
  end.

Definition effs (c : actx) (its : list item) (s : st) : st := fold_left (fun s it => eff c it s) its s.

(* the items of alternative [alt] of instruction i; Poll.v clears pcb in the IRelMCbs step, the source after the callbacks loop *)
Definition items_of (i : instr) (alt : nat) : list item :=
  match find (fun pa => Nat.eqb (snd pa) alt) (table i) with
  | Some pa => fst pa ++ match i with IRelMCbs _ => [(WCbReset, 0)] | _ => [] end
  | None => []
  end.

(* the future an instruction is about (IDSubmit: the one being created), the value / exception it carries *)
Definition instr_j (nf : nat) (i : instr) : nat :=
  match i with
  | IAddCbD j | IDoneA j | IRetSubmit j | IAcqM j | IAcqMClr j | IRelM j | IRelMCbs j | ICancelled j | IDoneC j | IDCancel j
  | ICancelFnQ j | IUserCancelFn j _ | IFCancel j | IFSrnc j | IDCancelledQ j | IXAcqReg j _ | IXDereg j | IDoneS j _
  | IDoneX j _ | IFSetRes j _ | IFSetExc j _ => j
  | IRetEnv d => d
  | _ => nf
  end.
Definition instr_v (i : instr) : nat :=
  match i with IXAcqReg _ v | IDoneS _ v | IFSetRes _ v | IUserCancelFn _ v => v | _ => 0 end.
Definition instr_e (i : instr) : nat :=
  match i with IDoneX _ e | IFSetExc _ e => e | _ => 0 end.
Definition ev_pre (e : ev) : fstate := match e with EFP _ _ _ p | EFD _ _ _ p => p | _ => Pending end.
Definition ev_inline (e : ev) : option outcome := match e with EDSubmit _ _ o => o | _ => None end.

(* equality of the shared (non-ghost, non-program) fields *)
Definition data_eq (a b : st) : Prop :=
  cfgd a = cfgd b /\ hascfn a = hascfn b /\ dflt a = dflt b /\ nfut a = nfut b /\ ps a = ps b /\ pout a = pout b /\
  pdel a = pdel b /\ pexec a = pexec b /\ pcb a = pcb b /\ ds a = ds b /\ dout a = dout b /\ dcb a = dcb b /\
  descs a = descs b /\ mown a = mown b /\ xown a = xown b /\ gown a = gown b /\ evf a = evf b /\ wblock a = wblock b /\
  wnotif a = wnotif b /\ pmode a = pmode b.

(* ---- when are the items of an instruction ENABLED, at the level of the items (no reference to [step]) ------------------- *)
(* the visible item against the event that reports it: same thread, same object, the lock is free / held by the thread, the
   reported pre-state is the object's state, and the item's answer is the one that pre-state gives.
   [capi]: the thread is inside cancel() (its return is reported as 1 + value), else inside submit() / notify() *)
Definition fopt_code (o : option fstate) : nat := match o with Some _ => 0 | None => 1 end.
Definition vis_enabled (c : actx) (capi : bool) (it : item) (e : ev) (s : st) : bool :=
  let t := a_t c in let j := a_j c in
  match it, e with
  | (OAcq LG, _), EGAcq t' => Nat.eqb t t' && isnone (gown s)
  | (ORel LG, _), EGRel t' => Nat.eqb t t' && match gown s with Some o => Nat.eqb t o | None => false end
  | (OAcq LX, _), EXAcq t' | (OAcq LX, _), EXSec t' => Nat.eqb t t' && isnone (xown s)
  | (ORel LX, _), EXRel t' => Nat.eqb t t' && match xown s with Some o => Nat.eqb t o | None => false end
  | (OAcq LM, _), EAcqM t' j' => Nat.eqb t t' && Nat.eqb j j' && isnone (mown s j)
  | (ORel LM, _), ERelM t' j' => Nat.eqb t t' && Nat.eqb j j' && match mown s j with Some o => Nat.eqb t o | None => false end
  | (ODSubmit, _), EDSubmit t' d _ => Nat.eqb t t' && Nat.eqb d (nfut s)
  | (OEvSet, _), EEvSet t' => Nat.eqb t t'
  | (OApiRet, a), ERet t' code => Nat.eqb t t' && Nat.eqb code (if capi then S a else 0)
  | (OAddCbD, a), EFD t' 5 d pre => Nat.eqb t t' && Nat.eqb j d && fstate_eqb pre (ds s j) && Nat.eqb a (b2n (fdone pre))
  | (ODCancelled, a), EFD t' 0 d pre => Nat.eqb t t' && Nat.eqb j d && fstate_eqb pre (ds s j) && Nat.eqb a (b2n (fcancelled pre))
  | (ODCancel, a), EFD t' 2 d pre =>
      Nat.eqb t t' && Nat.eqb j d && fstate_eqb pre (ds s j) &&
      Nat.eqb a (if snd (f_cancel pre) then (if f_cancel_fires pre && dcb s j then 1 else 2) else 0)
  | (OFCancelled, a), EFP t' 0 j' pre => Nat.eqb t t' && Nat.eqb j j' && fstate_eqb pre (ps s j) && Nat.eqb a (b2n (fcancelled pre))
  | (OFDone, a), EFP t' 1 j' pre => Nat.eqb t t' && Nat.eqb j j' && fstate_eqb pre (ps s j) && Nat.eqb a (b2n (fdone pre))
  | (OFCancel, a), EFP t' 2 j' pre => Nat.eqb t t' && Nat.eqb j j' && fstate_eqb pre (ps s j) && Nat.eqb a (b2n (snd (f_cancel pre)))
  | (OFSrnc, _), EFP t' 3 j' pre => Nat.eqb t t' && Nat.eqb j j' && fstate_eqb pre (ps s j) && issome (f_srnc pre)
  | (OFSetRes, a), EFP t' 4 j' pre => Nat.eqb t t' && Nat.eqb j j' && fstate_eqb pre (ps s j) && Nat.eqb a (fopt_code (f_set pre))
  | (OFSetExc, a), EFP t' 6 j' pre => Nat.eqb t t' && Nat.eqb j j' && fstate_eqb pre (ps s j) && Nat.eqb a (fopt_code (f_set pre))
  | (OUserCancelFn, a), ECancelFn t' v ans => Nat.eqb t t' && Nat.eqb v (a_v c) && Nat.eqb a ans && (ans <? 3)
  | _, _ => false
  end.

(* the answers of the thread-local reads, from the shared state (None: not a read / no constraint) *)
Definition ranswer (c : actx) (s : st) (o : op) : option nat :=
  let j := a_j c in
  match o with
  | RGateShut => Some 0                              (* shutdown() is not part of Model/Poll.v *)
  | RDelegate => Some (b2n (pdel s j))
  | RExecutor => Some (b2n (pexec s j))
  | RHasCfn => Some (b2n (hascfn s))
  | RScanDescs => Some (b2n (issome (lookup j (descs s))))
  | RDExc => Some (match dout s j with Some (Err _) => 1 | Some (Ok _) => 0 | None => 2 end)
  | RCbList => Some (b2n (pcb s j))
  | _ => None
  end.
Definition reads_ok (c : actx) (s : st) (its : list item) : bool :=
  forallb (fun it => match ranswer c s (fst it) with Some a => Nat.eqb a (snd it) | None => true end) its.
