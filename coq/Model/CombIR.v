(* A small imperative IR for the combinator operations of futures/bool.py (BoolOperation.__init__ / handle_done,
   the f_or / f_and wrappers), futures/zip.py (Zipper.__init__ / handle_done, the f_zip wrapper) and futures/base.py
   (chain_cancel with its lambda, notify_cancel), and its INTERLEAVING semantics over the event alphabet of
   Model/Comb.v.

   The programs are not written here: tools/comb2coq.py regenerates them from the Python AST on every check run
   (coq/Gen/CombSkel.v).  What is trusted in place of the hand-written instruction lists of Comb.v is (a) the
   translator's vocabulary (Python statement text -> IR statement) and (b) the statement-by-statement semantics below.
   The decision kernels (OrOperation / AndOperation.get_state_update, the if-chain of Zipper.handle_done) are the
   regenerated Gen/BoolGen.v / Gen/ZipGen.v functions: SBoolKernel / SZipKernel CALL them.

   Conventions (DESIGN.md section 3): an atomic step is ONE visible operation of a thread followed by that thread's
   silent code up to its next visible operation.  Visible: acquisition / release of the operation lock, every stdlib
   Future method on the output or on an input (cancelled, cancel, add_done_callback, set_result, set_exception,
   set_running_or_notify_cancel), the return of an API call.  Silent: tests on locals and on self.done (made under the
   lock), dict / list / counter updates (made under the lock or in the constructor before any callback is registered),
   entry into and exit from a call.

   A thread is a STACK OF FRAMES, one per function activation that has its own locals: the API call at the bottom, and
   on top of it the done-callbacks that the thread is running inline (a future that becomes done - or is already done
   at add_done_callback - runs its callbacks in the thread that completed it; each callback is called inside
   try/except Exception by the stdlib, so a callback frame that ends, normally or not, is followed by the next frame).
   The frames pushed by one completion are pushed together, first callback on top.

   Definitions only. *)
From Coq Require Import ZArith List Bool Arith.
From RecordUpdate Require Import RecordSet.
From ME Require Import Base.Machine Base.Fut Base.GenPrelude Gen.BoolGen Gen.ZipGen Model.Comb.
Import ListNotations RecordSetNotations.

(* ---- syntax ----------------------------------------------------------------------------------- *)
Inductive cbk := CbNotify | CbChain.
Inductive lvar := LSetResult | LSetException | LCancel.

Inductive cond :=
| CDone                        (* self.done *)
| CLocal (v : lvar)            (* set_result / set_exception / cancel *)
| CNoRest                      (* `not fs` in f_or(f, *fs) / f_and(f, *fs): a single argument *)
| CNoArgs.                     (* `not fs` in f_zip( *fs): no argument *)

Inductive rexpr :=
| ENone
| EFirst                       (* f: the first (only) argument *)
| EOut                         (* oper.out / Zipper(fs).out *)
| EUnitFuture.                 (* f_return(maketuple([])) *)

Inductive stmt :=
| SWith (body : list stmt)                 (* with self.lock: *)
| SIf (c : cond) (th el : list stmt)
| SIfOutCancelled (th el : list stmt)      (* `if f.cancelled():` / `X if f.cancelled() else False` in a done-callback of the output: visible *)
| SReturn (v : rexpr)
| SPass
| SAssignBool (x : lvar) (b : bool)        (* set_result = False ... *)
| SAssignCfEmpty                           (* cancel_futures = set() *)
| SConstruct                               (* OrOperation(...) / AndOperation(...) / Zipper(fs): __init__ inlined *)
| SFsNewDict                               (* self.fs = {} *)
| SFsFill                                  (* for f in fs: self.fs[f] = True *)
| SFsInitList                              (* self.fs = list(fs) *)
| SCountInit                               (* self.count_remaining = len(self.fs) *)
| SDoneInit                                (* self.done = False *)
| SLockInit                                (* self.lock = Lock() *)
| SOutInit                                 (* self.out = Future() *)
| SOutAddCb (c : cbk)                      (* self.out.add_done_callback(notify_cancel) / chain_cancel(self.out, f) inlined *)
| SForInputs (body : list stmt)            (* for f in fs: / for (idx, future) in enumerate(self.fs): *)
| SInAddCbHandle                           (* f.add_done_callback(weak_callback(self.handle_done [partial ..., idx])) *)
| SFsPop                                   (* self.fs.pop(f, None) *)
| SBoolKernel                              (* (set_result, set_exception, cancel_futures) = self.get_state_update(f) *)
| SZipKernel                               (* the elif-chain of Zipper.handle_done under the lock *)
| STrySetResultF                           (* try_set_result(self.out, f.result()) *)
| STrySetResultTuple                       (* try_set_result(self.out, maketuple(self.fs)) *)
| SCopyExc                                 (* copy_future_exception(f, self.out) *)
| SOutCancel                               (* self.out.cancel() *)
| SForCancel                               (* for to_cancel in cancel_futures: to_cancel.cancel() *)
| SCancelInner                             (* f_inner.cancel() *)
| STryPass (body : list stmt)              (* try: body / except RuntimeError: pass *)
| SSrnc                                    (* f.set_running_or_notify_cancel() *)
| SClientCancel.                           (* the caller's  r = out.cancel()  (harness; not library code) *)

(* continuation items of one frame *)
Inductive item :=
| IS (s : stmt)
| KRel                         (* end of the with-block: release *)
| KEndCall                     (* end of the inlined __init__ *)
| KFor (i : nat) (body : list stmt)   (* the loop over the argument positions: next position i *)
| KKernel2                     (* OrOperation.get_state_update: its second f.cancelled() *)
| KCatch                       (* end of try ... except RuntimeError: pass *)
| KRet.                        (* bottom of an API call: return to the caller *)

Inductive value := RNone | RIn (d : nat) | ROut | RUnit | RBool (b : bool).

Record locals := mkLv {
  l_f : nat;                     (* f (handle_done, the loops) : an input future *)
  l_idx : nat;                   (* index / idx; for the chain_cancel lambda: the position of f_inner *)
  l_sr : bool; l_se : bool;      (* set_result, set_exception *)
  l_cf : list nat;               (* cancel_futures: what is left of it *)
  l_cancel : bool;               (* cancel *)
  l_ret : value
}.
Definition lv0 : locals := mkLv 0 0 false false [] false RNone.
Definition lv_cb (i d : nat) : locals := mkLv d i false false [] false RNone.

Definition frame := (list item * locals)%type.

(* what is shared: the fields of Comb.st except the threads *)
Record shared := mkSh {
  ick : ckind;
  iinputs : list nat;
  ifsd : list nat;
  islots : nat -> option nat;
  iremaining : Z;
  icdone : bool;
  ilown : option nat;
  ios : fstate; ioout : option outcome;
  iocbs : list nat;
  ies : nat -> fstate; ieout : nat -> option outcome;
  iecbs : nat -> list nat;
  ibuilt : bool;
  iready : bool;
  ihist : list hev
}.
#[export] Instance eta_shared : Settable _ := settable! mkSh
  <ick; iinputs; ifsd; islots; iremaining; icdone; ilown; ios; ioout; iocbs; ies; ieout; iecbs; ibuilt; iready; ihist>.

Record ist := mkI { sh : shared; ithr : nat -> list frame }.

Definition sh0 : shared :=
  mkSh KOr [] [] (fun _ => None) 0 false None Pending None [] (fun _ => Pending) (fun _ => None) (fun _ => [])
       false false [].
Definition iinit : ist := mkI sh0 (fun _ => []).

Definition ilog (h : shared) (e : hev) : shared := h <| ihist := e :: ihist h |>.
Definition iinput_at (h : shared) (i : nat) : nat := nth i (iinputs h) 0.
Definition iview (h : shared) (d : nat) : fview :=
  {| v_cancelled := fcancelled (ies h d);
     v_failed := match ieout h d with Some (Err _) => true | _ => false end;
     v_truthy := match ieout h d with Some (Ok _ t) => t | _ => false end |}.
Definition ioc_of (h : shared) (d : nat) : outcome := match ieout h d with Some o => o | None => Ok 0 false end.

(* ---- locals ------------------------------------------------------------------------------------ *)
Definition set_ret (lv : locals) (v : value) : locals :=
  mkLv (l_f lv) (l_idx lv) (l_sr lv) (l_se lv) (l_cf lv) (l_cancel lv) v.
Definition set_lvar (lv : locals) (x : lvar) (b : bool) : locals :=
  match x with
  | LSetResult => mkLv (l_f lv) (l_idx lv) b (l_se lv) (l_cf lv) (l_cancel lv) (l_ret lv)
  | LSetException => mkLv (l_f lv) (l_idx lv) (l_sr lv) b (l_cf lv) (l_cancel lv) (l_ret lv)
  | LCancel => mkLv (l_f lv) (l_idx lv) (l_sr lv) (l_se lv) (l_cf lv) b (l_ret lv)
  end.
Definition get_lvar (lv : locals) (x : lvar) : bool :=
  match x with LSetResult => l_sr lv | LSetException => l_se lv | LCancel => l_cancel lv end.
Definition set_cf (lv : locals) (l : list nat) : locals :=
  mkLv (l_f lv) (l_idx lv) (l_sr lv) (l_se lv) l (l_cancel lv) (l_ret lv).
Definition set_pos (lv : locals) (i d : nat) : locals :=
  mkLv d i (l_sr lv) (l_se lv) (l_cf lv) (l_cancel lv) (l_ret lv).
Definition set_decision (lv : locals) (sr se : bool) (cf : list nat) : locals :=
  mkLv (l_f lv) (l_idx lv) sr se cf (l_cancel lv) (l_ret lv).
Definition set_zip_decision (lv : locals) (sr se cn : bool) : locals :=
  mkLv (l_f lv) (l_idx lv) sr se (l_cf lv) cn (l_ret lv).

(* ---- silent steps of one frame ------------------------------------------------------------------ *)
Definition eval_cond (c : cond) (h : shared) (lv : locals) : bool :=
  match c with
  | CDone => icdone h
  | CLocal x => get_lvar lv x
  | CNoRest => length (iinputs h) <=? 1
  | CNoArgs => isnil (iinputs h)
  end.

Definition eval_rexpr (v : rexpr) (h : shared) : value :=
  match v with
  | ENone => RNone
  | EFirst => RIn (iinput_at h 0)
  | EOut => ROut
  | EUnitFuture => RUnit
  end.

(* return: leave the enclosing with-block (its release stays to be done) up to the boundary of the inlined
   constructor, or to the bottom of the API call; in a callback frame: to the end of the frame *)
Fixpoint unwind_ret (k : list item) : list item :=
  match k with
  | [] => []
  | KRel :: r => KRel :: unwind_ret r
  | KEndCall :: r => r
  | KRet :: _ => [KRet]
  | _ :: r => unwind_ret r
  end.
(* raise (RuntimeError out of set_running_or_notify_cancel): up to the except clause of the enclosing try; a
   callback frame without one ends (the stdlib's callback runner catches and logs).  [srnc_guarded] below checks that
   the generated programs only raise inside a try. *)
Fixpoint unwind_exc (k : list item) : list item :=
  match k with
  | [] => []
  | KRel :: r => KRel :: unwind_exc r
  | KCatch :: r => r
  | _ :: r => unwind_exc r
  end.

Section Sem.
  (* the generated programs *)
  Variables or_wrapper and_wrapper zip_wrapper : list stmt.
  Variables bool_init zip_init : list stmt.
  Variables bool_handle zip_handle : list stmt.
  Variables chain_cb notify_cb : list stmt.

  Definition wrapper_of (k : ckind) : list stmt :=
    match k with KOr => or_wrapper | KAnd => and_wrapper | KZip => zip_wrapper end.
  Definition init_of (k : ckind) : list stmt := match k with KZip => zip_init | _ => bool_init end.
  Definition handle_of (k : ckind) : list stmt := match k with KZip => zip_handle | _ => bool_handle end.
  (* the caller's  r = out.cancel(); return r  *)
  Definition client_cancel : list stmt := [SClientCancel].

  (* None: the head of the continuation is a visible operation (or the frame has ended) *)
  Definition sstep (h : shared) (k : list item) (lv : locals) : option (shared * list item * locals) :=
    match k with
    | IS (SIf c th el) :: r => Some (h, map IS (if eval_cond c h lv then th else el) ++ r, lv)
    | IS (SReturn v) :: r => Some (h, unwind_ret r, set_ret lv (eval_rexpr v h))
    | IS SPass :: r => Some (h, r, lv)
    | IS (SAssignBool x b) :: r => Some (h, r, set_lvar lv x b)
    | IS SAssignCfEmpty :: r => Some (h, r, set_cf lv [])
    | IS SConstruct :: r => Some (h, map IS (init_of (ick h)) ++ KEndCall :: r, lv)
    | KEndCall :: r => Some (h, r, lv)
    | IS SFsNewDict :: r => Some (h <| ifsd := [] |>, r, lv)
    | IS SFsFill :: r => Some (h <| ifsd := dedup (ifsd h ++ iinputs h) |>, r, lv)
    (* the fresh list of futures / flag / lock / output future are the machine's initial state *)
    | IS SFsInitList :: r => Some (h, r, lv)
    | IS SDoneInit :: r => Some (h, r, lv)
    | IS SLockInit :: r => Some (h, r, lv)
    | IS SOutInit :: r => Some (h, r, lv)
    | IS SCountInit :: r => Some (h <| iremaining := Z.of_nat (length (iinputs h)) |>, r, lv)
    | IS (SForInputs body) :: r => Some (h, KFor 0 body :: r, lv)
    | KFor i body :: r =>
        if i <? length (iinputs h) then Some (h, map IS body ++ KFor (S i) body :: r, set_pos lv i (iinput_at h i))
        else Some (h, r, lv)
    | IS SFsPop :: r => Some (h <| ifsd := remove_id (l_f lv) (ifsd h) |>, r, lv)
    | IS SForCancel :: r => match l_cf lv with [] => Some (h, r, lv) | _ :: _ => None end
    | IS (STryPass body) :: r => Some (h, map IS body ++ KCatch :: r, lv)
    | KCatch :: r => Some (h, r, lv)
    | _ => None
    end.

  Fixpoint srun (fuel : nat) (h : shared) (k : list item) (lv : locals) : shared * list item * locals :=
    match fuel with
    | 0 => (h, k, lv)
    | S n => match sstep h k lv with Some (h', k', lv') => srun n h' k' lv' | None => (h, k, lv) end
    end.
  Definition FUEL := 32.

  (* run the top frame's silent code up to its next visible operation; a frame that has ended is left and the
     frame below continues (structural recursion on the stack) *)
  Fixpoint settle (h : shared) (st : list frame) : shared * list frame :=
    match st with
    | [] => (h, [])
    | (k, lv) :: rest =>
        match srun FUEL h k lv with
        | (h', [], _) => settle h' rest
        | (h', k', lv') => (h', (k', lv') :: rest)
        end
    end.

  (* ---- callbacks -------------------------------------------------------------------------------- *)
  Inductive clo := CloNotify | CloChain (i : nat) | CloHandle (i d : nat).
  Definition frame_of (k : ckind) (c : clo) : frame :=
    match c with
    | CloNotify => (map IS notify_cb, lv0)
    | CloChain i => (map IS chain_cb, lv_cb i 0)
    | CloHandle i d => (map IS (handle_of k), lv_cb i d)
    end.
  Definition out_clos (h : shared) : list clo :=
    map (fun i => if Nat.eqb i notify_id then CloNotify else CloChain i) (iocbs h).
  Definition in_clos (h : shared) (d : nat) : list clo := map (fun i => CloHandle i d) (iecbs h d).

  (* ---- visible steps ---------------------------------------------------------------------------- *)
  (* result: new shared state, callbacks to run inline now, rest of this frame *)
  Definition vres := option (shared * list clo * list item * locals)%type.

  Definition cancel_input (h : shared) (d : nat) (pre : fstate) (r : list item) (lv : locals) : vres :=
    let '(n, b) := f_cancel pre in
    let h1 := ilog (h <| ies := upd (ies h) d n |>) (HCancelReq d pre) in
    if f_cancel_fires pre then Some (h1 <| iecbs := upd (iecbs h1) d [] |>, in_clos h d, r, lv)
    else Some (h1, [], r, lv).

  Definition cancel_out (h : shared) (pre : fstate) (r : list item) (lv : locals) : vres :=
    let '(n, b) := f_cancel pre in
    let h1 := h <| ios := n |> in
    if f_cancel_fires pre then Some (ilog (h1 <| iocbs := [] |>) HOutCancelled, out_clos h, r, lv)
    else Some (h1, [], r, lv).

  (* try_set_result / copy_future_exception: InvalidStateError is swallowed *)
  Definition set_out (h : shared) (o : outcome) (pre : fstate) (r : list item) (lv : locals) : vres :=
    match f_set pre with
    | Some n => Some (ilog (h <| ios := n |> <| ioout := Some o |> <| iocbs := [] |>) (HSetOut o), out_clos h, r, lv)
    | None => Some (ilog h HSetLost, [], r, lv)
    end.

  Definition is_set_op (op : nat) : bool := Nat.eqb op 4 || Nat.eqb op 6.

  Definition vstep (h : shared) (t : nat) (k : list item) (lv : locals) (e : ev) : vres :=
    match k, e with
    | IS (SWith body) :: r, EAcqL _ =>
        if isnone (ilown h) then Some (h <| ilown := Some t |>, [], map IS body ++ KRel :: r, lv) else None
    | KRel :: r, ERelL _ =>
        match ilown h with
        | Some t' => if Nat.eqb t t' then Some (h <| ilown := None |>, [], r, lv) else None
        | None => None
        end
    | IS (SOutAddCb c) :: r, EFO _ 5 pre =>
        if negb (fstate_eqb pre (ios h)) then None else
        match c with
        | CbNotify =>   (* the output was created a moment ago: it is not done *)
            if fdone pre then None else Some (h <| iocbs := iocbs h ++ [notify_id] |>, [], r, lv)
        | CbChain =>
            if fdone pre then Some (h, [CloChain (l_idx lv)], r, lv)
            else Some (h <| iocbs := iocbs h ++ [l_idx lv] |>, [], r, lv)
        end
    | IS SInAddCbHandle :: r, EFI _ 5 d pre =>
        if negb (fstate_eqb pre (ies h d)) || negb (Nat.eqb d (l_f lv)) then None else
        if fdone pre then Some (h, [CloHandle (l_idx lv) d], r, lv)
        else Some (h <| iecbs := upd (iecbs h) d (iecbs h d ++ [l_idx lv]) |>, [], r, lv)
    | IS (SIfOutCancelled th el) :: r, EFO _ 0 pre =>
        if negb (fstate_eqb pre (ios h)) then None else
        Some (h, [], map IS (if fcancelled pre then th else el) ++ r, lv)
    | IS SSrnc :: r, EFO _ 3 pre =>
        if negb (fstate_eqb pre (ios h)) then None else
        match f_srnc pre with
        | Some (n, _) => Some (h <| ios := n |>, [], r, lv)
        | None => Some (h, [], unwind_exc r, lv)               (* RuntimeError *)
        end
    | IS SCancelInner :: r, EFI _ 2 d pre =>
        if negb (fstate_eqb pre (ies h d)) || negb (Nat.eqb d (iinput_at h (l_idx lv))) then None else
        cancel_input h d pre r lv
    | IS SOutCancel :: r, EFO _ 2 pre =>
        if negb (fstate_eqb pre (ios h)) then None else cancel_out h pre r lv
    | IS SClientCancel :: r, EFO _ 2 pre =>
        if negb (fstate_eqb pre (ios h)) then None else
        cancel_out h pre r (set_ret lv (RBool (snd (f_cancel pre))))
    | IS SForCancel :: r, EFI _ 2 d pre =>
        match l_cf lv with
        | x :: cf =>
            if negb (fstate_eqb pre (ies h d)) || Nat.eqb x out_id || negb (Nat.eqb d x) then None else
            cancel_input h d pre (IS SForCancel :: r) (set_cf lv cf)
        | [] => None
        end
    | IS SForCancel :: r, EFO _ 2 pre =>
        match l_cf lv with
        | x :: cf =>
            if negb (fstate_eqb pre (ios h)) || negb (Nat.eqb x out_id) then None else
            cancel_out h pre (IS SForCancel :: r) (set_cf lv cf)
        | [] => None
        end
    | IS STrySetResultF :: r, EFO _ op pre =>
        if negb (fstate_eqb pre (ios h)) || negb (is_set_op op) then None else set_out h (ioc_of h (l_f lv)) pre r lv
    | IS SCopyExc :: r, EFO _ op pre =>
        if negb (fstate_eqb pre (ios h)) || negb (is_set_op op) then None else set_out h (ioc_of h (l_f lv)) pre r lv
    | IS STrySetResultTuple :: r, EFO _ op pre =>     (* the tuple of slots: value checked through islots *)
        if negb (fstate_eqb pre (ios h)) || negb (is_set_op op) then None else set_out h (Ok 0 true) pre r lv
    | IS SBoolKernel :: r, EFI _ 0 d pre =>
        if negb (fstate_eqb pre (ies h d)) || negb (Nat.eqb d (l_f lv)) then None else
        let '(dn, sr, se, cl) := match ick h with
                                 | KOr => or_update (ifsd h) out_id (iview h d)
                                 | _ => and_update (ifsd h) out_id (iview h d)
                                 end in
        let h1 := ilog (h <| icdone := dn |>) (HSeen d (iview h d)) in
        let h2 := if dn then ilog h1 (HDecide d (if fcancelled pre then None else Some (ioc_of h d))) else h1 in
        (* OrOperation evaluates f.cancelled() a second time when its condition held with inputs remaining *)
        let second := match ick h with KOr => negb (isnil (ifsd h)) && dn | _ => false end in
        Some (h2, [], (if second then [KKernel2] else []) ++ r, set_decision lv sr se cl)
    | KKernel2 :: r, EFI _ 0 d pre =>
        if negb (fstate_eqb pre (ies h d)) || negb (Nat.eqb d (l_f lv)) then None else Some (h, [], r, lv)
    | IS SZipKernel :: r, EFI _ 0 d pre =>
        if negb (fstate_eqb pre (ies h d)) || negb (Nat.eqb d (l_f lv)) then None else
        let '(dn, rem, store, sr, se, cn) := zip_update (icdone h) (iremaining h) (iview h d) in
        let h1 := ilog (h <| icdone := dn |> <| iremaining := rem |>) (HSeen d (iview h d)) in
        let h2 := if store
                  then ilog (h1 <| islots := upd (islots h1) (l_idx lv) (match ioc_of h d with Ok v _ => Some v | _ => None end) |>)
                            (HStore (l_idx lv) (match ioc_of h d with Ok v _ => v | _ => 0 end))
                  else h1 in
        let h3 := if cn || sr || se then ilog h2 (HDecide d (if cn then None else Some (ioc_of h d))) else h2 in
        Some (h3, [], r, set_zip_decision lv sr se cn)
    | KRet :: r, ERet _ code =>
        match l_ret lv with
        | ROut => if Nat.eqb code 0 then Some (h <| iready := true |>, [], r, lv) else None
        | RBool b => if Nat.eqb code (if b then 2 else 1) then Some (h, [], r, lv) else None
        | _ => if Nat.eqb code 0 then Some (h, [], r, lv) else None
        end
    | _, _ => None
    end.

  Definition thread_of (e : ev) : option nat :=
    match e with
    | ERet t _ | EAcqL t | ERelL t | EFO t _ _ | EFI t _ _ _ => Some t
    | _ => None
    end.

  (* thread t's stack becomes st: run its silent code *)
  Definition resume (h : shared) (thr : nat -> list frame) (t : nat) (st : list frame) : ist :=
    match settle h st with (h', st') => mkI h' (upd thr t st') end.

  (* ECallNew stands for a call of f_or / f_and / f_zip that CONSTRUCTS an operation: f_or / f_and with one argument
     return that argument and f_zip() returns f_return(()) without constructing anything (the `not fs` shortcuts of
     the generated wrappers; [single_input_returns_it] in Proofs/CombIR_Sim.v); such calls have no event. *)
  Definition call_ok (k : ckind) (ins : list nat) : bool :=
    match k with KZip => negb (isnil ins) | _ => 2 <=? length ins end.

  Definition istep (s : ist) (e : ev) : option ist :=
    let h := sh s in
    match e with
    | ECallNew t k ins =>
        match ithr s t with
        | [] => if ibuilt h || negb (call_ok k ins) then None else
                Some (resume (h <| ick := k |> <| iinputs := ins |> <| ibuilt := true |>) (ithr s) t
                             [(map IS (wrapper_of k) ++ [KRet], lv0)])
        | _ => None
        end
    | ECallCancelOut t =>
        match ithr s t with
        | [] => if iready h then Some (resume h (ithr s) t [(map IS client_cancel ++ [KRet], lv0)]) else None
        | _ => None
        end
    | EEnvFinish t d pre o =>
        match ithr s t with
        | [] => if negb (fstate_eqb pre (ies h d)) then None else
                match f_set pre with
                | Some n => Some (resume (ilog (h <| ies := upd (ies h) d n |> <| ieout := upd (ieout h) d (Some o) |>
                                                  <| iecbs := upd (iecbs h) d [] |>) (HEnvDone d o))
                                         (ithr s) t (map (frame_of (ick h)) (in_clos h d)))
                | None => Some s
                end
        | _ => None
        end
    | EEnvCancel t d pre =>
        match ithr s t with
        | [] => if negb (fstate_eqb pre (ies h d)) then None else
                let '(n, b) := f_cancel pre in
                if f_cancel_fires pre then
                  Some (resume (ilog (h <| ies := upd (ies h) d n |> <| iecbs := upd (iecbs h) d [] |>) (HEnvCancel d))
                               (ithr s) t (map (frame_of (ick h)) (in_clos h d)))
                else Some (mkI (h <| ies := upd (ies h) d n |>) (ithr s))
        | _ => None
        end
    | EDied _ => None                (* no thread of the generated programs dies *)
    | _ =>
        match thread_of e with
        | Some t =>
            match ithr s t with
            | (k, lv) :: st =>
                match vstep h t k lv e with
                | Some (h', cl, k', lv') => Some (resume h' (ithr s) t (map (frame_of (ick h')) cl ++ (k', lv') :: st))
                | None => None
                end
            | [] => None
            end
        | None => None
        end
    end.
End Sem.

(* ---- static checks on the generated programs (kernel-evaluated in Proofs/CombIR_Sim.v) ----------- *)
(* every set_running_or_notify_cancel() sits inside a try ... except RuntimeError *)
Fixpoint srnc_guarded_stmts (fuel : nat) (guarded : bool) (p : list stmt) : bool :=
  match fuel with
  | 0 => false
  | S n =>
      forallb (fun s =>
        match s with
        | SSrnc => guarded
        | SWith b => srnc_guarded_stmts n guarded b
        | SIf _ th el => srnc_guarded_stmts n guarded th && srnc_guarded_stmts n guarded el
        | SIfOutCancelled th el => srnc_guarded_stmts n guarded th && srnc_guarded_stmts n guarded el
        | SForInputs b => srnc_guarded_stmts n guarded b
        | STryPass b => srnc_guarded_stmts n true b
        | _ => true
        end) p
  end.
Definition srnc_guarded (p : list stmt) : bool := srnc_guarded_stmts 16 false p.

(* the operation lock is a plain Lock: no with-block inside a with-block *)
Fixpoint no_nested_with_stmts (fuel : nat) (held : bool) (p : list stmt) : bool :=
  match fuel with
  | 0 => false
  | S n =>
      forallb (fun s =>
        match s with
        | SWith b => negb held && no_nested_with_stmts n true b
        | SIf _ th el => no_nested_with_stmts n held th && no_nested_with_stmts n held el
        | SIfOutCancelled th el => no_nested_with_stmts n held th && no_nested_with_stmts n held el
        | SForInputs b => no_nested_with_stmts n held b
        | STryPass b => no_nested_with_stmts n held b
        (* statements that complete a future run callbacks inline; these may take the lock *)
        | STrySetResultF | STrySetResultTuple | SCopyExc | SOutCancel | SForCancel | SCancelInner | SInAddCbHandle
        | SOutAddCb _ | SClientCancel => negb held
        | _ => true
        end) p
  end.
Definition lock_discipline (p : list stmt) : bool := no_nested_with_stmts 16 false p.

(* verdict for a wire trace (same wire format and verdict codes as Comb.accept) *)
Definition iaccept (step : ist -> ev -> option ist) (ls : list (list BinNums.Z)) : list BinNums.Z :=
  match decode_all ls with
  | None => [(-2)%Z]
  | Some es => match first_reject step iinit es 0 with
               | None => [(-1)%Z]
               | Some i => [BinInt.Z.of_nat i] end
  end.
