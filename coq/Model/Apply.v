(* f_apply (futures/apply.py): currying one argument at a time through fn_runner; the insertion
   index is read off the source (Gen/ApplyGen.v).  Pure model + proof of the argument-order law. *)
From Coq Require Import List String Bool Arith Lia.
From ME Require Import Base.GenPrelude Gen.ApplyGen.
Import ListNotations.

Section Apply.
  Variable val res : Type.
  Inductive key := KPos | KKw (name : string).
  Definition kwargs := list (string * val).

  Fixpoint insert_at (n : nat) (x : val) (l : list val) : list val :=
    match n, l with
    | O, _ => x :: l
    | S k, [] => [x]
    | S k, y :: r => y :: insert_at k x r
    end.
  (* kwargs[key] = x on a dict kept as an association list (later binding wins on lookup) *)
  Definition kset (k : string) (x : val) (kw : kwargs) : kwargs := (k, x) :: kw.
  Fixpoint klookup (k : string) (kw : kwargs) : option val :=
    match kw with [] => None | (k', x) :: r => if String.eqb k k' then Some x else klookup k r end.

  (* the closure returned by fn_runner(fn, x), applied to positional and keyword arguments *)
  Definition runner (fn : list val -> kwargs -> res) (k : key) (x : val) : list val -> kwargs -> res :=
    fun args kw => match k with
                   | KPos => fn (insert_at runner_insert_at x args) kw
                   | KKw name => fn args (kset name x kw)
                   end.
  (* _wrapped_f_apply: the function finally called with no arguments *)
  Fixpoint wrapped (fn : list val -> kwargs -> res) (fargs : list (key * val)) : list val -> kwargs -> res :=
    match fargs with
    | [] => fn
    | (k, x) :: r => wrapped (runner fn k x) r
    end.

  Definition positional (fargs : list (key * val)) : list val :=
    flat_map (fun kx => match fst kx with KPos => [snd kx] | _ => [] end) fargs.
  Fixpoint keywords (fargs : list (key * val)) : kwargs :=
    match fargs with
    | [] => []
    | (KKw n, x) :: r => (n, x) :: keywords r
    | _ :: r => keywords r
    end.

  Lemma wrapped_gen fargs : forall fn args kw,
    wrapped fn fargs args kw = fn (positional fargs ++ args) (keywords fargs ++ kw).
  Proof.
    induction fargs as [|[k x] r IH]; intros fn args kw; cbn [wrapped]; [reflexivity|].
    rewrite IH. unfold runner. destruct k as [|name].
    - change runner_insert_at with 0. reflexivity.
    - reflexivity.
  Qed.

  (* every positional argument in its original position, every keyword under its own name *)
  Theorem apply_args_in_place fn fargs :
    wrapped fn fargs [] [] = fn (positional fargs) (keywords fargs).
  Proof. rewrite wrapped_gen. rewrite !app_nil_r. reflexivity. Qed.

  (* ... and with distinct keyword names each name is bound to its own argument *)
  Lemma klookup_keywords kw k x : NoDup (map fst kw) -> In (k, x) kw -> klookup k kw = Some x.
  Proof.
    induction kw as [|[k' x'] r IH]; intros ND Hin; [destruct Hin|].
    simpl in ND. inversion ND as [|? ? Hni ND']; subst. simpl.
    destruct Hin as [E|Hin].
    - inversion E; subst. rewrite String.eqb_refl. reflexivity.
    - destruct (String.eqb k k') eqn:E.
      + apply String.eqb_eq in E; subst. exfalso. apply Hni. apply in_map_iff. exists (k', x); auto.
      + auto.
  Qed.
End Apply.
