(* Generic lock-order argument for C04: any number of threads, each running a program of lock
   operations (everything else a thread does between lock operations never blocks).  Locks are
   numbers; RLocks may be re-acquired by their owner.  Definitions only. *)
From Coq Require Import List Bool Arith Lia.
From ME Require Import Base.Machine.
Import ListNotations.

Inductive op := Acq (l : nat) | Rel (l : nat).

Record st := { owner : nat -> option nat;      (* lock -> owning thread *)
               depth : nat -> nat;             (* re-entrancy depth of each lock *)
               prog : nat -> list op }.        (* remaining program of each thread *)

(* thread t performs its next operation *)
Definition step (s : st) (t : nat) : option st :=
  match prog s t with
  | [] => None
  | Acq l :: r =>
      match owner s l with
      | None => Some {| owner := upd (owner s) l (Some t); depth := upd (depth s) l 1; prog := upd (prog s) t r |}
      | Some u => if Nat.eqb u t then Some {| owner := owner s; depth := upd (depth s) l (S (depth s l)); prog := upd (prog s) t r |}
                  else None
      end
  | Rel l :: r =>
      match owner s l with
      | Some u => if Nat.eqb u t then
                    match depth s l with
                    | S (S d) => Some {| owner := owner s; depth := upd (depth s) l (S d); prog := upd (prog s) t r |}
                    | _ => Some {| owner := upd (owner s) l None; depth := upd (depth s) l 0; prog := upd (prog s) t r |}
                    end
                  else None
      | None => None
      end
  end.

(* a program respects the lock order when every first acquisition takes a lock strictly above all
   locks the thread holds at that point (re-acquiring a held lock is exempt), and it is balanced:
   it releases only what it holds and ends holding nothing *)
Fixpoint ordered (held : list nat) (p : list op) : bool :=
  match p with
  | [] => match held with [] => true | _ => false end
  | Acq l :: r => if existsb (Nat.eqb l) held then ordered (l :: held) r
                  else forallb (fun h => Nat.ltb h l) held && ordered (l :: held) r
  | Rel l :: r => match held with
                  | h :: hs => Nat.eqb h l && ordered hs r          (* releases are properly nested (with-blocks) *)
                  | [] => false
                  end
  end.

Definition init_of (progs : nat -> list op) : st :=
  {| owner := fun _ => None; depth := fun _ => 0; prog := progs |}.
