(* TimeoutExecutor (timeout.py) over MapFuture (map.py) / _Future (common.py) as a trace acceptor
   over the visible operations logged by the harness.  One event = one visible operation of one
   thread (the submitter's X-section `_jobs.append(job)` has no inner visible operation and is a
   single event; the job thread's X-section contains the clock read and one Future.done() per job
   and is EXAcq / EClock / EFR done ... / EXRel).  Threads carry programs; callbacks run inline by
   prepending their programs.  Thread 0 is the job thread `TimeoutExecutor-<name>`.
   Environment: the delegate executor, completion of its futures, user callbacks, the clock.
   The pure decisions are the kernels regenerated from timeout.py (Gen/TimeoutGen.v).
   Definitions only. *)
From Coq Require Import ZArith List Bool Arith.
From RecordUpdate Require Import RecordSet.
From ME Require Import Base.Machine Base.Fut Base.GenPrelude Gen.TimeoutGen.
Import ListNotations RecordSetNotations.

Inductive outcome := Ok (v : nat) | Err (e : nat).
Definition none_value : nat := 998.

Inductive cbk := CbWake | CbUser (c : nat).     (* CbWake = TimeoutExecutor._on_future_done *)

Inductive instr :=
| IAcqG | IRelG                          (* ShutdownHelper._lock held over the whole submit_timeout *)
| IDSubmit (tmo : Z)                     (* delegate.submit; the MapFuture is created right after *)
| IAcqMSet (j : nat) (x : option nat)    (* _set_delegate: with M_j: self._delegate = x *)
| IAcqM (j : nat)
| IRelM (j : nat)
| IRelMCbs (j : nat)                     (* leave M_j, then _me_invoke_callbacks *)
| IAddCbD (d j : nat)                    (* delegate.add_done_callback(self._delegate_resolved) *)
| IDCancelledQ (j d : nat)               (* _delegate_resolved: delegate.cancelled() *)
| IFSetRes (j v : nat)
| IFSetExc (j e : nat)
| IDoneQ (j : nat)                       (* after _delegate_failed: `if self.done(): return` *)
| IDoneA (j : nat) (c : cbk)             (* add_done_callback: self.done() under M_j *)
| IUserCb (j c : nat)
| IEvSet                                 (* _jobs_write.set() *)
| IClockD (j : nat) (tmo : Z)            (* Job(..., monotonic() + timeout) *)
| IXAppend (job : tjob)                  (* with _jobs_lock: _jobs.append(job) *)
| IRet
| IRetB (b : bool)
| ICancelled (j : nat)                   (* cancel(): self.cancelled() *)
| IDoneC (j : nat)                       (* cancel(): self.done() *)
| IDCancel (j d : nat)                   (* _me_cancel: self._delegate.cancel() *)
| IFCancel (j : nat)                     (* super().cancel() *)
| IFSrnc (j : nat)                       (* set_running_or_notify_cancel() *)
| IClockP                                (* _partition_jobs: now = monotonic() *)
| IPDone (j : nat)                       (* _partition_jobs: job.future.done() *)
| IXRelP                                 (* classify; _jobs = pending; leave X *)
| ITCancel (job : tjob)                  (* _do_cancel(job): job.future.cancel() about to start *)
| IWaitCalc (e : option bool)            (* `if pending:` ... wait_time = max(min deadline - monotonic(), 0).
                                            `pending` IS the list object just stored in _jobs, so jobs appended
                                            since the partition are seen.  The test and the clock read are not
                                            visible operations: e = Some b records whether _jobs was empty when
                                            this instruction became the head (the earliest moment of the test) *)
| IWWait (tau : option Z)
| IWWoke
| IWClear.

(* ghost history, newest first *)
Inductive hev :=
| HNew (j d : nat) (tmo : Z) (ts : Z)            (* MapFuture j over delegate future d created *)
| HSub (j : nat) (dl : Z) (ts : Z)               (* job (j, dl) appended to _jobs *)
| HPart (now : Z) (pend ovd : list tjob)         (* a partition: its clock reading and its result *)
| HAttempt (j : nat) (dl : Z) (ts : Z)           (* the job thread enters job.future.cancel() *)
| HWait (tau : option Z) (pend : list tjob) (ts : Z)   (* the job thread goes to sleep *)
| HCancelled (j : nat) (ts : Z)                  (* future j became cancelled *)
| HSet (j : nat) (o : outcome) (ts : Z)          (* future j got its outcome *)
| HSetLost (j : nat) (ts : Z)
| HEnvDone (d : nat) (o : outcome) (ts : Z)
| HDCancel (j d : nat) (b : bool) (ts : Z)       (* cancel forwarded to the delegate; its answer *)
| HCb (j c : nat) (ts : Z)
| HCancelCall (j : nat) (ts : Z)
| HCancelRet (j : nat) (b : bool) (ts : Z).

Record st := mkSt {
  jobs : list tjob;                (* executor._jobs: immutable (future id, deadline) records *)
  nfut : nat;
  ndel : nat;
  rs : nat -> fstate;              (* state of returned future j *)
  rout : nat -> option outcome;
  rcbs : nat -> list cbk;          (* _me_done_callbacks *)
  rdel : nat -> option nat;        (* MapFuture._delegate *)
  ds : nat -> fstate;              (* delegate future d *)
  dout : nat -> option outcome;
  dcb : nat -> option nat;         (* the MapFuture whose _delegate_resolved is registered on d *)
  mown : nat -> option nat;        (* owner of M_j *)
  gown : option nat;
  xown : option nat;
  evf : bool;                      (* _jobs_write flag *)
  wblock : option (option Z * Z);  (* job thread blocked in wait: (timeout, since) *)
  wnotif : bool;
  pnow : Z;                        (* clock reading of the running partition *)
  wclk : Z;                        (* clock reading of the latest wait_time computation *)
  pans : nat -> bool;              (* done() answers collected by the running partition *)
  thr : nat -> list instr;
  cancelling : nat -> option nat;
  clock : Z;
  hist : list hev
}.
#[export] Instance eta_st : Settable _ := settable! mkSt
  <jobs; nfut; ndel; rs; rout; rcbs; rdel; ds; dout; dcb; mown; gown; xown; evf; wblock; wnotif;
   pnow; wclk; pans; thr; cancelling; clock; hist>.

Definition init : st :=
  mkSt [] 0 0 (fun _ => Pending) (fun _ => None) (fun _ => []) (fun _ => None)
       (fun _ => Pending) (fun _ => None) (fun _ => None) (fun _ => None) None None
       false None false 0 0 (fun _ => false) (fun _ => []) (fun _ => None) 0 [].

Definition jt : nat := 0.
Definition stamp (s : st) (p : list instr) : list instr :=
  match p with IWaitCalc None :: r => IWaitCalc (Some (isnil (jobs s))) :: r | _ => p end.
Definition set_prog (s : st) (t : nat) (p : list instr) : st := s <| thr := upd (thr s) t (stamp s p) |>.
Definition tick (s : st) (ts : Z) : option st := if Z.leb (clock s) ts then Some (s <| clock := ts |>) else None.
Definition log (s : st) (h : hev) : st := s <| hist := h :: hist s |>.
Definition mkjob (j : nat) (dl : Z) : tjob := {| tj_id := j; tj_deadline := dl |}.

Definition cb_prog (j : nat) (c : cbk) : list instr :=
  match c with CbWake => [IEvSet] | CbUser c => [IUserCb j c] end.
Definition cbs_prog (j : nat) (l : list cbk) : list instr := flat_map (cb_prog j) l.

(* MapFuture._delegate_resolved(d) when M_j is not held by the running thread *)
Definition resolved_prog (j d : nat) : list instr := [IAcqMSet j None; IRelM j; IDCancelledQ j d].
Definition setres_prog (j v : nat) : list instr := [IAcqM j; IFSetRes j v; IRelMCbs j].
(* copy_exception: set_exception_info (AttributeError inside `with M`), then set_exception *)
Definition setexc_prog (j e : nat) : list instr := [IAcqM j; IRelM j; IAcqM j; IFSetExc j e; IRelMCbs j; IDoneQ j].

(* how cancel() hands its answer back: an API return for clients, nothing visible in _do_cancel *)
Definition ret_of (t : nat) (b : bool) : list instr := if Nat.eqb t jt then [] else [IRetB b].

Definition submit_prog (j d : nat) (tmo : Z) : list instr :=
  [IAcqMSet j (Some d); IRelM j; IAddCbD d j; IAcqM j; IDoneA j CbWake; IClockD j tmo].

Inductive ev :=
| ECallSubmit (t : nat) (tmo : Z)
| ECallCancel (t j : nat)
| ECallAddCb (t j c : nat)
| EXSec (t : nat)                         (* acq X; _jobs.append(job); rel X *)
| EXAcq (t : nat) | EXRel (t : nat)
| EEvSet (t : nat)
| ERet (t : nat) (code : nat)             (* 0 normal, 1 False, 2 True *)
| EAcqM (t j : nat) | ERelM (t j : nat)
| EAcqG (t : nat) | ERelG (t : nat)
| EFR (t : nat) (op : nat) (j : nat) (pre : fstate)   (* stdlib method on returned future j:
                                             0 cancelled 1 done 2 cancel 3 srnc 4 set_result 6 set_exception *)
| EFD (t : nat) (op : nat) (d : nat) (pre : fstate)   (* on delegate d by library code: 0 cancelled 2 cancel 5 add_done_callback *)
| EUserCb (t j c : nat) (raises : bool)
| EDSubmit (t d : nat) (inline : option outcome)
| EClock (t : nat) (w : Z)                (* monotonic() read by thread t *)
| EWWait (r : nat) (arg : option Z)       (* event.wait(arg): 0 flag already set, 1 blocks *)
| EWWoke (kind : nat)                     (* 0 notified, 1 timeout *)
| EWClear
| EEnvRun (t d : nat) (pre : fstate)
| EEnvFinish (t d : nat) (pre : fstate) (o : outcome).

(* `if pending:` found the list empty (at the earliest: when IWaitCalc became the head): wait(None) *)
Definition wait_view (p : list instr) : list instr :=
  match p with IWaitCalc (Some true) :: rest => IWWait None :: rest | _ => p end.

Definition partition (s : st) : list tjob * list tjob :=
  partition_jobs (fun job => pans s (tj_id job)) (pnow s) (jobs s).

(* steps of the job thread's loop and of the locks/events *)
Definition step_sync (s : st) (e : ev) : option st :=
  let ts := clock s in
  match e with
  | EXSec t =>
      if issome (xown s) then None else
      match thr s t with
      | IXAppend job :: rest =>
          (* what follows the X-section in submit_timeout: event.set(); leave the gate; return *)
          Some (log (set_prog (s <| jobs := jobs s ++ [job] |>) t (IEvSet :: IRelG :: IRet :: rest))
                    (HSub (tj_id job) (tj_deadline job) ts))
      | _ => None
      end
  | EXAcq t =>
      if issome (xown s) || negb (Nat.eqb t jt) then None else
      match thr s t with
      | [] => Some (set_prog (s <| xown := Some t |>) t [IClockP])   (* top of _job_loop_iter *)
      | _ => None
      end
  | EXRel t =>
      match thr s t, xown s with
      | IXRelP :: rest, Some t' =>
          if negb (Nat.eqb t t') || negb (Nat.eqb t jt) then None else
          let '(pending, overdue) := partition s in
          Some (log (set_prog (s <| xown := None |> <| jobs := pending |>) t
                              (map ITCancel overdue ++ IWaitCalc None :: rest))
                    (HPart (pnow s) pending overdue))
      | _, _ => None
      end
  | EClock t w =>
      if negb (Z.eqb w ts) then None else
      match thr s t with
      | IClockP :: rest =>
          if negb (Nat.eqb t jt) then None else
          Some (set_prog (s <| pnow := w |>) t (map (fun job => IPDone (tj_id job)) (jobs s) ++ IXRelP :: rest))
      | IClockD j tmo :: rest => Some (set_prog s t (IXAppend (mkjob j (deadline_of w tmo)) :: rest))
      | IWaitCalc _ :: rest =>
          if isnil (jobs s) || negb (Nat.eqb t jt) then None else Some (set_prog (s <| wclk := w |>) t (IWWait (wait_time (jobs s) w) :: rest))
      | _ => None
      end
  | EEvSet t =>
      match thr s t with
      | IEvSet :: rest => Some (set_prog (s <| evf := true |> <| wnotif := issome (wblock s) || wnotif s |>) t rest)
      | _ => None
      end
  | EAcqG t =>
      match thr s t, gown s with
      | IAcqG :: rest, None => Some (set_prog (s <| gown := Some t |>) t rest)
      | _, _ => None
      end
  | ERelG t =>
      match thr s t, gown s with
      | IRelG :: rest, Some t' => if Nat.eqb t t' then Some (set_prog (s <| gown := None |>) t rest) else None
      | _, _ => None
      end
  | EAcqM t j =>
      match thr s t, mown s j with
      | IAcqM j' :: rest, None =>
          if Nat.eqb j j' then Some (set_prog (s <| mown := upd (mown s) j (Some t) |>) t rest) else None
      | IAcqMSet j' x :: rest, None =>
          if Nat.eqb j j' then Some (set_prog (s <| mown := upd (mown s) j (Some t) |> <| rdel := upd (rdel s) j x |>) t rest)
          else None
      | ITCancel job :: rest, None =>
          if Nat.eqb j (tj_id job) && Nat.eqb t jt then
            Some (log (set_prog (s <| mown := upd (mown s) j (Some t) |>) t (ICancelled j :: rest))
                      (HAttempt j (tj_deadline job) ts))
          else None
      | _, _ => None
      end
  | ERelM t j =>
      match thr s t, mown s j with
      | IRelM j' :: rest, Some t' =>
          if Nat.eqb j j' && Nat.eqb t t' then Some (set_prog (s <| mown := upd (mown s) j None |>) t rest) else None
      | IRelMCbs j' :: rest, Some t' =>
          if Nat.eqb j j' && Nat.eqb t t' then
            Some (set_prog (s <| mown := upd (mown s) j None |> <| rcbs := upd (rcbs s) j [] |>) t
                           (cbs_prog j (rcbs s j) ++ rest))
          else None
      | _, _ => None
      end
  | EWWait r arg =>
      match wait_view (thr s jt) with
      | IWWait tau :: rest =>
          if negb (match tau, arg with Some a, Some b => Z.eqb a b | None, None => true | _, _ => false end) then None else
          match r with
          | 0 => if evf s then Some (set_prog s jt (IWClear :: rest)) else None
          | _ => if evf s then None else
                 Some (log (set_prog (s <| wblock := Some (tau, ts) |> <| wnotif := false |>) jt (IWWoke :: rest))
                           (HWait tau (jobs s) ts))
          end
      | _ => None
      end
  | EWWoke kind =>
      match thr s jt, wblock s with
      | IWWoke :: rest, Some (tau, since) =>
          let s1 := s <| wblock := None |> <| wnotif := false |> in
          match kind with
          | 0 => if wnotif s then Some (set_prog s1 jt (IWClear :: rest)) else None
          | _ => match tau with
                 | Some x => if Z.leb (since + x) ts then Some (set_prog s1 jt (IWClear :: rest)) else None
                 | None => None
                 end
          end
      | _, _ => None
      end
  | EWClear =>
      match thr s jt with
      | IWClear :: rest => Some (set_prog (s <| evf := false |>) jt rest)
      | _ => None
      end
  | _ => None
  end.

(* API calls, the delegate executor and the environment *)
Definition step_call (s : st) (e : ev) : option st :=
  let ts := clock s in
  match e with
  | ECallSubmit t tmo =>
      match thr s t with
      | [] => if Nat.eqb t jt then None else Some (set_prog s t [IAcqG; IDSubmit tmo])
      | _ => None
      end
  | ECallCancel t j =>
      match thr s t with
      | [] => if Nat.eqb t jt || negb (j <? nfut s) then None else
              Some (log (set_prog (s <| cancelling := upd (cancelling s) t (Some j) |>) t [IAcqM j; ICancelled j]) (HCancelCall j ts))
      | _ => None
      end
  | ECallAddCb t j c =>
      match thr s t with
      | [] => if Nat.eqb t jt || negb (j <? nfut s) then None else Some (set_prog s t [IAcqM j; IDoneA j (CbUser c); IRet])
      | _ => None
      end
  | ERet t code =>
      match thr s t with
      | IRet :: rest => if Nat.eqb code 0 then Some (set_prog s t rest) else None
      | IRetB b :: rest =>
          if Nat.eqb code (if b then 2 else 1) then
            match cancelling s t with
            | Some j => Some (log (set_prog (s <| cancelling := upd (cancelling s) t None |>) t rest) (HCancelRet j b ts))
            | None => None
            end
          else None
      | _ => None
      end
  | EDSubmit t d inline =>
      match thr s t with
      | IDSubmit tmo :: rest =>
          if negb (Nat.eqb d (ndel s)) then None else
          let j := nfut s in
          (* the new MapFuture j is a fresh object: Pending, no outcome, no callbacks, no delegate,
             M_j free -- the initial values of every id that was never allocated *)
          let s1 := s <| nfut := S j |> <| ndel := S d |>
                      <| ds := upd (ds s) d (if issome inline then Finished else Pending) |>
                      <| dout := upd (dout s) d inline |> <| dcb := upd (dcb s) d None |> in
          let s2 := match inline with Some o => log s1 (HEnvDone d o ts) | None => s1 end in
          Some (log (set_prog s2 t (submit_prog j d tmo ++ rest)) (HNew j d tmo ts))
      | _ => None
      end
  | EUserCb t j c raises =>
      match thr s t with
      | IUserCb j' c' :: rest =>
          (* an exception from a done-callback is logged and swallowed on both paths *)
          if Nat.eqb j j' && Nat.eqb c c' then Some (log (set_prog s t rest) (HCb j c ts)) else None
      | _ => None
      end
  | EEnvRun t d pre =>
      match thr s t with
      | [] => if Nat.eqb t jt || negb (d <? ndel s) || negb (fstate_eqb pre (ds s d)) then None else
              match f_srnc pre with Some (n, _) => Some (s <| ds := upd (ds s) d n |>) | None => None end
      | _ => None
      end
  | EEnvFinish t d pre o =>
      match thr s t with
      | [] => if Nat.eqb t jt || negb (d <? ndel s) || negb (fstate_eqb pre (ds s d)) then None else
              match f_set pre with
              | Some n =>
                  Some (log (set_prog (s <| ds := upd (ds s) d n |> <| dout := upd (dout s) d (Some o) |>
                                         <| dcb := upd (dcb s) d None |>) t
                                      (match dcb s d with Some j => resolved_prog j d | None => [] end))
                            (HEnvDone d o ts))
              | None => None
              end
      | _ => None
      end
  | _ => None
  end.

(* stdlib Future methods called by library code on the delegate future d *)
Definition step_fd (s : st) (t op d : nat) (pre : fstate) : option st :=
  let ts := clock s in
  if negb (fstate_eqb pre (ds s d)) then None else
  match thr s t, op with
  | IAddCbD d' j :: rest, 5 =>
      if negb (Nat.eqb d d') then None else
      if fdone pre then Some (set_prog s t (resolved_prog j d ++ rest))
      else Some (set_prog (s <| dcb := upd (dcb s) d (Some j) |>) t rest)
  | IDCancelledQ j d' :: rest, 0 =>
      if negb (Nat.eqb d d') then None else
      if fcancelled pre then Some (set_prog s t rest)                 (* plain `return` *)
      else
        match dout s d with
        | Some (Ok v) => Some (set_prog s t (setres_prog j v ++ rest))
        | Some (Err e) => Some (set_prog s t (setexc_prog j e ++ rest))
        | None => None
        end
  | IDCancel j d' :: rest, 2 =>
      if negb (Nat.eqb d d') then None else
      let '(n, b) := f_cancel pre in
      let s1 := log (s <| ds := upd (ds s) d n |>) (HDCancel j d b ts) in
      if b then
        let cont := IFCancel j :: IFSrnc j :: IRelMCbs j :: ret_of t true ++ rest in
        match f_cancel_fires pre, dcb s d with
        | true, Some j' =>
            (* the delegate's callbacks run inside cancel(): _delegate_resolved -> _set_delegate(None)
               (M_j' is held by this very thread: re-entrant, silent), then delegate.cancelled() *)
            if Nat.eqb j' j then
              Some (set_prog (s1 <| dcb := upd (dcb s1) d None |> <| rdel := upd (rdel s1) j' None |>) t (IDCancelledQ j' d :: cont))
            else Some (set_prog (s1 <| dcb := upd (dcb s1) d None |>) t (resolved_prog j' d ++ cont))
        | _, _ => Some (set_prog s1 t cont)
        end
      else Some (set_prog s1 t (IRelM j :: ret_of t false ++ rest))
  | _, _ => None
  end.

Definition skip_cbs (p : list instr) : option (list instr) :=
  match p with IRelMCbs _ :: r => Some r | _ => None end.

(* stdlib Future methods called by library code on the returned future j *)
Definition step_fr (s : st) (t op j : nat) (pre : fstate) : option st :=
  let ts := clock s in
  if negb (fstate_eqb pre (rs s j)) then None else
  match thr s t, op with
  | ICancelled j' :: rest, 0 =>
      if negb (Nat.eqb j j') then None else
      if fcancelled pre then Some (set_prog s t (IRelM j :: ret_of t true ++ rest)) else Some (set_prog s t (IDoneC j :: rest))
  | IDoneC j' :: rest, 1 =>
      if negb (Nat.eqb j j') then None else
      if fdone pre then Some (set_prog s t (IRelM j :: ret_of t false ++ rest)) else
      match rdel s j with
      | Some d => Some (set_prog s t (IDCancel j d :: rest))
      | None => Some (set_prog s t (IRelM j :: ret_of t false ++ rest))
      end
  | IDoneA j' c :: rest, 1 =>
      if negb (Nat.eqb j j') then None else
      if fdone pre then Some (set_prog s t (IRelM j :: cb_prog j c ++ rest))
      else Some (set_prog (s <| rcbs := upd (rcbs s) j (rcbs s j ++ [c]) |>) t (IRelM j :: rest))
  | IDoneQ j' :: rest, 1 =>
      if negb (Nat.eqb j j') then None else
      if fdone pre then Some (set_prog s t rest) else Some (set_prog s t (setres_prog j none_value ++ rest))
  | IPDone j' :: rest, 1 =>
      if negb (Nat.eqb j j') || negb (Nat.eqb t jt) then None else
      Some (set_prog (s <| pans := upd (pans s) j (fdone pre) |>) t rest)
  | IFCancel j' :: rest, 2 =>
      if negb (Nat.eqb j j') then None else
      let '(n, b) := f_cancel pre in
      if b then Some (log (set_prog (s <| rs := upd (rs s) j n |>) t rest) (HCancelled j ts)) else None
  | IFSrnc j' :: rest, 3 =>
      if negb (Nat.eqb j j') then None else
      match f_srnc pre with Some (n, _) => Some (set_prog (s <| rs := upd (rs s) j n |>) t rest) | None => None end
  | IFSetRes j' v :: rest, 4 =>
      if negb (Nat.eqb j j') then None else
      match f_set pre with
      | Some n => Some (log (set_prog (s <| rs := upd (rs s) j n |> <| rout := upd (rout s) j (Some (Ok v)) |>) t rest) (HSet j (Ok v) ts))
      | None => (* tolerated InvalidStateError: the `with` block is left by the exception, no callbacks *)
                match skip_cbs rest with
                | Some r => Some (log (set_prog s t (IRelM j :: r)) (HSetLost j ts))
                | None => None
                end
      end
  | IFSetExc j' e :: rest, 6 =>
      if negb (Nat.eqb j j') then None else
      match f_set pre with
      | Some n => Some (log (set_prog (s <| rs := upd (rs s) j n |> <| rout := upd (rout s) j (Some (Err e)) |>) t rest) (HSet j (Err e) ts))
      | None => (* tolerated InvalidStateError: the `with` block is left by the exception, no callbacks *)
                match skip_cbs rest with
                | Some r => Some (log (set_prog s t (IRelM j :: r)) (HSetLost j ts))
                | None => None
                end
      end
  | _, _ => None
  end.

Definition step0 (s : st) (e : ev) : option st :=
  match e with
  | EFR t op j pre => step_fr s t op j pre
  | EFD t op d pre => step_fd s t op d pre
  | ECallSubmit _ _ | ECallCancel _ _ | ECallAddCb _ _ _ | ERet _ _ | EDSubmit _ _ _
  | EUserCb _ _ _ _ | EEnvRun _ _ _ | EEnvFinish _ _ _ _ => step_call s e
  | _ => step_sync s e
  end.

(* every event carries the virtual time at which it took effect *)
Definition step (s : st) (te : Z * ev) : option st :=
  match tick s (fst te) with Some s1 => step0 s1 (snd te) | None => None end.

(* ---- wire format -------------------------------------------------------------------------------- *)
Local Open Scope Z_scope.
Definition n (z : Z) : nat := Z.to_nat z.
Definition oc (k v : Z) : outcome := if Z.eqb k 0 then Ok (n v) else Err (n v).
Definition decode (l : list Z) : option (Z * ev) :=
  match l with
  | ts :: k :: a =>
      match k, a with
      | 0, [t; tmo] => Some (ts, ECallSubmit (n t) tmo)
      | 1, [t; j] => Some (ts, ECallCancel (n t) (n j))
      | 2, [t; j; c] => Some (ts, ECallAddCb (n t) (n j) (n c))
      | 3, [t] => Some (ts, EXSec (n t))
      | 4, [t] => Some (ts, EXAcq (n t))
      | 5, [t] => Some (ts, EXRel (n t))
      | 6, [t] => Some (ts, EEvSet (n t))
      | 7, [t; c] => Some (ts, ERet (n t) (n c))
      | 8, [t; j] => Some (ts, EAcqM (n t) (n j))
      | 9, [t; j] => Some (ts, ERelM (n t) (n j))
      | 10, [t; op; j; p] => match fstate_of p with Some p => Some (ts, EFR (n t) (n op) (n j) p) | None => None end
      | 11, [t; op; d; p] => match fstate_of p with Some p => Some (ts, EFD (n t) (n op) (n d) p) | None => None end
      | 12, [t; j; c; r] => Some (ts, EUserCb (n t) (n j) (n c) (Z.eqb r 1))
      | 13, [t] => Some (ts, EAcqG (n t))
      | 14, [t] => Some (ts, ERelG (n t))
      | 15, [t; d; i; k; v] => Some (ts, EDSubmit (n t) (n d) (if Z.eqb i 1 then Some (oc k v) else None))
      | 16, [r; h; v] => Some (ts, EWWait (n r) (if Z.eqb h 1 then Some v else None))
      | 17, [k] => Some (ts, EWWoke (n k))
      | 18, [] => Some (ts, EWClear)
      | 19, [t; d; p] => match fstate_of p with Some p => Some (ts, EEnvRun (n t) (n d) p) | None => None end
      | 21, [t; d; p; k; v] => match fstate_of p with Some p => Some (ts, EEnvFinish (n t) (n d) p (oc k v)) | None => None end
      | 24, [t; w] => Some (ts, EClock (n t) w)
      | _, _ => None
      end
  | _ => None
  end.

Fixpoint decode_all (ls : list (list Z)) : option (list (Z * ev)) :=
  match ls with
  | [] => Some []
  | l :: r => match decode l, decode_all r with Some e, Some es => Some (e :: es) | _, _ => None end
  end.

Definition accept (ls : list (list Z)) : list Z :=
  match decode_all ls with
  | None => [-2]
  | Some es => match first_reject step init es 0 with None => [-1] | Some i => [Z.of_nat i] end
  end.
