(* The digests of the source definitions the hand-written machines were validated against (lockstep runs,
   seeded changes, DESIGN.md section 4).  Written by `tools/srcfacts.py --update`; the normal-form texts behind the
   digests are in tools/srcfacts_expected.json.  Proofs/Src_ok_<module>.v proves that what tools/srcfacts.py finds in
   /repo NOW (coq/Gen/Src_<module>.v) equals these. *)
From Coq Require Import List String.
Import ListNotations.
Open Scope string_scope.

Definition expected_common : list (string * string) :=
  [ ("_Future.__init__", "1f414cea61aa6573ab53");
    ("_Future._me_invoke_callbacks", "bacf042e10bf3751ea0c");
    ("_Future.add_done_callback", "efdfc7e10b96e22dc1bc");
    ("_Future.cancel", "71c2d4321a5915a8d321");
    ("_Future._me_cancel", "0c6e78c71908bfc7e41b");
    ("<class _Future>", "ea83d0e54c460e46a16f");
    ("copy_future_exception", "db63554355dd301fa450");
    ("copy_exception", "133e6f2c1ecfc57e21ae");
    ("try_set_result", "820272389ed664dd2067");
    ("<module>", "a63684eefebb6510b84d") ].

Definition expected_map : list (string * string) :=
  [ ("identity", "ed5596b8fd9ae35fd71f");
    ("MapFuture.__init__", "0dcfc361112bd739bf8e");
    ("MapFuture._set_delegate", "24290b8153937b584872");
    ("MapFuture._delegate_failed", "7b153c0f2d1e7b66527f");
    ("MapFuture._delegate_resolved", "ecc24ea6e75bf209ac45");
    ("MapFuture._on_mapped", "a5bfbe0f243c3301141f");
    ("MapFuture.set_result", "1af68fa05a2a55aafaad");
    ("MapFuture.set_exception", "c716261ecc56fe34889c");
    ("MapFuture.set_exception_info", "e296f5616607814eb306");
    ("MapFuture.running", "47a76b81bb7b79bf9875");
    ("MapFuture._me_cancel", "b41fda34b4ed2343609f");
    ("<class MapFuture>", "b38a307917ba711841bd");
    ("MapExecutor._metric_exec_total", "63093874e0c0dcc3f30c");
    ("MapExecutor._metric_exec_inprogress", "677cab22db38e0b6a002");
    ("MapExecutor.__init__", "3f186a75f41ffba2f2cf");
    ("MapExecutor.shutdown", "d45a53c65083205881b3");
    ("MapExecutor.submit", "0cb90b1a042bdeee4543");
    ("<class MapExecutor>", "e50f37e46fe07544015c");
    ("<module>", "d35b26be89fcc8085afe") ].

Definition expected_flat_map : list (string * string) :=
  [ ("FlatMapFuture.__init__", "8221c78d580d34bceb58");
    ("FlatMapFuture._on_mapped", "dfa823bfa27cb281a80d");
    ("<class FlatMapFuture>", "360367dde34421ff18a5");
    ("<class FlatMapExecutor>", "c783fa76bf275ffb4e76");
    ("<module>", "69d6cfbefd24206a2475") ].

Definition expected_retry : list (string * string) :=
  [ ("RetryPolicy.should_retry", "4a86813abe3f2b3fed80");
    ("RetryPolicy.sleep_time", "590b2fa9ffd93a9cf717");
    ("<class RetryPolicy>", "5d30bf4d4793e4dfe79c");
    ("ExceptionRetryPolicy.__init__", "45aebb4c142552b6669a");
    ("ExceptionRetryPolicy.should_retry", "860fe264eff3f2a8953e");
    ("ExceptionRetryPolicy.sleep_time", "0c283560f539c1810319");
    ("<class ExceptionRetryPolicy>", "54fa582a1b9081b82a43");
    ("RetryJob.__init__", "62d415d74d821e0b4f69");
    ("<class RetryJob>", "3568b585b1103d3ee1ec");
    ("RetryFuture.__init__", "f7f99402f6b7582e03fe");
    ("RetryFuture.running", "7ce51efc075ab01499b4");
    ("RetryFuture._clear_delegate", "0cf960f4ba999eea9ab5");
    ("RetryFuture._clear_executor", "fa3dff80ff703cadb8b7");
    ("RetryFuture.__terminate_via", "50166d20f6169c10f122");
    ("RetryFuture.set_result", "b52afdb448d82df46ec5");
    ("RetryFuture.set_exception", "fd457096d2a6307008bd");
    ("RetryFuture.set_exception_info", "e0b5335737e787501da3");
    ("RetryFuture._me_cancel", "4e08c37f40f33ca26388");
    ("<class RetryFuture>", "1c476a1d1ee9b6aca590");
    ("RetryExecutor.__init__", "6a17ee7cb5d2af350e27");
    ("RetryExecutor.shutdown", "eacbe749b3941dfbd83f");
    ("RetryExecutor.submit", "feb841f391a059798869");
    ("RetryExecutor.submit_retry", "c194e1b15bee57cd8e0f");
    ("RetryExecutor._wake_thread", "5b3e5e8497bde4cd49cb");
    ("RetryExecutor._get_next_job", "b63bd64f55db57b658f6");
    ("RetryExecutor._submit_now", "b55b44efba10a1e0997a");
    ("RetryExecutor._pop_job", "e2f7c615b52a084cbc05");
    ("RetryExecutor._append_job", "839e92296a885d60eafd");
    ("RetryExecutor._retry", "81eb3f5c28757a556902");
    ("RetryExecutor._cancel", "709b520685d43d612b36");
    ("RetryExecutor._delegate_callback", "6a49040910031abbb913");
    ("<class RetryExecutor>", "bb2c76076c1387ec1c91");
    ("copy_future", "62d93144cb0995c0e631");
    ("eval_policy", "9db4898046245420804d");
    ("_submit_loop", "02f53303f28f3c295a30");
    ("_submit_wait", "56b604e8d7c4ec6c8812");
    ("<module>", "218eb320467b1aeae680") ].

Definition expected_poll : list (string * string) :=
  [ ("PollFuture.__init__", "c10af8cc9c9d7b10a663");
    ("PollFuture._delegate_resolved", "b6b0884a5ab593ac066d");
    ("PollFuture._clear_delegate", "769e280f18a1134690fa");
    ("PollFuture._clear_executor", "752d91bd9077265978ab");
    ("PollFuture.set_result", "371478973b267cab57d2");
    ("PollFuture.set_exception", "fafd1e1deecd7f63e99f");
    ("PollFuture.set_exception_info", "07fd74ba28703982caf9");
    ("PollFuture.running", "e447420631e26a814051");
    ("PollFuture._me_cancel", "e01171cbbf9cc40c5249");
    ("<class PollFuture>", "89c53c084e6ed3d2ac24");
    ("PollDescriptor.__init__", "5f2f6e9bea37c90456cd");
    ("PollDescriptor.result", "54d5677f5d2ce38c1f73");
    ("PollDescriptor.yield_result", "783552f4901675d09bc9");
    ("PollDescriptor.yield_exception", "c31b71ee3f1a6a686e5e");
    ("<class PollDescriptor>", "d951ad59ce244314cbee");
    ("PollExecutor.__init__", "b907f31115d503971144");
    ("PollExecutor.submit", "282ba4648a3383412743");
    ("PollExecutor.notify", "8575b401aa379fe4d0da");
    ("PollExecutor._register_poll", "47d30ef6a43d1475bb7f");
    ("PollExecutor._deregister_poll", "35487aedc8e8b1059049");
    ("PollExecutor._run_cancel_fn", "1fce5b299c06a07d3ead");
    ("PollExecutor._run_poll_fn", "1ac54d2eea8ef45692f4");
    ("PollExecutor.shutdown", "308756632f3d60964864");
    ("<class PollExecutor>", "80f984318759eb8c373f");
    ("_poll_loop", "87a8ab909a0e9830a302");
    ("<module>", "3d5643723edc1e83aa69") ].

Definition expected_throttle : list (string * string) :=
  [ ("ThrottleFuture.__init__", "96928cc7af25a1eb0e04");
    ("ThrottleFuture._me_cancel", "6b20d95fe78192b950d5");
    ("ThrottleFuture._clear_executor", "68a68621a9f33ad028f5");
    ("<class ThrottleFuture>", "0f2fae4f062114b4d872");
    ("AtomicInt.__init__", "af08cbb95dcbcc24981a");
    ("AtomicInt.decr", "b975441f88889846d89b");
    ("AtomicInt.incr", "08b98232f30b3b0ee7da");
    ("<class AtomicInt>", "e7313deb6755c339ee40");
    ("ThrottleExecutor.__init__", "7b8efe30a93e3777defe");
    ("ThrottleExecutor.submit", "1ca2f9cf6acaf1796871");
    ("ThrottleExecutor.shutdown", "8d40e09b2af1987dc7fc");
    ("ThrottleExecutor._block_until_ready", "e847475a957704e1558a");
    ("ThrottleExecutor._eval_throttle", "cb80ea098f4944aaef02");
    ("ThrottleExecutor._do_submit", "0967bd2869ed12df8d22");
    ("ThrottleExecutor._do_cancel", "c3972447a9c998b4f9ce");
    ("ThrottleExecutor._delegate_future_done", "bf1ad2716dbaeb18a0ca");
    ("<class ThrottleExecutor>", "b05bcc274b2349cf84a3");
    ("_submit_loop_iter", "e9b100771269d55f9b99");
    ("_submit_loop", "ae462d660015f4426762");
    ("<module>", "29db1d088190da07c4d2") ].

Definition expected_timeout : list (string * string) :=
  [ ("TimeoutExecutor.__init__", "774cb2d6ed4e1593783c");
    ("TimeoutExecutor.submit", "2c2e7c6b434745484d81");
    ("TimeoutExecutor.submit_timeout", "37cc52b8464814cf85de");
    ("TimeoutExecutor.shutdown", "6bf05853343c3827dc2e");
    ("TimeoutExecutor._partition_jobs", "30de7c20ea22fb352054");
    ("TimeoutExecutor._on_future_done", "de82635b92a595835ee9");
    ("TimeoutExecutor._do_cancel", "2969ee050913263f5571");
    ("TimeoutExecutor._job_loop", "70b9e4455c158629bca7");
    ("TimeoutExecutor._job_loop_iter", "464a072d83f50c15576e");
    ("<class TimeoutExecutor>", "50a8ac5e7bccb73e820b");
    ("<module>", "5010d7f6488d47aea02c") ].

Definition expected_cos : list (string * string) :=
  [ ("CancelOnShutdownExecutor.__init__", "1a6a9640bdf78ca65e08");
    ("CancelOnShutdownExecutor.shutdown", "fbfed87b96b5426db91d");
    ("CancelOnShutdownExecutor.submit", "143c001903266b331881");
    ("<class CancelOnShutdownExecutor>", "6da8dc87422175cdb369");
    ("<module>", "fc08c208268f54f2bb9e") ].

Definition expected_helpers : list (string * string) :=
  [ ("executor_loop", "a0bbb9b8be0e7ce0dc36");
    ("ShutdownHelper.__init__", "2fb3578229ac918db877");
    ("ShutdownHelper.ensure_alive", "85d63aa8b9321bec6c58");
    ("ShutdownHelper.__call__", "b89e3b9a466cf66dc7ba");
    ("<class ShutdownHelper>", "03a091b669ebe8d49498");
    ("<module>", "fb4a0d6acee62846359d") ].

Definition expected_event : list (string * string) :=
  [ ("ShutdownAwareEventHandler.__init__", "e2678ba5f420a02931bb");
    ("ShutdownAwareEventHandler.clean_events", "8988467dc6275ff20215");
    ("ShutdownAwareEventHandler.on_exiting", "3cdd659debeff2db30df");
    ("ShutdownAwareEventHandler.get_event", "e2bfc080e6b0741071f0");
    ("<class ShutdownAwareEventHandler>", "ad8c7e1c14481833fb0a");
    ("is_shutdown", "2561f0deb5c6147a0594");
    ("<module>", "35a1a5761b817cbbfa44") ].

Definition expected_fbool : list (string * string) :=
  [ ("BoolOperation.__init__", "b25d250fd3e6009274b0");
    ("BoolOperation.get_state_update", "49daed99d5a53c9a4c51");
    ("BoolOperation.handle_done", "fa9604e69fe848314e19");
    ("<class BoolOperation>", "05515abed322e95c6410");
    ("OrOperation.get_state_update", "099c41fff960a15fa1e3");
    ("<class OrOperation>", "a14e40a93b52179248ea");
    ("f_or", "52be8f7ed044809b0c41");
    ("AndOperation.get_state_update", "9a67dad16f194cd2ca77");
    ("<class AndOperation>", "c63e9f0bc50abc8684b8");
    ("f_and", "d72ebeef8b44622630a3");
    ("<module>", "3c94b49334f37a45c046") ].

Definition expected_fzip : list (string * string) :=
  [ ("maketuple", "9f6d9325dc625bb219a1");
    ("Zipper.__init__", "5c2df3513ea0973b42b4");
    ("Zipper.handle_done", "ea6e7a4714385b56e685");
    ("<class Zipper>", "c7667226a8a6212a6755");
    ("f_zip", "36f44bd018499d957cbf");
    ("<module>", "ba993e4fcbc6f4da717d") ].

Definition expected_fbase : list (string * string) :=
  [ ("f_return", "5493862c0c0e6d740c2a");
    ("f_return_error", "294698844f1df4b592a3");
    ("f_return_cancelled", "fb62773b953c2f6cf965");
    ("WeakCallback.__init__", "676569551c63831ae8dd");
    ("WeakCallback.__call__", "1c673f1a2e933664607a");
    ("<class WeakCallback>", "b063ed92a8ce68126c8f");
    ("chain_cancel", "dd4443d52a52e867aa09");
    ("notify_cancel", "c96e887410cb9ea6b49a");
    ("wrap", "4e8371b0ef36993b1995");
    ("<module>", "ec7e6227b426b04176c4") ].

Definition expected_metrics : list (string * string) :=
  [ ("record_done", "09a3d04dcbb1429f0b7d");
    ("track_future", "cdfd0717ad5a99cdedac");
    ("track_future_noop", "9e2003a9122286e94c33");
    ("<module>", "886ac2d04e840d2e4caa") ].

Definition expected_metrics_prom : list (string * string) :=
  [ ("<class PrometheusMetrics>", "5bc13959d3466eb424f9");
    ("<module>", "3c7621f0053e19f15edc") ].

Definition expected_fproxy : list (string * string) :=
  [ ("ProxyFuture.__init__", "33057a0b3256356fa717");
    ("ProxyFuture.__result", "f36e6ccbdeb3a1bd4848");
    ("ProxyFuture.__len__", "2be6745fcf7a09778727");
    ("ProxyFuture.__getattr__", "97a87f531782707c425b");
    ("ProxyFuture.__getitem__", "a52a9addcc1f548fabc8");
    ("ProxyFuture.__setitem__", "657937247f4d6f8abf0d");
    ("ProxyFuture.__delitem__", "1e81ee6d84cf59d79a00");
    ("ProxyFuture.__iter__", "eab1aec7dc4923b46fce");
    ("ProxyFuture.__contains__", "adb81feff3aba0ed9d95");
    ("ProxyFuture.__add__", "e93d19c357d9945f3149");
    ("ProxyFuture.__sub__", "985ad11b0c9b4c5d1730");
    ("ProxyFuture.__mul__", "fbfdcb8d02be479b6fc6");
    ("ProxyFuture.__div__", "e400a2b9cbfafc1c5e96");
    ("ProxyFuture.__truediv__", "c9770fd8924858213177");
    ("ProxyFuture.__floordiv__", "f55122aea321c3527343");
    ("ProxyFuture.__mod__", "f46cabdfb36b6264824b");
    ("ProxyFuture.__divmod__", "ba2c6acd303ad9e2c16d");
    ("ProxyFuture.__pow__", "842648ac16ad026dbe6a");
    ("ProxyFuture.__lshift__", "445d3fe3ebcf3b554caa");
    ("ProxyFuture.__rshift__", "00d4c7ea58968e158432");
    ("ProxyFuture.__and__", "e8b011bde36550485dfb");
    ("ProxyFuture.__xor__", "de2a6ea332ca744c0e04");
    ("ProxyFuture.__or__", "7722d7dc5df3ee5ba477");
    ("ProxyFuture.__neg__", "28f2e54f7e74ba804364");
    ("ProxyFuture.__pos__", "ed04daed0bc92879a51d");
    ("ProxyFuture.__abs__", "10310bc3c0752c52c348");
    ("ProxyFuture.__invert__", "fcd5ddfb18bb011df8f8");
    ("ProxyFuture.__complex__", "9b85b02db2a5460196d4");
    ("ProxyFuture.__int__", "c7140edacac3a5a66ef0");
    ("ProxyFuture.__float__", "6258a0dfd69630e128e3");
    ("ProxyFuture.__round__", "2dae4856bfcd6e7c67ce");
    ("ProxyFuture.__trunc__", "30c4447fdd38d2e69243");
    ("ProxyFuture.__floor__", "052565b6d827da2d27f8");
    ("ProxyFuture.__ceil__", "d36674198f9eeff1b1bd");
    ("ProxyFuture.__bool__", "e516399f8636e866fe1a");
    ("ProxyFuture.__nonzero__", "899e52e91e2deb54702d");
    ("<class ProxyFuture>", "40c73a04bc99b8037aa1");
    ("f_proxy", "dfc0fd909ca3da6312de");
    ("<module>", "e4e9e80a18b978073b89") ].

Definition expected_fnocancel : list (string * string) :=
  [ ("NoCancelFuture.cancel", "d0f7ac8c65614db8907e");
    ("<class NoCancelFuture>", "4cfbec42b991c9734d80");
    ("f_nocancel", "7950aa7c9462e690dec3");
    ("<module>", "cb3cd9fe8d15668ea9c4") ].

Definition expected_fapply : list (string * string) :=
  [ ("f_apply", "2cb3a7a635e8c356504b");
    ("_wrap_args", "742766d158d272ce4fae");
    ("_wrapped_f_apply", "3c94580ce730d4d8ad08");
    ("<module>", "f0139b8947559bbbb6c5") ].

Definition expected_fmap : list (string * string) :=
  [ ("f_map", "637d3bdb9e72b1b2cfb2");
    ("f_flat_map", "2f6e56415e8b7271eeb6");
    ("<module>", "903c3cad0feb45c6c6ca") ].

Definition expected_fsequence : list (string * string) :=
  [ ("f_sequence", "fa3fe0293a3a7201574f");
    ("f_traverse", "5cb6f58faeee5435a80d");
    ("<module>", "d41034fe9c0dd5213331") ].

Definition expected_ftimeout : list (string * string) :=
  [ ("f_timeout", "09d0c939ff51faf46d16");
    ("timeout_executor", "578bdda3d6b5b52f6eaf");
    ("<module>", "9b9650966ac69ca4bdeb") ].

Definition expected_fcheck : list (string * string) :=
  [ ("ensure_futures", "a8d42a0e4529dea8ed8f");
    ("ensure_future", "3a4d6a3a81c7a6ab5420");
    ("is_future", "284aaf26c4c784957ed8");
    ("<module>", "ecc0d41bc4339bdfe43c") ].

Definition expected_bind : list (string * string) :=
  [ ("BoundCallable.__init__", "a7ac852ee16e95990910");
    ("BoundCallable.__call__", "497ebd764341e3da3e02");
    ("<class BoundCallable>", "1f040f2d9056c1e4fe40");
    ("<module>", "f4aa1ef14a46efb325fd") ].

Definition expected_wrap : list (string * string) :=
  [ ("CanBind.bind", "36c2fd2474a22f460e3f");
    ("CanBind.flat_bind", "4de03ff06912e99695d9");
    ("<class CanBind>", "6575991309afb9ac97bd");
    ("CanCustomize.__propagate_name", "4c3a14927286976433b9");
    ("CanCustomize.with_retry", "5b7e7e6833d015d1db60");
    ("CanCustomize.with_map", "23d9b85f36968b7be103");
    ("CanCustomize.with_flat_map", "82ffb070cd904fb63718");
    ("CanCustomize.with_poll", "65c5467bd06c39d927e8");
    ("CanCustomize.with_timeout", "4d54d63391df6d5074d6");
    ("CanCustomize.with_throttle", "767e7c5b46391c52ff47");
    ("CanCustomize.with_cancel_on_shutdown", "0d8bfeb0970f53a55e2f");
    ("CanCustomize.with_asyncio", "6e2a48146c01946e3882");
    ("<class CanCustomize>", "f7f9e317085e50c4f34a");
    ("<class CanCustomizeBind>", "208934573df02db5838e");
    ("<module>", "e3b0c44298fc1c149afb") ].

Definition expected_wrapped : list (string * string) :=
  [ ("CustomizableThreadPoolExecutor.__init__", "7b967a8b921b81fc7c8d");
    ("CustomizableThreadPoolExecutor.shutdown", "f024f1d9e334f5f76700");
    ("CustomizableThreadPoolExecutor.submit", "da05dbea51cb6564ab2d");
    ("<class CustomizableThreadPoolExecutor>", "da70a3aa0609c3d90fd4");
    ("CustomizableProcessPoolExecutor.__init__", "c16055b7d1d5940c2276");
    ("<class CustomizableProcessPoolExecutor>", "c9dafe9381a8b4a9345a");
    ("<module>", "b38edf37be1d9bed1f32") ].

Definition expected_executors : list (string * string) :=
  [ ("Executors.bind", "cf2d0424e49465fa042c");
    ("Executors.flat_bind", "7caf15b3d1b4ee4b9021");
    ("Executors.thread_pool", "71b87cda1bb47d7074b4");
    ("Executors.process_pool", "38be820bfc73ed2fe4b3");
    ("Executors.sync", "c303e4115d0d482765a5");
    ("Executors._customize", "0ee20dd474f21d8513fc");
    ("Executors.with_retry", "1d6d6aee1a7ded0aa6c6");
    ("Executors.with_map", "b67b8c984cead0bfb648");
    ("Executors.with_flat_map", "8ac0318b95f3ac7a74ef");
    ("Executors.with_poll", "00fe2e50b25ea5ce9865");
    ("Executors.with_timeout", "f639ed91ce7e82ea12f7");
    ("Executors.with_throttle", "cfbc6f56572bd9051d10");
    ("Executors.with_cancel_on_shutdown", "e494dce599e8e18ff687");
    ("Executors.with_asyncio", "1a08d50f66427760ce85");
    ("<class Executors>", "3cfc2f6c667310f0f7b4");
    ("<module>", "cc5adb6bae2d69264cf9") ].

Definition expected_sync : list (string * string) :=
  [ ("SyncExecutor.__init__", "957fe250daf99d701d5d");
    ("SyncExecutor.shutdown", "0a8912b5c3591f3afaf7");
    ("SyncExecutor.submit", "0a01ced32d4474138b71");
    ("<class SyncExecutor>", "5f9d1eb35976f6ca983d");
    ("<module>", "8d22d9f25c23487003a7") ].

Definition expected_logwrap : list (string * string) :=
  [ ("LogWrapper.__init__", "a8dcd5139d863186a3ad");
    ("LogWrapper.debug", "f088a69640bccb6c2cde");
    ("<class LogWrapper>", "213a6de1eda0d28b3220");
    ("<module>", "de2abade832c8e350a1b") ].

Definition expected_metrics_null : list (string * string) :=
  [ ("NullBase.labels", "41d14c5c13c53b41dc5f");
    ("NullBase.inc", "55025e5dadaf6d9df7b5");
    ("<class NullBase>", "94056c49c7a025ac1756");
    ("<class Counter>", "0324ceee67f8c6109d21");
    ("Gauge.dec", "ef53a3c54b85b016bbce");
    ("<class Gauge>", "9d17a576ff0dd36c4558");
    ("<class NullMetrics>", "13fbbf221cc8e09e4d80");
    ("<module>", "e3b0c44298fc1c149afb") ].

Definition expected_futures_init : list (string * string) :=
  [ ("<module>", "8d83fc67d5e704754012") ].

Definition expected_asyncio : list (string * string) :=
  [ ("AsyncioExecutor.__init__", "7e062af3ab81734fa37d");
    ("AsyncioExecutor.submit", "f30a8fb45a406fb282c6");
    ("AsyncioExecutor.submit_with_loop", "e7c467afbf87056bd909");
    ("AsyncioExecutor.shutdown", "afb460a16f12ffe76291");
    ("<class AsyncioExecutor>", "76ffbf9760405d58036a");
    ("<module>", "daf176811b409e3a5fa6") ].
