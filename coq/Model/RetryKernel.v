(* Wire interface to the regenerated retry kernels, for the differential check against the Python
   functions ExceptionRetryPolicy.should_retry / sleep_time and RetryExecutor._get_next_job. *)
From Coq Require Import List ZArith QArith Qreduction Bool.
From ME Require Import Base.GenPrelude Gen.RetryGen.
Import ListNotations.
Local Open Scope Z_scope.

Definition zb (b : bool) : Z := if b then 1 else 0.
Definition q_of (nu de : Z) : Q := Qmake nu (Z.to_pos de).

(* isinst table: row-major ncls x nbase *)
Definition tbl (t : list Z) (nbase : Z) (e b : nat) : bool :=
  Z.eqb (nth (e * Z.to_nat nbase + b)%nat t 0) 1.

Fixpoint jobs_of (l : list Z) (i : nat) : list rjob :=
  match l with
  | d :: s :: w :: r => {| rj_id := i; rj_has_delegate := Z.eqb d 1; rj_stop := Z.eqb s 1; rj_when := w |} :: jobs_of r (S i)
  | _ => []
  end.

Definition query (q : list Z) : list Z :=
  match q with
  | 0 :: max :: attempt :: exc :: nbase :: rest =>
      (* should_retry: rest = bases (nb of them, as column indexes) ++ table *)
      let nb := Z.to_nat (nth 0 rest 0) in
      let bases := map Z.to_nat (firstn nb (tl rest)) in
      let table := skipn nb (tl rest) in
      [zb (should_retry (tbl table nbase) max bases attempt (if exc <? 0 then None else Some (Z.to_nat exc)))]
  | [1; sn; sd; en; ed; mn; md; attempt] =>
      let r := Qred (sleep_time (q_of sn sd) (q_of en ed) (q_of mn md) attempt) in
      [Qnum r; Zpos (Qden r)]
  | 2 :: now :: rest =>
      match get_next_job now (jobs_of rest 0) with None => [-1] | Some j => [Z.of_nat (rj_id j)] end
  | _ => [-99]
  end.

Definition run_line (ls : list (list Z)) : list Z := flat_map query ls.
