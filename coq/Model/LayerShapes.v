(* The library's actual call shapes as layered lock programs (Model/Layers.v), written from
   /repo/more_executors/_impl/{helpers,common,map,cancel_on_shutdown,throttle,retry,timeout,sync}.py and
   concurrent.futures.  Definitions only.

   Conventions.  K = 8 local lock numbers per layer.  Every executor's shutdown gate (ShutdownHelper._lock, an
   RLock, held by `with self._shutdown.ensure_alive()` for the whole of submit()) has local number 0.  The other
   locks of a layer are numbered so that the layer's LOCAL order proved in Props/C04_{retry,throttle,timeout,poll}.v
   is the numeric one:
     CancelOnShutdown   gate 0 < _lock 1
     Map                gate 0 < M_j = 1+j          (MapFuture._me_lock; no two M of one layer are nested)
     Throttle           gate 0 < M_j = 1+j (j<3) < X 4 (_lock) < A 5 (AtomicInt.lock)
     Retry              gate 0 < M_j = 1+j (j<3) < X 4 (_lock, RLock)
     Timeout            gate 0 < M_j = 1+j (j<3), X 4 (_jobs_lock) -- never nested with M
     Sync               gate 0; C_j = 2+j (the condition of the plain Future it returns)
     ThreadPool (base)  _shutdown_lock 0 < _global_shutdown_lock 1 < C_j = 2+j (the condition of future j)
   The condition inside each library future (taken by the stdlib Future methods the library calls under M_j) is a
   leaf: nothing is acquired while it is held, so it is left out (DESIGN.md section 3: a stdlib Future method is one
   linearisable step).  With prometheus installed metrics.track_future adds one more add_done_callback (one more M
   section of the new future, next to the constructor's); not shown.  Event.set/wait, Thread.join and Future.result() are not lock operations.  User callables,
   map functions and done-callbacks are inline bodies; when they call back into an executor of the stack the call is
   an LUp / LDown body. *)
From Coq Require Import List Bool Arith.
From ME Require Import Base.Machine Model.Locks Model.Layers.
Import ListNotations.

Definition KL : nat := 8.
Definition G : nat := 0.           (* the gate of whatever layer the program is at *)
Definition cL : nat := 1.          (* CancelOnShutdownExecutor._lock *)
Definition M (j : nat) : nat := 1 + j.   (* _me_lock of future j of a Map / Throttle / Retry / Timeout layer *)
Definition X : nat := 4.           (* ThrottleExecutor._lock / RetryExecutor._lock / TimeoutExecutor._jobs_lock *)
Definition A : nat := 5.           (* ThrottleExecutor._running_count.lock *)
Definition pS : nat := 0.          (* ThreadPoolExecutor._shutdown_lock *)
Definition pGS : nat := 1.         (* concurrent.futures.thread._global_shutdown_lock *)
Definition C (j : nat) : nat := 2 + j.   (* Future._condition of pool future j *)

Definition sect (k : nat) : list lp := [LAcq k; LRel k].          (* with lock: <no visible operation inside> *)

(* ---------------------------------------------------------------------------------------------------------
   1. submit through cancel_on_shutdown (layer 0) over throttle (1) over retry (2) over a thread pool (3)   *)

(* ThreadPoolExecutor.submit: with self._shutdown_lock, _global_shutdown_lock: ... *)
Definition pool_submit : list lp := [LAcq pS; LAcq pGS; LRel pGS; LRel pS].

(* RetryExecutor.submit_retry: gate { RetryFuture(): add_done_callback(_clear_executor) under M; _append_job under X } *)
Definition retry_submit_j (j : nat) : list lp := [LAcq G] ++ sect (M j) ++ sect X ++ [LRel G].
Definition retry_submit : list lp := retry_submit_j 0.

(* ThrottleExecutor.submit: gate { ThrottleFuture(): _set_delegate(None), add_done_callback(_clear_executor);
   with self._lock: append }; the delegate is NOT called here, the hand-over thread does it *)
Definition throttle_submit : list lp := [LAcq G] ++ sect (M 0) ++ sect (M 0) ++ sect X ++ [LRel G].

(* CancelOnShutdownExecutor.submit: gate { _lock { delegate.submit(); future.add_done_callback(discard) } }:
   the gate AND _lock are held across the downward submit and the downward add_done_callback *)
Definition cos_submit : list lp :=
  [LAcq G; LAcq cL; LDown throttle_submit; LDown (sect (M 0)); LRel cL; LRel G].

(* throttle hand-over thread, _submit_loop_iter + _do_submit (starts at layer 1): pop under _lock with
   running_count.incr() inside; then, holding nothing, delegate.submit(); delegate_future.add_done_callback;
   job.future._set_delegate(delegate_future): M, released, then delegate.add_done_callback(_delegate_resolved) *)
Definition throttle_handover : list lp :=
  [LAcq X; LAcq A; LRel A; LRel X; LDown retry_submit; LDown (sect (M 0))] ++ sect (M 0) ++ [LDown (sect (M 0))].

(* retry submit thread (starts at layer 2): with _lock: _get_next_job; _submit_now: with future._me_lock: with
   self._lock: _pop_job (re-entrant X); delegate.submit() WHILE M AND X ARE HELD; _append_job (re-entrant X);
   afterwards delegate_future.add_done_callback(_delegate_callback) *)
Definition retry_submit_now (delegate_submit : list lp) : list lp :=
  sect X ++ [LAcq (M 0); LAcq X] ++ sect X ++ [LDown delegate_submit] ++ sect X ++ [LRel X; LRel (M 0)].
Definition retry_thread : list lp := retry_submit_now pool_submit ++ [LDown (sect (C 0))].

(* pool worker (starts at layer 3): runs the callable holding nothing, Future.set_result under the condition, then
   _invoke_callbacks OUTSIDE it: RetryExecutor._delegate_callback (layer 2, no retry): copy_future ->
   RetryFuture.set_result = __terminate_via: M { _clear_delegate (re-entrant M) }; _me_invoke_callbacks outside M:
   _clear_executor (M), ThrottleExecutor._delegate_future_done (layer 1: running_count.decr() under A),
   ThrottleFuture._delegate_resolved (layer 1: _set_delegate(None) under M; set_result under M; callbacks outside:
   CancelOnShutdownExecutor._futures.discard, layer 0, no lock); finally _pop_job under X *)
Definition throttle_delegate_resolved : list lp := sect (M 0) ++ sect (M 0) ++ [LUp []].
Definition retry_delegate_callback : list lp :=
  [LAcq (M 0)] ++ sect (M 0) ++ [LRel (M 0)] ++ sect (M 0) ++
  [LUp (sect A); LUp throttle_delegate_resolved] ++ sect X.
Definition pool_worker : list lp := sect (C 0) ++ [LUp retry_delegate_callback].

Definition stack4 (t : nat) : lthread :=
  match t with
  | 0 => {| l_start := 0; l_prog := cos_submit |}
  | 1 => {| l_start := 1; l_prog := throttle_handover |}
  | 2 => {| l_start := 2; l_prog := retry_thread |}
  | 3 => {| l_start := 3; l_prog := pool_worker |}
  | _ => idle
  end.

(* what the threads of that stack do, by starting layer: user threads call the top executor and the future it
   returned (a ThrottleFuture of layer 1: cancel(), add_done_callback()); the worker threads iterate *)
Definition throttle_cancel_queued : list lp := [LAcq (M 0)] ++ sect X ++ [LRel (M 0); LUp []].
   (* ThrottleFuture.cancel of a queued future: M { _do_cancel: X }; callbacks outside M: discard of layer 0 *)
Definition pool_shutdown : list lp := sect pS.
Definition retry_shutdown : list lp := sect G ++ [LDown pool_shutdown].
Definition throttle_shutdown : list lp := sect G ++ [LDown retry_shutdown].
Definition cos_shutdown : list lp :=
  sect G ++ sect cL ++ [LDown throttle_cancel_queued; LDown throttle_shutdown].
Definition stack4_api (layer : nat) : list (list lp) :=
  match layer with
  | 0 => [cos_submit; cos_shutdown; [LDown throttle_cancel_queued]; [LDown (sect (M 0))]]
  | 1 => [throttle_handover]
  | 2 => [retry_thread]
  | 3 => [pool_worker]
  | _ => []
  end.

(* a gate held across the downward submit at three consecutive layers: cancel_on_shutdown over map over map over pool *)
Definition map_submit (delegate_submit : list lp) : list lp :=
  [LAcq G; LDown delegate_submit] ++ sect (M 0) ++ [LDown (sect (M 0)); LRel G].
   (* MapExecutor.submit: gate { delegate.submit(); MapFuture(): _set_delegate under M, then
      delegate.add_done_callback(_delegate_resolved) on the future of the layer below } *)
Definition map_submit_base : list lp :=
  [LAcq G; LDown pool_submit] ++ sect (M 0) ++ [LDown (sect (C 0)); LRel G].
Definition cos_map_map_submit : list lp :=
  [LAcq G; LAcq cL; LDown (map_submit map_submit_base); LDown (sect (M 0)); LRel cL; LRel G].

(* ---------------------------------------------------------------------------------------------------------
   2. cancel() of a MapFuture (layer 0) over a RetryFuture (layer 1) over a pool future (layer 2)           *)

(* stdlib Future.cancel: under the condition; _invoke_callbacks outside it: RetryExecutor._delegate_callback sees a
   cancelled delegate and returns (reads only) *)
Definition pool_cancel : list lp := sect (C 0) ++ [LUp []].
(* outer MapFuture._delegate_resolved for a cancelled delegate: _set_delegate(None) under its M, then returns *)
Definition map_delegate_cancelled : list lp := sect (M 0).
(* _Future.cancel of the RetryFuture: M { RetryExecutor._cancel: X { scan, stop_retry }; delegate_future.cancel()
   WHILE M IS HELD; _clear_delegate (re-entrant M); _pop_job (X) }; _me_invoke_callbacks outside M:
   _clear_executor (M), then the callback of the layer above *)
Definition retry_cancel : list lp :=
  [LAcq (M 0)] ++ sect X ++ [LDown pool_cancel] ++ sect (M 0) ++ sect X ++ [LRel (M 0)] ++
  sect (M 0) ++ [LUp map_delegate_cancelled].
(* _Future.cancel of the MapFuture: M { _me_cancel: M again { self._delegate.cancel() WHILE M of the outer future IS
   HELD } }; the upward call above re-enters this M *)
Definition map_cancel : list lp := [LAcq (M 0); LAcq (M 0); LDown retry_cancel; LRel (M 0); LRel (M 0)].

(* ---------------------------------------------------------------------------------------------------------
   3. shutdown() propagating down cancel_on_shutdown / throttle / retry / pool: every layer flips its flag
      under its gate, RELEASES it, and only then calls delegate.shutdown (joins are not lock waits)          *)
(* pool_shutdown, retry_shutdown, throttle_shutdown, throttle_cancel_queued, cos_shutdown: defined in part 1 above:
   cos_shutdown = gate section; _lock section (copy of the futures); f.cancel() of each future and delegate.shutdown()
   with NOTHING held *)

(* ---------------------------------------------------------------------------------------------------------
   4. a completion travelling up through two map layers (map 0 over map 1 over pool 2), pool worker thread:
      set_result under the condition; callbacks outside: inner MapFuture._delegate_resolved (_set_delegate(None)
      under M, map_fn, set_result under M, _me_invoke_callbacks OUTSIDE M): outer MapFuture._delegate_resolved *)
Definition map_resolved (callbacks : list lp) : list lp := sect (M 0) ++ sect (M 0) ++ callbacks.
Definition completion_up2 : list lp := sect (C 0) ++ [LUp (map_resolved [LUp (map_resolved [])])].

(* seeded change C04-m3: MapFuture.set_result runs the callbacks UNDER its lock *)
Definition map_resolved_m3 (callbacks : list lp) : list lp := sect (M 0) ++ [LAcq (M 0)] ++ callbacks ++ [LRel (M 0)].
Definition completion_up2_m3 : list lp := sect (C 0) ++ [LUp (map_resolved_m3 [LUp (map_resolved_m3 [])])].

(* ---------------------------------------------------------------------------------------------------------
   5. G10: timeout (0) over retry (1) over a SYNCHRONOUS executor (2).  The retry submit thread holds M and X
      across SyncExecutor.submit, which runs the user's callable inline (under the sync gate); the callable submits
      to the top executor again: two upward calls, then the gate of layer 0.                                 *)
Definition timeout_submit (j : nat) : list lp :=
  [LAcq G; LDown (retry_submit_j j)] ++ sect (M j) ++ [LDown (sect (M j))] ++ sect (M j) ++ sect X ++ [LRel G].
   (* TimeoutExecutor.submit_timeout for future j: gate { delegate.submit(); MapFuture(delegate_future);
      future.add_done_callback(_on_future_done); with _jobs_lock: append } *)
Definition sync_submit_inline (callable : list lp) : list lp := [LAcq G] ++ callable ++ [LRel G].
Definition g10_retry_thread : list lp :=
  retry_submit_now (sync_submit_inline [LUp [LUp (timeout_submit 2)]]).

Definition g10_threads (t : nat) : lthread :=
  match t with
  | 0 => {| l_start := 0; l_prog := timeout_submit 1 |}
  | 1 => {| l_start := 1; l_prog := g10_retry_thread |}
  | _ => idle
  end.
(* the user thread (submitting future 1) takes gate 0, gate 1, M_1 of retry and releases it: next X of retry;
   the retry thread (future 0) takes and releases X, takes M_0, X, X again, releases it once, takes the sync gate:
   next, inside the callable, gate 0 *)
Definition g10_schedule : list nat := [0; 0; 0; 0; 1; 1; 1; 1; 1; 1; 1].

(* ---------------------------------------------------------------------------------------------------------
   6. nested submission (second sentence of C04; defect G5).  map (0) over sync (1).
   a. MapExecutor.submit: gate { delegate.submit() -- the sync executor has finished the callable when it returns;
      MapFuture(): _set_delegate under M; inner.add_done_callback(_delegate_resolved): the inner future is done, so
      the stdlib runs the callback INLINE, outside its condition: _delegate_resolved: M; map_fn -- user code that
      SUBMITS TO THE MAP EXECUTOR AGAIN, re-entering its gate --; set_result under M }                        *)
Definition sync_submit_plain : list lp := sect G.
Definition nested_in_map_fn : list lp :=
  [LAcq G; LDown sync_submit_plain] ++ sect (M 0) ++
  [LDown (sect (C 0) ++
          [LUp (sect (M 0) ++
                ([LAcq G; LDown sync_submit_plain] ++ sect (M 1) ++ [LDown (sect (C 1) ++ [LUp (sect (M 1) ++ sect (M 1))]); LRel G]) ++
                sect (M 0))])] ++
  [LRel G].
(* b. the callable itself, running inline inside SyncExecutor.submit UNDER THE SYNC GATE, submits to the map executor
      again: an upward call made while a lock of the calling layer is held; every gate it meets is re-entered *)
Definition nested_in_callable : list lp :=
  [LAcq G;
   LDown (sync_submit_inline
            [LUp ([LAcq G; LDown sync_submit_plain] ++ sect (M 1) ++ [LDown (sect (C 1) ++ [LUp (sect (M 1) ++ sect (M 1))]); LRel G])])] ++
  sect (M 0) ++ [LDown (sect (C 0) ++ [LUp (sect (M 0) ++ sect (M 0))]); LRel G].

(* the gate of layer 0 as a plain Lock (before the repair of G5): every other lock stays re-entrant *)
Definition gate0_plain (l : nat) : bool := negb (Nat.eqb l (glob KL 0 G)).

(* ---------------------------------------------------------------------------------------------------------
   7. map (0) over a synchronous executor (1), every call entering through the top.  Numbering: gates first
      (Layers.gate_first LS KL): gate 0 < gate 1 < every other lock.                                          *)
Definition LS : nat := 2.
Definition map_sync_submit (j : nat) : list lp :=     (* MapExecutor.submit of a plain callable, future j *)
  [LAcq G; LDown sync_submit_plain] ++ sect (M j) ++
  [LDown (sect (C j) ++ [LUp (sect (M j) ++ sect (M j))]); LRel G].
Definition map_sync_cancel : list lp :=               (* cancel(): M, M again, inner.cancel() under its condition *)
  [LAcq (M 0); LAcq (M 0); LDown (sect (C 0)); LRel (M 0); LRel (M 0)].
Definition map_sync_shutdown : list lp := sect G ++ [LDown (sect G)].
Definition map_sync_api : list (list lp) :=
  [map_sync_submit 0; map_sync_submit 1; nested_in_map_fn; nested_in_callable; map_sync_cancel; map_sync_shutdown;
   sect (M 0); sect (M 1)].

(* ---------------------------------------------------------------------------------------------------------
   8. the same stack entered at TWO layers, no retry executor involved: thread 0 submits through the map executor;
      thread 1 submits DIRECTLY to the synchronous executor a callable that submits to the map executor.
      SyncExecutor.submit holds its gate while the callable runs: gate 1 then gate 0, against gate 0 then gate 1.   *)
Definition sync_direct_nested : list lp := sync_submit_inline [LUp (map_sync_submit 1)].
Definition gate_inversion_threads (t : nat) : lthread :=
  match t with
  | 0 => {| l_start := 0; l_prog := map_sync_submit 0 |}
  | 1 => {| l_start := 1; l_prog := sync_direct_nested |}
  | _ => idle
  end.
Definition gate_inversion_schedule : list nat := [0; 1].
