(* The library's actual call shapes as layered lock programs (Model/Layers.v), written from
   /repo/more_executors/_impl/{helpers,common,map,cancel_on_shutdown,throttle,retry,timeout,sync}.py and
   concurrent.futures.  Definitions only.

   Conventions.  K = 8 local lock numbers per layer.  Every executor's shutdown gate (ShutdownHelper._lock, an
   RLock, held by `with self._shutdown.ensure_alive()` for the whole of submit()) has local number 0.  The other
   locks of a layer are numbered so that the layer's LOCAL order proved in Props/C04_{retry,throttle,timeout,poll}.v
   is the numeric one:
     CancelOnShutdown   gate 0 < _lock 1
     Map                gate 0 < M_j = 1+j          (MapFuture._me_lock; no two M of one layer are nested)
     Throttle           gate 0 < M_j = 1+j (j<3) < X 4 (_lock) < A 5 (AtomicInt.lock)
     Retry              gate 0 < M_j = 1+j (j<3) < X 4 (_lock, RLock)
     Timeout            gate 0 < M_j = 1+j (j<3), X 4 (_jobs_lock) -- never nested with M
     Sync               gate 0; C_j = 2+j (the condition of the plain Future it returns); since commit 3a8457b the
                        callable runs AFTER the gate section (shapes named ..._before_fix are the code before it)
     Poll               gate 0 < X 1 (_lock, RLock) < M_j = 2+j   (pX, pM: section 9)
     FlatMap            as Map
     ThreadPool (base)  _shutdown_lock 0 < _global_shutdown_lock 1 < C_j = 2+j (the condition of future j)
   The condition inside each library future (taken by the stdlib Future methods the library calls under M_j) is a
   leaf: nothing is acquired while it is held, so it is left out (DESIGN.md section 3: a stdlib Future method is one
   linearisable step).  With prometheus installed metrics.track_future adds one more add_done_callback (one more M
   section of the new future, next to the constructor's); not shown.  Event.set/wait, Thread.join and Future.result() are not lock operations.  User callables,
   map functions and done-callbacks are inline bodies; when they call back into an executor of the stack the call is
   an LUp / LDown body. *)
From Coq Require Import List Bool Arith.
From ME Require Import Base.Machine Model.Locks Model.Layers.
Import ListNotations.

Definition KL : nat := 8.
Definition G : nat := 0.           (* the gate of whatever layer the program is at *)
Definition cL : nat := 1.          (* CancelOnShutdownExecutor._lock *)
Definition M (j : nat) : nat := 1 + j.   (* _me_lock of future j of a Map / Throttle / Retry / Timeout layer *)
Definition X : nat := 4.           (* ThrottleExecutor._lock / RetryExecutor._lock / TimeoutExecutor._jobs_lock *)
Definition A : nat := 5.           (* ThrottleExecutor._running_count.lock *)
Definition pS : nat := 0.          (* ThreadPoolExecutor._shutdown_lock *)
Definition pGS : nat := 1.         (* concurrent.futures.thread._global_shutdown_lock *)
Definition C (j : nat) : nat := 2 + j.   (* Future._condition of pool future j *)

Definition sect (k : nat) : list lp := [LAcq k; LRel k].          (* with lock: <no visible operation inside> *)

(* ---------------------------------------------------------------------------------------------------------
   1. submit through cancel_on_shutdown (layer 0) over throttle (1) over retry (2) over a thread pool (3)   *)

(* ThreadPoolExecutor.submit: with self._shutdown_lock, _global_shutdown_lock: ... *)
Definition pool_submit : list lp := [LAcq pS; LAcq pGS; LRel pGS; LRel pS].

(* RetryExecutor.submit_retry: gate { RetryFuture(): add_done_callback(_clear_executor) under M; _append_job under X } *)
Definition retry_submit_j (j : nat) : list lp := [LAcq G] ++ sect (M j) ++ sect X ++ [LRel G].
Definition retry_submit : list lp := retry_submit_j 0.

(* ThrottleExecutor.submit: gate { ThrottleFuture(): _set_delegate(None), add_done_callback(_clear_executor);
   with self._lock: append }; the delegate is NOT called here, the hand-over thread does it *)
Definition throttle_submit : list lp := [LAcq G] ++ sect (M 0) ++ sect (M 0) ++ sect X ++ [LRel G].

(* CancelOnShutdownExecutor.submit: gate { _lock { delegate.submit(); future.add_done_callback(discard) } }:
   the gate AND _lock are held across the downward submit and the downward add_done_callback *)
Definition cos_submit : list lp :=
  [LAcq G; LAcq cL; LDown throttle_submit; LDown (sect (M 0)); LRel cL; LRel G].

(* throttle hand-over thread, _submit_loop_iter + _do_submit (starts at layer 1): pop under _lock with
   running_count.incr() inside; then, holding nothing, delegate.submit(); delegate_future.add_done_callback;
   job.future._set_delegate(delegate_future): M, released, then delegate.add_done_callback(_delegate_resolved) *)
Definition throttle_handover : list lp :=
  [LAcq X; LAcq A; LRel A; LRel X; LDown retry_submit; LDown (sect (M 0))] ++ sect (M 0) ++ [LDown (sect (M 0))].

(* retry submit thread (starts at layer 2): with _lock: _get_next_job; _submit_now: with future._me_lock: with
   self._lock: _pop_job (re-entrant X); delegate.submit() WHILE M AND X ARE HELD; _append_job (re-entrant X);
   afterwards delegate_future.add_done_callback(_delegate_callback) *)
Definition retry_submit_now (delegate_submit : list lp) : list lp :=
  sect X ++ [LAcq (M 0); LAcq X] ++ sect X ++ [LDown delegate_submit] ++ sect X ++ [LRel X; LRel (M 0)].
Definition retry_thread : list lp := retry_submit_now pool_submit ++ [LDown (sect (C 0))].

(* pool worker (starts at layer 3): runs the callable holding nothing, Future.set_result under the condition, then
   _invoke_callbacks OUTSIDE it: RetryExecutor._delegate_callback (layer 2, no retry): copy_future ->
   RetryFuture.set_result = __terminate_via: M { _clear_delegate (re-entrant M) }; _me_invoke_callbacks outside M:
   _clear_executor (M), ThrottleExecutor._delegate_future_done (layer 1: running_count.decr() under A),
   ThrottleFuture._delegate_resolved (layer 1: _set_delegate(None) under M; set_result under M; callbacks outside:
   CancelOnShutdownExecutor._futures.discard, layer 0, no lock); finally _pop_job under X *)
Definition throttle_delegate_resolved : list lp := sect (M 0) ++ sect (M 0) ++ [LUp []].
Definition retry_delegate_callback : list lp :=
  [LAcq (M 0)] ++ sect (M 0) ++ [LRel (M 0)] ++ sect (M 0) ++
  [LUp (sect A); LUp throttle_delegate_resolved] ++ sect X.
Definition pool_worker : list lp := sect (C 0) ++ [LUp retry_delegate_callback].

Definition stack4 (t : nat) : lthread :=
  match t with
  | 0 => {| l_start := 0; l_prog := cos_submit |}
  | 1 => {| l_start := 1; l_prog := throttle_handover |}
  | 2 => {| l_start := 2; l_prog := retry_thread |}
  | 3 => {| l_start := 3; l_prog := pool_worker |}
  | _ => idle
  end.

(* what the threads of that stack do, by starting layer: user threads call the top executor and the future it
   returned (a ThrottleFuture of layer 1: cancel(), add_done_callback()); the worker threads iterate *)
Definition throttle_cancel_queued : list lp := [LAcq (M 0)] ++ sect X ++ [LRel (M 0); LUp []].
   (* ThrottleFuture.cancel of a queued future: M { _do_cancel: X }; callbacks outside M: discard of layer 0 *)
Definition pool_shutdown : list lp := sect pS.
Definition retry_shutdown : list lp := sect G ++ [LDown pool_shutdown].
Definition throttle_shutdown : list lp := sect G ++ [LDown retry_shutdown].
Definition cos_shutdown : list lp :=
  sect G ++ sect cL ++ [LDown throttle_cancel_queued; LDown throttle_shutdown].
Definition stack4_api (layer : nat) : list (list lp) :=
  match layer with
  | 0 => [cos_submit; cos_shutdown; [LDown throttle_cancel_queued]; [LDown (sect (M 0))]]
  | 1 => [throttle_handover]
  | 2 => [retry_thread]
  | 3 => [pool_worker]
  | _ => []
  end.

(* a gate held across the downward submit at three consecutive layers: cancel_on_shutdown over map over map over pool *)
Definition map_submit (delegate_submit : list lp) : list lp :=
  [LAcq G; LDown delegate_submit] ++ sect (M 0) ++ [LDown (sect (M 0)); LRel G].
   (* MapExecutor.submit: gate { delegate.submit(); MapFuture(): _set_delegate under M, then
      delegate.add_done_callback(_delegate_resolved) on the future of the layer below } *)
Definition map_submit_base : list lp :=
  [LAcq G; LDown pool_submit] ++ sect (M 0) ++ [LDown (sect (C 0)); LRel G].
Definition cos_map_map_submit : list lp :=
  [LAcq G; LAcq cL; LDown (map_submit map_submit_base); LDown (sect (M 0)); LRel cL; LRel G].

(* ---------------------------------------------------------------------------------------------------------
   2. cancel() of a MapFuture (layer 0) over a RetryFuture (layer 1) over a pool future (layer 2)           *)

(* stdlib Future.cancel: under the condition; _invoke_callbacks outside it: RetryExecutor._delegate_callback sees a
   cancelled delegate and returns (reads only) *)
Definition pool_cancel : list lp := sect (C 0) ++ [LUp []].
(* outer MapFuture._delegate_resolved for a cancelled delegate: _set_delegate(None) under its M, then returns *)
Definition map_delegate_cancelled : list lp := sect (M 0).
(* _Future.cancel of the RetryFuture: M { RetryExecutor._cancel: X { scan, stop_retry }; delegate_future.cancel()
   WHILE M IS HELD; _clear_delegate (re-entrant M); _pop_job (X) }; _me_invoke_callbacks outside M:
   _clear_executor (M), then the callback of the layer above *)
Definition retry_cancel : list lp :=
  [LAcq (M 0)] ++ sect X ++ [LDown pool_cancel] ++ sect (M 0) ++ sect X ++ [LRel (M 0)] ++
  sect (M 0) ++ [LUp map_delegate_cancelled].
(* _Future.cancel of the MapFuture: M { _me_cancel: M again { self._delegate.cancel() WHILE M of the outer future IS
   HELD } }; the upward call above re-enters this M *)
Definition map_cancel : list lp := [LAcq (M 0); LAcq (M 0); LDown retry_cancel; LRel (M 0); LRel (M 0)].

(* ---------------------------------------------------------------------------------------------------------
   3. shutdown() propagating down cancel_on_shutdown / throttle / retry / pool: every layer flips its flag
      under its gate, RELEASES it, and only then calls delegate.shutdown (joins are not lock waits)          *)
(* pool_shutdown, retry_shutdown, throttle_shutdown, throttle_cancel_queued, cos_shutdown: defined in part 1 above:
   cos_shutdown = gate section; _lock section (copy of the futures); f.cancel() of each future and delegate.shutdown()
   with NOTHING held *)

(* ---------------------------------------------------------------------------------------------------------
   4. a completion travelling up through two map layers (map 0 over map 1 over pool 2), pool worker thread:
      set_result under the condition; callbacks outside: inner MapFuture._delegate_resolved (_set_delegate(None)
      under M, map_fn, set_result under M, _me_invoke_callbacks OUTSIDE M): outer MapFuture._delegate_resolved *)
Definition map_resolved (callbacks : list lp) : list lp := sect (M 0) ++ sect (M 0) ++ callbacks.
Definition completion_up2 : list lp := sect (C 0) ++ [LUp (map_resolved [LUp (map_resolved [])])].

(* seeded change C04-m3: MapFuture.set_result runs the callbacks UNDER its lock *)
Definition map_resolved_m3 (callbacks : list lp) : list lp := sect (M 0) ++ [LAcq (M 0)] ++ callbacks ++ [LRel (M 0)].
Definition completion_up2_m3 : list lp := sect (C 0) ++ [LUp (map_resolved_m3 [LUp (map_resolved_m3 [])])].

(* ---------------------------------------------------------------------------------------------------------
   SyncExecutor.submit.
   Since commit 3a8457b (repair of G20): `with self._shutdown.ensure_alive(): future = Future(); track_future(...)`,
   and the callable runs AFTER the gate has been released: a gate section, then the callable with nothing of the
   sync layer held.
   Before that commit the callable ran INSIDE the with-block, under the sync gate.                             *)
Definition sync_submit_inline (callable : list lp) : list lp := sect G ++ callable.
Definition sync_submit_inline_before_fix (callable : list lp) : list lp := [LAcq G] ++ callable ++ [LRel G].
Definition sync_submit_plain : list lp := sync_submit_inline [].           (* a callable that takes no lock *)

(* n upward calls nested in one another: code at layer n+i calling into layer i *)
Fixpoint ups (n : nat) (body : list lp) : list lp :=
  match n with
  | 0 => body
  | S n' => [LUp (ups n' body)]
  end.

(* ---------------------------------------------------------------------------------------------------------
   5. G10: timeout (0) over retry (1) over a SYNCHRONOUS executor (2).  The retry submit thread holds M and X
      across SyncExecutor.submit, which runs the user's callable inline; the callable submits to the top executor
      again: two upward calls, then the gate of layer 0.  The repair of G20 does not touch this: the sync gate is
      released, but M and X of retry are still held when the callable runs.                                   *)
Definition timeout_submit (j : nat) : list lp :=
  [LAcq G; LDown (retry_submit_j j)] ++ sect (M j) ++ [LDown (sect (M j))] ++ sect (M j) ++ sect X ++ [LRel G].
   (* TimeoutExecutor.submit_timeout for future j: gate { delegate.submit(); MapFuture(delegate_future);
      future.add_done_callback(_on_future_done); with _jobs_lock: append } *)
Definition g10_retry_thread : list lp :=
  retry_submit_now (sync_submit_inline (ups 2 (timeout_submit 2))).

Definition g10_threads (t : nat) : lthread :=
  match t with
  | 0 => {| l_start := 0; l_prog := timeout_submit 1 |}
  | 1 => {| l_start := 1; l_prog := g10_retry_thread |}
  | _ => idle
  end.
(* the user thread (submitting future 1) takes gate 0, gate 1, M_1 of retry and releases it: next X of retry;
   the retry thread (future 0) takes and releases X, takes M_0, X, X again, releases it once, takes and releases the
   sync gate: next, inside the callable, gate 0 *)
Definition g10_schedule : list nat := [0; 0; 0; 0; 1; 1; 1; 1; 1; 1; 1; 1].

(* ---------------------------------------------------------------------------------------------------------
   6. nested submission (second sentence of C04; defect G5).  map (0) over sync (1).
   a. MapExecutor.submit: gate { delegate.submit() -- the sync executor has finished the callable when it returns;
      MapFuture(): _set_delegate under M; inner.add_done_callback(_delegate_resolved): the inner future is done, so
      the stdlib runs the callback INLINE, outside its condition: _delegate_resolved: M; map_fn -- user code that
      SUBMITS TO THE MAP EXECUTOR AGAIN, re-entering its gate --; set_result under M }                        *)
Definition map_sync_submit (j : nat) : list lp :=     (* MapExecutor.submit of a plain callable, future j *)
  [LAcq G; LDown sync_submit_plain] ++ sect (M j) ++
  [LDown (sect (C j) ++ [LUp (sect (M j) ++ sect (M j))]); LRel G].
Definition nested_in_map_fn : list lp :=
  [LAcq G; LDown sync_submit_plain] ++ sect (M 0) ++
  [LDown (sect (C 0) ++ [LUp (sect (M 0) ++ map_sync_submit 1 ++ sect (M 0))])] ++
  [LRel G].
(* b. the callable itself, running inline inside SyncExecutor.submit, submits to the map executor again: every gate it
      meets is re-entered.  With the repaired SyncExecutor the upward call is made with nothing of the sync layer held;
      before the repair it was made UNDER THE SYNC GATE *)
Definition map_submit_with_callable (sync_submit : list lp -> list lp) (callable : list lp) : list lp :=
  [LAcq G; LDown (sync_submit callable)] ++
  sect (M 0) ++ [LDown (sect (C 0) ++ [LUp (sect (M 0) ++ sect (M 0))]); LRel G].
Definition nested_in_callable : list lp :=
  map_submit_with_callable sync_submit_inline [LUp (map_sync_submit 1)].
Definition nested_in_callable_before_fix : list lp :=
  map_submit_with_callable sync_submit_inline_before_fix [LUp (map_sync_submit 1)].

(* the gate of layer 0 as a plain Lock (before the repair of G5): every other lock stays re-entrant *)
Definition gate0_plain (l : nat) : bool := negb (Nat.eqb l (glob KL 0 G)).

(* ---------------------------------------------------------------------------------------------------------
   7. map (0) over a synchronous executor (1).  What user threads do, by entry layer: at the top, submit (plain; with
      a map function that submits again; with a callable that submits again), cancel, shutdown, add_done_callback; at
      layer 1 -- the synchronous executor used DIRECTLY -- submit of a plain callable, submit of a callable that
      submits to the map executor, shutdown.                                                                   *)
Definition LS : nat := 2.
Definition map_sync_cancel : list lp :=               (* cancel(): M, M again, inner.cancel() under its condition *)
  [LAcq (M 0); LAcq (M 0); LDown (sect (C 0)); LRel (M 0); LRel (M 0)].
Definition map_sync_shutdown : list lp := sect G ++ [LDown (sect G)].
Definition sync_direct_nested : list lp := sync_submit_inline [LUp (map_sync_submit 1)].
Definition sync_direct_nested_before_fix : list lp := sync_submit_inline_before_fix [LUp (map_sync_submit 1)].
Definition map_sync_api (layer : nat) : list (list lp) :=
  match layer with
  | 0 => [map_sync_submit 0; map_sync_submit 1; nested_in_map_fn; nested_in_callable; map_sync_cancel;
          map_sync_shutdown; sect (M 0); sect (M 1)]
  | 1 => [sync_submit_plain; sync_direct_nested; sect G]
  | _ => []
  end.
(* the code before commit 3a8457b, every call entering at the top; numbering: gates first (Layers.gate_first LS KL):
   gate 0 < gate 1 < every other lock *)
Definition map_sync_api_before_fix : list (list lp) :=
  [map_sync_submit 0; map_sync_submit 1; nested_in_map_fn; nested_in_callable_before_fix; map_sync_cancel;
   map_sync_shutdown; sect (M 0); sect (M 1)].

(* ---------------------------------------------------------------------------------------------------------
   8. G20 (repaired by commit 3a8457b).  The same stack entered at TWO layers, no retry executor involved: thread 0
      submits through the map executor; thread 1 submits DIRECTLY to the synchronous executor a callable that submits
      to the map executor.  Before the repair SyncExecutor.submit held its gate while the callable ran: gate 1 then
      gate 0, against gate 0 then gate 1.                                                                       *)
Definition gate_inversion_threads_before_fix (t : nat) : lthread :=
  match t with
  | 0 => {| l_start := 0; l_prog := map_sync_submit 0 |}
  | 1 => {| l_start := 1; l_prog := sync_direct_nested_before_fix |}
  | _ => idle
  end.
Definition gate_inversion_schedule : list nat := [0; 1].
Definition gate_inversion_threads (t : nat) : lthread :=        (* the same two threads on the repaired code *)
  match t with
  | 0 => {| l_start := 0; l_prog := map_sync_submit 0 |}
  | 1 => {| l_start := 1; l_prog := sync_direct_nested |}
  | _ => idle
  end.

(* ---------------------------------------------------------------------------------------------------------
   9. PollExecutor (layer 0) over a thread pool (layer 1).  Local order of the Poll machine (Props/C04_poll.v):
      gate 0 < X 1 (PollExecutor._lock, RLock) < M_j = 2+j (PollFuture._me_lock).                              *)
Definition pX : nat := 1.
Definition pM (j : nat) : nat := 2 + j.
(* _register_poll: with self._lock: append; future._clear_delegate() (M under X) *)
Definition poll_register : list lp := [LAcq pX; LAcq (pM 0); LRel (pM 0); LRel pX].
(* PollFuture._delegate_resolved for a failed delegate: copy_future_exception -> set_exception under M; callbacks
   outside M: _clear_executor -> _deregister_poll under X *)
Definition poll_delegate_failed : list lp := sect (pM 0) ++ sect pX.
(* submit: gate { delegate.submit(); PollFuture(): add_done_callback(_clear_executor) under M;
   delegate.add_done_callback(_delegate_resolved): delegate still running } *)
Definition poll_submit : list lp :=
  [LAcq G; LDown pool_submit] ++ sect (pM 0) ++ [LDown (sect (C 0)); LRel G].
(* the same with a delegate that has already finished: the stdlib runs _delegate_resolved inline, outside its
   condition, while the gate is held: gate, X, M nested (c04_poll_nested_example) *)
Definition poll_submit_delegate_done : list lp :=
  [LAcq G; LDown pool_submit] ++ sect (pM 0) ++ [LDown (sect (C 0) ++ [LUp poll_register]); LRel G].
(* pool worker (starts at layer 1) completing the delegate: set_result under the condition, callbacks outside *)
Definition poll_pool_worker_ok : list lp := sect (C 0) ++ [LUp poll_register].
Definition poll_pool_worker_failed : list lp := sect (C 0) ++ [LUp poll_delegate_failed].
(* poll thread, one iteration: _run_poll_fn: snapshot under X; poll_fn (user code) with nothing held;
   descriptor.yield_result -> PollFuture.set_result under M; callbacks outside M: _deregister_poll under X *)
Definition poll_thread_iter : list lp := sect pX ++ sect (pM 0) ++ sect pX.
(* cancel(): M { delegate.cancel() WHILE M IS HELD (its callback comes back up: delegate cancelled -> returns);
   _run_cancel_fn: unlocked scan, cancel_fn (user code) under M }; callbacks outside M: _deregister_poll under X *)
Definition poll_cancel : list lp := [LAcq (pM 0); LDown (sect (C 0) ++ [LUp []]); LRel (pM 0)] ++ sect pX.
Definition poll_shutdown : list lp := sect G ++ [LDown pool_shutdown].
Definition poll_api (layer : nat) : list (list lp) :=
  match layer with
  | 0 => [poll_submit; poll_submit_delegate_done; poll_thread_iter; poll_cancel; poll_shutdown; sect (pM 0)]
  | 1 => [poll_pool_worker_ok; poll_pool_worker_failed]
  | _ => []
  end.

(* ---------------------------------------------------------------------------------------------------------
   10. FlatMapExecutor (layer 0) over a thread pool (layer 1).  FlatMapFuture is a MapFuture: gate 0 < M_j = 1+j.
       submit is MapExecutor.submit.  The map function returns a future; here it SUBMITS TO THE FLAT-MAP EXECUTOR
       ITSELF (future 1): run by the pool worker, outside every lock, from inside _delegate_resolved of future 0:
       _set_delegate(None) under M_0; map_fn: a whole nested submit (gate taken afresh by the worker);
       _on_mapped: _set_delegate(result) under M_0, then result.add_done_callback(_delegate_resolved): M_1 of the same
       layer, M_0 not held.                                                                                     *)
Definition flat_map_submit (j : nat) : list lp :=
  [LAcq G; LDown pool_submit] ++ sect (M j) ++ [LDown (sect (C j)); LRel G].
Definition flat_map_stage1 : list lp :=
  sect (C 0) ++ [LUp (sect (M 0) ++ flat_map_submit 1 ++ sect (M 0) ++ sect (M 1))].
(* second stage: the pool worker completes future 1's delegate; _delegate_resolved of future 1: _set_delegate(None);
   map_fn returns an already finished future (f_return); _set_delegate(result) under M_1; its callback runs inline:
   _set_delegate(None), set_result under M_1; callbacks OUTSIDE M_1: _delegate_resolved of future 0 (same layer):
   _set_delegate(None), set_result under M_0 *)
Definition flat_map_stage2 : list lp :=
  sect (C 1) ++ [LUp (sect (M 1) ++ sect (M 1) ++ sect (M 1) ++ sect (M 1) ++ sect (M 0) ++ sect (M 0))].
(* cancel of the flattened future 0 whose delegate is now future 1 of the same layer: M_0 twice, then M_1 (twice),
   then the pool future; the callbacks come back: future 1's (outside M_1) re-enter M_0 *)
Definition flat_map_cancel : list lp :=
  [LAcq (M 0); LAcq (M 0); LAcq (M 1); LAcq (M 1); LDown (sect (C 1) ++ [LUp []]); LRel (M 1); LRel (M 1)] ++
  sect (M 0) ++ [LRel (M 0); LRel (M 0)].
Definition flat_map_api (layer : nat) : list (list lp) :=
  match layer with
  | 0 => [flat_map_submit 0; flat_map_submit 1; flat_map_cancel; sect (M 0); sect (M 1); sect G ++ [LDown pool_shutdown]]
  | 1 => [flat_map_stage1; flat_map_stage2]
  | _ => []
  end.
