(* RetryExecutor / RetryFuture (retry.py) + _Future protocol (common.py) as a trace acceptor over
   the visible operations logged by the harness.  One event = one visible operation of one thread
   (an X-section without inner visible operations is a single event).  Threads carry programs
   (lists of pending visible operations); callbacks run inline by prepending their programs.
   Environment: the delegate executor, completion or cancellation (EEnvCancel) of its futures, the retry policy's answers,
   the clock.  Definitions only. *)
From Coq Require Import ZArith List Bool Arith.
From RecordUpdate Require Import RecordSet.
From ME Require Import Base.Machine Base.Fut Base.GenPrelude Gen.RetryGen.
Import ListNotations RecordSetNotations.

Inductive outcome := Ok (v : nat) | Err (e : nat).

(* a RetryJob record (heap object; stop_retry is mutable) *)
Record jrec := mkJ { jf : nat; jatt : nat; jdel : option nat; jstop : bool; jwhen : Z; jold : option nat }.
#[export] Instance eta_jrec : Settable _ := settable! mkJ <jf; jatt; jdel; jstop; jwhen; jold>.

Inductive cbk := CbClear | CbUser (c : nat).

Inductive instr :=
| IXAppend0                      (* submit_retry: X-section appending the attempt-0 job of the new future *)
| IEvSet
| IRet                           (* API call returns normally *)
| IRetB (b : bool)               (* cancel() returns b *)
| IRaise                         (* API call raises an internal error to its caller *)
| IAcqM (j : nat)
| IRelM (j : nat)
| IRelMCbs (j : nat)             (* release M_j, then _me_invoke_callbacks *)
| ICancelled (j : nat)           (* cancel(): self.cancelled() *)
| IDoneC (j : nat)               (* cancel(): self.done() *)
| IXCancelScan (j : nat)         (* executor._cancel: X-section *)
| IDCancel (j d r : nat)         (* found_job.delegate_future.cancel(); r = found_job *)
| IFCancel (j : nat)             (* super().cancel() *)
| IFSrnc (j : nat)               (* set_running_or_notify_cancel() *)
| IDoneA (j c : nat)             (* add_done_callback: self.done() *)
| IUserCb (j c : nat)            (* a user done-callback runs *)
| IDCbDone (d : nat)             (* _delegate_callback: assert done(); racy snapshot of _jobs *)
| IDCbCancelled (d r : nat)      (* delegate_future.cancelled(); racy read of stop_retry *)
| IPolSR (r : nat)               (* policy.should_retry *)
| IPolST (r : nat)               (* policy.sleep_time *)
| IXRetry (r : nat) (delta : Z)  (* _retry: X-section *)
| IFSet (j : nat) (o : outcome)  (* RetryFuture.set_result / set_exception_info: stdlib setter under M *)
| IXPop (r : nat)                (* _pop_job: X-section *)
| IWWait (tau : option Z)        (* worker: event.wait(tau) *)
| IWWoke
| IWClear
| IXAcqPop (r : nat)             (* _submit_now: take X (held across delegate.submit), pop *)
| IDoneW (r : nat)               (* _submit_now: job.future.done() *)
| IDSubmit (r : nat)             (* delegate.submit, link, append in-flight job *)
| IXRel
| IAddCbD (d : nat)              (* delegate_future.add_done_callback(_delegate_callback) *)
| ICatch                         (* pseudo: an enclosing try/except (stdlib callback invocation) *)
| IThrow                         (* pseudo: an exception is propagating *)
| IDead.                         (* the thread died with an uncaught exception *)

(* ghost history, newest first *)
Inductive hev :=
| HSubmit (j : nat) (ts : Z)
| HDSubmit (j d att : nat) (ts : Z) (w : Z)   (* w = the `when` of the job record that was due *)
| HStart (d : nat) (ts : Z)
| HDDone (d : nat) (o : outcome) (ts : Z)
| HPolSR (j att : nat) (ans : nat) (ts : Z)
| HPolST (j att : nat) (ts : Z)
| HRetry (j att : nat) (delta : Z) (ts : Z)
| HFinal (j : nat) (o : outcome) (ts : Z)
| HCb (j c : nat) (ts : Z)
| HCancelled (j : nat) (ts : Z)               (* the retry future itself became cancelled *)
| HCancelCall (j : nat) (ts : Z)
| HCancelRet (j : nat) (b : bool) (ts : Z)
| HEnvCancel (d : nat) (ts : Z).              (* ghost: SOMEONE ELSE (not RetryFuture.cancel) cancelled delegate future d:
                                                 the Pending -> Cancelled transition was made by EEnvCancel *)

Record st := mkSt {
  jobs : list nat;                 (* executor._jobs, as record ids *)
  recs : nat -> jrec;              (* heap of RetryJob records *)
  nrec : nat;
  nfut : nat;
  ndel : nat;
  rs : nat -> fstate;              (* state of retry future j *)
  rout : nat -> option outcome;
  rcbs : nat -> list cbk;          (* _me_done_callbacks *)
  rdel : nat -> option nat;        (* RetryFuture.delegate_future *)
  ds : nat -> fstate;              (* state of delegate future d *)
  dout : nat -> option outcome;
  dcb : nat -> bool;               (* _delegate_callback registered on d *)
  dfor : nat -> nat;               (* ghost: retry future the delegate future belongs to *)
  datt : nat -> nat;               (* ghost: attempt number of the delegate future *)
  mown : nat -> option nat;        (* owner of M_j (RLock) *)
  xown : option nat;               (* owner of the executor lock when held across events *)
  evf : bool;                      (* _submit_event flag *)
  wblock : option (option Z * Z);  (* worker blocked in wait: (timeout, since) *)
  wnotif : bool;                   (* a set() arrived while the worker was blocked *)
  thr : nat -> list instr;         (* thread 0 is the submit thread *)
  cancelling : nat -> option nat;  (* ghost: retry future whose cancel() thread t is inside *)
  clock : Z;
  hist : list hev
}.
#[export] Instance eta_st : Settable _ := settable! mkSt
  <jobs; recs; nrec; nfut; ndel; rs; rout; rcbs; rdel; ds; dout; dcb; dfor; datt; mown; xown; evf;
   wblock; wnotif; thr; cancelling; clock; hist>.

Definition jrec0 := mkJ 0 0 None false 0 None.
Definition init : st :=
  mkSt [] (fun _ => jrec0) 0 0 0 (fun _ => Pending) (fun _ => None) (fun _ => []) (fun _ => None)
       (fun _ => Pending) (fun _ => None) (fun _ => false) (fun _ => 0) (fun _ => 0) (fun _ => None) None
       false None false (fun _ => []) (fun _ => None) 0 [].

Definition worker : nat := 0.

Fixpoint norm (throwing : bool) (p : list instr) : list instr :=
  match p with
  | [] => if throwing then [IDead] else []
  | ICatch :: r => norm false r
  | IThrow :: r => norm true r
  | i :: r => if throwing then norm true r else p
  end.

Definition remove_id (x : nat) (l : list nat) := filter (fun y => negb (Nat.eqb y x)) l.
Definition view (s : st) (r : nat) : rjob :=
  {| rj_id := r; rj_has_delegate := issome (jdel (recs s r)); rj_stop := jstop (recs s r); rj_when := jwhen (recs s r) |}.
Definition find_fut (s : st) (j : nat) : option nat := find (fun r => Nat.eqb (jf (recs s r)) j) (jobs s).
Definition opt_eqb (a : option nat) (b : nat) : bool := match a with Some x => Nat.eqb x b | None => false end.
Definition find_del (s : st) (d : nat) : option nat := find (fun r => opt_eqb (jdel (recs s r)) d) (jobs s).

Definition cbs_prog (j : nat) (l : list cbk) : list instr :=
  flat_map (fun c => match c with CbClear => [IAcqM j; IRelM j] | CbUser c => [IUserCb j c] end) l.

Definition outcome_of (s : st) (d : nat) : outcome := match dout s d with Some o => o | None => Ok 0 end.

(* RetryFuture.set_*(outcome) followed by what the caller does next *)
Definition finalize_prog (s : st) (r : nat) (d : nat) : list instr :=
  let j := jf (recs s r) in [IAcqM j; IFSet j (outcome_of s d); IRelMCbs j; IXPop r].

Definition set_prog (s : st) (t : nat) (p : list instr) : st := s <| thr := upd (thr s) t (norm false p) |>.
Definition tick (s : st) (ts : Z) : option st := if Z.leb (clock s) ts then Some (s <| clock := ts |>) else None.
Definition log (s : st) (h : hev) : st := s <| hist := h :: hist s |>.

Inductive ev :=
| ECallSubmit (t : nat)
| ECallCancel (t j : nat)
| ECallAddCb (t j c : nat)
| EXSec (t : nat) (w : Z)                 (* acq X; (clock); body; rel X -- no inner visible operation;
                                             w = the thread's latest clock reading *)
| EXAcq (t : nat) | EXRel (t : nat)
| EEvSet (t : nat)
| ERet (t : nat) (code : nat)             (* 0 normal, 1 False, 2 True, 9 raised *)
| EAcqM (t j : nat) | ERelM (t j : nat)
| EFR (t : nat) (op : nat) (j : nat) (pre : fstate)   (* stdlib Future method on retry future j:
                                             0 cancelled 1 done 2 cancel 3 set_running_or_notify_cancel 4 set_result/exception *)
| EFD (t : nat) (op : nat) (d : nat) (pre : fstate)   (* ... on delegate future d: 0 cancelled 1 done 2 cancel 5 add_done_callback *)
| EUserCb (t j c : nat)
| EPolSR (t : nat) (ans : nat)            (* 0 False 1 True 2 raises *)
| EPolST (t : nat) (ans : option Z)       (* None = raises *)
| EDSubmit (t d : nat) (inline : option outcome)
| EWWait (r : nat)                        (* 0 flag already set, 1 blocks *)
| EWWoke (kind : nat)                     (* 0 notified, 1 timeout *)
| EWClear
| EEnvRun (t d : nat) (pre : fstate)
| EEnvStart (t d : nat)
| EEnvFinish (t d : nat) (pre : fstate) (o : outcome)
| EDied (t : nat)
| EEnvCancel (t d : nat) (pre : fstate).  (* someone else (the environment: a user holding the delegate executor's future,
                                             an outer layer, delegate.shutdown(cancel_futures=True)) calls cancel() on delegate
                                             future d; on the Pending -> Cancelled transition the stdlib runs the done-callbacks
                                             inline in t: _delegate_callback, which returns silently for a cancelled future *)

Definition head_is (s : st) (t : nat) : option (instr * list instr) :=
  match thr s t with i :: r => Some (i, r) | [] => None end.

Definition step0 (s : st) (e : ev) : option st :=
  let ts := clock s in
  match e with
  | ECallSubmit t =>
      match thr s t with
      | [] => if Nat.eqb t worker then None else Some (set_prog s t [IXAppend0; IEvSet; IRet])
      | _ => None
      end
  | ECallCancel t j =>
      match thr s t with
      | [] => if Nat.eqb t worker || negb (j <? nfut s) then None else
              Some (log (set_prog (s <| cancelling := upd (cancelling s) t (Some j) |>) t [IAcqM j; ICancelled j]) (HCancelCall j ts))
      | _ => None
      end
  | ECallAddCb t j c =>
      match thr s t with
      | [] => if Nat.eqb t worker || negb (j <? nfut s) then None else Some (set_prog s t [IAcqM j; IDoneA j c])
      | _ => None
      end
  | EXSec t w =>
      if issome (xown s) || negb (Z.leb w ts) then None else
      match thr s t with
      | [] =>
          (* top of the submit loop: with executor._lock: job = executor._get_next_job() *)
          if negb (Nat.eqb t worker) then None else
          match get_next_job ts (map (view s) (jobs s)) with
          | None => Some (set_prog s t [IWWait None])
          | Some v =>
              let r := rj_id v in
              let j := jf (recs s r) in
              if jstop (recs s r) then
                match jold (recs s r) with
                | Some d => Some (set_prog s t [IXPop r; IAcqM j; IFSet j (outcome_of s d); IRelMCbs j])
                | None => Some (set_prog s t [IXPop r; IThrow])     (* copy_future(None, ...) : AttributeError *)
                end
              else if Z.leb (jwhen (recs s r)) ts then
                Some (set_prog s t [IAcqM j; IXAcqPop r])
              else Some (set_prog s t [IWWait (Some (jwhen (recs s r) - ts)%Z)])
          end
      | IXAppend0 :: rest =>
          (* the RetryFuture was constructed just before, under the gate: ids in creation order *)
          let j := nfut s in
          let r := nrec s in
          Some (log (set_prog (s <| nfut := S j |> <| rs := upd (rs s) j Pending |> <| rout := upd (rout s) j None |>
                                 <| rcbs := upd (rcbs s) j [CbClear] |> <| rdel := upd (rdel s) j None |>
                                 <| nrec := S r |> <| recs := upd (recs s) r (mkJ j 0 None false w None) |>
                                 <| jobs := jobs s ++ [r] |>) t rest) (HSubmit j w))
      | IXCancelScan j :: rest =>
          match find_fut s j with
          | None => Some (set_prog s t (IRelM j :: IRetB false :: rest))   (* job already dequeued: too late *)
          | Some r =>
              match jdel (recs s r) with
              | None => (* future._clear_delegate() (M_j is held re-entrantly: silent), then _pop_job *)
                        Some (set_prog (s <| rdel := upd (rdel s) j None |> <| jobs := remove_id r (jobs s) |>) t
                                       (IFCancel j :: IFSrnc j :: IRelMCbs j :: IRetB true :: rest))
              | Some d => Some (set_prog (s <| recs := upd (recs s) r (recs s r <| jstop := true |>) |>) t
                                         (IDCancel j d r :: rest))
              end
          end
      | IXRetry r delta :: rest =>
          let o := recs s r in
          let r' := nrec s in
          Some (log (set_prog (s <| nrec := S r' |>
                                 <| recs := upd (recs s) r' (mkJ (jf o) (jatt o) None (jstop o) (ts + delta)%Z (jdel o)) |>
                                 <| jobs := remove_id r (jobs s) ++ [r'] |>) t rest)
                    (HRetry (jf o) (jatt o) delta ts))
      | IXPop r :: rest => Some (set_prog (s <| jobs := remove_id r (jobs s) |>) t rest)
      | _ => None
      end
  | EXAcq t =>
      if issome (xown s) then None else
      match thr s t with
      | IXAcqPop r :: rest =>
          Some (set_prog (s <| xown := Some t |> <| jobs := remove_id r (jobs s) |>) t (IDoneW r :: rest))
      | _ => None
      end
  | EXRel t =>
      match thr s t, xown s with
      | IXRel :: rest, Some t' => if Nat.eqb t t' then Some (set_prog (s <| xown := None |>) t rest) else None
      | _, _ => None
      end
  | EEvSet t =>
      match thr s t with
      | IEvSet :: rest => Some (set_prog (s <| evf := true |> <| wnotif := issome (wblock s) || wnotif s |>) t rest)
      | _ => None
      end
  | ERet t code =>
      match thr s t with
      | IRet :: rest => if Nat.eqb code 0 then Some (set_prog s t rest) else None
      | IRetB b :: rest =>
          if Nat.eqb code (if b then 2 else 1) then
            match cancelling s t with
            | Some j => Some (log (set_prog (s <| cancelling := upd (cancelling s) t None |>) t rest) (HCancelRet j b ts))
            | None => None
            end
          else None
      | IRaise :: rest => if Nat.eqb code 9 then Some (set_prog (s <| cancelling := upd (cancelling s) t None |>) t rest) else None
      | _ => None
      end
  | EAcqM t j =>
      match thr s t, mown s j with
      | IAcqM j' :: rest, None => if Nat.eqb j j' then Some (set_prog (s <| mown := upd (mown s) j (Some t) |>) t rest) else None
      | IPolSR r :: rest, None =>
          (* eval_policy reads job.stop_retry (no lock) AFTER delegate_future.cancelled() returned: a cancel() whose X-section set the
             flag in between is seen after all, and the callback finalises instead of asking the policy *)
          match jdel (recs s r) with
          | Some d => if jstop (recs s r) && Nat.eqb j (jf (recs s r))
                      then Some (set_prog (s <| mown := upd (mown s) j (Some t) |>) t (tl (finalize_prog s r d) ++ rest)) else None
          | None => None
          end
      | _, _ => None
      end
  | ERelM t j =>
      match thr s t, mown s j with
      | IRelM j' :: rest, Some t' =>
          if Nat.eqb j j' && Nat.eqb t t' then Some (set_prog (s <| mown := upd (mown s) j None |>) t rest) else None
      | IRelMCbs j' :: rest, Some t' =>
          if Nat.eqb j j' && Nat.eqb t t' then
            Some (set_prog (s <| mown := upd (mown s) j None |> <| rcbs := upd (rcbs s) j [] |>) t (cbs_prog j (rcbs s j) ++ rest))
          else None
      | _, _ => None
      end
  | EFR t op j pre =>
      if negb (fstate_eqb pre (rs s j)) then None else
      match thr s t, op with
      | ICancelled j' :: rest, 0 =>
          if negb (Nat.eqb j j') then None else
          if fcancelled pre then Some (set_prog s t (IRelM j :: IRetB true :: rest)) else Some (set_prog s t (IDoneC j :: rest))
      | IDoneC j' :: rest, 1 =>
          if negb (Nat.eqb j j') then None else
          if fdone pre then Some (set_prog s t (IRelM j :: IRetB false :: rest)) else Some (set_prog s t (IXCancelScan j :: rest))
      | IDoneA j' c :: rest, 1 =>
          if negb (Nat.eqb j j') then None else
          if fdone pre then Some (set_prog s t (IRelM j :: IUserCb j c :: IRet :: rest))
          else Some (set_prog (s <| rcbs := upd (rcbs s) j (rcbs s j ++ [CbUser c]) |>) t (IRelM j :: IRet :: rest))
      | IDoneW r :: rest, 1 =>
          if negb (Nat.eqb j (jf (recs s r))) then None else
          if fdone pre then Some (set_prog s t (IXRel :: IRelM j :: rest)) else Some (set_prog s t (IDSubmit r :: rest))
      | IFCancel j' :: rest, 2 =>
          if negb (Nat.eqb j j') then None else
          let '(n, b) := f_cancel pre in
          if b then Some (log (set_prog (s <| rs := upd (rs s) j n |>) t rest) (HCancelled j ts)) else None
      | IFSrnc j' :: rest, 3 =>
          if negb (Nat.eqb j j') then None else
          match f_srnc pre with Some (n, _) => Some (set_prog (s <| rs := upd (rs s) j n |>) t rest) | None => None end
      | IFSet j' o :: rest, 4 =>
          if negb (Nat.eqb j j') then None else
          match f_set pre with
          | Some n => Some (log (set_prog (s <| rs := upd (rs s) j n |> <| rout := upd (rout s) j (Some o) |>
                                             <| rdel := upd (rdel s) j None |>) t rest) (HFinal j o ts))
          | None =>
              (* InvalidStateError is tolerated (try_set_result / copy_exception); callbacks are skipped *)
              Some (set_prog (s <| rdel := upd (rdel s) j None |>) t (IRelM j :: tl rest))
          end
      | _, _ => None
      end
  | EFD t op d pre =>
      if negb (fstate_eqb pre (ds s d)) then None else
      match thr s t, op with
      | IDCbDone d' :: rest, 1 =>
          if negb (Nat.eqb d d') then None else
          match find_del s d with
          | Some r => Some (set_prog s t (IDCbCancelled d r :: rest))
          | None => Some (set_prog s t (IThrow :: rest))                  (* assert found_job *)
          end
      | IDCbCancelled d' r :: rest, 0 =>
          if negb (Nat.eqb d d') then None else
          if fcancelled pre then Some (set_prog s t rest)                 (* returns silently *)
          else if jstop (recs s r) then Some (set_prog s t (finalize_prog s r d ++ rest))
          else Some (set_prog s t (IPolSR r :: rest))
      | IDCancel j d' r :: rest, 2 =>
          if negb (Nat.eqb d d') then None else
          let '(n, b) := f_cancel pre in
          if b then
            let s1 := s <| ds := upd (ds s) d n |> <| rdel := upd (rdel s) j None |> in
            let cont := IXPop r :: IFCancel j :: IFSrnc j :: IRelMCbs j :: IRetB true :: rest in
            if f_cancel_fires pre && dcb s d then Some (set_prog s1 t (IDCbDone d :: ICatch :: cont))
            else Some (set_prog s1 t cont)
          else Some (set_prog s t (IEvSet :: IRelM j :: IRetB false :: rest))
      | IAddCbD d' :: rest, 5 =>
          if negb (Nat.eqb d d') then None else
          let s1 := s <| dcb := upd (dcb s) d true |> in
          if fdone pre then Some (set_prog s1 t (IDCbDone d :: ICatch :: rest)) else Some (set_prog s1 t rest)
      | _, _ => None
      end
  | EUserCb t j c =>
      match thr s t with
      | IUserCb j' c' :: rest => if Nat.eqb j j' && Nat.eqb c c' then Some (log (set_prog s t rest) (HCb j c ts)) else None
      | _ => None
      end
  | EPolSR t ans =>
      match thr s t with
      | IPolSR r :: rest =>
          let j := jf (recs s r) in
          let d := the (jdel (recs s r)) in
          let s1 := log s (HPolSR j (jatt (recs s r)) ans ts) in
          match ans with
          | 1 => Some (set_prog s1 t (IPolST r :: rest))
          | _ => Some (set_prog s1 t (finalize_prog s r d ++ rest))
          end
      | _ => None
      end
  | EPolST t ans =>
      match thr s t with
      | IPolST r :: rest =>
          let j := jf (recs s r) in
          let d := the (jdel (recs s r)) in
          let s1 := log s (HPolST j (jatt (recs s r)) ts) in
          match ans with
          | Some delta => Some (set_prog s1 t (IXRetry r delta :: IEvSet :: rest))
          | None => Some (set_prog s1 t (finalize_prog s r d ++ rest))
          end
      | _ => None
      end
  | EDSubmit t d inline =>
      match thr s t with
      | IDSubmit r :: rest =>
          if negb (Nat.eqb d (ndel s)) then None else
          let o := recs s r in
          let j := jf o in
          let r' := nrec s in
          Some ((fun (x : st) (k : st -> st) => k x) (set_prog (s <| ndel := S d |> <| ds := upd (ds s) d (if issome inline then Finished else Pending) |>
                                 <| dout := upd (dout s) d inline |> <| dcb := upd (dcb s) d false |>
                                 <| dfor := upd (dfor s) d j |> <| datt := upd (datt s) d (S (jatt o)) |>
                                 <| rdel := upd (rdel s) j (Some d) |>
                                 <| nrec := S r' |>
                                 <| recs := upd (recs s) r' (mkJ j (S (jatt o)) (Some d) false 0 None) |>
                                 <| jobs := jobs s ++ [r'] |>)
                              t (IXRel :: IRelM j :: IAddCbD d :: IEvSet :: rest))
                    (match inline with
                     | Some io => fun s' => s' <| hist := HDDone d io ts :: HStart d ts :: HDSubmit j d (S (jatt o)) ts (jwhen o) :: hist s' |>
                     | None => fun s' => log s' (HDSubmit j d (S (jatt o)) ts (jwhen o))
                     end))
      | _ => None
      end
  | EWWait r =>
      match thr s worker with
      | IWWait tau :: rest =>
          match r with
          | 0 => if evf s then Some (set_prog s worker (IWClear :: rest)) else None
          | _ => if evf s then None else
                 Some (set_prog (s <| wblock := Some (tau, ts) |> <| wnotif := false |>) worker (IWWoke :: rest))
          end
      | _ => None
      end
  | EWWoke kind =>
      match thr s worker, wblock s with
      | IWWoke :: rest, Some (tau, since) =>
          let s1 := s <| wblock := None |> <| wnotif := false |> in
          match kind with
          | 0 => if wnotif s then Some (set_prog s1 worker (IWClear :: rest)) else None
          | _ => match tau with
                 | Some x => if Z.leb (since + x) ts then Some (set_prog s1 worker (IWClear :: rest)) else None
                 | None => None
                 end
          end
      | _, _ => None
      end
  | EWClear =>
      match thr s worker with
      | IWClear :: rest => Some (set_prog (s <| evf := false |>) worker rest)
      | _ => None
      end
  | EEnvRun t d pre =>
      match thr s t with
      | [] => if Nat.eqb t worker || negb (d <? ndel s) || negb (fstate_eqb pre (ds s d)) then None else
              match f_srnc pre with Some (n, _) => Some (s <| ds := upd (ds s) d n |>) | None => Some s end
      | _ => None
      end
  | EEnvStart t d =>
      match thr s t with
      | [] => (* the environment invokes the callable only after set_running_or_notify_cancel() returned True *)
              if Nat.eqb t worker || negb (d <? ndel s) || negb (fstate_eqb (ds s d) Running) then None
              else Some (log s (HStart d ts))
      | _ => None
      end
  | EEnvFinish t d pre o =>
      match thr s t with
      | [] => if Nat.eqb t worker || negb (d <? ndel s) || negb (fstate_eqb pre (ds s d)) then None else
              match f_set pre with
              | Some n => Some (log (set_prog (s <| ds := upd (ds s) d n |> <| dout := upd (dout s) d (Some o) |>) t
                                              (if dcb s d then [IDCbDone d; ICatch] else [])) (HDDone d o ts))
              | None => Some s
              end
      | _ => None
      end
  | EDied t =>
      match thr s t with IDead :: _ => Some s | _ => None end
  | EEnvCancel t d pre =>
      match thr s t with
      | [] => if Nat.eqb t worker || negb (d <? ndel s) || negb (fstate_eqb pre (ds s d)) then None else
              if f_cancel_fires pre then
                (* Pending -> Cancelled; cancel() returns True after running the done-callbacks inline: the same callback
                   program as after EEnvFinish / IDCancel (IDCbDone d, then IDCbCancelled d r, which returns silently) *)
                Some (log (set_prog (s <| ds := upd (ds s) d (fst (f_cancel pre)) |>) t
                                    (if dcb s d then [IDCbDone d; ICatch] else [])) (HEnvCancel d ts))
              else Some s     (* Running: cancel() returns False; already done: f_cancel leaves the state as it is *)
      | _ => None
      end
  end.

(* every event carries the virtual time at which it took effect *)
Definition step (s : st) (te : Z * ev) : option st :=
  match tick s (fst te) with Some s1 => step0 s1 (snd te) | None => None end.

(* ---- wire format -------------------------------------------------------------------------------- *)
Local Open Scope Z_scope.
Definition n (z : Z) : nat := Z.to_nat z.
Definition oc (k v : Z) : outcome := if Z.eqb k 0 then Ok (n v) else Err (n v).
Definition decode (l : list Z) : option (Z * ev) :=
  match l with
  | ts :: k :: a =>
      match k, a with
      | 0, [t] => Some (ts, ECallSubmit (n t))
      | 1, [t; j] => Some (ts, ECallCancel (n t) (n j))
      | 2, [t; j; c] => Some (ts, ECallAddCb (n t) (n j) (n c))
      | 3, [t; w] => Some (ts, EXSec (n t) w)
      | 4, [t] => Some (ts, EXAcq (n t))
      | 5, [t] => Some (ts, EXRel (n t))
      | 6, [t] => Some (ts, EEvSet (n t))
      | 7, [t; c] => Some (ts, ERet (n t) (n c))
      | 8, [t; j] => Some (ts, EAcqM (n t) (n j))
      | 9, [t; j] => Some (ts, ERelM (n t) (n j))
      | 10, [t; op; j; p] => match fstate_of p with Some p => Some (ts, EFR (n t) (n op) (n j) p) | None => None end
      | 11, [t; op; d; p] => match fstate_of p with Some p => Some (ts, EFD (n t) (n op) (n d) p) | None => None end
      | 12, [t; j; c] => Some (ts, EUserCb (n t) (n j) (n c))
      | 13, [t; a] => Some (ts, EPolSR (n t) (n a))
      | 14, [t; r; v] => Some (ts, EPolST (n t) (if Z.eqb r 1 then None else Some v))
      | 15, [t; d; i; k; v] => Some (ts, EDSubmit (n t) (n d) (if Z.eqb i 1 then Some (oc k v) else None))
      | 16, [r] => Some (ts, EWWait (n r))
      | 17, [k] => Some (ts, EWWoke (n k))
      | 18, [] => Some (ts, EWClear)
      | 19, [t; d; p] => match fstate_of p with Some p => Some (ts, EEnvRun (n t) (n d) p) | None => None end
      | 20, [t; d] => Some (ts, EEnvStart (n t) (n d))
      | 21, [t; d; p; k; v] => match fstate_of p with Some p => Some (ts, EEnvFinish (n t) (n d) p (oc k v)) | None => None end
      | 22, [t] => Some (ts, EDied (n t))
      | 23, [t; d; p] => match fstate_of p with Some p => Some (ts, EEnvCancel (n t) (n d) p) | None => None end
      | _, _ => None
      end
  | _ => None
  end.

Fixpoint decode_all (ls : list (list Z)) : option (list (Z * ev)) :=
  match ls with
  | [] => Some []
  | l :: r => match decode l, decode_all r with Some e, Some es => Some (e :: es) | _, _ => None end
  end.

Definition accept (ls : list (list Z)) : list Z :=
  match decode_all ls with
  | None => [-2]
  | Some es => match first_reject step init es 0 with None => [-1] | Some i => [Z.of_nat i] end
  end.
