(* CancelOnShutdownExecutor (cancel_on_shutdown.py) + ShutdownHelper (helpers.py) as a trace
   acceptor over the visible operations logged by the harness.  Any number of threads, each
   issuing any sequence of submit()/shutdown() calls; the delegate executor and the completion of
   its futures are environment.  Definitions only (proofs live in Proofs/Cos_Inv.v). *)
From Coq Require Import ZArith List Bool Arith.
From ME Require Import Base.Machine Base.Fut.
Import ListNotations.

Definition fid := nat.
Definition tid := nat.

Inductive lockname := LG | LX.     (* shutdown gate (ShutdownHelper._lock), executor RLock *)

Inductive pc :=
| Idle
(* submit() *)
| S0                       (* called; about to take the gate *)
| S1                       (* holds G, flag seen false; about to take X *)
| SRaise                   (* holds G, flag seen true; about to release G and raise *)
| S2                       (* holds G,X; about to call delegate.submit *)
| S3 (f : fid)             (* tracked; about to add_done_callback(discard) *)
| S4 (f : fid)             (* about to release X *)
| S5 (f : fid)             (* about to release G *)
| S6 (f : fid)             (* about to return f *)
| SRaised                  (* about to raise RuntimeError to the caller *)
(* shutdown() *)
| H0                       (* called; about to take the gate *)
| H1                       (* holds G, flag newly set; about to release G *)
| HNoop                    (* holds G, was already shut down; about to release G *)
| HNoopRet                 (* about to return without doing anything *)
| H2                       (* about to take X *)
| H3 (todo : list fid)     (* holds X, snapshot taken; about to release X *)
| H4 (todo : list fid)     (* cancelling the snapshot, any order *)
| H5                       (* delegate.shutdown done; about to return *).

Inductive ev :=
| CallSubmit (t : tid) | CallShutdown (t : tid)
| Acq (t : tid) (l : lockname) | Rel (t : tid) (l : lockname)
| DSubmit (t : tid) (f : fid) (done : bool)
| AddCb (t : tid) (f : fid) (pre : fstate)
| Cancel (t : tid) (f : fid) (pre : fstate)
| DShutdown (t : tid)
| Ret (t : tid) (raised : bool)
| EnvRun (f : fid) (pre : fstate)
| EnvFinish (f : fid) (pre : fstate).

Record st := mkSt {
  gate : option tid; lk : option tid; flag : bool;
  tracked : list fid;            (* self._futures *)
  created : nat;                 (* delegate futures created so far: ids 0..created-1 *)
  fs : fid -> fstate;            (* state of each delegate future *)
  cancels : fid -> nat;          (* cancel() calls that reached each delegate future from the sweep *)
  thr : tid -> pc;
  dshut : nat;                   (* delegate.shutdown() calls *)
  shut_ret : bool                (* the shutdown() call that flipped the flag has returned *)
}.

Definition init : st :=
  mkSt None None false [] 0 (fun _ => Pending) (fun _ => 0) (fun _ => Idle) 0 false.

Definition remove_f (f : fid) (l : list fid) := filter (fun g => negb (Nat.eqb g f)) l.
Definition memb (f : fid) (l : list fid) := existsb (Nat.eqb f) l.
Definition set_thr (s : st) (t : tid) (p : pc) : st :=
  mkSt (gate s) (lk s) (flag s) (tracked s) (created s) (fs s) (cancels s) (upd (thr s) t p)
       (dshut s) (shut_ret s).
Definition isnone {A} (o : option A) := match o with None => true | Some _ => false end.

(* the delegate future f reaches a done state: its done-callbacks run, i.e. set.discard(f) *)
Definition settle (s : st) (f : fid) (n : fstate) : st :=
  mkSt (gate s) (lk s) (flag s)
       (if fdone n && negb (fdone (fs s f)) then remove_f f (tracked s) else tracked s)
       (created s) (upd (fs s) f n) (cancels s) (thr s) (dshut s) (shut_ret s).

Definition step (s : st) (e : ev) : option st :=
  match e with
  | CallSubmit t => match thr s t with Idle => Some (set_thr s t S0) | _ => None end
  | CallShutdown t => match thr s t with Idle => Some (set_thr s t H0) | _ => None end
  | Acq t LG =>
      if isnone (gate s) then
        match thr s t with
        | S0 => Some (mkSt (Some t) (lk s) (flag s) (tracked s) (created s) (fs s) (cancels s)
                          (upd (thr s) t (if flag s then SRaise else S1)) (dshut s) (shut_ret s))
        | H0 => Some (mkSt (Some t) (lk s) true (tracked s) (created s) (fs s) (cancels s)
                          (upd (thr s) t (if flag s then HNoop else H1)) (dshut s) (shut_ret s))
        | _ => None
        end
      else None
  | Acq t LX =>
      if isnone (lk s) then
        match thr s t with
        | S1 => Some (mkSt (gate s) (Some t) (flag s) (tracked s) (created s) (fs s) (cancels s)
                          (upd (thr s) t S2) (dshut s) (shut_ret s))
        | H2 => Some (mkSt (gate s) (Some t) (flag s) (tracked s) (created s) (fs s) (cancels s)
                          (upd (thr s) t (H3 (tracked s))) (dshut s) (shut_ret s))
        | _ => None
        end
      else None
  | Rel t LG =>
      match thr s t with
      | SRaise => Some (mkSt None (lk s) (flag s) (tracked s) (created s) (fs s) (cancels s)
                            (upd (thr s) t SRaised) (dshut s) (shut_ret s))
      | S5 f => Some (mkSt None (lk s) (flag s) (tracked s) (created s) (fs s) (cancels s)
                          (upd (thr s) t (S6 f)) (dshut s) (shut_ret s))
      | H1 => Some (mkSt None (lk s) (flag s) (tracked s) (created s) (fs s) (cancels s)
                        (upd (thr s) t H2) (dshut s) (shut_ret s))
      | HNoop => Some (mkSt None (lk s) (flag s) (tracked s) (created s) (fs s) (cancels s)
                           (upd (thr s) t HNoopRet) (dshut s) (shut_ret s))
      | _ => None
      end
  | Rel t LX =>
      match thr s t with
      | S4 f => Some (mkSt (gate s) None (flag s) (tracked s) (created s) (fs s) (cancels s)
                          (upd (thr s) t (S5 f)) (dshut s) (shut_ret s))
      | H3 todo => Some (mkSt (gate s) None (flag s) (tracked s) (created s) (fs s) (cancels s)
                             (upd (thr s) t (H4 todo)) (dshut s) (shut_ret s))
      | _ => None
      end
  | DSubmit t f d =>
      match thr s t with
      | S2 => if Nat.eqb f (created s) then
                Some (mkSt (gate s) (lk s) (flag s) (f :: tracked s) (S (created s))
                           (upd (fs s) f (if d then Finished else Pending)) (upd (cancels s) f 0)
                           (upd (thr s) t (S3 f)) (dshut s) (shut_ret s))
              else None
      | _ => None
      end
  | AddCb t f pre =>
      match thr s t with
      | S3 g => if Nat.eqb f g && fstate_eqb pre (fs s f) then
                  (* an already-done future runs the callback (discard) inline *)
                  Some (mkSt (gate s) (lk s) (flag s)
                             (if fdone pre then remove_f f (tracked s) else tracked s)
                             (created s) (fs s) (cancels s) (upd (thr s) t (S4 f)) (dshut s) (shut_ret s))
                else None
      | _ => None
      end
  | Cancel t f pre =>
      match thr s t with
      | H4 todo =>
          if memb f todo && fstate_eqb pre (fs s f) then
            let s1 := settle s f (fst (f_cancel pre)) in
            Some (mkSt (gate s1) (lk s1) (flag s1) (tracked s1) (created s1) (fs s1)
                       (upd (cancels s1) f (S (cancels s1 f)))
                       (upd (thr s1) t (H4 (remove_f f todo))) (dshut s1) (shut_ret s1))
          else None
      | _ => None
      end
  | DShutdown t =>
      match thr s t with
      | H4 [] => Some (mkSt (gate s) (lk s) (flag s) (tracked s) (created s) (fs s) (cancels s)
                           (upd (thr s) t H5) (S (dshut s)) (shut_ret s))
      | _ => None
      end
  | Ret t raised =>
      match thr s t, raised with
      | S6 _, false => Some (set_thr s t Idle)
      | SRaised, true => Some (set_thr s t Idle)
      | HNoopRet, false => Some (set_thr s t Idle)
      | H5, false => Some (mkSt (gate s) (lk s) (flag s) (tracked s) (created s) (fs s) (cancels s)
                               (upd (thr s) t Idle) (dshut s) true)
      | _, _ => None
      end
  | EnvRun f pre =>
      if (f <? created s) && fstate_eqb pre (fs s f) then
        match f_srnc pre with Some (n, _) => Some (settle s f n) | None => Some s (* raises in env *) end
      else None
  | EnvFinish f pre =>
      if (f <? created s) && fstate_eqb pre (fs s f) then
        match f_set pre with Some n => Some (settle s f n) | None => Some s (* raises in env *) end
      else None
  end.

(* ---- wire format: one event = a list of integers ------------------------------------------ *)
Local Open Scope Z_scope.
Definition lock_of (z : Z) : option lockname := match z with 0 => Some LG | 1 => Some LX | _ => None end.
Definition n (z : Z) : nat := Z.to_nat z.
Definition decode (l : list Z) : option ev :=
  match l with
  | [0; t] => Some (CallSubmit (n t))
  | [1; t] => Some (CallShutdown (n t))
  | [2; t; l] => match lock_of l with Some l => Some (Acq (n t) l) | None => None end
  | [3; t; l] => match lock_of l with Some l => Some (Rel (n t) l) | None => None end
  | [4; t; f; d] => Some (DSubmit (n t) (n f) (Z.eqb d 1))
  | [5; t; f; p] => match fstate_of p with Some p => Some (AddCb (n t) (n f) p) | None => None end
  | [6; t; f; p] => match fstate_of p with Some p => Some (Cancel (n t) (n f) p) | None => None end
  | [7; t] => Some (DShutdown (n t))
  | [8; t; r] => Some (Ret (n t) (Z.eqb r 1))
  | [9; f; p] => match fstate_of p with Some p => Some (EnvRun (n f) p) | None => None end
  | [10; f; p] => match fstate_of p with Some p => Some (EnvFinish (n f) p) | None => None end
  | _ => None
  end.

Fixpoint decode_all (ls : list (list Z)) : option (list ev) :=
  match ls with
  | [] => Some []
  | l :: r => match decode l, decode_all r with Some e, Some es => Some (e :: es) | _, _ => None end
  end.

(* verdict for the correspondence runner: [-1] accepted, [i] first rejected event, [-2] undecodable *)
Definition accept (ls : list (list Z)) : list Z :=
  match decode_all ls with
  | None => [-2]
  | Some es => match first_reject step init es 0 with None => [-1] | Some i => [Z.of_nat i] end
  end.
