(* A small imperative IR for the method bodies of throttle.py (AtomicInt.incr / decr, ThrottleExecutor.submit /
   shutdown / _block_until_ready / _eval_throttle / _do_submit / _do_cancel / _delegate_future_done,
   _submit_loop_iter, _submit_loop, ThrottleFuture.__init__ / _me_cancel / _clear_executor, with
   ShutdownHelper.ensure_alive / __call__ inlined) and its reading over the instruction alphabet of Model/Throttle.v.

   The programs are not written here: tools/throttle2coq.py regenerates them from the Python AST on every check
   run (coq/Gen/ThrottleSkel.v).  This file gives
     1. the syntax ([stmt], [cond], [atom]);
     2. a continuation semantics: [settle] runs the SILENT part of a continuation (tests, loop heads, inlined
        calls, return / raise / break unwinding through with-blocks, try frames, loops) on a state of
        Model/Throttle.v, up to the next operation; [macro] reads that operation as instructions of
        Model/Throttle.v, with the data bound on the way (the local job / delegate ids, the throttle value in
        force, the last read of the running count);
     3. [coexec]: the CO-EXECUTION of one call of a generated method with Throttle.step itself: each instruction
        derived from the generated term must be the HEAD of the executing thread's program in the machine, the
        canonical event for it ([ev_of]) is fed to Throttle.step, and the tests of the term are then resolved on
        the machine's new state.  So the reference for the sequence of visible operations along a path of the
        generated term is the machine's own step function, not a second copy of its programs.

   Reading conventions (DESIGN.md section 3; they are Model/Throttle.v's).
   - An ACQUIRE event carries the silent code of its section: the silent statements that follow an acquire (up to
     the next visible operation) are resolved on the state BEFORE the acquire event (the lock protects what they
     read), and their mutations (`self.is_shutdown = True`, `self.value += 1`, `_to_submit.append(job)`, the scan
     and `_to_submit.remove(job)`) must be exactly what the machine's instruction stands for: IAcqG (GShut w),
     IAcqA AIncr / ADecr d, IXEnq, IXCancel j.  A mutation OUTSIDE such a section has no counterpart: the
     co-execution is stuck (this is how `value += 1` without the lock, or an append outside X, is caught).
   - An X-section of a submitter / canceller has no inner visible operation and is ONE instruction (IXEnq /
     IXCancel j); the hand-over thread's X-section is split (IXAcqH ... IRelXH), as in Model/Throttle.v.
   - `event.wait(..)` is IWait, followed by IWoke when the flag was not set; `self._thread.join(..)` followed by
     the return of shutdown() is IRetJoin.
   - Library code underneath (map.py / common.py: `_set_delegate`, the `_Future.cancel` frame around
     `_me_cancel`, `_delegate_resolved`) is NOT translated here: its instructions are vocabulary ([KProto],
     tagged false in the result) or are left to the machine ([KDrain]: the machine runs its own program until
     the frame is back to the given depth).
   Definitions only. *)
From Coq Require Import ZArith List Bool Arith String.
From RecordUpdate Require Import RecordSet.
From ME Require Import Base.Machine Base.Fut Base.GenPrelude Gen.ThrottleGen Model.Throttle.
Import ListNotations RecordSetNotations.

(* ---- syntax ------------------------------------------------------------------------------------- *)
Inductive lockname := LG | LX | LA.     (* ShutdownHelper._lock ; ThrottleExecutor._lock ; AtomicInt.lock *)

Inductive atom :=
| AGateFlag        (* self.is_shutdown                                   [ShutdownHelper, under G] *)
| ABlockMode       (* self._block *)
| AShutFlag        (* self._shutdown.is_shutdown / executor._shutdown.is_shutdown   (unlocked read) *)
| AInterpExit      (* is_shutdown()  : the interpreter-exit flag of event.py *)
| AReady           (* throttle_val is None or len(self._to_submit) < throttle_val   : kernel block_ready *)
| AExecutor        (* executor       : the dereferenced weak reference *)
| ASavedExecutor   (* executor       : the saved self._executor of a ThrottleFuture *)
| AQueue           (* executor._to_submit *)
| ALimit           (* throttle is not None *)
| AThrottled       (* <the value just read> >= throttle                  : kernel throttled *)
| AHasDelegate     (* self._delegate                                     [ThrottleFuture] *)
| AWaitArg.        (* wait *)

Inductive cond :=
| CAtom (a : atom)
| CRet                              (* truthiness of the value of the inlined call just made *)
| CTrue
| CNot (c : cond)
| CAnd (a b : cond)
| COr (a b : cond)
| CReadRc (k : rkind) (c : cond).   (* a test that first READS executor._running_count.value (visible) *)

Inductive rexpr := ENone | EBool (b : bool) | EOut | EThrottle | ELast | EEventWait.

Inductive stmt :=
| SWith (l : lockname) (body : list stmt)
| SIf (c : cond) (th el : list stmt)
| SWhile (c : cond) (body : list stmt)
| STry (body handler : list stmt)          (* try: body  except Exception: handler *)
| SForAdmitted (body : list stmt)          (* for job in to_submit: body *)
| SForScan (body : list stmt)              (* for job in self._to_submit: if job.future is future: body   (body ends in return) *)
| SCall (name : string) (body : list stmt) (* an inlined call *)
| SReturn (v : rexpr)
| SRaise
| SBreak
| SSilent (text : string)                  (* a statement without visible operation and without effect on the tests *)
| SSetGateFlag                             (* self.is_shutdown = True *)
| SValAdd (z : Z)                          (* self.value += z *)
| SCount                                   (* self._last_throttle = self._throttle() *)
| SAppend                                  (* self._to_submit.append(job) *)
| SRemove                                  (* self._to_submit.remove(job) *)
| SEvSet                                   (* <the shared event>.set() *)
| SEvWait30                                (* self._event.wait(30.0) *)
| SEvWaitTau                               (* event.wait(wait_time) *)
| SEvClear                                 (* event.clear() *)
| SDShutdown                               (* self._delegate.shutdown(wait, **_kwargs) *)
| SJoin                                    (* self._thread.join(MAX_TIMEOUT) *)
| SDSubmit                                 (* delegate_future = self._delegate.submit(job.fn, *job.args, **job.kwargs) *)
| SAddCbDone (cb : list stmt)              (* delegate_future.add_done_callback(partial(self._delegate_future_done, ...)); cb = that method *)
| SSetDelegate                             (* job.future._set_delegate(delegate_future)          [map.py] *)
| SDelegateCancel (cb : list stmt)         (* self._delegate.cancel()  (its value is the value of the call just made) *)
| SPopleft                                 (* job = executor._to_submit.popleft() *)
| SLocalInit                               (* to_submit = [] *)
| SLocalAppend                             (* to_submit.append(job) *)
| SReadRc (k : rkind).                     (* the read of executor._running_count.value in `30.0 if ... else 2.0` : kernel loop_wait *)

(* ---- continuations -------------------------------------------------------------------------------- *)
Inductive item :=
| IS (s : stmt)
| KRel (l : lockname)                      (* end of a with-block *)
| KEndCall                                 (* end of an inlined call that falls off its end: value None *)
| KEndLoop (c : cond) (body : list stmt)   (* end of a loop body: back to `while c: body` *)
| KEndTry (h : list stmt)                  (* end of a try body *)
| KFor (body : list stmt) (js : list nat)  (* the remaining elements of `for job in to_submit` *)
| KBr (c : cond) (th el : list item)       (* a pending test *)
| KCbs (d : nat) (cbs : list cbk) (body : list stmt)   (* done-callbacks of delegate d run inline by its cancel() *)
| KSetRet (b : bool)                       (* the value of the library call that ran those callbacks *)
| KProto (p : list instr)                  (* library code underneath: its instructions are vocabulary *)
| KCancelTail                              (* _Future.cancel after `_me_cancel()` returned *)
| KDrain (n : nat)                         (* library code underneath runs until the thread program is n long *)
| KEnd | KEndRaise                         (* bottom of the entry point: return / raise to the caller *)
| KStop.

Inductive entry := EnSubmit | EnShutdown | EnCancel | EnLoop | EnCallback.
Definition is_loop (en : entry) : bool := match en with EnLoop => true | _ => false end.

Record locals := mkL {
  lj : nat;            (* the job / future at hand *)
  ld : nat;            (* the delegate future at hand *)
  lv : option Z;       (* throttle / throttle_val *)
  lrc : Z;             (* the last read of _running_count.value *)
  ladm : list nat;     (* the local to_submit *)
  lret : bool;         (* truthiness of the value of the call just made *)
  lw : bool            (* the parameter wait of shutdown *)
}.
#[export] Instance eta_locals : Settable _ := settable! mkL <lj; ld; lv; lrc; ladm; lret; lw>.
Definition loc0 : locals := mkL 0 0 None 0%Z [] false false.

Inductive mut := MSetGate | MValAdd (z : Z) | MAppend | MScan | MRemove.

Fixpoint unwind_ret (k : list item) : list item :=
  match k with
  | [] => []
  | KRel l :: r => KRel l :: unwind_ret r
  | KEndCall :: r => r
  | KEnd :: _ => [KEnd]
  | KCancelTail :: r => KCancelTail :: r
  | KDrain n :: r => KDrain n :: r
  | KCbs d c b :: r => KCbs d c b :: r
  | _ :: r => unwind_ret r
  end.
Fixpoint unwind_raise (k : list item) : list item :=
  match k with
  | [] => []
  | KRel l :: r => KRel l :: unwind_raise r
  | KEndTry h :: r => map IS h ++ r
  | KEnd :: _ => [KEndRaise]
  | _ :: r => unwind_raise r
  end.
Fixpoint unwind_break (k : list item) : list item :=
  match k with
  | [] => []
  | KRel l :: r => KRel l :: unwind_break r
  | KEndLoop _ _ :: r => r
  | KFor _ _ :: r => r
  | _ :: r => unwind_break r
  end.

Definition truthy (v : rexpr) (last : bool) : bool :=
  match v with
  | ENone | EThrottle => false
  | EBool b => b
  | EOut | EEventWait => true
  | ELast => last
  end.

(* the silent tests, on a state of Model/Throttle.v and the locals *)
Definition atomv (s : st) (loc : locals) (a : atom) : bool :=
  match a with
  | AGateFlag | AShutFlag => shut s
  | ABlockMode => blk s
  | AInterpExit => false
  | AReady => match block_ready (qlen s) (lv loc) with Some b => b | None => false end
  | AExecutor => true
  | ASavedExecutor => mexec s (lj loc)
  | AQueue => negb (isnil (qu s))
  | ALimit => issome (lv loc)
  | AThrottled => throttled (lv loc) (lrc loc)
  | AHasDelegate => issome (mdel s (lj loc))
  | AWaitArg => lw loc
  end.

Definition CB : string := "callback"%string.

(* run the silent part of the continuation; [am]: mutations are allowed (we are right after an acquire) *)
Fixpoint settle (fuel : nat) (am : bool) (s : st) (loc : locals) (k : list item) (acc : list mut)
  : option (list mut * locals * list item) :=
  match fuel with
  | 0 => None
  | S n =>
    match k with
    | [] => None
    | it :: r =>
      let mutate (m : mut) := if am then settle n am s loc r (acc ++ [m]) else None in
      match it with
      | IS (SIf c th el) => settle n am s loc (KBr c (map IS th) (map IS el) :: r) acc
      | KBr c th el =>
          match c with
          | CAtom a => settle n am s loc ((if atomv s loc a then th else el) ++ r) acc
          | CRet => settle n am s loc ((if lret loc then th else el) ++ r) acc
          | CTrue => settle n am s loc (th ++ r) acc
          | CNot c' => settle n am s loc (KBr c' el th :: r) acc
          | CAnd a b => settle n am s loc (KBr a [KBr b th el] el :: r) acc
          | COr a b => settle n am s loc (KBr a th [KBr b th el] :: r) acc
          | CReadRc _ _ => Some (acc, loc, k)
          end
      | IS (SWhile c body) => settle n am s loc (KBr c (map IS body ++ [KEndLoop c body]) [] :: r) acc
      | KEndLoop c body => settle n am s loc (IS (SWhile c body) :: r) acc
      | IS (STry body h) => settle n am s loc (map IS body ++ KEndTry h :: r) acc
      | KEndTry _ => settle n am s loc r acc
      | IS (SForAdmitted body) => settle n am s loc (KFor body (ladm loc) :: r) acc
      | KFor _ [] => settle n am s loc r acc
      | KFor body (j :: js) => settle n am s (loc <| lj := j |>) (map IS body ++ KFor body js :: r) acc
      | IS (SForScan body) =>
          if am then settle n am s loc ((if mem (lj loc) (qu s) then map IS body else []) ++ r) (acc ++ [MScan]) else None
      | IS (SCall _ body) => settle n am s loc (map IS body ++ KEndCall :: r) acc
      | KEndCall => settle n am s (loc <| lret := false |>) r acc
      | IS (SReturn v) => settle n am s (loc <| lret := truthy v (lret loc) |>) (unwind_ret r) acc
      | IS SRaise => settle n am s loc (unwind_raise r) acc
      | IS SBreak => settle n am s loc (unwind_break r) acc
      | IS (SSilent _) => settle n am s loc r acc
      | IS SLocalInit => settle n am s (loc <| ladm := [] |>) r acc
      | IS SLocalAppend => settle n am s (loc <| ladm := ladm loc ++ [lj loc] |>) r acc
      | IS SSetGateFlag => mutate MSetGate
      | IS (SValAdd z) => mutate (MValAdd z)
      | IS SAppend => mutate MAppend
      | IS SRemove => mutate MRemove
      | IS SCount => if dyn s then Some (acc, loc, k) else settle n am s (loc <| lv := last s |>) r acc   (* `lambda: count` *)
      | KCbs _ [] _ => settle n am s loc r acc
      | KSetRet b => settle n am s (loc <| lret := b |>) r acc
      | KCbs d (CbDone :: cs) body => settle n am s (loc <| ld := d |>) (IS (SCall CB body) :: KCbs d cs body :: r) acc
      | _ => Some (acc, loc, k)
      end
    end
  end.

Definition FUEL : nat := 400.

(* ---- operations as instructions of Model/Throttle.v ------------------------------------------------ *)
Record envp := mkE { e_ans : policy_answer (option Z); e_inline : option outcome }.

Inductive mres :=
| MIns (ir : bool) (p : list instr) (loc : locals) (k : list item)   (* ir = false: vocabulary of the library code underneath *)
| MDone
| MStuck.

Definition end_instrs (en : entry) (raised : bool) : list instr :=
  match en with
  | EnSubmit | EnShutdown => [if raised then IRetRaise else IRet]
  | EnLoop => [IExit]
  | EnCancel | EnCallback => []
  end.
Definition gkind_of (en : entry) (loc : locals) : gkind := match en with EnShutdown => GShut (lw loc) | _ => GSub end.
Definition ckind_of (en : entry) : ckind := match en with EnLoop => CH | _ => CSub end.
Definition gate_muts_ok (en : entry) (m : list mut) : bool :=
  match m, en with
  | [], _ => true
  | [MSetGate], EnShutdown => true
  | _, _ => false
  end.
Definition akind_of (z : Z) (d : nat) (en : entry) : option akind :=
  if Z.eqb z 1 then (if is_loop en then Some AIncr else None)
  else if Z.eqb z (-1) then Some (ADecr d) else None.
Definition wait_instrs (s : st) (tau : Z) (k : wkind) : list instr :=
  if eflag s then [IWait tau k] else [IWait tau k; IWoke k].
(* _Future.cancel (common.py) once `_me_cancel()` has returned b *)
Definition cancel_tail (b : bool) (j : nat) : list instr :=
  if b then [IFCancel j; IFSrnc j; IRelMCbs j; IRetB true] else [IRelM j; IRetB false].
(* _Future.cancel up to the call of `_me_cancel()` *)
Definition cancel_head (j : nat) : list instr := [IAcqM j; ICancelled j; IDoneC j].

Definition macro (E : envp) (en : entry) (s : st) (t : nat) (loc : locals) (k : list item) : mres :=
  match settle FUEL false s loc k [] with
  | None => MStuck
  | Some (_, loc1, k1) =>
    match k1 with
    | [] => MStuck
    | KStop :: _ => MDone
    | KEnd :: _ => MIns true (end_instrs en false) loc1 [KStop]
    | KEndRaise :: _ => MIns true (end_instrs en true) loc1 [KStop]
    | KCancelTail :: r => MIns false (cancel_tail (lret loc1) (lj loc1)) loc1 r
    | KProto p :: r => MIns false p loc1 r
    | KDrain m :: r =>
        if Nat.leb (List.length (thr s t)) m then MIns false [] loc1 r
        else match thr s t with i :: _ => MIns false [i] loc1 k1 | [] => MStuck end
    | KCbs d (CbRes j :: cs) body :: r => MIns false [IDCancelledQ j d] loc1 (KCbs d cs body :: r)
    | KRel LG :: r => MIns true [IRelG] loc1 r
    | KRel LX :: r => if is_loop en then MIns true [IRelXH] loc1 r else MStuck
    | KBr (CReadRc kd c) th el :: r => MIns true [IRcRead kd] (loc1 <| lrc := running s |>) (KBr c th el :: r)
    | IS (SWith l body) :: r =>
        match settle FUEL true s loc1 (map IS body ++ KRel l :: r) [] with
        | None => MStuck
        | Some (muts, loc2, k2) =>
          match l with
          | LG => if gate_muts_ok en muts then MIns true [IAcqG (gkind_of en loc2)] loc2 k2 else MStuck
          | LA => match muts, k2 with
                  | [MValAdd z], KRel LA :: r2 =>
                      match akind_of z (ld loc2) en with Some a => MIns true [IAcqA a; IRelA] loc2 r2 | None => MStuck end
                  | _, _ => MStuck
                  end
          | LX => if is_loop en then match muts with [] => MIns true [IXAcqH] loc2 k2 | _ => MStuck end
                  else match k2 with
                       | KRel LX :: r2 =>
                           match muts with
                           | [MAppend] => MIns true [IXEnq] loc2 r2
                           | [MScan] | [MScan; MRemove] => MIns true [IXCancel (lj loc2)] loc2 r2
                           | _ => MStuck
                           end
                       | _ => MStuck
                       end
          end
        end
    | IS SCount :: r =>
        let a := e_ans E in
        MIns true [ICount (ckind_of en)] (loc1 <| lv := eval_throttle (last s) a |>)
             (match a with Raises => unwind_raise r | Answer _ => r end)
    | IS SEvSet :: r => MIns true [IEvSet] loc1 r
    | IS SEvWait30 :: r => MIns true (wait_instrs s 30 (WSub (lv loc1))) loc1 r
    | IS SEvWaitTau :: r => MIns true (wait_instrs s (loop_wait (lrc loc1)) WH) loc1 r
    | IS SEvClear :: r => MIns true [IClear] loc1 r
    | IS SDShutdown :: r => MIns true [IDShutdown] loc1 r
    | IS SJoin :: r =>
        match settle FUEL false s loc1 r [] with
        | Some (_, loc2, KEnd :: _) => MIns true [IRetJoin] loc2 [KStop]
        | _ => MStuck
        end
    | IS SDSubmit :: r => MIns true [IDSubmit (lj loc1)] (loc1 <| ld := ndel s |>) r
    | IS (SAddCbDone body) :: r =>
        MIns true [IAddCb1 (ld loc1)] loc1 (if fdone (ds s (ld loc1)) then IS (SCall CB body) :: r else r)
    | IS SSetDelegate :: r =>
        MIns false [IAcqMSet (lj loc1) (Some (ld loc1)); IRelM (lj loc1); IAddCb2 (ld loc1) (lj loc1)] loc1
             (KDrain (List.length (thr s t) - 3) :: r)
    | IS (SDelegateCancel body) :: r =>
        match mdel s (lj loc1) with
        | Some d =>
            let b := snd (f_cancel (ds s d)) in
            MIns true [IDCancel (lj loc1) d] (loc1 <| lret := b |>)
                 (if b && f_cancel_fires (ds s d) then KCbs d (dcbs s d) body :: KSetRet b :: r else r)
        | None => MStuck
        end
    | IS SPopleft :: r => MIns true [IPop] (loc1 <| lj := hd 0 (qu s) |>) r
    | IS (SReadRc kd) :: r => MIns true [IRcRead kd] (loc1 <| lrc := running s |>) r
    | _ => MStuck
    end
  end.

(* ---- the canonical event for the head instruction of thread t ---------------------------------------- *)
Definition ev_of (E : envp) (s : st) (t : nat) (i : instr) : option (Z * ev) :=
  let ts := clock s in
  match i with
  | IHStart => Some (ts, EHStart)
  | IExit => Some (ts, EExit)
  | ICount _ => Some (ts, ECount t (e_ans E))
  | IXAcqH => Some (ts, EXAcq t)
  | ILoop => None
  | IRcRead _ => Some (ts, ERcRead t (running s))
  | IPop => Some (ts, EPop t)
  | IAcqA _ => Some (ts, EAcqA t)
  | IRelA => Some (ts, ERelA t)
  | IRelXH => Some (ts, ERelX t)
  | IDSubmit _ => Some (ts, EDSubmit t (ndel s) (e_inline E))
  | IAddCb1 d | IAddCb2 d _ => Some (ts, EFD t 5 d (ds s d))
  | IAcqM j | IAcqMSet j _ => Some (ts, EAcqM t j)
  | IRelM j | IRelMCbs j => Some (ts, ERelM t j)
  | IDCancelledQ _ d => Some (ts, EFD t 0 d (ds s d))
  | IFSet j o => Some (ts, EFM t (match o with Ok _ => 4 | Err _ => 6 end) j (ms s j))
  | IDoneQ j | IDoneC j => Some (ts, EFM t 1 j (ms s j))
  | IWait _ _ => Some (ts, EWait t (if eflag s then 0 else 1))
  | IWoke _ =>
      match wst s t with
      | Some (g, tau, since) => if Nat.eqb (egen s) g then Some (Z.max ts (since + tau), EWoke t 1) else Some (ts, EWoke t 0)
      | None => None
      end
  | IClear => Some (ts, EClear t)
  | IEvSet => Some (ts, EEvSet t)
  | IAcqG _ => Some (ts, EAcqG t)
  | IRelG => Some (ts, ERelG t)
  | IXEnq | IXCancel _ => Some (ts, EXSec t)
  | IDShutdown => Some (ts, EDShutdown t)
  | IRet | IRetJoin => Some (ts, ERet t 0)
  | IRetRaise => Some (ts, ERet t 9)
  | IRetB b => Some (ts, ERet t (if b then 2 else 1))
  | ICancelled j => Some (ts, EFM t 0 j (ms s j))
  | IDCancel _ d => Some (ts, EFD t 2 d (ds s d))
  | IFCancel j => Some (ts, EFM t 2 j (ms s j))
  | IFSrnc j => Some (ts, EFM t 3 j (ms s j))
  end.

Definition instr_eq_dec : forall a b : instr, {a = b} + {a <> b}.
Proof. repeat decide equality. Defined.
Definition instr_eqb (a b : instr) : bool := if instr_eq_dec a b then true else false.

(* the heads of thread t's program along a run *)
Fixpoint heads (s : st) (t : nat) (evs : list (Z * ev)) : option (list instr) :=
  match evs with
  | [] => Some []
  | e :: r =>
      match thr s t, step s e with
      | i :: _, Some s' => match heads s' t r with Some l => Some (i :: l) | None => None end
      | _, _ => None
      end
  end.

(* execute the instructions p: each must be the head of t's program; its canonical event must be accepted *)
Fixpoint run_ins (E : envp) (s : st) (t : nat) (p : list instr) : option (list (Z * ev) * st) :=
  match p with
  | [] => Some ([], s)
  | i :: r =>
      match thr s t with
      | h :: _ =>
          if instr_eqb h i then
            match ev_of E s t i with
            | Some e => match step s e with
                        | Some s' => match run_ins E s' t r with Some (evs, sf) => Some (e :: evs, sf) | None => None end
                        | None => None
                        end
            | None => None
            end
          else None
      | [] => None
      end
  end.

(* co-execution: (instructions with their origin, events, final state, completed) *)
Fixpoint coexec (fuel : nat) (E : envp) (en : entry) (s : st) (t : nat) (loc : locals) (k : list item)
  : option (list (bool * instr) * list (Z * ev) * st * bool) :=
  match fuel with
  | 0 => Some ([], [], s, false)
  | S n =>
      match macro E en s t loc k with
      | MStuck => None
      | MDone => Some ([], [], s, true)
      | MIns ir p loc' k' =>
          match run_ins E s t p with
          | None => None
          | Some (evs, s') =>
              match coexec n E en s' t loc' k' with
              | Some (a, b, sf, c) => Some (map (pair ir) p ++ a, evs ++ b, sf, c)
              | None => None
              end
          end
      end
  end.
