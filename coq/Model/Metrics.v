(* Gauge / container pairing (retry.py _append_job/_pop_job, throttle.py submit/_submit_loop_iter/
   _do_cancel; metrics/__init__.py track_future/record_done): a gauge that is incremented with every
   insertion and decremented with every successful removal equals the container's size.  Model + proof. *)
From Coq Require Import List ZArith Bool Arith Lia.
From ME Require Import Base.Machine.
Import ListNotations.

Inductive ev := Enq (x : nat) | DeqFront | Remove (x : nat).
Record st := { queue : list nat; gauge : Z }.
Definition init : st := {| queue := []; gauge := 0 |}.
Fixpoint remove_first (x : nat) (l : list nat) : list nat * bool :=
  match l with
  | [] => ([], false)
  | y :: r => if Nat.eqb y x then (r, true) else let '(r', b) := remove_first x r in (y :: r', b)
  end.
(* dec_on_remove = does the removal path decrement the gauge?  (true for the repaired code) *)
Definition step_gen (dec_on_remove : bool) (s : st) (e : ev) : option st :=
  match e with
  | Enq x => Some {| queue := queue s ++ [x]; gauge := (gauge s + 1)%Z |}
  | DeqFront => match queue s with [] => Some s | _ :: r => Some {| queue := r; gauge := (gauge s - 1)%Z |} end
  | Remove x => let '(q, found) := remove_first x (queue s) in
                Some {| queue := q; gauge := if found && dec_on_remove then (gauge s - 1)%Z else gauge s |}
  end.
Definition step := step_gen true.

Lemma remove_first_length x l :
  length l = (if snd (remove_first x l) then S (length (fst (remove_first x l))) else length (fst (remove_first x l))).
Proof.
  induction l as [|y r IH]; simpl; [reflexivity|].
  destruct (Nat.eqb y x); simpl; [reflexivity|].
  destruct (remove_first x r) as [r' b]. simpl in *. destruct b; simpl; rewrite IH; reflexivity.
Qed.

Theorem gauge_matches s : reachable_from step init s -> gauge s = Z.of_nat (length (queue s)).
Proof.
  apply (invariant_rule step (fun s => gauge s = Z.of_nat (length (queue s)))); [reflexivity|].
  intros s0 e s1 I H. destruct e as [x| |x]; simpl in H.
  - inversion H; subst; simpl. rewrite app_length. simpl. lia.
  - destruct (queue s0) as [|y r] eqn:E; inversion H; subst; simpl.
    + rewrite I, E. reflexivity.
    + rewrite I. cbn [length]. lia.
  - pose proof (remove_first_length x (queue s0)) as L. destruct (remove_first x (queue s0)) as [q found]. simpl in L.
    inversion H; subst; cbn [queue gauge]. destruct found; cbn [andb]; rewrite I, L; cbn [fst snd]; lia.
Qed.
Corollary gauge_nonneg s : reachable_from step init s -> (0 <= gauge s)%Z.
Proof. intros R. rewrite (gauge_matches s R). lia. Qed.

(* without the decrement on the removal path (the code before the repair) the gauge drifts *)
Theorem gauge_drift_without_dec_refuted :
  exists s, reachable_from (step_gen false) init s /\ queue s = [] /\ gauge s = 1%Z.
Proof. eexists. split; [exists [Enq 7; Remove 7]; reflexivity|split; reflexivity]. Qed.
