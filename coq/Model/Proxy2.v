(* f_proxy / f_nocancel: the code AROUND the dunder table of Model/Proxy.v.
   - the timeout expression of f_proxy, evaluated over the keyword arguments of the call (Python truthiness: `or` differs from `is None`);
   - `self.__result` = self.result(timeout) on a future that is Resolved / Failed / Pending at the time of the operation, with a
     ghost log of the timeouts handed to result() (its length is the number of resolutions an operation performs);
   - Python's special-method dispatch instrumented with that log (erasing the log gives Model/Proxy.v's dispatch);
   - the method bodies REGENERATED from futures/proxy.py (Gen/Proxy2Gen.v: `proxy_bodies`) run by an evaluator; the proxy's method table
     IS that evaluator applied to the generated bodies, plus the identity-based dunders inherited from object / Future;
   - attribute access: instance dict / class attributes first, `__getattr__` (the generated statement list) only as the fall-back;
     the AttributeError edge of the `__result` property.
   (f_nocancel: Model/NoCancel.v, a machine over Model/MapFut.v's.)
   Definitions only.  Proofs: Proofs/Proxy2_*.v; statements: Props/C17_more.v. *)
From Coq Require Import String List Bool Arith ZArith.
From ME Require Import Base.GenPrelude Base.ProxyPrelude Gen.ProxyGen Gen.Proxy2Gen Model.Proxy.
Import ListNotations.
Local Open Scope string_scope.
Local Open Scope list_scope.

(* ---- 1. the timeout ------------------------------------------------------------------------------- *)
Inductive tval := TVNone | TVNum (z : Z).            (* None / a number (0 and 0.0 are both TVNum 0) *)
Definition max_timeout : Z := (60 * 60 * 24 * 365 * 100)%Z.
Definition truthy (v : tval) : bool := match v with TVNone => false | TVNum z => negb (Z.eqb z 0) end.
Definition kwargs := list (string * tval).           (* the keyword arguments of the f_proxy call *)
Fixpoint kwget (kw : kwargs) (key : string) : option tval :=
  match kw with [] => None | (k, v) :: r => if String.eqb k key then Some v else kwget r key end.
Fixpoint teval (kw : kwargs) (e : texpr) : tval :=
  match e with
  | TENone => TVNone
  | TEMax => TVNum max_timeout
  | TEInt z => TVNum z
  | TEKw _ key d => match kwget kw key with Some v => v | None => teval kw d end
  | TEOr a b => if truthy (teval kw a) then teval kw a else teval kw b
  | TEIfIsNone x a b => match teval kw x with TVNone => teval kw a | TVNum _ => teval kw b end
  | TEIfIsNotNone x a b => match teval kw x with TVNone => teval kw b | TVNum _ => teval kw a end
  | TEIfTruth x a b => if truthy (teval kw x) then teval kw a else teval kw b
  end.
(* what f_proxy(f, **kw) stores in ProxyFuture.__timeout, and what `__result` hands to self.result() *)
Definition configured_timeout (kw : kwargs) : tval := teval kw proxy_timeout_expr.
Definition result_timeout (kw : kwargs) : tval :=
  match proxy_result_timeout with
  | TSConfigured => if proxy_init_stores_timeout then configured_timeout kw else TVNone
  | TSNoTimeout => TVNone
  | TSConst z => TVNum z
  end.
(* the seeded change C17-m1, as the translator renders it *)
Definition timeout_expr_m1 : texpr := TEOr (TEKw true "timeout" TENone) TEMax.

(* exception ids besides Proxy.type_error = 1 and Proxy.attribute_error = 2 *)
Definition timeout_error : nat := 3.
Definition recursion_error : nat := 4.
Definition never_returns : nat := 0.    (* not an exception: result(None) on a future that is never resolved does not return *)

(* ---- Python-level tables -------------------------------------------------------------------------- *)
Definition pop_dunder (o : pop) : string * string :=
  match o with
  | OpAdd => ("__add__", "__radd__") | OpSub => ("__sub__", "__rsub__") | OpMul => ("__mul__", "__rmul__")
  | OpTrueDiv => ("__truediv__", "__rtruediv__") | OpFloorDiv => ("__floordiv__", "__rfloordiv__")
  | OpMod => ("__mod__", "__rmod__") | OpLShift => ("__lshift__", "__rlshift__") | OpRShift => ("__rshift__", "__rrshift__")
  | OpAnd => ("__and__", "__rand__") | OpXor => ("__xor__", "__rxor__") | OpOr => ("__or__", "__ror__")
  | OpPow => ("__pow__", "__rpow__") | OpMatMul => ("__matmul__", "__rmatmul__")
  | OpNeg => ("__neg__", "") | OpPos => ("__pos__", "") | OpInvert => ("__invert__", "")
  end.
(* the special method a builtin looks up on its first argument ("operator.*" = the subscript / containment syntax) *)
Definition builtin_dunder (fn : string) : string :=
  match fn with
  | "len" => "__len__" | "iter" => "__iter__" | "abs" => "__abs__" | "complex" => "__complex__" | "int" => "__int__"
  | "float" => "__float__" | "round" => "__round__" | "divmod" => "__divmod__" | "pow" => "__pow__"
  | "math.trunc" => "__trunc__" | "math.floor" => "__floor__" | "math.ceil" => "__ceil__"
  | "operator.getitem" => "__getitem__" | "operator.setitem" => "__setitem__" | "operator.delitem" => "__delitem__"
  | "operator.contains" => "__contains__"
  | _ => ""
  end.
(* divmod(a, b) and the two-argument pow(a, b) are binary operators with a reflected method *)
Definition binary_builtin (fn : string) (nargs : nat) : option string :=      (* the reflected method *)
  if Nat.eqb nargs 2 then
    if String.eqb fn "divmod" then Some "__rdivmod__" else if String.eqb fn "pow" then Some "__rpow__" else None
  else None.
(* all reflected dunders of Python 3 *)
Definition reflected_dunders : list string :=
  ["__radd__"; "__rsub__"; "__rmul__"; "__rmatmul__"; "__rtruediv__"; "__rfloordiv__"; "__rmod__"; "__rdivmod__"; "__rpow__";
   "__rlshift__"; "__rrshift__"; "__rand__"; "__rxor__"; "__ror__"].
(* special methods every object has (object / concurrent.futures.Future define them; identity-based, no result() call) *)
Definition object_dunders : list string :=
  ["__repr__"; "__str__"; "__eq__"; "__ne__"; "__hash__"; "__format__"; "__sizeof__"; "__dir__"; "__reduce__"; "__reduce_ex__";
   "__getattribute__"; "__setattr__"; "__delattr__"; "__init_subclass__"; "__subclasshook__"; "__new__"; "__class__"; "__doc__";
   "__dict__"; "__module__"; "__weakref__"; "__getstate__"; "__lt__"; "__le__"; "__gt__"; "__ge__"; "__class_getitem__"].
(* the public API and the instance state of the stdlib Future (stable since Python 3.2; `__class_getitem__` since 3.9) *)
Definition stdlib_future_attrs : list string :=
  ["cancel"; "cancelled"; "running"; "done"; "add_done_callback"; "result"; "exception"; "set_running_or_notify_cancel";
   "set_result"; "set_exception"; "_invoke_callbacks"; "_Future__get_result";
   "_condition"; "_state"; "_result"; "_exception"; "_waiters"; "_done_callbacks"].
Definition mem (n : string) (l : list string) : bool := existsb (String.eqb n) l.
(* found by normal lookup on a ProxyFuture, i.e. BEFORE __getattr__ is consulted *)
Definition is_own (name : string) : bool :=
  mem name proxy_instance_attrs || mem name proxy_class_attrs || mem name stdlib_future_attrs || mem name object_dunders.
Definition mangled_result : string := "_ProxyFuture__result".

(* ---- 2. dispatch with the ghost log --------------------------------------------------------------- *)
Section Counted.
  Variable val : Type.
  Definition rlog := list tval.                        (* the timeouts handed to self.result(), in call order *)
  Definition cres : Type := res val * rlog.
  Variable cmeth : val -> string -> option (list val -> cres).
  (* the same universe without the log: Model/Proxy.v's [meth] *)
  Definition emeth (x : val) (n : string) : option (list val -> res val) :=
    match cmeth x n with Some f => Some (fun args => fst (f args)) | None => None end.
  Definition no_notimpl (r : res val) : res val := match r with RNotImpl => RExc type_error | x => x end.

  Definition creflected (rop : string) (a b : val) : cres :=
    match cmeth b rop with
    | Some g => (no_notimpl (fst (g [a])), snd (g [a]))
    | None => (RExc type_error, [])
    end.
  Definition cbinop (op rop : string) (a b : val) : cres :=
    match cmeth a op with
    | Some f => match fst (f [b]) with
                | RNotImpl => (fst (creflected rop a b), snd (f [b]) ++ snd (creflected rop a b))
                | r => (r, snd (f [b]))
                end
    | None => creflected rop a b
    end.
  Definition cunop (op : string) (a : val) : cres :=
    match cmeth a op with Some f => (no_notimpl (fst (f [])), snd (f [])) | None => (RExc type_error, []) end.
  Definition cmethod_call (name : string) (a : val) (args : list val) : cres :=
    match cmeth a name with Some f => f args | None => (RExc attribute_error, []) end.

  (* a builtin that looks up one special method on its first argument; bpost = the builtin's own check / conversion of the
     returned value; bfallback = what the builtin does when the type has no such method (int: __index__ / __trunc__; iter and
     `in`: the sequence protocol; math.floor: float(); ...) *)
  Variable bpost : string -> res val -> res val.
  Variable bfallback : string -> val -> list val -> cres.
  Definition cbuiltin (fn : string) (a : val) (rest : list val) : cres :=
    match cmeth a (builtin_dunder fn) with
    | Some f => (bpost fn (fst (f rest)), snd (f rest))
    | None => bfallback fn a rest
    end.
  Definition call_builtin (fn : string) (vs : list val) : cres :=
    match vs with
    | [] => (RExc type_error, [])
    | a :: rest =>
        match binary_builtin fn (length vs) with
        | Some rop => cbinop (builtin_dunder fn) rop a (hd a rest)
        | None => cbuiltin fn a rest
        end
    end.

  (* ---- the future behind the proxy, at the time of the operation ---------------------------------- *)
  Inductive pstate := PResolved (v : val) | PFailed (e : nat) | PPending.
  Definition resolve (fs : pstate) (tmo : tval) : res val :=
    match fs with
    | PResolved v => RVal v
    | PFailed e => RExc e
    | PPending => match tmo with TVNum _ => RExc timeout_error | TVNone => RExc never_returns end
    end.
  (* one resolution, then k on the value: what every forwarded operation must amount to *)
  Definition after_resolve (fs : pstate) (tmo : tval) (k : val -> cres) : cres :=
    match resolve fs tmo with RVal v => (fst (k v), tmo :: snd (k v)) | r => (r, [tmo]) end.
  (* `raise self.exception()` *)
  Definition own_exception (fs : pstate) : res val :=
    match fs with PFailed e => RExc e | PResolved _ => RExc type_error (* raise None *) | PPending => RExc never_returns end.

  Variable fs : pstate.
  Variable tmo : tval.                                 (* what __result hands to result(): result_timeout kw *)
  Variable is_attr_err : nat -> bool.                  (* is this exception an AttributeError (or a subclass instance) *)
  Variable vgetattr : val -> string -> cres.           (* getattr(x, name) on a plain value *)
  Variable vtrue vfalse vnone : val.
  Variable own : string -> val.                        (* what normal lookup finds on the ProxyFuture itself (bound methods, fields) *)
  Variable obj_sem : string -> list val -> res val.    (* the identity-based special methods inherited from object / Future *)

  (* __getattr__(name), statement by statement; gres = the value of `self.__result` if the last statement is reached *)
  Fixpoint exec_getattr (gres : cres) (l : list gstmt) (name : string) : cres :=
    match l with
    | [] => (RVal vnone, [])
    | GIfEqRaiseOwnException s :: r => if String.eqb name s then (own_exception fs, []) else exec_getattr gres r name
    | GIfPrefixRaiseAttributeError pre :: r => if String.prefix pre name then (RExc attribute_error, []) else exec_getattr gres r name
    | GReturnGetattrResult :: _ =>
        match fst gres with
        | RVal v => (fst (vgetattr v name), snd gres ++ snd (vgetattr v name))
        | r => (r, snd gres)
        end
    end.
  (* `self.__result`: the property calls self.result(tmo).  If that raises an AttributeError, Python treats the property as a
     failed lookup and calls __getattr__("_ProxyFuture__result").  fuel = the interpreter's recursion limit. *)
  Section WithBody.
    Variable gbody : list gstmt.
    Fixpoint result_prop (fuel : nat) : cres :=
      match resolve fs tmo with
      | RExc e =>
          if is_attr_err e then
            match fuel with
            | O => (RExc recursion_error, [tmo])
            | S f => let r := exec_getattr (result_prop f) gbody mangled_result in (fst r, tmo :: snd r)
            end
          else (RExc e, [tmo])
      | r => (r, [tmo])
      end.
  End WithBody.
  Definition fuel0 : nat := 1000.
  Definition get_result : cres := result_prop proxy_getattr_body fuel0.
  (* explicit attribute access on the proxy: normal lookup first, __getattr__ as the fall-back *)
  Definition run_getattr (name : string) : cres := exec_getattr get_result proxy_getattr_body name.
  Definition pgetattr (name : string) : cres := if is_own name then (RVal (own name), []) else run_getattr name.
  (* the WRONG order (forward first), for the refutation *)
  Definition pgetattr_forward_first (name : string) : cres :=
    match fst (run_getattr name) with
    | RExc _ => if is_own name then (RVal (own name), []) else run_getattr name
    | _ => run_getattr name
    end.

  (* ---- evaluator of the generated method bodies --------------------------------------------------- *)
  Definition env := string -> list val.
  Fixpoint bind (params : list (string * bool)) (args : list val) : env :=
    match params, args with
    | [], _ => fun _ => []
    | (n, true) :: _, _ => fun m => if String.eqb m n then args else []
    | (n, false) :: r, a :: ar => fun m => if String.eqb m n then [a] else bind r ar m
    | (n, false) :: _, [] => fun _ => []
    end.
  Fixpoint arity_ok (params : list (string * bool)) (args : list val) : bool :=
    match params, args with
    | [], [] => true
    | [], _ :: _ => false
    | (_, true) :: r, _ => match r with [] => true | _ :: _ => false end      (* a *parameter is the last one *)
    | (_, false) :: r, _ :: ar => arity_ok r ar
    | (_, false) :: _, [] => false
    end.
  (* sequencing: a sub-expression that raises (or is not a plain value) ends the evaluation *)
  Definition bind1 (x : cres) (k : val -> cres) : cres :=
    match fst x with RVal v => (fst (k v), snd x ++ snd (k v)) | r => (r, snd x) end.
  (* argument lists: values so far, or the outcome that ended the evaluation *)
  Definition aout : Type := (list val + res val) * rlog.
  Definition eval_args_with (en : env) (ev : bexp -> cres) : list bexp -> aout :=
    fix go (l : list bexp) : aout :=
      match l with
      | [] => (inl [], [])
      | BStar n :: r => match go r with (inl vs, lg) => (inl (en n ++ vs), lg) | x => x end
      | b :: r =>
          match fst (ev b) with
          | RVal v => match go r with (inl vs, lg) => (inl (v :: vs), snd (ev b) ++ lg) | (inr x, lg) => (inr x, snd (ev b) ++ lg) end
          | x => (inr x, snd (ev b))
          end
      end.
  Definition bindl (x : aout) (k : list val -> cres) : cres :=
    match fst x with inl vs => (fst (k vs), snd x ++ snd (k vs)) | inr r => (r, snd x) end.

  Section Eval.
    Variable selfm : string -> cres.                   (* self.<name>() *)
    Variable en : env.
    Fixpoint eval (b : bexp) : cres :=
      match b with
      | BResult => get_result
      | BArg n => (match en n with v :: _ => RVal v | [] => RExc type_error end, [])
      | BStar _ => (RExc type_error, [])
      | BTrue => (RVal vtrue, [])
      | BFalse => (RVal vfalse, [])
      | BBin o a b2 => bind1 (eval a) (fun x => bind1 (eval b2) (fun y => cbinop (fst (pop_dunder o)) (snd (pop_dunder o)) x y))
      | BUn o a => bind1 (eval a) (fun x => cunop (fst (pop_dunder o)) x)
      | BCall fn args => bindl (eval_args_with en eval args) (fun vs => call_builtin fn vs)
      | BMethod r name args => bind1 (eval r) (fun x => bindl (eval_args_with en eval args) (fun vs => cmethod_call name x vs))
      | BSelfMethod name => selfm name
      | BGetItem a k => bind1 (eval a) (fun x => bind1 (eval k) (fun y => cbuiltin "operator.getitem" x [y]))
      | BSetItem a k v => bind1 (eval v) (fun z => bind1 (eval a) (fun x => bind1 (eval k) (fun y => cbuiltin "operator.setitem" x [y; z])))
      | BDelItem a k => bind1 (eval a) (fun x => bind1 (eval k) (fun y => cbuiltin "operator.delitem" x [y]))
      | BContains x a => bind1 (eval x) (fun vx => bind1 (eval a) (fun va => cbuiltin "operator.contains" va [vx]))
      end.
  End Eval.

  (* ---- the proxy's method table: the generated bodies, then what object / Future define ------------ *)
  Definition mname (m : pmethod) : string := fst (fst m).
  Definition find_body (name : string) : option pmethod := find (fun m => String.eqb (mname m) name) proxy_bodies.
  Definition run_method (selfm : string -> cres) (m : pmethod) (args : list val) : cres :=
    if arity_ok (snd (fst m)) args then eval selfm (bind (snd (fst m)) args) (snd m) else (RExc type_error, []).
  (* self.<name>() inside a body: one level is enough (`__nonzero__` calls `__bool__`, which calls nothing) *)
  Definition selfm0 (name : string) : cres := (RExc attribute_error, []).
  Definition selfm1 (name : string) : cres :=
    match find_body name with Some m => run_method selfm0 m [] | None => (RExc attribute_error, []) end.
  Definition pmeth (name : string) : option (list val -> cres) :=
    match find_body name with
    | Some m => Some (run_method selfm1 m)
    | None => if mem name object_dunders then Some (fun args => (obj_sem name args, [])) else None
    end.
  (* "p is a ProxyFuture over fs", as far as calling its special method `name` with `args` goes: the object's method is the
     generated body run by the evaluator (pointwise, so that concrete universes can be checked by computation) *)
  Definition proxy_at (p : val) (name : string) (args : list val) : Prop :=
    match cmeth p name, pmeth name with
    | Some f, Some g => f args = g args
    | None, None => True
    | _, _ => False
    end.
End Counted.

Arguments PResolved {val} v.
Arguments PFailed {val} e.
Arguments PPending {val}.

(* ---- shapes of the generated bodies (decidable; the table is checked by vm_compute) ---------------- *)
Definition args_of_params (params : list (string * bool)) : list bexp :=
  map (fun q : string * bool => if snd q then BStar (fst q) else BArg (fst q)) params.
Definition bexp_eqb (a b : bexp) : bool :=
  match a, b with
  | BResult, BResult => true
  | BArg n, BArg m => String.eqb n m
  | BStar n, BStar m => String.eqb n m
  | _, _ => false
  end.
Fixpoint bexps_eqb (l1 l2 : list bexp) : bool :=
  match l1, l2 with [] , [] => true | a :: r1, b :: r2 => bexp_eqb a b && bexps_eqb r1 r2 | _, _ => false end.
Fixpoint nodup_names (l : list string) : bool :=
  match l with [] => true | n :: r => negb (mem n r) && nodup_names r end.
Inductive bshape := SBin (o : pop) | SUn (o : pop) | SBuiltin (fn : string) | SGetItem | SSetItem | SDelItem | SContains
                  | SMethodCall (mn : string) | SConst | SConstVia (callee : string).
Definition shape_of (m : pmethod) : option bshape :=
  let '(name, params, body) := m in
  if negb (nodup_names (map fst params)) then None else
  match body, params with
  | BBin o BResult (BArg a), [(a', false)] => if String.eqb a a' && String.eqb (fst (pop_dunder o)) name then Some (SBin o) else None
  | BUn o BResult, [] => if String.eqb (fst (pop_dunder o)) name then Some (SUn o) else None
  | BCall fn (BResult :: rest), _ =>
      if bexps_eqb rest (args_of_params params) && String.eqb (builtin_dunder fn) name then Some (SBuiltin fn) else None
  | BGetItem BResult (BArg k), [(k', false)] => if String.eqb k k' && String.eqb name "__getitem__" then Some SGetItem else None
  | BSetItem BResult (BArg k) (BArg v), [(k', false); (v', false)] =>
      if String.eqb k k' && String.eqb v v' && String.eqb name "__setitem__" then Some SSetItem else None
  | BDelItem BResult (BArg k), [(k', false)] => if String.eqb k k' && String.eqb name "__delitem__" then Some SDelItem else None
  | BContains (BArg x) BResult, [(x', false)] => if String.eqb x x' && String.eqb name "__contains__" then Some SContains else None
  | BMethod BResult mn [BArg a], [(a', false)] => if String.eqb a a' then Some (SMethodCall mn) else None
  | BTrue, [] => Some SConst
  | BSelfMethod callee, [] => Some (SConstVia callee)
  | _, _ => None
  end.
(* the shape agrees with the form gen_proxy (Gen/ProxyGen.v) recorded for the same dunder *)
Definition shape_matches_form (s : bshape) (f : pform) : bool :=
  match s, f with
  | SBin o, FBinOp o' | SUn o, FUnOp o' => String.eqb (fst (pop_dunder o)) (fst (pop_dunder o')) && String.eqb (snd (pop_dunder o)) (snd (pop_dunder o'))
  | SBuiltin fn, FBuiltin fn' | SMethodCall fn, FMethodCall fn' => String.eqb fn fn'
  | SGetItem, FGetItem | SSetItem, FSetItem | SDelItem, FDelItem | SContains, FContains | SConst, FConst | SConstVia _, FConst => true
  | _, _ => false
  end.
Definition resolving_shape (s : bshape) : bool := match s with SConst | SConstVia _ => false | _ => true end.
Fixpoint tables_agree (bodies : list pmethod) (table : list (string * pform)) : bool :=
  match bodies, table with
  | [], [] => true
  | m :: r1, (n, f) :: r2 =>
      String.eqb (fst (fst m)) n && match shape_of m with Some s => shape_matches_form s f | None => false end && tables_agree r1 r2
  | _, _ => false
  end.
Definition table_reflected : list string := filter (fun n => mem n (map (fun m => fst (fst m)) proxy_bodies)) reflected_dunders.

(* ---- a small concrete universe (non-vacuity; values are numbers as in Proxy.w_meth) ------------------ *)
(* 0 = the int 3, 1 = the float 2.0, 2 = THE PROXY, 3 = 1.5, 4 = the int 6, 5 = True, 6 = None, 7 = the int 2, 8 = the int 5,
   9 = the int -3, 10 = 5.0, 11 = False, 12 = a list-like [3] whose __add__ accepts anything, 13 = what that __add__ returns,
   14 = the int 1, 15 = the pair (1, 1), 16 = the int 0, 18 = an object with an attribute called "result", 19 = that attribute,
   20 = a bound method of the future, 21 = what repr / hash / == of the future give *)
Definition w2_ret (v : nat) : cres nat := (RVal v, []).
Definition w2_ni : cres nat := (RNotImpl, []).
Definition w2_base (x : nat) (name : string) : option (list nat -> cres nat) :=
  match x, name with
  | 0, "__add__" => Some (fun a => match a with [0] => w2_ret 4 | [7] => w2_ret 8 | _ => w2_ni end)
  | 0, "__truediv__" => Some (fun a => match a with [0] => w2_ret 14 | _ => w2_ni end)
  | 0, "__neg__" => Some (fun a => w2_ret 9)
  | 0, "__abs__" => Some (fun a => w2_ret 0)
  | 0, "__int__" => Some (fun a => w2_ret 0)
  | 0, "__divmod__" => Some (fun a => match a with [7] => w2_ret 15 | _ => w2_ni end)
  | 1, "__rtruediv__" => Some (fun a => match a with [0] => w2_ret 3 | _ => w2_ni end)
  | 1, "__radd__" => Some (fun a => match a with [0] => w2_ret 10 | _ => w2_ni end)
  | 7, "__add__" => Some (fun a => match a with [0] => w2_ret 8 | _ => w2_ni end)
  | 12, "__getitem__" => Some (fun a => match a with [16] => w2_ret 0 | _ => (RExc 5, []) end)
  | 12, "__len__" => Some (fun a => w2_ret 14)
  | 12, "__contains__" => Some (fun a => match a with [0] => w2_ret 5 | _ => w2_ret 11 end)
  | 12, "__add__" => Some (fun a => w2_ret 13)
  | _, _ => None
  end.
Definition w2_post (fn : string) (r : res nat) : res nat := r.
Definition w2_fallback (fn : string) (a : nat) (rest : list nat) : cres nat := (RExc type_error, []).
Definition w2_is_attr_err (e : nat) : bool := Nat.eqb e attribute_error.
Definition w2_getattr (v : nat) (name : string) : cres nat :=
  match v, name with
  | 0, "real" => w2_ret 0
  | 0, "numerator" => w2_ret 0
  | 18, "result" => w2_ret 19
  | _, _ => (RExc attribute_error, [])
  end.
Definition w2_own (name : string) : nat := 20.
Definition w2_obj (name : string) (args : list nat) : res nat := RVal 21.
(* the universe in which value 2 is a ProxyFuture over a future in state fs, created with result timeout tmo *)
Definition w2_pmeth (base : nat -> string -> option (list nat -> cres nat)) (fs : pstate nat) (tmo : tval) : string -> option (list nat -> cres nat) :=
  pmeth nat base w2_post w2_fallback fs tmo w2_is_attr_err w2_getattr 5 11 6 w2_obj.
Definition w2_meth (fs : pstate nat) (tmo : tval) (x : nat) (name : string) : option (list nat -> cres nat) :=
  if Nat.eqb x 2 then w2_pmeth w2_base fs tmo name else w2_base x name.
Definition w2_proxy_at (fs : pstate nat) (tmo : tval) : string -> list nat -> Prop :=
  proxy_at nat (w2_meth fs tmo) w2_post w2_fallback fs tmo w2_is_attr_err w2_getattr 5 11 6 w2_obj 2.
Definition w2_getattr_proxy (fs : pstate nat) (tmo : tval) : string -> cres nat := pgetattr nat fs tmo w2_is_attr_err w2_getattr 6 w2_own.
(* a hypothetical ProxyFuture that ALSO forwards __radd__ in the FBinOp form `return other + self.__result` *)
Definition w3_meth (fs : pstate nat) (tmo : tval) (x : nat) (name : string) : option (list nat -> cres nat) :=
  if Nat.eqb x 2 && String.eqb name "__radd__" then
    Some (run_method nat w2_base w2_post w2_fallback fs tmo w2_is_attr_err w2_getattr 5 11 6 (fun _ => (RExc attribute_error, []))
                     ("__radd__", [("other", false)], BBin OpAdd (BArg "other") BResult))
  else w2_meth fs tmo x name.
