(* The imperative IR of the regenerated PollExecutor / PollFuture / PollDescriptor methods (Gen/PollSkel.v, translated from
   poll.py / common.py / helpers.py by tools/poll2coq.py on every run), its PATH semantics, and the reference side: the
   thread-local continuation table [cont_a] of Model/Poll.v's [step] (proved to be what [step] does in Proofs/PollIR_Cont.v),
   the instruction-directed reader [take] (which visible operation + thread-local reads / writes an instruction of Poll.v stands
   for), [conform] (replay a path of the generated term against a machine program) and [mexplore] (all paths of a machine program).

   A path is the list of (operation, answer) items one thread performs from the entry of a method to its exit, for one
   resolution of every branch: visible operations (lock acquire / release, stdlib Future methods, delegate.submit,
   Event.set / wait / clear, user code) and the thread-local reads R... / writes W... in between.  Answers: 0 = falsy / the
   first alternative.  Definitions only. *)
From Coq Require Import List Bool Arith.
From ME Require Import Base.GenPrelude Model.Poll.
Import ListNotations.

Inductive lock := LG | LX | LM.          (* ShutdownHelper._lock, PollExecutor._lock, _Future._me_lock *)
Inductive exn := XAttr | XInvalid | XRuntime | XAny.   (* AttributeError, InvalidStateError, RuntimeError; XAny: `except Exception` /
                                                          an exception raised by user code *)
Inductive local := LOut | LExecutor | LDescriptor.
Inductive meth :=
| MSubmit | MCancel | MNotify | MShutdown | MPollLoop
| MInit | MAddDoneCallback | MInvokeCallbacks | MMeCancel | MRunCancelFn | MDelegateResolved | MCopyFutureException
| MCopyException | MTrySetResult | MSetResult | MSetException | MSetExceptionInfo | MClearDelegate | MClearExecutor
| MRegisterPoll | MDeregisterPoll | MYieldResult | MYieldException | MRunPollFn | MGateCall.

Inductive op :=
(* visible operations *)
| OAcq (l : lock) | ORel (l : lock)
| ODSubmit                      (* delegate.submit *)
| OAddCbD                       (* self._delegate.add_done_callback(self._delegate_resolved): 0 registered, 1 already done (runs it inline) *)
| OFDone | OFCancelled          (* self.done() / self.cancelled(): 1 = True *)
| OFCancel                      (* super().cancel(): 1 = True *)
| OFSrnc                        (* self.set_running_or_notify_cancel() *)
| OFSetRes | OFSetExc           (* super().set_result / set_exception: 0 set, 1 raises InvalidStateError *)
| OFSetExcInfo                  (* super().set_exception_info: python 3: raises AttributeError (not a visible operation) *)
| ODCancelled                   (* delegate.cancelled() *)
| ODCancel                      (* self._delegate.cancel(): 0 False, 1 True and the done-callbacks fire (inline), 2 True, nothing fires *)
| OUserCancelFn                 (* self._cancel_fn(descriptor.result): 0 falsy, 1 truthy, 2 raises *)
| OUserPollFn                   (* self._poll_fn(list(descriptors)): 0 returns, 1 raises *)
| OEvSet | OEvWait | OEvClear   (* the poll event; wait: 0 the flag was set, 1 blocked and woken *)
| ODShutdown | OJoin            (* shutdown(): delegate.shutdown, poll thread join (not in Model/Poll.v) *)
| OApiRet                       (* the API call returns (value: 0 None / False, 1 True / a future) *)
| OApiRaise
(* thread-local reads (answer 1 = truthy) *)
| RGateShut | RDelegate | RExecutor | RHasCfn | RScanDescs | RDExc | RDExcValue | RCbList | RDeref | RGlobalShutdown | RWaitArg
(* thread-local writes *)
| WFutInit | WSetDelegate | WSetExecutor | WCbAppend | WCbReset | WClrDelegate | WExecNone | WMkDescriptor | WDescAppend
| WDescFilter | WSnapshot | WClock | WDefaultInterval | WDropRef | WGateShut
(* markers *)
| OForSnap | OForSnapEnd | OFuel.

Inductive cond :=
| CIs (o : op) | CLocal (x : local) | CCall (m : meth) | CNot (c : cond) | CAnd (a b : cond) | COr (a b : cond).
Inductive rexp := RNone | RBool (b : bool) | RLocal (x : local) | RCall (m : meth) | ROp (o : op) | RFuture.

Inductive stmt :=
| SOp (o : op)
| SBind (x : local) (o : op)                 (* x = <op>: the truth value of the answer *)
| SWith (l : lock) (b : list stmt)
| SIf (c : cond) (a b : list stmt)
| SReturn (r : rexp)
| SRaise (x : exn)
| STry (b : list stmt) (x : exn) (h : list stmt)
| SCall (m : meth)
| SCallCb                                    (* callback(self) / fn(self): the done-callback of a PollFuture, _clear_executor *)
| SForCallbacks (b : list stmt)              (* for callback in self._me_done_callbacks: b   (at most one in this model) *)
| SForSnapshot (b : list stmt).              (* [... for d in descriptors]: one symbolic iteration between the markers *)

(* ---- alternatives of an operation ---------------------------------------------------------------------------- *)
Definition nalt (o : op) : nat :=
  match o with
  | OAddCbD | OFDone | OFCancelled | OFCancel | OFSetRes | OFSetExc | ODCancelled | OUserPollFn | OEvWait => 2
  | ODCancel | OUserCancelFn => 3
  | RGateShut | RDelegate | RExecutor | RHasCfn | RScanDescs | RDExc | RCbList | RDeref | RGlobalShutdown | RWaitArg => 2
  | _ => 1
  end.
Definition raises (o : op) (a : nat) : option exn :=
  match o, a with
  | OFSetRes, 1 | OFSetExc, 1 => Some XInvalid
  | OFSetExcInfo, _ => Some XAttr
  | OUserCancelFn, 2 | OUserPollFn, 1 => Some XAny
  | _, _ => None
  end.
Definition truthy (o : op) (a : nat) : bool :=
  match o with
  | ODCancel => negb (Nat.eqb a 0)
  | _ => Nat.eqb a 1
  end.
(* the stdlib runs the delegate's done-callback (_delegate_resolved) inline *)
Definition fires (o : op) (a : nat) : bool :=
  match o with OAddCbD | ODCancel => Nat.eqb a 1 | _ => false end.
Definition catches (h x : exn) : bool :=
  match h, x with
  | XAny, _ => true
  | XAttr, XAttr | XInvalid, XInvalid | XRuntime, XRuntime => true
  | _, _ => false
  end.

Definition item := (op * nat)%type.
Definition env := local -> nat.
Definition env0 : env := fun _ => 0.
Definition eset (e : env) (x : local) (v : nat) : env :=
  fun y => match x, y with LOut, LOut | LExecutor, LExecutor | LDescriptor, LDescriptor => v | _, _ => e y end.
Inductive exit := Fall (e : env) | Ret (v : nat) | Exc (x : exn).
Definition path := (list item * exit)%type.
Definition b2n (b : bool) : nat := if b then 1 else 0.

Definition seqp (ps : list path) (k : env -> list path) : list path :=
  flat_map (fun p => match snd p with
                     | Fall e => map (fun q => (fst p ++ fst q, snd q)) (k e)
                     | _ => [p]
                     end) ps.
(* value paths: items, then a value or an exception *)
Definition vpath := (list item * (nat + exn))%type.
Definition seqv (vs : list vpath) (k : nat -> list path) : list path :=
  flat_map (fun p => match snd p with
                     | inl v => map (fun q => (fst p ++ fst q, snd q)) (k v)
                     | inr x => [(fst p, Exc x)]
                     end) vs.
Definition seqvv (vs : list vpath) (k : nat -> list vpath) : list vpath :=
  flat_map (fun p => match snd p with
                     | inl v => map (fun q => (fst p ++ fst q, snd q)) (k v)
                     | inr x => [(fst p, inr x)]
                     end) vs.

Section Exec.
Variable body : meth -> list stmt.

Fixpoint exec (fuel : nat) (ss : list stmt) (e : env) {struct fuel} : list path :=
  match fuel with
  | 0 => [([(OFuel, 0)], Exc XAny)]
  | S f =>
    (* a call: the callee's paths as value paths *)
    let call (m : meth) : list vpath :=
      map (fun p => (fst p, match snd p with Fall _ => inl 0 | Ret v => inl v | Exc x => inr x end)) (exec f (body m) env0) in
    (* one operation: every alternative; a fired delegate callback runs inline, its exceptions are swallowed (stdlib) *)
    let opv (o : op) : list vpath :=
      flat_map (fun a => match raises o a with
                         | Some x => [([(o, a)], inr x)]
                         | None => if fires o a
                                   then map (fun p => ((o, a) :: fst p, inl a)) (call MDelegateResolved)
                                   else [([(o, a)], inl a)]
                         end) (seq 0 (nalt o)) in
    match ss with
    | [] => [([], Fall e)]
    | s :: rest =>
      let first : list path :=
        match s with
        | SOp o => seqv (opv o) (fun _ => [([], Fall e)])
        | SBind x o => seqv (opv o) (fun a => [([], Fall (eset e x (b2n (truthy o a))))])
        | SWith l b => map (fun p => ((OAcq l, 0) :: fst p ++ [(ORel l, 0)], snd p)) (exec f b e)
        | SIf c a b => seqv (evalc f c e) (fun v => if Nat.eqb v 0 then exec f b e else exec f a e)
        | SReturn r => seqv (match r with
                             | RNone => [([], inl 0)]
                             | RBool b => [([], inl (b2n b))]
                             | RLocal x => [([], inl (e x))]
                             | RCall m => call m
                             | ROp o => seqvv (opv o) (fun a => [([], inl (b2n (truthy o a)))])
                             | RFuture => [([], inl 1)]
                             end) (fun v => [([], Ret v)])
        | SRaise x => [([], Exc x)]
        | STry b x h => flat_map (fun p => match snd p with
                                           | Exc y => if catches x y then map (fun q => (fst p ++ fst q, snd q)) (exec f h e) else [p]
                                           | _ => [p]
                                           end) (exec f b e)
        | SCall m => seqv (call m) (fun _ => [([], Fall e)])
        | SCallCb => seqv (call MClearExecutor) (fun _ => [([], Fall e)])
        | SForCallbacks b => ([(RCbList, 0)], Fall e) :: map (fun p => ((RCbList, 1) :: fst p, snd p)) (exec f b e)
        | SForSnapshot b => map (fun p => ((OForSnap, 0) :: fst p ++ [(OForSnapEnd, 0)], snd p)) (exec f b e)
        end in
      seqp first (fun e' => exec f rest e')
    end
  end
with evalc (fuel : nat) (c : cond) (e : env) {struct fuel} : list vpath :=
  match fuel with
  | 0 => [([(OFuel, 0)], inr XAny)]
  | S f =>
    let call (m : meth) : list vpath :=
      map (fun p => (fst p, match snd p with Fall _ => inl 0 | Ret v => inl v | Exc x => inr x end)) (exec f (body m) env0) in
    let opv (o : op) : list vpath :=
      flat_map (fun a => match raises o a with
                         | Some x => [([(o, a)], inr x)]
                         | None => if fires o a
                                   then map (fun p => ((o, a) :: fst p, inl a)) (call MDelegateResolved)
                                   else [([(o, a)], inl a)]
                         end) (seq 0 (nalt o)) in
    match c with
    | CIs o => seqvv (opv o) (fun a => [([], inl (b2n (truthy o a)))])
    | CLocal x => [([], inl (b2n (negb (Nat.eqb (e x) 0))))]
    | CCall m => seqvv (call m) (fun v => [([], inl (b2n (negb (Nat.eqb v 0))))])
    | CNot c' => seqvv (evalc f c' e) (fun v => [([], inl (b2n (Nat.eqb v 0)))])
    | CAnd a b => seqvv (evalc f a e) (fun v => if Nat.eqb v 0 then [([], inl 0)] else evalc f b e)
    | COr a b => seqvv (evalc f a e) (fun v => if Nat.eqb v 0 then evalc f b e else [([], inl 1)])
    end
  end.

Definition FUEL := 60.
(* the paths of a method called from inside the library (a callback, a call from user code) *)
Definition paths (m : meth) : list (list item) := map fst (exec FUEL (body m) env0).
(* an API call: the return is a visible operation of the calling thread *)
Definition paths_api (m : meth) : list (list item) :=
  map (fun p => fst p ++ match snd p with
                         | Fall _ => [(OApiRet, 0)]
                         | Ret v => [(OApiRet, v)]
                         | Exc _ => [(OApiRaise, 0)]
                         end) (exec FUEL (body m) env0).
End Exec.

(* ================================================================================================================ *)
(* The reference side: Model/Poll.v, thread-locally.                                                                  *)
(* [cont_a i alt]: what replaces the head instruction i of a thread's program when [step] accepts the event that      *)
(* matches it, for each of the alternatives [step] distinguishes (None: [step] rejects that answer).  jj: the id of  *)
(* the future created by IDSubmit; vv / ee: the delegate's result / exception (dout), the value of the descriptor.    *)
(* ================================================================================================================ *)
(* decidable equality of operations (generated) and prefix stripping *)
Scheme Equality for lock.
Scheme Equality for op.
Definition item_eqb (x y : item) : bool := op_beq (fst x) (fst y) && Nat.eqb (snd x) (snd y).
Fixpoint strip (pat p : list item) : option (list item) :=
  match pat with
  | [] => Some p
  | x :: pat' => match p with
                 | y :: p' => if item_eqb x y then strip pat' p' else None
                 | [] => None
                 end
  end.

Section Ref.
Variables jj vv ee : nat.

Definition nalts (i : instr) : nat :=
  match i with
  | IGAcq | IAddCbD _ | IDoneA _ | IRelMCbs _ | ICancelled _ | IUserCancelFn _ _ | IFCancel _
  | IDoneS _ _ | IDoneX _ _ | IFSetRes _ _ | IFSetExc _ _ => 2
  | IDoneC _ | IDCancel _ | IDCancelledQ _ => 3
  | ICancelFnQ _ => 4
  | _ => 1
  end.

Definition cont_a (i : instr) (alt : nat) : option (list instr) :=
  match i, alt with
  | IGAcq, 0 => Some []
  | IGAcq, _ => None                                  (* is_shutdown: shutdown() is not part of Model/Poll.v *)
  | IDSubmit, _ => Some [IAcqM jj; IDoneA jj; IAddCbD jj; IGRel; IRetSubmit jj]
  | IAddCbD j, 0 => Some []                           (* delegate pending: callback parked *)
  | IAddCbD j, _ => Some (resolved_prog j)            (* delegate done: _delegate_resolved runs inline *)
  | IDoneA j, 0 => Some [IRelM j; IXDereg j]          (* done *)
  | IDoneA j, _ => Some [IRelM j]
  | IRelMCbs j, 0 => Some [IXDereg j]                 (* _clear_executor registered *)
  | IRelMCbs j, _ => Some []
  | ICancelled j, 0 => Some [IRelM j; IRetB true]     (* cancelled *)
  | ICancelled j, _ => Some [IDoneC j]
  | IDoneC j, 0 => Some (cancel_no j)                 (* done *)
  | IDoneC j, 1 => Some [IDCancel j]                  (* not done, self._delegate set *)
  | IDoneC j, _ => Some [ICancelFnQ j]
  | IDCancel j, 0 => Some (cancel_no j)               (* delegate.cancel() False *)
  | IDCancel j, 1 => Some (resolved_prog j ++ [ICancelFnQ j])   (* True, callbacks fire *)
  | IDCancel j, _ => Some [ICancelFnQ j]
  | ICancelFnQ j, 0 => Some (cancel_no j)             (* self._executor is None *)
  | ICancelFnQ j, 1 => Some (cancel_ok j)             (* no cancel function *)
  | ICancelFnQ j, 2 => Some [IUserCancelFn j vv]      (* descriptor found *)
  | ICancelFnQ j, _ => Some (cancel_ok j)             (* no descriptor *)
  | IUserCancelFn j _, 0 => Some (cancel_ok j)        (* truthy *)
  | IUserCancelFn j _, _ => Some (cancel_no j)        (* falsy / raised *)
  | IFCancel j, 0 => Some []
  | IFCancel j, _ => None                             (* super().cancel() False: step rejects *)
  | IDCancelledQ j, 0 => Some []                      (* cancelled *)
  | IDCancelledQ j, 1 => Some (register_prog j vv)    (* result *)
  | IDCancelledQ j, _ => Some (exc_prog j ee)         (* exception *)
  | IDoneS j v, 0 => Some [IRelM j]
  | IDoneS j v, _ => Some [IFSetRes j v]
  | IDoneX j e, 0 => Some [IRelM j]
  | IDoneX j e, _ => Some [IRelM j; IAcqM j; IFSetExc j e]
  | IFSetRes j _, 0 | IFSetExc j _, 0 => Some [IRelMCbs j]
  | IFSetRes j _, _ | IFSetExc j _, _ => Some [IRelM j]       (* InvalidStateError, tolerated *)
  | _, _ => Some []
  end.

(* which items an instruction of Poll.v stands for: the visible operation and the thread-local code up to the next one;
   each entry: (items, alternative) *)
Definition table (i : instr) : list (list item * nat) :=
  match i with
  | IGAcq => [([(OAcq LG, 0); (RGateShut, 0)], 0); ([(OAcq LG, 0); (RGateShut, 1)], 1)]
  | IGRel => [([(ORel LG, 0)], 0)]
  | IDSubmit => [([(ODSubmit, 0); (WFutInit, 0); (WSetDelegate, 0); (WSetExecutor, 0)], 0)]
  | IAddCbD _ => [([(OAddCbD, 0)], 0); ([(OAddCbD, 1)], 1)]
  | IDoneA _ => [([(OFDone, 1)], 0); ([(OFDone, 0); (WCbAppend, 0)], 1)]
  | IRet => [([(OApiRet, 0)], 0)]
  | IRetSubmit _ => [([(OApiRet, 1)], 0)]
  | IRetEnv _ => []                                   (* the environment's call: no library code *)
  | IRetB b => [([(OApiRet, if b then 1 else 0)], 0)]
  | IAcqM _ => [([(OAcq LM, 0)], 0)]
  | IAcqMClr _ => [([(OAcq LM, 0); (WClrDelegate, 0)], 0)]
  | IRelM _ => [([(ORel LM, 0)], 0)]
  | IRelMCbs _ => [([(ORel LM, 0); (RCbList, 1)], 0); ([(ORel LM, 0); (RCbList, 0)], 1)]
  | ICancelled _ => [([(OFCancelled, 1)], 0); ([(OFCancelled, 0)], 1)]
  | IDoneC _ => [([(OFDone, 1)], 0); ([(OFDone, 0); (RDelegate, 1)], 1); ([(OFDone, 0); (RDelegate, 0)], 2)]
  | IDCancel _ => [([(ODCancel, 0)], 0); ([(ODCancel, 1)], 1); ([(ODCancel, 2)], 2)]
  | ICancelFnQ _ => [([(RExecutor, 0)], 0); ([(RExecutor, 1); (RHasCfn, 0)], 1);
                     ([(RExecutor, 1); (RHasCfn, 1); (RScanDescs, 1)], 2); ([(RExecutor, 1); (RHasCfn, 1); (RScanDescs, 0)], 3)]
  | IUserCancelFn _ _ => [([(OUserCancelFn, 1)], 0); ([(OUserCancelFn, 0)], 1); ([(OUserCancelFn, 2)], 1)]
  | IFCancel _ => [([(OFCancel, 1)], 0); ([(OFCancel, 0)], 1)]
  | IFSrnc _ => [([(OFSrnc, 0)], 0)]
  | IDCancelledQ _ => [([(ODCancelled, 1)], 0); ([(ODCancelled, 0); (RDExc, 0); (WMkDescriptor, 0)], 1);
                       ([(ODCancelled, 0); (RDExc, 1); (RDExcValue, 0)], 2)]
  | IXAcqReg _ _ => [([(OAcq LX, 0); (WDescAppend, 0)], 0)]
  | IXRel => [([(ORel LX, 0)], 0)]
  | IEvSet => [([(OEvSet, 0)], 0)]
  | IXDereg _ => [([(OAcq LX, 0); (WDescFilter, 0); (ORel LX, 0); (WExecNone, 0)], 0)]
  | IDoneS _ _ => [([(OFDone, 1)], 0); ([(OFDone, 0)], 1)]
  | IDoneX _ _ => [([(OFDone, 1)], 0); ([(OFDone, 0); (OFSetExcInfo, 0)], 1)]
  | IFSetRes _ _ => [([(OFSetRes, 0)], 0); ([(OFSetRes, 1)], 1)]
  | IFSetExc _ _ => [([(OFSetExc, 0)], 0); ([(OFSetExc, 1)], 1)]
  end.

Definition take (i : instr) (p : list item) : option (nat * list item) :=
  (fix go (l : list (list item * nat)) :=
     match l with
     | [] => None
     | (pat, alt) :: l' => match strip pat p with Some r => Some (alt, r) | None => go l' end
     end) (table i).

(* _me_invoke_callbacks resets the callback list after the loop; Poll.v clears pcb in the IRelMCbs step already *)
Definition clean (p : list item) : list item :=
  filter (fun it => match fst it with WCbReset => false | _ => true end) p.

(* replay the items of a path against a machine program; -> the alternatives taken.  When [step] rejects an answer
   (cont_a = None) the machine path ends there. *)
Fixpoint conform (fuel : nat) (prog : list instr) (p : list item) : option (list nat) :=
  match fuel with
  | 0 => None
  | S f =>
    match prog with
    | [] => match p with [] => Some [] | _ => None end
    | i :: rest =>
      match take i p with
      | Some (alt, p') =>
          match cont_a i alt with
          | Some c => option_map (cons alt) (conform f (c ++ rest) p')
          | None => Some [alt]
          end
      | None => None
      end
    end
  end.

(* every path of a machine program, as the list of alternatives taken *)
Fixpoint mexplore (fuel : nat) (prog : list instr) : list (list nat) :=
  match fuel with
  | 0 => [[999]]
  | S f =>
    match prog with
    | [] => [[]]
    | i :: rest =>
      flat_map (fun alt => match cont_a i alt with
                           | Some c => map (cons alt) (mexplore f (c ++ rest))
                           | None => [[alt]]
                           end) (seq 0 (nalts i))
    end
  end.
End Ref.

Fixpoint nats_eq (a b : list nat) : bool :=
  match a, b with
  | [], [] => true
  | x :: a', y :: b' => Nat.eqb x y && nats_eq a' b'
  | _, _ => false
  end.
Definition subset (xs ys : list (list nat)) : bool := forallb (fun x => existsb (nats_eq x) ys) xs.

(* PATH CONFORMANCE of a method against the machine program [entry]: every path of the generated term replays on the machine
   program (with the machine's own continuations), and the machine program has no other path. *)
Definition conforms (jj vv ee : nat) (entry : list instr) (ps : list (list item)) : bool :=
  let r := map (fun p => conform jj vv ee 200 entry (clean p)) ps in
  forallb (fun x => match x with Some _ => true | None => false end) r
  && (let alts := flat_map (fun x => match x with Some a => [a] | None => [] end) r in
      subset alts (mexplore jj vv ee 200 entry) && subset (mexplore jj vv ee 200 entry) alts).

(* ---- the poll thread: its position is [pmode], not a program ------------------------------------------------------ *)
Inductive pk := KTop | KCall | KBody | KRest | KBlocked | KClear.
Definition pk_of (m : pm) : pk :=
  match m with PTop => KTop | PCall _ => KCall | PBody _ => KBody | PRest _ => KRest | PBlocked => KBlocked | PClear => KClear end.
Inductive pe := PESnap | PEPoll | PEPollRet | PEPollRaise | PEWait0 | PEWait1 | PEWoke | PEClear.
(* the cycle of the poll thread (proved to be [step]'s in Proofs/PollIR_Cont.v) *)
Definition pm_trans (k : pk) (e : pe) : option pk :=
  match k, e with
  | KTop, PESnap => Some KCall
  | KCall, PEPoll => Some KBody
  | KBody, PEPollRet => Some KRest
  | KBody, PEPollRaise => Some KRest
  | KRest, PEWait0 => Some KClear
  | KRest, PEWait1 => Some KBlocked
  | KBlocked, PEWoke => Some KClear
  | KClear, PEClear => Some KTop
  | _, _ => None
  end.
Definition pe_all := [PESnap; PEPoll; PEPollRet; PEPollRaise; PEWait0; PEWait1; PEWoke; PEClear].
Definition pe_code (e : pe) : nat :=
  match e with PESnap => 0 | PEPoll => 1 | PEPollRet => 2 | PEPollRaise => 3 | PEWait0 => 4 | PEWait1 => 5 | PEWoke => 6 | PEClear => 7 end.

(* one iteration of _poll_loop as poll-thread events.  -> None: not a machine iteration; Some None: the loop exits
   (executor collected / shut down: outside Model/Poll.v); Some (Some es): the events of the iteration.
   Between OForSnap / OForSnapEnd (the poll function raised) the items must be the machine's program for failing ONE future
   of the snapshot, exc_prog. *)
Fixpoint split_at_end (p : list item) : option (list item * list item) :=
  match p with
  | [] => None
  | it :: r => if op_beq (fst it) OForSnapEnd then Some ([], r)
               else match split_at_end r with Some (a, b) => Some (it :: a, b) | None => None end
  end.

Definition loop_tail (r : list item) (es : list pe) : option (option (list pe)) :=
  match strip [(WDefaultInterval, 0); (WDropRef, 0)] r with
  | Some r1 =>
      match strip [(OEvWait, 0); (OEvClear, 0)] r1, strip [(OEvWait, 1); (OEvClear, 0)] r1 with
      | Some [], _ => Some (Some (es ++ [PEWait0; PEClear]))
      | _, Some [] => Some (Some (es ++ [PEWait1; PEWoke; PEClear]))
      | _, _ => None
      end
  | None => None
  end.

Definition loop_events (jj vv ee : nat) (p : list item) : option (option (list pe)) :=
  if issome (strip [(RDeref, 0)] p) || issome (strip [(RDeref, 1); (RGateShut, 1)] p)
     || issome (strip [(RDeref, 1); (RGateShut, 0); (RGlobalShutdown, 1)] p) then Some None else
  match strip [(RDeref, 1); (RGateShut, 0); (RGlobalShutdown, 0); (OAcq LX, 0); (WSnapshot, 0); (ORel LX, 0); (WClock, 0)] p with
  | Some r =>
      match strip [(OUserPollFn, 0)] r, strip [(OUserPollFn, 1); (OForSnap, 0)] r with
      | Some r', _ => loop_tail r' [PESnap; PEPoll; PEPollRet]
      | _, Some r' =>
          match split_at_end r' with
          | Some (b, r'') =>
              match conform jj vv ee 200 (exc_prog jj ee) (clean b) with
              | Some _ => loop_tail r'' [PESnap; PEPoll; PEPollRaise]
              | None => None
              end
          | None => None
          end
      | _, _ => None
      end
  | None => None
  end.

(* all cycles KTop -> KTop of pm_trans (no state is repeated inside a cycle) *)
Fixpoint cycles (fuel : nat) (k : pk) : list (list nat) :=
  match fuel with
  | 0 => []
  | S f =>
    flat_map (fun e => match pm_trans k e with
                       | Some KTop => [[pe_code e]]
                       | Some k' => map (cons (pe_code e)) (cycles f k')
                       | None => []
                       end) pe_all
  end.

Definition loop_conforms (jj vv ee : nat) (ps : list (list item)) : bool :=
  let r := map (loop_events jj vv ee) ps in
  forallb (fun x => match x with Some _ => true | None => false end) r
  && (let evs := flat_map (fun x => match x with Some (Some es) => [map pe_code es] | _ => [] end) r in
      subset evs (cycles 10 KTop) && subset (cycles 10 KTop) evs)
  (* the loop's exits are exactly the three tests at its head *)
  && Nat.eqb (length (filter (fun x => match x with Some None => true | _ => false end) r)) 3.
