(* The sequential law of map / flat_map on outcomes (pure), used by C13 and by Stack.seq_eval. *)
From Coq Require Import List Bool Arith.
From ME Require Import Model.MapFut.
Import ListNotations.

(* outcome produced by a user function's answer; din = the outcome it was applied to;
   inner d = outcome of a future the function returned, if that future finished *)
Definition apply_ans (k : kind) (a : answer) (din : outcome) (inner : nat -> option outcome) : option outcome :=
  match a with
  | ARaise e => Some (Err e)
  | ARaiseSame => Some din
  | ARet v => match k with KMap => Some (Ok v) | KFlat => Some (Err type_error) end
  | ARetFut d => match k with KMap => Some (Ok (1000 + d)) | KFlat => inner d end
  end.

Definition map_law (k : kind) (hasfn hasefn : bool) (din : outcome) (fa ea : answer)
           (inner : nat -> option outcome) : option outcome :=
  match din with
  | Ok _ => if hasfn then apply_ans k fa din inner else match k with KMap => Some din | KFlat => None end
  | Err _ => if hasefn then apply_ans k ea din inner else Some din
  end.

(* which user functions the law calls: (fn calls, error_fn calls) *)
Definition map_calls (hasfn hasefn : bool) (din : outcome) : nat * nat :=
  match din with
  | Ok _ => (if hasfn then 1 else 0, 0)
  | Err _ => (0, if hasefn then 1 else 0)
  end.

(* plain functions on values, for the composition law of MapExecutor chains without error_fn *)
Inductive vfun := VRet (f : nat -> nat) | VRaise (f : nat -> nat).   (* returns f v / raises exception f v *)
Definition vapply (g : vfun) (o : outcome) : outcome :=
  match o with
  | Err e => Err e
  | Ok v => match g with VRet f => Ok (f v) | VRaise f => Err (f v) end
  end.
Definition vcompose (g h : vfun) : vfun :=
  match g with
  | VRaise f => VRaise f
  | VRet f => match h with VRet f' => VRet (fun v => f' (f v)) | VRaise f' => VRaise (fun v => f' (f v)) end
  end.
Fixpoint vchain (gs : list vfun) (o : outcome) : outcome :=
  match gs with [] => o | g :: r => vchain r (vapply g o) end.
Fixpoint vcompose_all (gs : list vfun) : vfun :=
  match gs with [] => VRet (fun v => v) | g :: r => vcompose g (vcompose_all r) end.
(* number of functions of the chain that get called on input o *)
Fixpoint vcalls (gs : list vfun) (o : outcome) : nat :=
  match gs with
  | [] => 0
  | g :: r => match o with Err _ => 0 | Ok _ => S (vcalls r (vapply g o)) end
  end.
