(* The SHUTDOWN CHAIN of a stack of executors (property C11) as a trace acceptor.
   A chain is a list of layer kinds cfg = [kind_1; ...; kind_n] over layer 0 = the base executor
   (environment: it records shutdown calls and answers submits).  Layer k >= 1 has its gate G_k
   (helpers.ShutdownHelper._lock, an RLock: owner + depth), its flag, and -- for the kinds with a
   worker thread -- the fact whether the worker has exited.  Threads carry PROGRAMS: the pending
   visible operations of the calls they are inside, innermost first.  Any thread may call
   shutdown(k, wait, kw) or submit(k) on ANY layer whenever it runs user code: at top level, or
   inside the base executor's submit (a synchronous base runs the callable inline, while the gates of
   every inline layer above are held by that thread: this is what the gates are re-entrant for).
   The events are a PROJECTION of the harness log (harness/chain_common.py): call/return of each
   layer's submit and shutdown, gate operations (re-entrant ones included), worker exits.
   Definitions only; proofs live in Proofs/Chain_Inv.v. *)
From Coq Require Import ZArith List Bool Arith.
From ME Require Import Base.Machine.
Import ListNotations.

Inductive kind := KMap | KPoll | KRetry | KThrottle | KTimeout | KCos.
(* submit(): delegate.submit is called inline while G_k is held (map.py:179, poll.py:206,
   timeout.py:91, cancel_on_shutdown.py:103) / the job is handed to the worker thread, which calls
   delegate.submit later WITHOUT G_k (retry.py:261+_submit_now, throttle.py:134+_do_submit) *)
Definition inline_submit (c : kind) : bool := match c with KRetry | KThrottle => false | _ => true end.
Definition has_worker (c : kind) : bool := match c with KMap | KCos => false | _ => true end.
Definition worker_submits (c : kind) : bool := negb (inline_submit c).

Definition cfg := list kind.
Definition kindof (c : cfg) (k : nat) : kind := nth (k - 1) c KMap.

Inductive instr :=
| IAcqSub (k : nat)                        (* with self._shutdown.ensure_alive(): take G_k, test the flag *)
| ICallSub (k : nat)                       (* self._delegate.submit(...): layer k's submit is about to be called *)
| IRelSub (k : nat) (ok : bool)            (* leave G_k normally / with the exception in flight *)
| ISubRet (k : nat) (ok : bool)            (* layer k's submit returns / raises *)
| IBase                                    (* inside the base executor's submit *)
| IAcqSd (k : nat) (w : bool) (kw : nat)   (* self._shutdown(): take G_k, test-and-set *)
| IRelSd (k : nat)
| ICallSd (k : nat) (w : bool) (kw : nat)  (* self._delegate.shutdown(wait, **kw): layer k's shutdown about to be called *)
| ISdRet (k : nat) (join won : bool)       (* [join the worker;] return *)
| IBaseSd.                                 (* inside the base executor's shutdown *)

Inductive ev :=
| SubCall (t k : nat) | SubRet (t k : nat) (ok : bool)
| Acq (t k : nat) | ReAcq (t k : nat) | Rel (t k : nat) | ReRel (t k : nat)
| SdCall (t k : nat) (w : bool) (kw : nat) | SdRet (t k : nat)
| WExit (t k : nat).

(* ghost history, newest first *)
Inductive hev :=
| HSubCall (t k : nat) (user : bool)
| HEnter (t k : nat)                       (* passed G_k with the flag clear *)
| HRaise (t k : nat)                       (* found the flag set: raises at layer k *)
| HSubRet (t k : nat) (ok : bool)
| HSdCall (t k : nat) (w : bool) (kw : nat) (user : bool)   (* user = false: called by layer k+1 *)
| HWin (t k : nat) (w : bool) (kw : nat)   (* this call flipped flag k *)
| HLose (t k : nat)
| HDown (t k : nat) (w : bool) (kw : nat)  (* layer k calls its delegate's shutdown *)
| HSdRet (t k : nat) (won : bool)
| HAcq (t k : nat) (held : list nat)       (* t takes G_k (not re-entrantly) while holding the gates in held *)
| HWExit (t k : nat).

Record st := mkSt {
  gown : nat -> option nat;      (* owner of G_k *)
  gdepth : nat -> nat;           (* recursion depth of G_k *)
  flag : nat -> bool;            (* is_shutdown of layer k *)
  wdead : nat -> bool;           (* layer k's worker thread has exited *)
  prog : nat -> list instr;
  lastfail : nat -> bool;        (* thread t's last top-level call was a submit that raised *)
  bcalls : nat;                  (* shutdown calls received by the base *)
  nested : bool;                 (* ghost: some call was made from inside the base's submit *)
  hist : list hev
}.

Definition init : st :=
  mkSt (fun _ => None) (fun _ => 0) (fun _ => false) (fun _ => false) (fun _ => []) (fun _ => false) 0 false [].

Definition set_prog (s : st) (t : nat) (p : list instr) : st :=
  mkSt (gown s) (gdepth s) (flag s) (wdead s) (upd (prog s) t p) (lastfail s) (bcalls s) (nested s) (hist s).
Definition set_gate (s : st) (k : nat) (o : option nat) (d : nat) : st :=
  mkSt (upd (gown s) k o) (upd (gdepth s) k d) (flag s) (wdead s) (prog s) (lastfail s) (bcalls s) (nested s) (hist s).
Definition set_flag (s : st) (k : nat) : st :=
  mkSt (gown s) (gdepth s) (upd (flag s) k true) (wdead s) (prog s) (lastfail s) (bcalls s) (nested s) (hist s).
Definition set_wdead (s : st) (k : nat) : st :=
  mkSt (gown s) (gdepth s) (flag s) (upd (wdead s) k true) (prog s) (lastfail s) (bcalls s) (nested s) (hist s).
Definition set_lastfail (s : st) (t : nat) (b : bool) : st :=
  mkSt (gown s) (gdepth s) (flag s) (wdead s) (prog s) (upd (lastfail s) t b) (bcalls s) (nested s) (hist s).
Definition inc_bcalls (s : st) : st :=
  mkSt (gown s) (gdepth s) (flag s) (wdead s) (prog s) (lastfail s) (S (bcalls s)) (nested s) (hist s).
Definition set_nested (s : st) (b : bool) : st :=
  mkSt (gown s) (gdepth s) (flag s) (wdead s) (prog s) (lastfail s) (bcalls s) (nested s || b) (hist s).
Definition log (s : st) (h : hev) : st :=
  mkSt (gown s) (gdepth s) (flag s) (wdead s) (prog s) (lastfail s) (bcalls s) (nested s) (h :: hist s).

Definition owns (s : st) (t k : nat) : bool :=
  match gown s k with Some u => Nat.eqb u t | None => false end.
(* the gates (1..n) thread t holds *)
Definition held_by (c : cfg) (s : st) (t : nat) : list nat := filter (owns s t) (seq 1 (length c)).

(* user code runs at top level and inside the base executor's submit *)
Definition uctx (p : list instr) : bool := match p with [] => true | IBase :: _ => true | _ => false end.
Definition in_base (p : list instr) : bool := match p with IBase :: _ => true | _ => false end.
Definition isnil (p : list instr) : bool := match p with [] => true | _ => false end.

Definition start_sub (k : nat) : list instr := match k with 0 => [IBase] | _ => [IAcqSub k] end.
Definition start_sd (k : nat) (w : bool) (kw : nat) : list instr :=
  match k with 0 => [IBaseSd] | _ => [IAcqSd k w kw] end.
(* submit(k) once inside the gate with the flag clear *)
Definition sub_body (c : cfg) (k : nat) : list instr :=
  (if inline_submit (kindof c k) then [ICallSub (k - 1)] else []) ++ [IRelSub k true; ISubRet k true].
(* shutdown(k) after winning: release the gate, call down with the SAME arguments, join, return *)
Definition sd_body (c : cfg) (k : nat) (w : bool) (kw : nat) : list instr :=
  [IRelSd k; ICallSd (k - 1) w kw; ISdRet k (w && has_worker (kindof c k)) true].
(* an exception coming out of delegate.submit propagates through the calling layer's `with` *)
Definition unwind (p : list instr) : list instr :=
  match p with IRelSub k _ :: ISubRet k' _ :: r => IRelSub k false :: ISubRet k' false :: r | _ => p end.

(* thread t, now owner of G_k, with head instruction i: the flag test (and set) *)
Definition gate_in (c : cfg) (s : st) (t k : nat) (i : instr) (r : list instr) : option st :=
  match i with
  | IAcqSub j =>
      if Nat.eqb j k then
        Some (if flag s k then log (set_prog s t (IRelSub k false :: ISubRet k false :: r)) (HRaise t k)
              else log (set_prog s t (sub_body c k ++ r)) (HEnter t k))
      else None
  | IAcqSd j w kw =>
      if Nat.eqb j k then
        Some (if flag s k then log (set_prog s t (IRelSd k :: ISdRet k false false :: r)) (HLose t k)
              else log (set_flag (set_prog s t (sd_body c k w kw ++ r)) k) (HWin t k w kw))
      else None
  | _ => None
  end.

Definition gate_out (s : st) (t k : nat) (o : option nat) (d : nat) : option st :=
  match prog s t with
  | IRelSub j _ :: r => if Nat.eqb j k then Some (set_gate (set_prog s t r) k o d) else None
  | IRelSd j :: r => if Nat.eqb j k then Some (set_gate (set_prog s t r) k o d) else None
  | _ => None
  end.

Definition finish_sub (s : st) (t k : nat) (ok : bool) (r : list instr) : st :=
  let r' := if ok then r else unwind r in
  log (set_lastfail (set_prog s t r') t (negb ok && isnil r')) (HSubRet t k ok).

Definition step (c : cfg) (s : st) (e : ev) : option st :=
  match e with
  | SubCall t k =>
      if Nat.leb k (length c) then
        match prog s t with
        | ICallSub j :: r =>
            if Nat.eqb j k then Some (log (set_lastfail (set_prog s t (start_sub k ++ r)) t false) (HSubCall t k false))
            else None
        | p => if uctx p
               then Some (log (set_nested (set_lastfail (set_prog s t (start_sub k ++ p)) t false) (in_base p)) (HSubCall t k true))
               else None
        end
      else None
  | SubRet t k ok =>
      match prog s t with
      | ISubRet j b :: r => if Nat.eqb j k && Bool.eqb b ok && Nat.ltb 0 k then Some (finish_sub s t k ok r) else None
      | IBase :: r => if Nat.eqb k 0 && (ok || Nat.ltb 0 (bcalls s)) then Some (finish_sub s t k ok r) else None
      | _ => None
      end
  | Acq t k =>
      match gown s k, prog s t with
      | None, i :: r =>
          if Nat.ltb 0 k then gate_in c (log (set_gate s k (Some t) 1) (HAcq t k (held_by c s t))) t k i r else None
      | _, _ => None
      end
  | ReAcq t k =>
      match prog s t with
      | i :: r => if owns s t k && Nat.ltb 0 k then gate_in c (set_gate s k (Some t) (S (gdepth s k))) t k i r else None
      | _ => None
      end
  | Rel t k => if owns s t k && Nat.eqb (gdepth s k) 1 then gate_out s t k None 0 else None
  | ReRel t k => if owns s t k && Nat.ltb 1 (gdepth s k) then gate_out s t k (Some t) (gdepth s k - 1) else None
  | SdCall t k w kw =>
      if Nat.leb k (length c) then
        let cnt := fun s' : st => match k with 0 => inc_bcalls s' | _ => s' end in
        match prog s t with
        | ICallSd j w' kw' :: r =>
            if Nat.eqb j k && Bool.eqb w w' && Nat.eqb kw kw'
            then Some (log (log (cnt (set_prog s t (start_sd k w kw ++ r))) (HDown t (S k) w kw)) (HSdCall t k w kw false))
            else None
        | p => if uctx p
               then Some (log (set_nested (cnt (set_prog s t (start_sd k w kw ++ p))) (in_base p)) (HSdCall t k w kw true))
               else None
        end
      else None
  | SdRet t k =>
      match prog s t with
      | ISdRet j join won :: r =>
          if Nat.eqb j k && Nat.ltb 0 k && (negb join || wdead s k)
          then Some (log (set_prog s t r) (HSdRet t k won)) else None
      | IBaseSd :: r => if Nat.eqb k 0 then Some (log (set_prog s t r) (HSdRet t 0 true)) else None
      | _ => None
      end
  | WExit t k =>
      if isnil (prog s t) && Nat.ltb 0 k && Nat.leb k (length c) && has_worker (kindof c k) && negb (wdead s k)
         && (flag s k || (worker_submits (kindof c k) && lastfail s t))
      then Some (log (set_wdead s k) (HWExit t k)) else None
  end.

(* ---- wire format + verdict for the correspondence runner (harness/chain_common.py) --------------
   first line: the kinds of layers 1..n; then one line per event *)
Local Open Scope Z_scope.
Definition zn (z : Z) : nat := Z.to_nat z.
Definition zb (z : Z) : bool := negb (Z.eqb z 0).
Definition decode_kind (z : Z) : option kind :=
  match z with 0 => Some KMap | 1 => Some KPoll | 2 => Some KRetry | 3 => Some KThrottle
             | 4 => Some KTimeout | 5 => Some KCos | _ => None end.
Fixpoint decode_cfg (l : list Z) : option cfg :=
  match l with
  | [] => Some []
  | z :: r => match decode_kind z, decode_cfg r with Some k, Some c => Some (k :: c) | _, _ => None end
  end.
Definition decode (l : list Z) : option ev :=
  match l with
  | [0; t; k] => Some (SubCall (zn t) (zn k))
  | [1; t; k; ok] => Some (SubRet (zn t) (zn k) (zb ok))
  | [2; t; k] => Some (Acq (zn t) (zn k))
  | [3; t; k] => Some (ReAcq (zn t) (zn k))
  | [4; t; k] => Some (Rel (zn t) (zn k))
  | [5; t; k] => Some (ReRel (zn t) (zn k))
  | [6; t; k; w; kw] => Some (SdCall (zn t) (zn k) (zb w) (zn kw))
  | [7; t; k] => Some (SdRet (zn t) (zn k))
  | [8; t; k] => Some (WExit (zn t) (zn k))
  | _ => None
  end.
Fixpoint decode_all (ls : list (list Z)) : option (list ev) :=
  match ls with
  | [] => Some []
  | l :: r => match decode l, decode_all r with Some e, Some es => Some (e :: es) | _, _ => None end
  end.
Definition accept (ls : list (list Z)) : list Z :=
  match ls with
  | [] => [-2]
  | cl :: r =>
      match decode_cfg cl, decode_all r with
      | Some c, Some es => match first_reject (step c) init es 0 with None => [-1] | Some i => [Z.of_nat (S i)] end
      | _, _ => [-2]
      end
  end.
