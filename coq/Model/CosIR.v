(* A small imperative IR for the bodies of CancelOnShutdownExecutor.submit / .shutdown (with
   ShutdownHelper.__call__ and the @contextmanager ensure_alive inlined) and its INTERLEAVING
   semantics over the event alphabet of Model/Cos.v.

   The programs themselves are not written here: tools/skel2coq.py regenerates them from the Python
   AST on every check run (coq/Gen/CosSkel.v).  What is trusted in place of the hand-written pc
   automaton of Cos.v is (a) the translator's vocabulary table (Python expression text -> IR
   statement) and (b) the statement-by-statement semantics below.

   Conventions (DESIGN.md section 3): an atomic step is ONE visible operation of a thread followed by
   that thread's local (silent) code up to its next visible operation.  Visible: acquisition / release
   of a lock, delegate.submit, add_done_callback, each f.cancel() of the sweep, delegate.shutdown,
   the return / raise of the API call.  Silent: tests, the flag write (made while holding the gate),
   set.add and set.copy (made while holding the executor lock), return / raise unwinding up to the
   next lock release, entry to and exit from an inlined call.

   Locks are RLocks.  A with-block on a lock the thread already holds would be a silent re-entrant
   acquisition; it cannot happen in the generated programs: [wf_prog] (no with-block on a lock nested
   in a with-block on the same lock, inlined calls included) is checked by the translator and again
   by the kernel in Proofs/CosIR_Sim.v.  The semantics therefore only has the non-owner case: the
   lock must be free.

   Definitions only. *)
From Coq Require Import ZArith List Bool Arith.
From ME Require Import Base.Machine Base.Fut Model.Cos.
Import ListNotations.

(* ---- syntax ----------------------------------------------------------------------------------- *)
Inductive cond :=
| CFlag                        (* self.is_shutdown *)
| CRet                         (* truthiness of the value of the inlined call just made *)
| CCancelled                   (* the local `cancel` (result of the last f.cancel()) *)
| CNot (c : cond).

Inductive rexpr := ENone | EBool (b : bool) | EFuture.   (* None / True / False / the local `future` *)

Inductive stmt :=
| SWith (l : lockname) (body : list stmt)      (* with <lock>: body *)
| SIf (c : cond) (th el : list stmt)
| SRaise                                       (* raise <exception>; there is no try/except in the vocabulary *)
| SReturn (v : rexpr)
| SSetFlag                                     (* self.is_shutdown = True *)
| SCall (body : list stmt)                     (* an inlined call; its value lands in the call-value register *)
| SDelegateSubmit                              (* future = self._delegate.submit( *args, **kwargs) *)
| SSetAdd                                      (* self._futures.add(future) *)
| SAddDoneCallbackDiscard                      (* future.add_done_callback(self._futures.discard) *)
| SSnapshot                                    (* futures = self._futures.copy() *)
| SForCancel (body : list stmt)                (* for f in futures: cancel = f.cancel(); body *)
| SDelegateShutdown.                           (* self._delegate.shutdown(wait, **_kwargs) *)

(* continuation items: statements still to run, and the frames opened so far *)
Inductive item :=
| IS (s : stmt)
| KRel (l : lockname)          (* end of a with-block: release *)
| KEndCall                     (* end of an inlined call that falls off its end: value None *)
| KRet (raised : bool).        (* bottom of the API call: return (false) / raise (true) to the caller *)

Inductive value := RNone | RBool (b : bool) | RFut (f : fid).
Definition truthy (v : value) : bool := match v with RNone => false | RBool b => b | RFut _ => true end.

Record locals := mkLv {
  l_fut : option fid;            (* future *)
  l_snap : list fid;             (* futures: what is left of the snapshot *)
  l_ret : value;                 (* value of the last return statement / inlined call *)
  l_cancel : bool;               (* cancel *)
  l_flipped : bool               (* ghost: this call wrote is_shutdown False -> True *)
}.
Definition lv0 : locals := mkLv None [] RNone false false.

Inductive tstate := TIdle | TRun (k : list item) (lv : locals).

Record shared := mkSh {
  igate : option tid; ilk : option tid; iflag : bool;
  itracked : list fid;           (* self._futures; add = cons, discard = remove every occurrence *)
  icreated : nat; ifs : fid -> fstate;
  icancels : fid -> nat;         (* ghost: cancel() calls of the sweep per delegate future *)
  idshut : nat;                  (* ghost: delegate.shutdown() calls *)
  ishut_ret : bool               (* ghost: the shutdown() call that flipped the flag has returned *)
}.

Record ist := mkI { sh : shared; ithr : tid -> tstate }.

Definition sh0 : shared := mkSh None None false [] 0 (fun _ => Pending) (fun _ => 0) 0 false.
Definition iinit : ist := mkI sh0 (fun _ => TIdle).

(* ---- well-formedness: the same lock is never nested ------------------------------------------ *)
Definition lock_eqb (a b : lockname) : bool :=
  match a, b with LG, LG | LX, LX => true | _, _ => false end.

Fixpoint wf_stmts (fuel : nat) (held : list lockname) (p : list stmt) : bool :=
  match fuel with
  | 0 => false
  | S n =>
      forallb (fun s =>
        match s with
        | SWith l body => negb (existsb (lock_eqb l) held) && wf_stmts n (l :: held) body
        | SIf _ th el => wf_stmts n held th && wf_stmts n held el
        | SCall body => wf_stmts n held body
        | SForCancel body => wf_stmts n held body
        | _ => true
        end) p
  end.
Definition wf_prog (p : list stmt) : bool := wf_stmts 64 [] p.

(* ---- silent steps of one thread -------------------------------------------------------------- *)
Fixpoint eval_cond (c : cond) (h : shared) (lv : locals) : bool :=
  match c with
  | CFlag => iflag h
  | CRet => truthy (l_ret lv)
  | CCancelled => l_cancel lv
  | CNot c => negb (eval_cond c h lv)
  end.

Definition eval_rexpr (v : rexpr) (lv : locals) : option value :=
  match v with
  | ENone => Some RNone
  | EBool b => Some (RBool b)
  | EFuture => match l_fut lv with Some f => Some (RFut f) | None => None end
  end.

(* return: leave the enclosing with-blocks (their releases stay to be done, innermost first) up to
   the boundary of the innermost inlined call, or to the bottom of the API call *)
Fixpoint unwind_ret (k : list item) : list item :=
  match k with
  | [] => []
  | KRel l :: r => KRel l :: unwind_ret r
  | KEndCall :: r => r
  | KRet _ :: _ => [KRet false]
  | IS _ :: r => unwind_ret r
  end.
(* raise: nothing catches; leave every with-block, every inlined call, and the API call *)
Fixpoint unwind_raise (k : list item) : list item :=
  match k with
  | [] => []
  | KRel l :: r => KRel l :: unwind_raise r
  | KRet _ :: _ => [KRet true]
  | _ :: r => unwind_raise r
  end.

Definition set_ret (lv : locals) (v : value) : locals :=
  mkLv (l_fut lv) (l_snap lv) v (l_cancel lv) (l_flipped lv).
Definition set_flag (h : shared) : shared :=
  mkSh (igate h) (ilk h) true (itracked h) (icreated h) (ifs h) (icancels h) (idshut h) (ishut_ret h).
Definition set_tracked (h : shared) (l : list fid) : shared :=
  mkSh (igate h) (ilk h) (iflag h) l (icreated h) (ifs h) (icancels h) (idshut h) (ishut_ret h).

(* None: the head of the continuation is a visible operation (or nothing can be done) *)
Definition sstep (h : shared) (k : list item) (lv : locals) : option (shared * list item * locals) :=
  match k with
  | IS (SIf c th el) :: r => Some (h, map IS (if eval_cond c h lv then th else el) ++ r, lv)
  | IS SRaise :: r => Some (h, unwind_raise r, lv)
  | IS (SReturn v) :: r =>
      match eval_rexpr v lv with Some x => Some (h, unwind_ret r, set_ret lv x) | None => None end
  | IS SSetFlag :: r =>
      Some (set_flag h, r,
            mkLv (l_fut lv) (l_snap lv) (l_ret lv) (l_cancel lv) (l_flipped lv || negb (iflag h)))
  | IS (SCall body) :: r => Some (h, map IS body ++ KEndCall :: r, lv)
  | KEndCall :: r => Some (h, r, set_ret lv RNone)
  | IS SSetAdd :: r =>
      match l_fut lv with Some f => Some (set_tracked h (f :: itracked h), r, lv) | None => None end
  | IS SSnapshot :: r =>
      Some (h, r, mkLv (l_fut lv) (itracked h) (l_ret lv) (l_cancel lv) (l_flipped lv))
  | IS (SForCancel _) :: r => match l_snap lv with [] => Some (h, r, lv) | _ :: _ => None end
  | _ => None
  end.

Fixpoint srun (fuel : nat) (h : shared) (k : list item) (lv : locals) : shared * list item * locals :=
  match fuel with
  | 0 => (h, k, lv)
  | S n => match sstep h k lv with Some (h', k', lv') => srun n h' k' lv' | None => (h, k, lv) end
  end.
Definition FUEL := 32.

(* ---- visible steps --------------------------------------------------------------------------- *)
Definition owner (h : shared) (l : lockname) : option tid := match l with LG => igate h | LX => ilk h end.
Definition set_owner (h : shared) (l : lockname) (o : option tid) : shared :=
  match l with
  | LG => mkSh o (ilk h) (iflag h) (itracked h) (icreated h) (ifs h) (icancels h) (idshut h) (ishut_ret h)
  | LX => mkSh (igate h) o (iflag h) (itracked h) (icreated h) (ifs h) (icancels h) (idshut h) (ishut_ret h)
  end.

(* the delegate future f reaches state n; on becoming done its done-callbacks run: set.discard(f)
   (exactly Cos.settle) *)
Definition isettle (h : shared) (f : fid) (n : fstate) : shared :=
  mkSh (igate h) (ilk h) (iflag h)
       (if fdone n && negb (fdone (ifs h f)) then remove_f f (itracked h) else itracked h)
       (icreated h) (upd (ifs h) f n) (icancels h) (idshut h) (ishut_ret h).

(* thread t, whose continuation is k, performs the visible operation e *)
Definition vstep (h : shared) (t : tid) (k : list item) (lv : locals) (e : ev)
  : option (shared * tstate) :=
  match k, e with
  | IS (SWith l body) :: r, Acq _ l' =>
      if lock_eqb l l' && isnone (owner h l)
      then Some (set_owner h l (Some t), TRun (map IS body ++ KRel l :: r) lv) else None
  | KRel l :: r, Rel _ l' =>
      if lock_eqb l l' then Some (set_owner h l None, TRun r lv) else None
  | IS SDelegateSubmit :: r, DSubmit _ f d =>
      if Nat.eqb f (icreated h) then
        Some (mkSh (igate h) (ilk h) (iflag h) (itracked h) (S (icreated h))
                   (upd (ifs h) f (if d then Finished else Pending)) (upd (icancels h) f 0)
                   (idshut h) (ishut_ret h),
              TRun r (mkLv (Some f) (l_snap lv) (l_ret lv) (l_cancel lv) (l_flipped lv)))
      else None
  | IS SAddDoneCallbackDiscard :: r, AddCb _ f pre =>
      match l_fut lv with
      | Some g =>
          if Nat.eqb f g && fstate_eqb pre (ifs h f) then
            (* an already-done future runs the callback (discard) inline *)
            Some (set_tracked h (if fdone pre then remove_f f (itracked h) else itracked h), TRun r lv)
          else None
      | None => None
      end
  | IS (SForCancel body) :: r, Cancel _ f pre =>
      if memb f (l_snap lv) && fstate_eqb pre (ifs h f) then
        let h1 := isettle h f (fst (f_cancel pre)) in
        Some (mkSh (igate h1) (ilk h1) (iflag h1) (itracked h1) (icreated h1) (ifs h1)
                   (upd (icancels h1) f (S (icancels h1 f))) (idshut h1) (ishut_ret h1),
              TRun (map IS body ++ IS (SForCancel body) :: r)
                   (mkLv (l_fut lv) (remove_f f (l_snap lv)) (l_ret lv) (snd (f_cancel pre)) (l_flipped lv)))
      else None
  | IS SDelegateShutdown :: r, DShutdown _ =>
      Some (mkSh (igate h) (ilk h) (iflag h) (itracked h) (icreated h) (ifs h) (icancels h)
                 (S (idshut h)) (ishut_ret h), TRun r lv)
  | KRet raised :: _, Ret _ raised' =>
      if Bool.eqb raised raised' then
        Some (mkSh (igate h) (ilk h) (iflag h) (itracked h) (icreated h) (ifs h) (icancels h)
                   (idshut h) (ishut_ret h || l_flipped lv), TIdle)
      else None
  | _, _ => None
  end.

(* run thread t's silent code up to its next visible operation *)
Definition normalise (h : shared) (thr : tid -> tstate) (t : tid) (ts : tstate) : ist :=
  match ts with
  | TIdle => mkI h (upd thr t TIdle)
  | TRun k lv => match srun FUEL h k lv with (h', k', lv') => mkI h' (upd thr t (TRun k' lv')) end
  end.

Definition thread_of (e : ev) : option tid :=
  match e with
  | Acq t _ | Rel t _ | DSubmit t _ _ | AddCb t _ _ | Cancel t _ _ | DShutdown t | Ret t _ => Some t
  | _ => None
  end.

Section Sem.
  Variables submit_prog shutdown_prog : list stmt.

  Definition call (s : ist) (t : tid) (p : list stmt) : option ist :=
    match ithr s t with
    | TIdle => Some (normalise (sh s) (ithr s) t (TRun (map IS p ++ [KRet false]) lv0))
    | TRun _ _ => None
    end.

  Definition env (s : ist) (f : fid) (pre : fstate) (next : option fstate) : option ist :=
    if (f <? icreated (sh s)) && fstate_eqb pre (ifs (sh s) f) then
      match next with
      | Some n => Some (mkI (isettle (sh s) f n) (ithr s))
      | None => Some s                                   (* the method raises in the environment *)
      end
    else None.

  Definition istep (s : ist) (e : ev) : option ist :=
    match e with
    | CallSubmit t => call s t submit_prog
    | CallShutdown t => call s t shutdown_prog
    | EnvRun f pre => env s f pre (match f_srnc pre with Some (n, _) => Some n | None => None end)
    | EnvFinish f pre => env s f pre (f_set pre)
    | _ =>
        match thread_of e with
        | Some t =>
            match ithr s t with
            | TRun k lv =>
                match vstep (sh s) t k lv e with
                | Some (h', ts') => Some (normalise h' (ithr s) t ts')
                | None => None
                end
            | TIdle => None
            end
        | None => None
        end
    end.
End Sem.

(* verdict for a wire trace (same wire format and verdict codes as Cos.accept) *)
Definition iaccept (sp hp : list stmt) (ls : list (list BinNums.Z)) : list BinNums.Z :=
  match decode_all ls with
  | None => [(-2)%Z]
  | Some es => match first_reject (istep sp hp) iinit es 0 with
               | None => [(-1)%Z]
               | Some i => [BinInt.Z.of_nat i] end
  end.
