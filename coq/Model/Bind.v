(* Executors._customize / bind / flat_bind and CanCustomize.__propagate_name (executors.py, wrap.py,
   bind.py) on an algebra of executor stacks; the facts about the source are regenerated
   (Gen/BindGen.v).  Pure model + proofs. *)
From Coq Require Import List String Bool Arith.
From ME Require Import Base.GenPrelude Gen.BindGen.
Import ListNotations.
Local Open Scope string_scope.

(* one with_* layer: which executor class, with an optional explicit name *)
Record layer := { lclass : string; lname : option string }.
(* an executor = base name + the layers applied so far, outermost LAST, each with its final name *)
Record exec := { ebase : string; elayers : list (string * string) }.
Definition exec_name (e : exec) : string :=
  match rev (elayers e) with (_, n) :: _ => n | [] => ebase e end.

Inductive obj := OExec (e : exec) | OBound (e : exec) (fn : nat).

(* the name a customised object hands to the next layer (None = 'default') *)
Definition carried_name (o : obj) : option string :=
  match o with
  | OExec e => Some (exec_name e)
  | OBound e _ => if bound_callable_exposes_name then Some (exec_name e) else None
  end.
Definition new_name (o : obj) (l : layer) : string :=
  match lname l with Some n => n | None => match carried_name o with Some n => n | None => "default" end end.

(* Executors._customize *)
Definition with_layer (o : obj) (l : layer) : obj :=
  match o with
  | OExec e => OExec {| ebase := ebase e; elayers := elayers e ++ [(lclass l, new_name o l)] |}
  | OBound e fn => OBound {| ebase := ebase e; elayers := elayers e ++ [(lclass l, new_name o l)] |} fn
  end.
Definition chain (o : obj) (ls : list layer) : obj := fold_left with_layer ls o.
Definition bind (e : exec) (fn : nat) : obj := OBound e fn.
Definition identity_fn : nat := 0.
Definition flat_bind (e : exec) (fn : nat) : obj :=
  with_layer (bind e fn) {| lclass := "FlatMapExecutor"; lname := None |}.

(* calling a bound callable = submitting its function to its executor *)
Definition call_target (o : obj) : option (exec * nat) :=
  match o with OBound e fn => Some (e, fn) | OExec _ => None end.
Definition the_exec (o : obj) : exec := match o with OExec e => e | OBound e _ => e end.

Lemma chain_bound e fn ls : exists e', chain (OBound e fn) ls = OBound e' fn.
Proof. revert e. induction ls as [|l r IH]; intros e; simpl; eauto. Qed.

(* a callable produced by executor.bind(fn) followed by any chain of with_* calls submits fn to
   exactly the executor obtained by applying the same chain to the executor: same stack, same names
   (given that the bound callable carries the executor's name) *)
Theorem bind_chain_equiv e fn ls : bound_callable_exposes_name = true ->
  call_target (chain (bind e fn) ls) = Some (the_exec (chain (OExec e) ls), fn).
Proof.
  intros Hn. unfold bind. revert e. induction ls as [|l r IH]; intros e; [reflexivity|].
  simpl. unfold new_name, carried_name. rewrite Hn. apply IH.
Qed.

Theorem flat_bind_is_bind_flat_map e fn :
  flat_bind e fn = chain (bind e fn) [{| lclass := "FlatMapExecutor"; lname := None |}].
Proof. reflexivity. Qed.

(* a name given to the base executor is inherited by every layer created by chaining without an
   explicit name -- before and after bind *)
Definition all_named (e : exec) : Prop := Forall (fun cn => snd cn = ebase e) (elayers e).

Lemma all_named_exec_name e : all_named e -> exec_name e = ebase e.
Proof.
  unfold all_named, exec_name. intros H. destruct (rev (elayers e)) as [|[c n] r] eqn:E; [reflexivity|].
  assert (In (c, n) (elayers e)) by (apply in_rev; rewrite E; left; reflexivity).
  rewrite Forall_forall in H. apply (H (c, n)); assumption.
Qed.

Lemma with_layer_all_named o l : lname l = None -> carried_name o = Some (exec_name (the_exec o)) ->
  all_named (the_exec o) -> all_named (the_exec (with_layer o l)) /\ ebase (the_exec (with_layer o l)) = ebase (the_exec o).
Proof.
  intros Hl Hc Hn. pose proof (all_named_exec_name _ Hn) as En.
  assert (Nn : new_name o l = ebase (the_exec o)) by (unfold new_name; rewrite Hl, Hc; exact En).
  destruct o as [e|e fn]; cbn [with_layer the_exec] in *; unfold all_named; cbn [elayers ebase]; split; auto;
    apply Forall_app; split; auto; constructor; auto.
Qed.

Lemma chain_all_named ls : forall o, Forall (fun l => lname l = None) ls ->
  (forall o', carried_name o' = Some (exec_name (the_exec o'))) ->
  all_named (the_exec o) -> all_named (the_exec (chain o ls)) /\ ebase (the_exec (chain o ls)) = ebase (the_exec o).
Proof.
  induction ls as [|l r IH]; intros o H Hc Hn; [split; auto|].
  inversion H as [|? ? Hl Hr]; subst. simpl.
  destruct (with_layer_all_named o l Hl (Hc o) Hn) as (A & B).
  destruct (IH (with_layer o l) Hr Hc A) as (C & D). split; auto. congruence.
Qed.

Theorem name_inherited base fn ls1 ls2 : bound_callable_exposes_name = true ->
  Forall (fun l => lname l = None) ls1 -> Forall (fun l => lname l = None) ls2 ->
  let e1 := the_exec (chain (OExec {| ebase := base; elayers := [] |}) ls1) in
  Forall (fun cn => snd cn = base) (elayers (the_exec (chain (bind e1 fn) ls2))).
Proof.
  intros Hb H1 H2 e1.
  assert (Hc : forall o', carried_name o' = Some (exec_name (the_exec o'))).
  { intros [e|e f]; unfold carried_name; [reflexivity|rewrite Hb; reflexivity]. }
  destruct (chain_all_named ls1 (OExec {| ebase := base; elayers := [] |}) H1 Hc) as (A & B); [constructor|].
  destruct (chain_all_named ls2 (bind e1 fn) H2 Hc) as (C & D); [exact A|].
  unfold all_named in C. simpl in D, B. fold e1 in B. rewrite D, B in C. exact C.
Qed.

(* the facts about the source the statements above rest on *)
Definition all_with_methods_propagate : bool := forallb (fun e => snd e) propagating_methods.
Definition seven_layers_customize : bool :=
  forallb (fun n => existsb (fun e => String.eqb (fst e) n) with_table)
          ["with_retry"; "with_map"; "with_flat_map"; "with_poll"; "with_timeout"; "with_throttle"; "with_cancel_on_shutdown"].

(* ---- BoundCallable.__init__ as attribute dictionaries ---------------------------------------------
   update_wrapper(self, fn) copies fn.__dict__ onto self (dict.update); the private attributes
   _BoundCallable__executor / _BoundCallable__fn are plain entries of the same dictionary.  Whether they
   are written before or after the copy is a fact about the source (Gen/BindGen.v). *)
Definition attrs := list (string * nat).
Fixpoint lookup (d : attrs) (k : string) : option nat :=
  match d with [] => None | (k', v) :: r => if String.eqb k k' then Some v else lookup r k end.
Definition set_attr (d : attrs) (k : string) (v : nat) : attrs := (k, v) :: d.
(* dict.update: entries of src override *)
Definition update (d src : attrs) : attrs := (src ++ d)%list.
Definition k_exec : string := "_BoundCallable__executor".
Definition k_fn : string := "_BoundCallable__fn".
Definition construct (after : bool) (e fn : nat) (fn_dict : attrs) : attrs :=
  if after then set_attr (set_attr (update [] fn_dict) k_exec e) k_fn fn
  else update (set_attr (set_attr [] k_exec e) k_fn fn) fn_dict.
(* what calling the object does: submit <its fn attribute> to <its executor attribute> *)
Definition call_attrs (d : attrs) : option (nat * nat) :=
  match lookup d k_exec, lookup d k_fn with Some e, Some f => Some (e, f) | _, _ => None end.

Lemma lookup_app d1 d2 k : lookup (d1 ++ d2)%list k = match lookup d1 k with Some v => Some v | None => lookup d2 k end.
Proof. induction d1 as [|[k' v] r IH]; simpl; [reflexivity|]. destruct (String.eqb k k'); auto. Qed.

(* with the private attributes written after the copy, the callable submits ITS function to ITS executor
   whatever attributes the wrapped callable carries - in particular when it is itself a bound callable *)
Theorem construct_after_own_target e fn fn_dict : call_attrs (construct true e fn fn_dict) = Some (e, fn).
Proof. reflexivity. Qed.
(* written before the copy, a wrapped callable that is itself bound (to e', fn') takes over *)
Theorem construct_before_clobbered e fn e' fn' :
  call_attrs (construct false e fn (construct false e' fn' [])) = Some (e', fn').
Proof. reflexivity. Qed.
Theorem nested_bind_own_target e fn e' fn' :
  private_attrs_after_wrapper = true ->
  call_attrs (construct private_attrs_after_wrapper e fn (construct private_attrs_after_wrapper e' fn' [])) = Some (e, fn).
Proof. intros ->. reflexivity. Qed.
