(* The wake-up protocol shared by the retry / poll / throttle / timeout worker loops (and event.py):
   producers "mutate state, then set the event"; the worker "scans; if nothing to do waits; clears;
   rescans".  Any number of producers, any interleaving.  Model + proof (C03: no lost wake-up).

   The machine is the most general form of the protocol that the real loops use (Model/LoopIR.v runs the
   loops and producer sites REGENERATED from the source, Gen/LoopSkel.v, and Proofs/LoopIR_Sim.v proves
   that each of their traces is a trace of this machine):
     - a producer may mutate several times before its set(), and may set() without a mutation of its own
       (PollExecutor.notify, a completion callback whose mutation was made by its caller);
     - the worker may scan again before it waits (an iteration that found something to do and `continue`s);
     - a wait may end without a set(): the timed waits of the loops (WorkerTimeout).  The theorems do not
       use the timer: they hold in every reachable state, whether or not a timer ever fires. *)
From Coq Require Import List Bool Arith Lia.
From ME Require Import Base.Machine.
Import ListNotations.

Inductive wpc := WScan | WWait | WBlocked (notified : bool) | WClear.
Inductive ppc := PIdle | PMutated.

Inductive ev :=
| ProdMutate (t : nat)     (* a producer changes the shared state (new job, completion, notify ...) *)
| ProdSet (t : nat)        (* ... and then sets the event *)
| WorkerScan               (* the worker looks at the shared state under its lock and handles what it finds *)
| WorkerWait               (* event.wait(): returns at once if the flag is set, else blocks *)
| WorkerWoke               (* a blocked worker that was notified resumes *)
| WorkerClear              (* event.clear(), then back to the scan *)
| WorkerTimeout.           (* a blocked worker resumes because its (timed) wait expired *)

Record st := { work : nat; flag : bool; wp : wpc; prod : nat -> ppc }.
Definition init : st := {| work := 0; flag := false; wp := WScan; prod := fun _ => PIdle |}.

Definition step (s : st) (e : ev) : option st :=
  match e with
  | ProdMutate t => Some {| work := S (work s); flag := flag s; wp := wp s; prod := upd (prod s) t PMutated |}
  | ProdSet t => Some {| work := work s; flag := true;
                         wp := match wp s with WBlocked _ => WBlocked true | p => p end;
                         prod := upd (prod s) t PIdle |}
  | WorkerScan => match wp s with
                  | WScan | WWait => Some {| work := 0; flag := flag s; wp := WWait; prod := prod s |}
                  | _ => None end
  | WorkerWait => match wp s with
                  | WWait => Some {| work := work s; flag := flag s; wp := if flag s then WClear else WBlocked false; prod := prod s |}
                  | _ => None end
  | WorkerWoke => match wp s with WBlocked true => Some {| work := work s; flag := flag s; wp := WClear; prod := prod s |} | _ => None end
  | WorkerClear => match wp s with WClear => Some {| work := work s; flag := false; wp := WScan; prod := prod s |} | _ => None end
  | WorkerTimeout => match wp s with WBlocked _ => Some {| work := work s; flag := flag s; wp := WClear; prod := prod s |} | _ => None end
  end.

Definition on_the_way (p : wpc) : bool := match p with WScan | WClear | WBlocked true => true | _ => false end.

Record Inv (s : st) : Prop := {
  i_work : work s > 0 -> flag s = true \/ (exists t, prod s t = PMutated) \/ on_the_way (wp s) = true;
  i_blocked : wp s = WBlocked false -> flag s = false
}.

Lemma inv_init : Inv init.
Proof. constructor; simpl; [lia|discriminate]. Qed.

Lemma inv_step s e s' : Inv s -> step s e = Some s' -> Inv s'.
Proof.
  intros [Iw Ib] H. destruct e as [t|t| | | | |]; simpl in H.
  - inversion H; subst; clear H. constructor; simpl; auto.
    intros _. right; left. exists t. apply upd_same.
  - inversion H; subst; clear H. constructor; simpl; auto.
    destruct (wp s); discriminate.
  - destruct (wp s) eqn:E; try discriminate; inversion H; subst; clear H; constructor; simpl; solve [lia|discriminate].
  - destruct (wp s) eqn:E; try discriminate. inversion H; subst; clear H. constructor; simpl.
    + intros W. destruct (Iw W) as [F|[P|O]]; [rewrite F; auto| |simpl in O; discriminate].
      destruct (flag s); auto.
    + destruct (flag s); [discriminate|auto].
  - destruct (wp s) as [| |[|]|] eqn:E; try discriminate. inversion H; subst; clear H. constructor; simpl; auto; try discriminate.
  - destruct (wp s) eqn:E; try discriminate. inversion H; subst; clear H. constructor; simpl; auto; try discriminate.
  - destruct (wp s) eqn:E; try discriminate. inversion H; subst; clear H. constructor; simpl; auto; try discriminate.
Qed.

Theorem reachable_inv s : reachable_from step init s -> Inv s.
Proof. apply invariant_rule; [apply inv_init|intros; eapply inv_step; eauto]. Qed.

(* no lost wake-up: a worker that is blocked in wait() with unseen work has been notified, or some
   producer is between its mutation and its set() -- so when every producer has finished its call
   and the worker sleeps un-notified, there is no unseen work (no dependence on a fallback timer) *)
Theorem no_lost_wakeup s : reachable_from step init s -> wp s = WBlocked false -> work s > 0 ->
  exists t, prod s t = PMutated.
Proof.
  intros R B W. destruct (reachable_inv s R) as [Iw Ib].
  destruct (Iw W) as [F|[P|O]]; auto.
  - rewrite (Ib B) in F. discriminate.
  - rewrite B in O. discriminate.
Qed.

Corollary quiescent_no_unseen_work s : reachable_from step init s ->
  wp s = WBlocked false -> (forall t, prod s t = PIdle) -> work s = 0.
Proof.
  intros R B Q. destruct (Nat.eq_dec (work s) 0) as [|N]; auto.
  destruct (no_lost_wakeup s R B) as [t Ht]; [lia|]. rewrite Q in Ht. discriminate.
Qed.

(* the protocol is tight: if the worker cleared BEFORE waiting ("clear; wait") a set() landing between
   the scan and the clear would be lost -- witness for the reversed loop *)
Definition step_reversed (s : st) (e : ev) : option st :=
  match e with
  | WorkerWait => match wp s with WClear => Some {| work := work s; flag := flag s; wp := if flag s then WScan else WBlocked false; prod := prod s |} | _ => None end
  | WorkerClear => match wp s with WWait => Some {| work := work s; flag := false; wp := WClear; prod := prod s |} | _ => None end
  | WorkerWoke => match wp s with WBlocked true => Some {| work := work s; flag := flag s; wp := WScan; prod := prod s |} | _ => None end
  | _ => step s e
  end.
Theorem reversed_loop_loses_wakeup :
  exists s, reachable_from step_reversed init s /\ wp s = WBlocked false /\ work s = 1 /\ forall t, prod s t = PIdle.
Proof.
  eexists. split; [exists [WorkerScan; ProdMutate 0; ProdSet 0; WorkerClear; WorkerWait]; reflexivity|].
  repeat split. intros t. simpl. unfold upd. destruct (Nat.eqb t 0); reflexivity.
Qed.
