(* PollExecutor / PollFuture / PollDescriptor (poll.py) + the _Future protocol (common.py) as a trace
   acceptor over the visible operations logged by the harness.  One event = one visible operation of
   one thread (an X-section without inner visible operation is one event).  Threads carry programs;
   callbacks run inline by prepending their programs.  Thread 0 is the poll thread; its position in
   _poll_loop (snapshot / call / inside the poll function / rest + wait / blocked / clear) is the field
   [pmode], the operations of the yield (or of failing the snapshot) in progress are its program.
   Ghost fields (veto, owed, tok, hist) never influence which events are accepted (cancelling only names
   the future in HCancelRet).  Poll future j is built on delegate future j (both are created under the gate).
   Environment: the delegate executor and the completion or cancellation (EEnvCancel) of its futures, the poll function (which
   descriptors it yields for, what it returns / raises), the cancel function, the clock.
   Racy unlocked reads (PollFuture._delegate, PollExecutor._poll_descriptors in _run_cancel_fn) are
   evaluated at the moment the preceding visible operation of that thread took effect ([norm]).
   Definitions only. *)
From Coq Require Import ZArith List Bool Arith.
From RecordUpdate Require Import RecordSet.
From ME Require Import Base.Machine Base.Fut Base.GenPrelude.
Import ListNotations RecordSetNotations.

Inductive outcome := Ok (v : nat) | Err (e : nat).

Inductive instr :=
| IGAcq | IGRel                     (* shutdown gate held across submit *)
| IDSubmit                          (* delegate.submit + PollFuture.__init__ up to the first visible op;
                                       __init__: own add_done_callback(_clear_executor) FIRST, then the delegate's *)
| IAddCbD (j : nat)                 (* delegate.add_done_callback(self._delegate_resolved) *)
| IDoneA (j : nat)                  (* self.add_done_callback(_clear_executor): self.done() under M *)
| IRet                              (* API call returns normally *)
| IRetSubmit (j : nat)              (* submit() returns future j *)
| IRetEnv (d : nat)                 (* the environment's completing call on delegate d returns *)
| IRetB (b : bool)                  (* cancel() returns b *)
| IAcqM (j : nat)
| IAcqMClr (j : nat)                (* _clear_delegate: with M: self._delegate = None *)
| IRelM (j : nat)
| IRelMCbs (j : nat)                (* release M_j, then _me_invoke_callbacks *)
| ICancelled (j : nat)              (* cancel(): self.cancelled() *)
| IDoneC (j : nat)                  (* cancel(): self.done(), then _me_cancel reads self._delegate *)
| IDCancel (j : nat)                (* self._delegate.cancel() *)
| ICancelFnQ (j : nat)              (* silent: executor = self._executor; _run_cancel_fn's unlocked scan *)
| IUserCancelFn (j v : nat)         (* self._cancel_fn(descriptor.result) *)
| IFCancel (j : nat)                (* super().cancel() *)
| IFSrnc (j : nat)                  (* set_running_or_notify_cancel() *)
| IDCancelledQ (j : nat)            (* _delegate_resolved: delegate.cancelled() *)
| IXAcqReg (j v : nat)              (* _register_poll: take X, append (future, descriptor(v)) *)
| IXRel
| IEvSet
| IXDereg (j : nat)                 (* _clear_executor: _deregister_poll X-section; self._executor = None *)
| IDoneS (j v : nat)                (* set_result: self.done() under M *)
| IDoneX (j e : nat)                (* set_exception_info: self.done() under M *)
| IFSetRes (j v : nat)              (* stdlib set_result under M; then leave M and run the callbacks,
                                       or (InvalidStateError, tolerated) just leave M *)
| IFSetExc (j e : nat).             (* set_exception: stdlib set_exception under M *)

(* position of the poll thread in _poll_loop / _run_poll_fn *)
Inductive pm :=
| PTop                              (* about to take the descriptor snapshot *)
| PCall (l : list (nat * nat))      (* snapshot taken, poll function not yet entered *)
| PBody (l : list (nat * nat))      (* inside the user's poll function *)
| PRest (tau : Z)                    (* after the poll function (the program fails the snapshot when it raised);
                                       then poll_event.wait(tau) *)
| PBlocked                          (* blocked inside wait *)
| PClear.                           (* wait returned; about to clear the event *)

(* ghost history, newest first; the last component is the virtual time *)
Inductive hev :=
| HSubmitRet (j : nat) (ts : Z)
| HDDone (d : nat) (o : outcome) (ts : Z)        (* delegate d got its outcome *)
| HDRet (d : nat) (ts : Z)                       (* the completing call (with its callbacks) returned *)
| HReg (j v : nat) (ts : Z)                      (* (j, descriptor(v)) appended *)
| HDereg (j : nat) (ts : Z)
| HSnap (l : list (nat * nat)) (ts : Z)
| HPoll (t : nat) (l : list (nat * nat)) (ts : Z)   (* poll function entered, by thread t *)
| HYield (j : nat) (o : outcome) (ts : Z)
| HPollRet (ts : Z)
| HPollRaise (e : nat) (l : list (nat * nat)) (ts : Z)
| HSet (j : nat) (o : outcome) (ts : Z)          (* the poll future got this outcome *)
| HSetLost (j : nat) (ts : Z)                    (* tolerated InvalidStateError *)
| HCancelled (j : nat) (ts : Z)
| HCancelCall (t j : nat) (ts : Z)
| HCancelFn (t j v : nat) (ans : nat) (ts : Z)   (* 0 falsy, 1 truthy, 2 raised *)
| HCancelRet (t j : nat) (b : bool) (ts : Z)
| HEvSet (t : nat) (ts : Z)
| HWoke (kind : nat) (ts : Z).

Record st := mkSt {
  cfgd : bool; hascfn : bool; dflt : Z;     (* constructor arguments: cancel_fn given?, default_interval *)
  nfut : nat;
  ps : nat -> fstate; pout : nat -> option outcome;
  pdel : nat -> bool;                       (* PollFuture._delegate is not None *)
  pexec : nat -> bool;                      (* PollFuture._executor is not None *)
  pcb : nat -> bool;                        (* _clear_executor is in _me_done_callbacks *)
  ds : nat -> fstate; dout : nat -> option outcome;
  dcb : nat -> bool;                        (* _delegate_resolved registered on delegate d *)
  descs : list (nat * nat);                 (* _poll_descriptors: (future, descriptor.result) *)
  mown : nat -> option nat;
  xown : option nat;
  gown : option nat;
  evf : bool;                               (* _poll_event flag *)
  wblock : option (Z * Z);                  (* poll thread blocked in wait: (timeout, since) *)
  wnotif : bool;                            (* a set() arrived while it was blocked *)
  pmode : pm;
  thr : nat -> list instr;
  cancelling : nat -> option nat;           (* ghost: future whose cancel() thread t is inside *)
  veto : nat -> bool;                       (* ghost: the cancel function vetoed thread t's cancel() *)
  owed : option Z;                          (* ghost: time of the oldest set() not yet followed by a snapshot *)
  tok : nat -> option nat;                  (* ghost: thread whose program holds the pending _delegate_resolved /
                                               _register_poll of future j (None: not attached yet, parked in the
                                               delegate's callback list, or over) *)
  clock : Z;
  hist : list hev
}.
#[export] Instance eta_st : Settable _ := settable! mkSt
  <cfgd; hascfn; dflt; nfut; ps; pout; pdel; pexec; pcb; ds; dout; dcb; descs; mown; xown; gown; evf;
   wblock; wnotif; pmode; thr; cancelling; veto; owed; tok; clock; hist>.

Definition init : st :=
  mkSt false false 0 0 (fun _ => Pending) (fun _ => None) (fun _ => false) (fun _ => false) (fun _ => false)
       (fun _ => Pending) (fun _ => None) (fun _ => false) [] (fun _ => None) None None false None false
       PTop (fun _ => []) (fun _ => None) (fun _ => false) None (fun _ => None) 0 [].

Definition poller : nat := 0.

Definition log (s : st) (h : hev) : st := s <| hist := h :: hist s |>.
Definition lookup (j : nat) (l : list (nat * nat)) : option nat :=
  match find (fun p => Nat.eqb (fst p) j) l with Some p => Some (snd p) | None => None end.
Definition remove_fut (j : nat) (l : list (nat * nat)) := filter (fun p => negb (Nat.eqb (fst p) j)) l.

(* the rest of cancel() once _me_cancel() was truthy / falsy *)
Definition cancel_ok (j : nat) : list instr := [IFCancel j; IFSrnc j; IRelMCbs j; IRetB true].
Definition cancel_no (j : nat) : list instr := [IRelM j; IRetB false].

(* _me_cancel after the delegate step: executor = self._executor; executor and executor._run_cancel_fn(self) *)
Definition cancel_cont (s : st) (j : nat) : list instr :=
  if negb (pexec s j) then cancel_no j else
  if negb (hascfn s) then cancel_ok j else
  match lookup j (descs s) with
  | Some v => [IUserCancelFn j v]
  | None => cancel_ok j
  end.

(* silent steps at the head of a program *)
Definition norm (s : st) (p : list instr) : list instr :=
  match p with
  | ICancelFnQ j :: r => cancel_cont s j ++ r
  | _ => p
  end.

Definition set_prog (s : st) (t : nat) (p : list instr) : st := s <| thr := upd (thr s) t (norm s p) |>.

(* PollFuture.set_result via try_set_result; set_exception_info then set_exception via copy_exception *)
Definition res_prog (j v : nat) : list instr := [IAcqM j; IDoneS j v].
Definition exc_prog (j e : nat) : list instr := [IAcqM j; IDoneX j e].
Definition yield_prog (j : nat) (o : outcome) : list instr :=
  match o with Ok v => res_prog j v | Err e => exc_prog j e end.

(* PollFuture._delegate_resolved as a done-callback of delegate j *)
Definition resolved_prog (j : nat) : list instr := [IDCancelledQ j].
Definition register_prog (j v : nat) : list instr := [IXAcqReg j v; IAcqMClr j; IRelM j; IEvSet; IXRel].

(* virtual time: it advances only while the poll thread is blocked and not notified *)
Definition tick (s : st) (ts : Z) : option st :=
  if Z.eqb ts (clock s) then Some s else
  if Z.ltb (clock s) ts && issome (wblock s) && negb (wnotif s) then Some (s <| clock := ts |>) else None.

Inductive ev :=
| EConfig (c : bool) (d : Z)
| ECallSubmit (t : nat)
| ECallCancel (t j : nat)
| ECallNotify (t : nat)
| EGAcq (t : nat) | EGRel (t : nat)
| EDSubmit (t d : nat) (inline : option outcome)
| EXSec (t : nat)                         (* acq X; body; rel X with no inner visible operation *)
| EXAcq (t : nat) | EXRel (t : nat)
| EEvSet (t : nat)
| ERet (t : nat) (code : nat)             (* 0 normal, 1 False, 2 True *)
| EAcqM (t j : nat) | ERelM (t j : nat)
| EFP (t op j : nat) (pre : fstate)       (* stdlib method on poll future j: 0 cancelled 1 done 2 cancel
                                             3 set_running_or_notify_cancel 4 set_result 6 set_exception *)
| EFD (t op d : nat) (pre : fstate)       (* on delegate d by library code: 0 cancelled 2 cancel 5 add_done_callback *)
| EPoll (t : nat) (l : list nat)          (* the poll function is entered with descriptors carrying l *)
| EYield (t j : nat) (o : outcome)        (* it calls yield_result / yield_exception on j's descriptor *)
| EPollRet (t : nat) (r : option Z)       (* it returns: Some z = an int/float, None = anything else *)
| EPollRaise (t e : nat)
| ECancelFn (t v ans : nat)               (* cancel function called with v; 0 falsy 1 truthy 2 raises *)
| EWWait (r : nat)                        (* 0 flag already set, 1 blocks *)
| EWWoke (kind : nat)                     (* 0 notified, 1 timeout *)
| EWClear
| EEnvRun (t d : nat) (pre : fstate)
| EEnvFinish (t d : nat) (pre : fstate) (o : outcome)
| EEnvCancel (t d : nat) (pre : fstate).  (* someone else (the environment) calls cancel() on delegate d; on the
                                             Pending -> Cancelled transition the done-callbacks run inline in t:
                                             PollFuture._delegate_resolved, which returns silently *)

Fixpoint nats_eqb (a b : list nat) : bool :=
  match a, b with
  | [], [] => true
  | x :: a', y :: b' => Nat.eqb x y && nats_eqb a' b'
  | _, _ => false
  end.

Definition client (s : st) (t : nat) : bool := negb (Nat.eqb t poller) && isnil (thr s t).

Definition step1 (s : st) (e : ev) : option st :=
  let ts := clock s in
  match e with
  | EConfig _ _ => None
  | ECallSubmit t => if client s t then Some (set_prog s t [IGAcq; IDSubmit]) else None
  | ECallCancel t j =>
      if client s t && (j <? nfut s) then
        Some (log (set_prog (s <| cancelling := upd (cancelling s) t (Some j) |> <| veto := upd (veto s) t false |>)
                            t [IAcqM j; ICancelled j]) (HCancelCall t j ts))
      else None
  | ECallNotify t => if client s t then Some (set_prog s t [IEvSet; IRet]) else None
  | EGAcq t =>
      match thr s t, gown s with
      | IGAcq :: rest, None => Some (set_prog (s <| gown := Some t |>) t rest)
      | _, _ => None
      end
  | EGRel t =>
      match thr s t, gown s with
      | IGRel :: rest, Some t' => if Nat.eqb t t' then Some (set_prog (s <| gown := None |>) t rest) else None
      | _, _ => None
      end
  | EDSubmit t d inline =>
      match thr s t with
      | IDSubmit :: rest =>
          if negb (Nat.eqb d (nfut s)) then None else
          let s1 := s <| nfut := S d |>
                      <| pdel := upd (pdel s) d true |> <| pexec := upd (pexec s) d true |> <| pcb := upd (pcb s) d false |>
                      <| ds := upd (ds s) d (if issome inline then Finished else Pending) |>
                      <| dout := upd (dout s) d inline |> <| dcb := upd (dcb s) d false |>
                      <| tok := upd (tok s) d (Some t) |> in
          let s2 := match inline with
                    | Some o => s1 <| hist := HDRet d ts :: HDDone d o ts :: hist s1 |>
                    | None => s1
                    end in
          Some (set_prog s2 t ([IAcqM d; IDoneA d; IAddCbD d; IGRel; IRetSubmit d] ++ rest))
      | _ => None
      end
  | EXSec t =>
      if issome (xown s) then None else
      match thr s t with
      | [] =>
          if negb (Nat.eqb t poller) then None else
          match pmode s with
          | PTop => Some (log (s <| pmode := PCall (descs s) |> <| owed := None |>) (HSnap (descs s) ts))
          | _ => None
          end
      | IXDereg j :: rest =>
          Some (log (set_prog (s <| descs := remove_fut j (descs s) |> <| pexec := upd (pexec s) j false |>) t rest)
                    (HDereg j ts))
      | _ => None
      end
  | EXAcq t =>
      if issome (xown s) then None else
      match thr s t with
      | IXAcqReg j v :: rest =>
          Some (log (set_prog (s <| xown := Some t |> <| descs := descs s ++ [(j, v)] |> <| tok := upd (tok s) j None |>) t rest) (HReg j v ts))
      | _ => None
      end
  | EXRel t =>
      match thr s t, xown s with
      | IXRel :: rest, Some t' => if Nat.eqb t t' then Some (set_prog (s <| xown := None |>) t rest) else None
      | _, _ => None
      end
  | EEvSet t =>
      match thr s t with
      | IEvSet :: rest =>
          Some (log (set_prog (s <| evf := true |> <| wnotif := issome (wblock s) || wnotif s |>
                                 <| owed := match owed s with None => Some ts | x => x end |>) t rest) (HEvSet t ts))
      | _ => None
      end
  | ERet t code =>
      match thr s t with
      | IRet :: rest => if Nat.eqb code 0 then Some (set_prog s t rest) else None
      | IRetSubmit j :: rest => if Nat.eqb code 0 then Some (log (set_prog s t rest) (HSubmitRet j ts)) else None
      | IRetEnv d :: rest => if Nat.eqb code 0 then Some (log (set_prog s t rest) (HDRet d ts)) else None
      | IRetB b :: rest =>
          if Nat.eqb code (if b then 2 else 1) then
            match cancelling s t with
            | Some j => Some (log (set_prog (s <| cancelling := upd (cancelling s) t None |> <| veto := upd (veto s) t false |>) t rest)
                                  (HCancelRet t j b ts))
            | None => None
            end
          else None
      | _ => None
      end
  | EAcqM t j =>
      match thr s t, mown s j with
      | IAcqM j' :: rest, None =>
          if Nat.eqb j j' then Some (set_prog (s <| mown := upd (mown s) j (Some t) |>) t rest) else None
      | IAcqMClr j' :: rest, None =>
          if Nat.eqb j j' then Some (set_prog (s <| mown := upd (mown s) j (Some t) |> <| pdel := upd (pdel s) j false |>) t rest)
          else None
      | _, _ => None
      end
  | ERelM t j =>
      match thr s t, mown s j with
      | IRelM j' :: rest, Some t' =>
          if Nat.eqb j j' && Nat.eqb t t' then Some (set_prog (s <| mown := upd (mown s) j None |>) t rest) else None
      | IRelMCbs j' :: rest, Some t' =>
          if Nat.eqb j j' && Nat.eqb t t' then
            Some (set_prog (s <| mown := upd (mown s) j None |> <| pcb := upd (pcb s) j false |>) t
                           ((if pcb s j then [IXDereg j] else []) ++ rest))
          else None
      | _, _ => None
      end
  | _ => None
  end.

Definition step2 (s : st) (e : ev) : option st :=
  let ts := clock s in
  match e with
  | EFP t op j pre =>
      if negb (fstate_eqb pre (ps s j)) then None else
      match thr s t, op with
      | ICancelled j' :: rest, 0 =>
          if negb (Nat.eqb j j') then None else
          if fcancelled pre then Some (set_prog s t (IRelM j :: IRetB true :: rest)) else Some (set_prog s t (IDoneC j :: rest))
      | IDoneC j' :: rest, 1 =>
          if negb (Nat.eqb j j') then None else
          if fdone pre then Some (set_prog s t (cancel_no j ++ rest)) else
          if pdel s j then Some (set_prog s t (IDCancel j :: rest)) else Some (set_prog s t (ICancelFnQ j :: rest))
      | IDoneA j' :: rest, 1 =>
          if negb (Nat.eqb j j') then None else
          if fdone pre then Some (set_prog s t (IRelM j :: IXDereg j :: rest))
          else Some (set_prog (s <| pcb := upd (pcb s) j true |>) t (IRelM j :: rest))
      | IDoneS j' v :: rest, 1 =>
          if negb (Nat.eqb j j') then None else
          if fdone pre then Some (set_prog s t (IRelM j :: rest)) else Some (set_prog s t (IFSetRes j v :: rest))
      | IDoneX j' e :: rest, 1 =>
          if negb (Nat.eqb j j') then None else
          if fdone pre then Some (set_prog s t (IRelM j :: rest))
          else Some (set_prog s t (IRelM j :: IAcqM j :: IFSetExc j e :: rest))
      | IFSetRes j' v :: rest, 4 =>
          if negb (Nat.eqb j j') then None else
          match f_set pre with
          | Some n => Some (log (set_prog (s <| ps := upd (ps s) j n |> <| pout := upd (pout s) j (Some (Ok v)) |>) t (IRelMCbs j :: rest)) (HSet j (Ok v) ts))
          | None => Some (log (set_prog s t (IRelM j :: rest)) (HSetLost j ts))
          end
      | IFSetExc j' e :: rest, 6 =>
          if negb (Nat.eqb j j') then None else
          match f_set pre with
          | Some n => Some (log (set_prog (s <| ps := upd (ps s) j n |> <| pout := upd (pout s) j (Some (Err e)) |>) t (IRelMCbs j :: rest)) (HSet j (Err e) ts))
          | None => Some (log (set_prog s t (IRelM j :: rest)) (HSetLost j ts))
          end
      | IFCancel j' :: rest, 2 =>
          if negb (Nat.eqb j j') then None else
          let '(n, b) := f_cancel pre in
          if b then Some (log (set_prog (s <| ps := upd (ps s) j n |>) t rest) (HCancelled j ts)) else None
      | IFSrnc j' :: rest, 3 =>
          if negb (Nat.eqb j j') then None else
          match f_srnc pre with Some (n, _) => Some (set_prog (s <| ps := upd (ps s) j n |>) t rest) | None => None end
      | _, _ => None
      end
  | EFD t op d pre =>
      if negb (fstate_eqb pre (ds s d)) then None else
      match thr s t, op with
      | IAddCbD d' :: rest, 5 =>
          if negb (Nat.eqb d d') then None else
          if fdone pre then Some (set_prog s t (resolved_prog d ++ rest))
          else Some (set_prog (s <| dcb := upd (dcb s) d true |> <| tok := upd (tok s) d None |>) t rest)
      | IDCancelledQ d' :: rest, 0 =>
          if negb (Nat.eqb d d') then None else
          if fcancelled pre then Some (set_prog (s <| tok := upd (tok s) d None |>) t rest) else
          match dout s d with
          | Some (Ok v) => Some (set_prog s t (register_prog d v ++ rest))
          | Some (Err e) => Some (set_prog (s <| tok := upd (tok s) d None |>) t (exc_prog d e ++ rest))
          | None => None
          end
      | IDCancel d' :: rest, 2 =>
          if negb (Nat.eqb d d') then None else
          let '(n, b) := f_cancel pre in
          let s1 := s <| ds := upd (ds s) d n |> in
          if b then
            if f_cancel_fires pre && dcb s d
            then Some (set_prog (s1 <| dcb := upd (dcb s) d false |> <| tok := upd (tok s) d (Some t) |>) t (resolved_prog d ++ ICancelFnQ d :: rest))
            else Some (set_prog s1 t (ICancelFnQ d :: rest))
          else Some (set_prog s1 t (cancel_no d ++ rest))
      | _, _ => None
      end
  | EPoll t l =>
      match thr s t, pmode s with
      | [], PCall sn =>
          if Nat.eqb t poller && nats_eqb l (map snd sn)
          then Some (log (s <| pmode := PBody sn |>) (HPoll t sn ts)) else None
      | _, _ => None
      end
  | EYield t j o =>
      match thr s t, pmode s with
      | [], PBody sn =>
          if Nat.eqb t poller && issome (lookup j sn)
          then Some (log (set_prog s t (yield_prog j o)) (HYield j o ts)) else None
      | _, _ => None
      end
  | EPollRet t r =>
      match thr s t, pmode s with
      | [], PBody sn =>
          if Nat.eqb t poller
          then Some (log (s <| pmode := PRest (match r with Some z => z | None => dflt s end) |>) (HPollRet ts))
          else None
      | _, _ => None
      end
  | EPollRaise t e =>
      match thr s t, pmode s with
      | [], PBody sn =>
          if Nat.eqb t poller
          then Some (log (set_prog (s <| pmode := PRest (dflt s) |>) t (flat_map (fun p => exc_prog (fst p) e) sn))
                         (HPollRaise e sn ts))
          else None
      | _, _ => None
      end
  | ECancelFn t v ans =>
      match thr s t with
      | IUserCancelFn j v' :: rest =>
          if negb (Nat.eqb v v') then None else
          let s1 := log s (HCancelFn t j v ans ts) in
          if Nat.eqb ans 1 then Some (set_prog s1 t (cancel_ok j ++ rest))
          else Some (set_prog (s1 <| veto := upd (veto s) t true |>) t (cancel_no j ++ rest))
      | _ => None
      end
  | _ => None
  end.

Definition step3 (s : st) (e : ev) : option st :=
  let ts := clock s in
  match e with
  | EWWait r =>
      match thr s poller, pmode s with
      | [], PRest tau =>
          match r with
          | 0 => if evf s then Some (s <| pmode := PClear |>) else None
          | _ => if evf s then None else
                 Some (s <| wblock := Some (tau, ts) |> <| wnotif := false |> <| pmode := PBlocked |>)
          end
      | _, _ => None
      end
  | EWWoke kind =>
      match pmode s, wblock s with
      | PBlocked, Some (tau, since) =>
          let s1 := log (s <| wblock := None |> <| wnotif := false |> <| pmode := PClear |>) (HWoke kind ts) in
          match kind with
          | 0 => if wnotif s then Some s1 else None
          | _ => if negb (wnotif s) && Z.leb (since + tau) ts then Some s1 else None
          end
      | _, _ => None
      end
  | EWClear =>
      match pmode s with
      | PClear => Some (s <| evf := false |> <| pmode := PTop |>)
      | _ => None
      end
  | EEnvRun t d pre =>
      if client s t && (d <? nfut s) && fstate_eqb pre (ds s d) then
        match f_srnc pre with Some (n, _) => Some (s <| ds := upd (ds s) d n |>) | None => Some s end
      else None
  | EEnvFinish t d pre o =>
      if client s t && (d <? nfut s) && fstate_eqb pre (ds s d) then
        match f_set pre with
        | Some n => Some (log (set_prog (s <| ds := upd (ds s) d n |> <| dout := upd (dout s) d (Some o) |>
                                           <| dcb := upd (dcb s) d false |>
                                           <| tok := if dcb s d then upd (tok s) d (Some t) else tok s |>) t
                                        ((if dcb s d then resolved_prog d else []) ++ [IRetEnv d])) (HDDone d o ts))
        | None => Some s
        end
      else None
  | EEnvCancel t d pre =>
      if client s t && (d <? nfut s) && fstate_eqb pre (ds s d) then
        let '(n, _) := f_cancel pre in
        if f_cancel_fires pre then
          Some (set_prog (s <| ds := upd (ds s) d n |> <| dcb := upd (dcb s) d false |>
                            <| tok := if dcb s d then upd (tok s) d (Some t) else tok s |>) t
                         ((if dcb s d then resolved_prog d else []) ++ [IRetEnv d]))
        else Some (s <| ds := upd (ds s) d n |>)
      else None
  | _ => None
  end.

Definition step0 (s : st) (e : ev) : option st :=
  match e with
  | EConfig c d => if cfgd s then None else Some (s <| cfgd := true |> <| hascfn := c |> <| dflt := d |>)
  | _ =>
      if negb (cfgd s) then None else
      match step1 s e with
      | Some s' => Some s'
      | None => match step2 s e with Some s' => Some s' | None => step3 s e end
      end
  end.

(* every event carries the virtual time at which it took effect *)
Definition step (s : st) (te : Z * ev) : option st :=
  match tick s (fst te) with Some s1 => step0 s1 (snd te) | None => None end.

(* ---- wire format -------------------------------------------------------------------------------- *)
Local Open Scope Z_scope.
Definition n (z : Z) : nat := Z.to_nat z.
Definition oc (k v : Z) : outcome := if Z.eqb k 0 then Ok (n v) else Err (n v).
Definition decode (l : list Z) : option (Z * ev) :=
  match l with
  | ts :: 16 :: t :: a => Some (ts, EPoll (n t) (map n a))
  | ts :: k :: a =>
      match k, a with
      | 0, [c; d] => Some (ts, EConfig (Z.eqb c 1) d)
      | 1, [t] => Some (ts, ECallSubmit (n t))
      | 2, [t; j] => Some (ts, ECallCancel (n t) (n j))
      | 3, [t] => Some (ts, ECallNotify (n t))
      | 4, [t] => Some (ts, EGAcq (n t))
      | 5, [t] => Some (ts, EGRel (n t))
      | 6, [t; d; i; k; v] => Some (ts, EDSubmit (n t) (n d) (if Z.eqb i 1 then Some (oc k v) else None))
      | 7, [t] => Some (ts, EXSec (n t))
      | 8, [t] => Some (ts, EXAcq (n t))
      | 9, [t] => Some (ts, EXRel (n t))
      | 10, [t] => Some (ts, EEvSet (n t))
      | 11, [t; c] => Some (ts, ERet (n t) (n c))
      | 12, [t; j] => Some (ts, EAcqM (n t) (n j))
      | 13, [t; j] => Some (ts, ERelM (n t) (n j))
      | 14, [t; op; j; p] => match fstate_of p with Some p => Some (ts, EFP (n t) (n op) (n j) p) | None => None end
      | 15, [t; op; d; p] => match fstate_of p with Some p => Some (ts, EFD (n t) (n op) (n d) p) | None => None end
      | 17, [t; j; k; v] => Some (ts, EYield (n t) (n j) (oc k v))
      | 18, [t; h; z] => Some (ts, EPollRet (n t) (if Z.eqb h 1 then Some z else None))
      | 19, [t; e] => Some (ts, EPollRaise (n t) (n e))
      | 20, [t; v; a] => Some (ts, ECancelFn (n t) (n v) (n a))
      | 21, [r] => Some (ts, EWWait (n r))
      | 22, [k] => Some (ts, EWWoke (n k))
      | 23, [] => Some (ts, EWClear)
      | 24, [t; d; p] => match fstate_of p with Some p => Some (ts, EEnvRun (n t) (n d) p) | None => None end
      | 25, [t; d; p; k; v] => match fstate_of p with Some p => Some (ts, EEnvFinish (n t) (n d) p (oc k v)) | None => None end
      | 26, [t; d; p] => match fstate_of p with Some p => Some (ts, EEnvCancel (n t) (n d) p) | None => None end
      | _, _ => None
      end
  | _ => None
  end.

Fixpoint decode_all (ls : list (list Z)) : option (list (Z * ev)) :=
  match ls with
  | [] => Some []
  | l :: r => match decode l, decode_all r with Some e, Some es => Some (e :: es) | _, _ => None end
  end.

Definition accept (ls : list (list Z)) : list Z :=
  match decode_all ls with
  | None => [-2]
  | Some es => match first_reject step init es 0 with None => [-1] | Some i => [Z.of_nat i] end
  end.
