(* A protocol IR for the four worker loops (retry / poll / throttle / timeout) and for every producer site
   that changes the state a loop scans and then wakes it, with an INTERLEAVING semantics over the event
   alphabet of Model/EventLoop.v.

   The terms themselves are not written here: tools/loop2coq.py regenerates them from the Python AST on
   every check run (coq/Gen/LoopSkel.v).  What is trusted is (a) the translator's vocabulary tables
   (Python statement text -> IR item, the whitelist of irrelevant statements) and (b) the semantics below.

   CHANNELS.  A loop reads three kinds of shared state, each with its own producers:
     CJobs      the container the loop works on (_jobs, _poll_descriptors, _to_submit + running count, _jobs),
                read by the lock section / call marked LScan;
     CShutdown  ShutdownHelper.is_shutdown and event.GLOBAL_HANDLER.shutdown, read by LExitIfShutdown;
     CAlive     the weak reference to the executor, read by LDeref.
   The protocol "mutate, then set" / "read; wait; clear; read again" is required, and proved, PER CHANNEL:
   for a channel c the items that read c are the scans, a producer's mutations of other channels are
   invisible, so its set() is a set without mutation (accepted by EventLoop.step).

   LINEARISATION.  A scan stands at the FIRST read of its lock section / call: mutations made before it are
   seen, mutations made while it runs count as made after it (the throttle hand-over section reads the
   running count several times while completions decrement it; that is sound for this protocol because
   every such mutation is followed by its own set(), which comes after the scan's linearisation point).

   EXIT.  LDeref / LExitIfShutdown may leave the loop.  A worker that left makes no further step; every
   prefix of a trace is a trace, so leaving adds neither traces nor states and is not modelled.

   NONDETERMINISM.  Branches (LIfContinue, PIf, which producer a thread calls next) are resolved by an
   ORACLE; every theorem quantifies over all oracles.  Definitions only (+ two small list lemmas). *)
From Coq Require Import List Bool Arith String.
From ME Require Import Base.Machine Model.EventLoop.
Import ListNotations.

(* ---- syntax ----------------------------------------------------------------------------------------- *)
Inductive chan := CJobs | CShutdown | CAlive.
Definition chan_eqb (a b : chan) : bool :=
  match a, b with CJobs, CJobs | CShutdown, CShutdown | CAlive, CAlive => true | _, _ => false end.

Inductive litem :=
| LDeref                          (* executor = executor_ref(); leave if it is dead          reads CAlive *)
| LExitIfShutdown                 (* if executor._shutdown.is_shutdown or is_shutdown(): leave   reads CShutdown *)
| LScan (name : string)           (* the lock section / call that reads the work container  reads CJobs *)
| LWait (timed : bool)            (* event.wait(t); timed = t may be a number *)
| LClear                          (* event.clear() *)
| LDropRef (name : string)        (* del executor / the helper frame that held the executor returns *)
| LOther (name : string)          (* whitelisted: logging, local assignments, handling of what the scan found *)
| LIfContinue (body : list litem). (* if <cond>: body; continue *)

Inductive pitem :=
| PMutate (c : chan) (under_lock : bool)   (* a write that can create work on channel c *)
| PCallerMutated (c : chan)                (* entry of a callback: its caller made the write before invoking it
                                              (weakref finalisation, Future done-callbacks) *)
| PSet                                     (* <the loop's event>.set() *)
| POther (name : string)                   (* whitelisted *)
| PIf (a b : list pitem)                   (* if <cond>: a else: b *)
| PReturn.                                 (* return / raise: the call ends *)

(* ---- visible actions and paths ---------------------------------------------------------------------- *)
Inductive wact := WAScan | WAWait (timed : bool) | WAClear.
Inductive pact := PAMut | PASet.

Definition reads (c : chan) (i : litem) : bool :=
  match i, c with
  | LDeref, CAlive | LExitIfShutdown, CShutdown | LScan _, CJobs => true
  | _, _ => false
  end.

(* all paths through ONE iteration, projected to the visible actions of channel c; k = paths of what follows *)
Fixpoint lp_item (c : chan) (i : litem) (k : list (list wact)) : list (list wact) :=
  match i with
  | LIfContinue body =>
      (fix go (b : list litem) : list (list wact) :=
         match b with [] => [[]] | j :: b' => lp_item c j (go b') end) body ++ k
  | LWait tm => map (cons (WAWait tm)) k
  | LClear => map (cons WAClear) k
  | LDeref | LExitIfShutdown | LScan _ => if reads c i then map (cons WAScan) k else k
  | LDropRef _ | LOther _ => k
  end.
Fixpoint lp_list (c : chan) (l : list litem) (k : list (list wact)) : list (list wact) :=
  match l with [] => k | i :: r => lp_item c i (lp_list c r k) end.
Definition wpaths (c : chan) (l : list litem) : list (list wact) := lp_list c l [[]].

(* all paths through one call of a producer site, projected to channel c *)
Fixpoint pp_item (c : chan) (i : pitem) (k : list (list pact)) : list (list pact) :=
  match i with
  | PMutate c' _ | PCallerMutated c' => if chan_eqb c c' then map (cons PAMut) k else k
  | PSet => map (cons PASet) k
  | POther _ => k
  | PIf a b =>
      (fix go (p : list pitem) : list (list pact) :=
         match p with [] => k | j :: p' => pp_item c j (go p') end) a
      ++
      (fix go (p : list pitem) : list (list pact) :=
         match p with [] => k | j :: p' => pp_item c j (go p') end) b
  | PReturn => [[]]
  end.
Fixpoint pp_list (c : chan) (p : list pitem) (k : list (list pact)) : list (list pact) :=
  match p with [] => k | i :: r => pp_item c i (pp_list c r k) end.
Definition ppaths (c : chan) (p : list pitem) : list (list pact) := pp_list c p [[]].

(* ---- the decidable protocol predicates ------------------------------------------------------------- *)
(* worker: scan; wait; clear; rescan.  AScan = a scan is due (start, or after a clear); AWait = scanned since
   the last clear (a further scan is allowed: `continue`); AClear = waited, the clear is due. *)
Inductive ast := AScan | AWait | AClear.
Definition astep (a : ast) (x : wact) : option ast :=
  match x, a with
  | WAScan, AScan | WAScan, AWait => Some AWait
  | WAWait _, AWait => Some AClear        (* a wait only after a scan made since the last clear *)
  | WAClear, AClear => Some AScan         (* a clear only right after a wait: never between scan and wait *)
  | _, _ => None
  end.
Fixpoint arun (a : ast) (p : list wact) : option ast :=
  match p with [] => Some a | x :: r => match astep a x with Some a' => arun a' r | None => None end end.
Definition boundary (a : ast) : bool := match a with AClear => false | _ => true end.
Definition path_ok (a : ast) (p : list wact) : bool :=
  match arun a p with Some a' => boundary a' | None => false end.
(* an iteration starts at AScan (first one, or the last ended with its clear) or at AWait (the last `continue`d) *)
Definition good_wpaths (WP : list (list wact)) : bool :=
  forallb (fun p => path_ok AScan p && path_ok AWait p) WP.
Definition good_loop (c : chan) (l : list litem) : bool := good_wpaths (wpaths c l).
Definition good_loop_all (l : list litem) : bool :=
  good_loop CJobs l && good_loop CShutdown l && good_loop CAlive l.

(* producer: the last visible action of a call is never a mutation (every mutation is followed by a set) *)
Fixpoint prun (pending : bool) (p : list pact) : bool :=
  match p with [] => pending | PAMut :: r => prun true r | PASet :: r => prun false r end.
Definition good_ppaths (PP : list (list pact)) : bool := forallb (fun p => negb (prun false p)) PP.
Definition good_prod (c : chan) (p : list pitem) : bool := good_ppaths (ppaths c p).
Definition good_prod_all (p : list pitem) : bool :=
  good_prod CJobs p && good_prod CShutdown p && good_prod CAlive p.

(* ---- interleaving semantics ------------------------------------------------------------------------- *)
(* wch k = the path taken by the worker's k-th iteration; pch t k = the path (of whichever site) taken by
   thread t's k-th call *)
Record oracle := { wch : nat -> nat; pch : nat -> nat -> nat }.

Record lst := {
  lwork : nat;                      (* mutations not yet seen by a scan *)
  lflag : bool;                     (* the event's flag *)
  lrest : list wact;                (* worker pc: what is left of the current iteration *)
  liter : nat;                      (* iterations begun *)
  lblk : option (bool * bool);      (* blocked in wait(): (notified, timed) *)
  pres : nat -> list pact;          (* producer pcs: what is left of thread t's current call *)
  pcall : nat -> nat                (* calls begun by thread t *)
}.
Definition linit : lst :=
  {| lwork := 0; lflag := false; lrest := []; liter := 0; lblk := None; pres := fun _ => []; pcall := fun _ => 0 |}.

Section Sem.
  Variable WP : list (list wact).      (* the paths of the loop *)
  Variable PP : list (list pact).      (* the paths of all producer sites *)
  Variable o : oracle.

  (* the worker's next visible action, its continuation, the iteration count afterwards *)
  Definition wfetch (s : lst) : option (wact * list wact * nat) :=
    match lrest s with
    | a :: r => Some (a, r, liter s)
    | [] => match nth (wch o (liter s)) WP [] with a :: r => Some (a, r, S (liter s)) | [] => None end
    end.
  Definition pfetch (s : lst) (t : nat) : option (pact * list pact * nat) :=
    match pres s t with
    | a :: r => Some (a, r, pcall s t)
    | [] => match nth (pch o t (pcall s t)) PP [] with a :: r => Some (a, r, S (pcall s t)) | [] => None end
    end.

  Definition wset (s : lst) (w : nat) (f : bool) (r : list wact) (n : nat) (b : option (bool * bool)) : lst :=
    {| lwork := w; lflag := f; lrest := r; liter := n; lblk := b; pres := pres s; pcall := pcall s |}.
  Definition pset (s : lst) (w : nat) (f : bool) (b : option (bool * bool)) (t : nat) (r : list pact) (n : nat) : lst :=
    {| lwork := w; lflag := f; lrest := lrest s; liter := liter s; lblk := b;
       pres := upd (pres s) t r; pcall := upd (pcall s) t n |}.

  Definition lstep (s : lst) (e : ev) : option lst :=
    match e with
    | ProdMutate t =>
        match pfetch s t with
        | Some (PAMut, r, n) => Some (pset s (S (lwork s)) (lflag s) (lblk s) t r n)
        | _ => None end
    | ProdSet t =>
        match pfetch s t with
        | Some (PASet, r, n) =>
            Some (pset s (lwork s) true (match lblk s with Some (_, tm) => Some (true, tm) | None => None end) t r n)
        | _ => None end
    | WorkerScan =>
        match lblk s, wfetch s with
        | None, Some (WAScan, r, n) => Some (wset s 0 (lflag s) r n None)
        | _, _ => None end
    | WorkerWait =>
        match lblk s, wfetch s with
        | None, Some (WAWait tm, r, n) =>
            Some (wset s (lwork s) (lflag s) r n (if lflag s then None else Some (false, tm)))
        | _, _ => None end
    | WorkerWoke =>
        match lblk s with
        | Some (true, _) => Some (wset s (lwork s) (lflag s) (lrest s) (liter s) None)
        | _ => None end
    | WorkerTimeout =>
        match lblk s with
        | Some (_, true) => Some (wset s (lwork s) (lflag s) (lrest s) (liter s) None)
        | _ => None end
    | WorkerClear =>
        match lblk s, wfetch s with
        | None, Some (WAClear, r, n) => Some (wset s (lwork s) false r n None)
        | _, _ => None end
    end.
End Sem.

(* one generated loop + its generated producer sites, on channel c *)
Definition all_ppaths (c : chan) (ps : list (list pitem)) : list (list pact) := flat_map (ppaths c) ps.
Definition istep (c : chan) (l : list litem) (ps : list (list pitem)) (o : oracle) : lst -> ev -> option lst :=
  lstep (wpaths c l) (all_ppaths c ps) o.
Definition good_prods (c : chan) (ps : list (list pitem)) : bool := forallb (good_prod c) ps.

Lemma good_prods_paths c ps : good_prods c ps = true -> good_ppaths (all_ppaths c ps) = true.
Proof.
  unfold good_prods, good_ppaths, all_ppaths. induction ps as [|p r IH]; simpl; [reflexivity|].
  intros H. apply andb_true_iff in H. destruct H as [Hp Hr]. rewrite forallb_app.
  apply andb_true_iff. split; [exact Hp|exact (IH Hr)].
Qed.

(* ---- the two broken shapes (used by the refutations) ------------------------------------------------- *)
Definition reversed_loop : list litem := [LScan "scan"; LClear; LWait false].      (* scan; clear; wait *)
Definition plain_loop : list litem := [LScan "scan"; LWait false; LClear].         (* scan; wait; clear *)
Definition plain_prod : list pitem := [PMutate CJobs true; PSet].                 (* mutate; set *)
Definition reversed_prod : list pitem := [PSet; PMutate CJobs true].              (* set; mutate *)
Definition silent_prod : list pitem := [PMutate CJobs true].                      (* mutate, no set *)
