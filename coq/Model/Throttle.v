(* ThrottleExecutor / ThrottleFuture (throttle.py) + the _Future / MapFuture protocol (common.py, map.py)
   as a trace acceptor over the visible operations logged by the harness.  One event = one visible
   operation of one thread (an X-section of a submitter / canceller has no inner visible operation and
   is a single event; the hand-over thread's X-section is split: acq X, [racy read of the running
   count, popleft, incr under A]*, rel X).  Threads carry programs; done-callbacks run inline.  Thread 0 is
   the hand-over thread: the operations of _submit_loop_iter are accepted from thread 0 only.  Environment: the delegate executor, completion of its futures, the answers
   of the count callable, the clock.  Definitions only. *)
From Coq Require Import ZArith List Bool Arith.
From RecordUpdate Require Import RecordSet.
From ME Require Import Base.Machine Base.Fut Base.GenPrelude Gen.ThrottleGen.
Import ListNotations RecordSetNotations.

Inductive outcome := Ok (v : nat) | Err (e : nat).
Definition none_value : nat := 998.

Inductive akind := AIncr | ADecr (d : nat).          (* AtomicInt.incr / decr (from d's done-callback) *)
Inductive wkind := WH | WSub (v : option Z).         (* who waits on the shared event: hand-over loop / blocking submitter with its throttle value *)
Inductive ckind := CH | CSub.                        (* who consults the count callable *)
Inductive rkind := RLoop | RWait.                    (* unlocked read of _running_count.value: admission test / choice of the wait time *)
Inductive gkind := GSub | GShut (wait : bool).
Inductive cbk := CbDone | CbRes (j : nat).           (* callbacks on a delegate future: _delegate_future_done, ThrottleFuture._delegate_resolved *)

Inductive instr :=
| IHStart | IExit
| ICount (k : ckind)
| IXAcqH | ILoop | IRcRead (k : rkind) | IPop | IAcqA (k : akind) | IRelA | IRelXH
| IDSubmit (j : nat) | IAddCb1 (d : nat) | IAddCb2 (d j : nat)
| IAcqM (j : nat) | IAcqMSet (j : nat) (x : option nat) | IRelM (j : nat) | IRelMCbs (j : nat)
| IDCancelledQ (j d : nat) | IFSet (j : nat) (o : outcome) | IDoneQ (j : nat)
| IWait (tau : Z) (k : wkind) | IWoke (k : wkind) | IClear | IEvSet
| IAcqG (k : gkind) | IRelG | IXEnq | IDShutdown
| IRet | IRetRaise | IRetB (b : bool) | IRetJoin
| ICancelled (j : nat) | IDoneC (j : nat) | IXCancel (j : nat) | IDCancel (j d : nat) | IFCancel (j : nat) | IFSrnc (j : nat).

(* ghost history, newest first *)
Inductive hev :=
| HCount (t : nat) (a : policy_answer (option Z)) (v : option Z) (ts : Z)  (* count callable consulted; v = value in force afterwards *)
| HEnq (j : nat) (ts : Z)                                  (* submit() appended future j to the queue *)
| HPop (j : nat) (ts : Z)                                  (* hand-over thread took j off the queue (popleft) *)
| HAdmit (j : nat) (run_after : Z) (lim : option Z) (ts : Z)  (* ... and committed to it (_running_count.incr()) *)
| HDSub (j d : nat) (ts : Z)                               (* delegate.submit for j returned delegate future d *)
| HDDone (d : nat) (ts : Z)                                (* delegate future d became done *)
| HDecr (d : nat) (run_after : Z) (ts : Z)                 (* d's done-callback decremented the running count *)
| HCancelQ (j : nat) (ts : Z)                              (* cancel() removed j from the queue *)
| HGo (t : nat) (v : option Z) (qlen : Z) (ts : Z)         (* _block_until_ready read len(queue) = qlen < v: submit goes on *)
| HBlock (t : nat) (v : option Z) (qlen : Z) (ts : Z)      (* ... read qlen >= v: submit is going to wait *)
| HPark (t : nat) (v : option Z) (qlen : Z) (ts : Z)       (* blocking submit blocks on the shared event (qlen = length now) *)
| HUnpark (t : nat) (kind : nat) (qlen : Z) (ts : Z)       (* ... wakes: 0 notified, 1 fallback timeout *)
| HSubRaise (t : nat) (ts : Z)                             (* submit() raised although the executor is not shut down *)
| HHWait (tau : Z) (run : Z) (ts : Z)                      (* hand-over thread blocks in wait(tau) *)
| HFinal (j : nat) (o : outcome) (ts : Z)
| HCancelled (j : nat) (ts : Z)
| HCancelRet (j : nat) (b : bool) (ts : Z).

Record st := mkSt {
  started : bool; blk : bool; dyn : bool;
  last : option Z;                    (* _last_throttle (None = unlimited) *)
  shut : bool; gown : option nat; xown : option nat; aown : option nat;
  running : Z;                        (* _running_count.value *)
  qu : list nat;                      (* _to_submit, as future ids *)
  hlim : option Z;                    (* `throttle` of the hand-over thread's current iteration *)
  hadm : list nat;                    (* its local `to_submit` *)
  hdone : bool;                       (* the hand-over thread has exited *)
  eflag : bool; egen : nat;           (* the shared event: flag, number of set() calls *)
  wst : nat -> option (nat * Z * Z);  (* thread blocked in wait: (egen at entry, timeout, since) *)
  nfut : nat; ndel : nat;
  ms : nat -> fstate; mout : nat -> option outcome;
  mdel : nat -> option nat;           (* ThrottleFuture._delegate *)
  mexec : nat -> bool;                (* ThrottleFuture._executor is not None *)
  mown : nat -> option nat;           (* owner of M_j *)
  ds : nat -> fstate; dout : nat -> option outcome;
  dcbs : nat -> list cbk;             (* done-callbacks registered on delegate future d, in order *)
  dfor : nat -> nat;                  (* ghost: the throttle future d was created for *)
  thr : nat -> list instr;
  cancelling : nat -> option nat;
  clock : Z;
  hist : list hev
}.
#[export] Instance eta_st : Settable _ := settable! mkSt
  <started; blk; dyn; last; shut; gown; xown; aown; running; qu; hlim; hadm; hdone; eflag; egen; wst; nfut; ndel;
   ms; mout; mdel; mexec; mown; ds; dout; dcbs; dfor; thr; cancelling; clock; hist>.

Definition init : st :=
  mkSt false false false None false None None None 0%Z [] None [] false false 0 (fun _ => None) 0 0
       (fun _ => Pending) (fun _ => None) (fun _ => None) (fun _ => true) (fun _ => None)
       (fun _ => Pending) (fun _ => None) (fun _ => []) (fun _ => 0) (fun _ => []) (fun _ => None) 0%Z [].

Definition H : nat := 0.
Definition log (s : st) (h : hev) : st := s <| hist := h :: hist s |>.
Definition tick (s : st) (ts : Z) : option st := if Z.leb (clock s) ts then Some (s <| clock := ts |>) else None.
Definition qlen (s : st) : Z := Z.of_nat (length (qu s)).
Definition remove_id (x : nat) (l : list nat) := filter (fun y => negb (Nat.eqb y x)) l.
Definition mem (x : nat) (l : list nat) : bool := existsb (Nat.eqb x) l.

(* the head of the admission loop `while executor._to_submit:` is resolved silently as far as it does
   not depend on the racy read: the queue is protected by X, which the thread holds *)
Definition norm (s : st) (p : list instr) : list instr :=
  match p with
  | ILoop :: r =>
      match qu s with
      | [] => IRelXH :: r
      | _ :: _ => match hlim s with
                  | None => IPop :: IAcqA AIncr :: IRelA :: ILoop :: r      (* `throttle is not None and ...` short-circuits *)
                  | Some _ => IRcRead RLoop :: r
                  end
      end
  | _ => p
  end.
Definition set_prog (s : st) (t : nat) (p : list instr) : st := s <| thr := upd (thr s) t (norm s p) |>.

(* top of _submit_loop_iter: shutdown test, then _eval_throttle (silent for a static count) *)
Definition start_iter (s : st) (t : nat) : st :=
  if shut s then set_prog s t [IExit]
  else if dyn s then set_prog s t [ICount CH]
  else set_prog (s <| hlim := last s |>) t [IXAcqH].

Definition enq_prog : list instr := [IXEnq; IEvSet; IRelG; IRet].

(* _block_until_ready(v), evaluated at the event after which its silent reads happen *)
Definition sub_check (s : st) (t : nat) (v : option Z) (rest : list instr) : st :=
  if blk s && negb (shut s) then
    match block_ready (qlen s) v with
    | None => log (set_prog s t (IRelG :: IRetRaise :: rest)) (HSubRaise t (clock s))   (* TypeError *)
    | Some true => log (set_prog s t (enq_prog ++ rest)) (HGo t v (qlen s) (clock s))
    | Some false => log (set_prog s t (IWait 30 (WSub v) :: rest)) (HBlock t v (qlen s) (clock s))
    end
  else set_prog s t (enq_prog ++ rest).

(* after event.wait() returned *)
Definition after_wait (s : st) (t : nat) (k : wkind) (rest : list instr) : st :=
  match k with
  | WH => set_prog s t (IClear :: rest)
  | WSub v => sub_check s t v rest
  end.

Definition setres_prog (j : nat) (o : outcome) : list instr :=
  match o with
  | Ok _ => [IAcqM j; IFSet j o; IRelMCbs j]
  | Err _ => [IAcqM j; IRelM j; IAcqM j; IFSet j o; IRelMCbs j; IDoneQ j]     (* copy_exception tries set_exception_info first *)
  end.
Definition resolved_prog (j d : nat) : list instr := [IAcqMSet j None; IRelM j; IDCancelledQ j d].
Definition cb_prog (d : nat) (c : cbk) : list instr :=
  match c with
  | CbDone => [IAcqA (ADecr d); IRelA; IEvSet]
  | CbRes j => resolved_prog j d
  end.
(* the same callbacks run by a canceller that already holds M_j: the re-entrant lock operations are silent *)
Definition cb_prog_held (d : nat) (c : cbk) : list instr :=
  match c with
  | CbDone => [IAcqA (ADecr d); IRelA; IEvSet]
  | CbRes j => [IDCancelledQ j d]
  end.
Definition clear_del (s : st) (l : list cbk) : st :=
  fold_left (fun s c => match c with CbRes j => s <| mdel := upd (mdel s) j None |> | CbDone => s end) l s.

Inductive ev :=
| ENew (b dy : bool) (v : option Z)
| EHStart | EExit
| ECallSubmit (t : nat) | ECallCancel (t j : nat) | ECallShutdown (t : nat) (wait : bool)
| ERet (t : nat) (code : nat)                 (* 0 normal, 1 False, 2 True, 9 raised *)
| EAcqG (t : nat) | ERelG (t : nat)
| ECount (t : nat) (a : policy_answer (option Z))
| EXSec (t : nat)                             (* acq X; body; rel X without inner visible operation *)
| EXAcq (t : nat) | ERelX (t : nat)
| ERcRead (t : nat) (x : Z)                   (* unlocked read of _running_count.value *)
| EPop (t : nat)                              (* _to_submit.popleft() *)
| EAcqA (t : nat) | ERelA (t : nat)
| EEvSet (t : nat)
| EWait (t : nat) (r : nat)                   (* 0 flag already set, 1 blocks *)
| EWoke (t : nat) (kind : nat)                (* 0 notified, 1 timeout *)
| EClear (t : nat)
| EDSubmit (t d : nat) (inline : option outcome)
| EDShutdown (t : nat)
| EAcqM (t j : nat) | ERelM (t j : nat)
| EFM (t : nat) (op : nat) (j : nat) (pre : fstate)  (* stdlib method on throttle future j: 0 cancelled 1 done 2 cancel 3 srnc 4 set_result 6 set_exception *)
| EFD (t : nat) (op : nat) (d : nat) (pre : fstate)  (* on delegate future d by library code: 0 cancelled 2 cancel 5 add_done_callback *)
| EEnvRun (t d : nat) (pre : fstate)
| EEnvFinish (t d : nat) (pre : fstate) (o : outcome).

Definition idle (s : st) (t : nat) : bool :=
  started s && negb (Nat.eqb t H) && match thr s t with [] => true | _ => false end.
Definition free (o : option nat) : bool := match o with None => true | Some _ => false end.
Definition owned (o : option nat) (t : nat) : bool := match o with Some t' => Nat.eqb t t' | None => false end.

(* ---- per-event transition functions (s already carries the event's timestamp in clock) ---------- *)
Definition do_new (s : st) (b dy : bool) (v : option Z) : option st :=
  if started s || negb (isnil (thr s H)) then None
  else Some (s <| started := true |> <| blk := b |> <| dyn := dy |> <| last := v |> <| thr := upd (thr s) H [IHStart] |>).

Definition do_hstart (s : st) : option st :=
  match thr s H with [IHStart] => Some (start_iter s H) | _ => None end.

Definition do_exit (s : st) : option st :=
  match thr s H with [IExit] => Some (set_prog (s <| hdone := true |>) H []) | _ => None end.

Definition do_call_submit (s : st) (t : nat) : option st :=
  if idle s t then Some (set_prog s t [IAcqG GSub]) else None.
Definition do_call_shutdown (s : st) (t : nat) (w : bool) : option st :=
  if idle s t then Some (set_prog s t [IAcqG (GShut w)]) else None.
Definition do_call_cancel (s : st) (t j : nat) : option st :=
  if idle s t && (j <? nfut s) then
    Some (set_prog (s <| cancelling := upd (cancelling s) t (Some j) |>) t [IAcqM j; ICancelled j])
  else None.

Definition do_ret (s : st) (t code : nat) : option st :=
  match thr s t with
  | IRet :: rest => if Nat.eqb code 0 then Some (set_prog s t rest) else None
  | IRetRaise :: rest => if Nat.eqb code 9 then Some (set_prog s t rest) else None
  | IRetJoin :: rest => if Nat.eqb code 0 && hdone s then Some (set_prog s t rest) else None   (* thread.join() returned *)
  | IRetB b :: rest =>
      if Nat.eqb code (if b then 2 else 1) then
        match cancelling s t with
        | Some j => Some (log (set_prog (s <| cancelling := upd (cancelling s) t None |>) t rest) (HCancelRet j b (clock s)))
        | None => None
        end
      else None
  | _ => None
  end.

Definition do_acq_g (s : st) (t : nat) : option st :=
  if negb (free (gown s)) then None else
  let s1 := s <| gown := Some t |> in
  match thr s t with
  | IAcqG GSub :: rest =>
      if shut s then Some (set_prog s1 t (IRelG :: IRetRaise :: rest))     (* ensure_alive raises *)
      else if dyn s then Some (set_prog s1 t (ICount CSub :: rest))
      else Some (sub_check s1 t (last s) rest)
  | IAcqG (GShut w) :: rest =>
      if shut s then Some (set_prog s1 t (IRelG :: IRet :: rest))
      else Some (set_prog (s1 <| shut := true |>) t (IRelG :: IDShutdown :: IEvSet :: (if w then IRetJoin else IRet) :: rest))
  | _ => None
  end.
Definition do_rel_g (s : st) (t : nat) : option st :=
  match thr s t with
  | IRelG :: rest => if owned (gown s) t then Some (set_prog (s <| gown := None |>) t rest) else None
  | _ => None
  end.

(* _eval_throttle with a count callable: the answer, or the last good value when it raises *)
Definition do_count (s : st) (t : nat) (a : policy_answer (option Z)) : option st :=
  if negb (dyn s) then None else
  let v := eval_throttle (last s) a in
  let s1 := log (s <| last := v |>) (HCount t a v (clock s)) in
  match thr s t with
  | ICount CH :: rest => if Nat.eqb t H then Some (set_prog (s1 <| hlim := v |>) t (IXAcqH :: rest)) else None
  | ICount CSub :: rest => Some (sub_check s1 t v rest)
  | _ => None
  end.

Definition do_xsec (s : st) (t : nat) : option st :=
  if negb (free (xown s)) then None else
  match thr s t with
  | IXEnq :: IEvSet :: rest0 =>
      (* the ThrottleFuture was constructed just before, under the gate: ids in creation order;
         submit() goes on with event.set() *)
      let rest := IEvSet :: rest0 in
      let j := nfut s in
      Some (log (set_prog (s <| nfut := S j |> <| ms := upd (ms s) j Pending |> <| mout := upd (mout s) j None |>
                             <| mdel := upd (mdel s) j None |> <| mexec := upd (mexec s) j true |>
                             <| mown := upd (mown s) j None |> <| qu := qu s ++ [j] |>) t rest) (HEnq j (clock s)))
  | IXCancel j :: rest =>
      if mem j (qu s) then
        Some (log (set_prog (s <| qu := remove_id j (qu s) |>) t (IFCancel j :: IFSrnc j :: IRelMCbs j :: IRetB true :: rest))
                  (HCancelQ j (clock s)))
      else Some (set_prog s t (IRelM j :: IRetB false :: rest))      (* already popped by the hand-over thread *)
  | _ => None
  end.

Definition do_xacq (s : st) (t : nat) : option st :=
  if negb (free (xown s)) || negb (Nat.eqb t H) then None else
  match thr s t with
  | [IXAcqH] => Some (set_prog (s <| xown := Some t |> <| hadm := [] |>) t [ILoop])
  | _ => None
  end.
Definition do_relx (s : st) (t : nat) : option st :=
  match thr s t with
  | IRelXH :: rest =>
      if owned (xown s) t && Nat.eqb t H then
        Some (set_prog (s <| xown := None |>) t (map IDSubmit (hadm s) ++ IRcRead RWait :: rest))
      else None
  | _ => None
  end.

Definition do_rcread (s : st) (t : nat) (x : Z) : option st :=
  if negb (Z.eqb x (running s)) || negb (Nat.eqb t H) then None else
  match thr s t with
  | IRcRead RLoop :: rest =>
      if throttled (hlim s) x then Some (set_prog s t (IRelXH :: rest))
      else Some (set_prog s t (IPop :: IAcqA AIncr :: IRelA :: ILoop :: rest))
  | IRcRead RWait :: rest => Some (set_prog s t (IWait (loop_wait x) WH :: rest))
  | _ => None
  end.

(* popleft(): not a lock operation, but visible to the unlocked len() of a blocking submitter *)
Definition do_pop (s : st) (t : nat) : option st :=
  match thr s t, qu s with
  | IPop :: rest, j :: q' =>
      if Nat.eqb t H && owned (xown s) t      (* popleft happens inside the X-section *)
      then Some (log (set_prog (s <| qu := q' |> <| hadm := hadm s ++ [j] |>) t rest) (HPop j (clock s))) else None
  | _, _ => None
  end.

Definition do_acq_a (s : st) (t : nat) : option st :=
  if negb (free (aown s)) then None else
  let s1 := s <| aown := Some t |> in
  match thr s t with
  | IAcqA AIncr :: rest =>
      if negb (Nat.eqb t H) then None else
      let r := (running s + 1)%Z in
      Some (log (set_prog (s1 <| running := r |>) t rest) (HAdmit (List.last (hadm s) 0) r (hlim s) (clock s)))
  | IAcqA (ADecr d) :: IRelA :: IEvSet :: rest =>       (* _delegate_future_done: running_count.decr(); event.set() *)
      let r := (running s - 1)%Z in
      Some (log (set_prog (s1 <| running := r |>) t (IRelA :: IEvSet :: rest)) (HDecr d r (clock s)))
  | _ => None
  end.
Definition do_rel_a (s : st) (t : nat) : option st :=
  match thr s t with
  | IRelA :: rest => if owned (aown s) t then Some (set_prog (s <| aown := None |>) t rest) else None
  | _ => None
  end.

Definition do_evset (s : st) (t : nat) : option st :=
  match thr s t with
  | IEvSet :: rest => Some (set_prog (s <| eflag := true |> <| egen := S (egen s) |>) t rest)
  | _ => None
  end.

(* the hand-over thread (and only it) waits in its loop; submitters wait in _block_until_ready *)
Definition waiter_ok (t : nat) (k : wkind) : bool :=
  match k with WH => Nat.eqb t H | WSub _ => negb (Nat.eqb t H) end.

Definition do_wait (s : st) (t r : nat) : option st :=
  match thr s t with
  | IWait tau k :: rest =>
      if negb (waiter_ok t k) then None else
      match r with
      | 0 => if eflag s then Some (after_wait s t k rest) else None
      | _ => if eflag s then None else
             let s1 := set_prog (s <| wst := upd (wst s) t (Some (egen s, tau, clock s)) |>) t (IWoke k :: rest) in
             Some (match k with
                   | WH => log s1 (HHWait tau (running s) (clock s))
                   | WSub v => log s1 (HPark t v (qlen s) (clock s))
                   end)
      end
  | _ => None
  end.

Definition do_woke (s : st) (t kind : nat) : option st :=
  match thr s t, wst s t with
  | IWoke k :: rest, Some (g, tau, since) =>
      let ok := match kind with
                | 0 => negb (Nat.eqb (egen s) g)
                | _ => Nat.eqb (egen s) g && Z.leb (since + tau) (clock s)
                end in
      if ok && waiter_ok t k then
        let s1 := s <| wst := upd (wst s) t None |> in
        let s2 := match k with WH => s1 | WSub _ => log s1 (HUnpark t kind (qlen s) (clock s)) end in
        Some (after_wait s2 t k rest)
      else None
  | _, _ => None
  end.

Definition do_clear (s : st) (t : nat) : option st :=
  match thr s t with
  | [IClear] => if Nat.eqb t H then Some (start_iter (s <| eflag := false |>) t) else None
  | _ => None
  end.

Definition do_dsubmit (s : st) (t d : nat) (inline : option outcome) : option st :=
  match thr s t with
  | IDSubmit j :: rest =>
      if negb (Nat.eqb d (ndel s)) || negb (Nat.eqb t H) || owned (xown s) t then None else   (* delegate.submit is called outside the X-section *)
      let s1 := s <| ndel := S d |> <| ds := upd (ds s) d (if issome inline then Finished else Pending) |>
                  <| dout := upd (dout s) d inline |> <| dcbs := upd (dcbs s) d [] |> <| dfor := upd (dfor s) d j |> in
      let s2 := log s1 (HDSub j d (clock s)) in
      let s3 := if issome inline then log s2 (HDDone d (clock s)) else s2 in
      Some (set_prog s3 t (IAddCb1 d :: IAcqMSet j (Some d) :: IRelM j :: IAddCb2 d j :: rest))
  | _ => None
  end.

Definition do_dshutdown (s : st) (t : nat) : option st :=
  match thr s t with IDShutdown :: rest => Some (set_prog s t rest) | _ => None end.

Definition do_acq_m (s : st) (t j : nat) : option st :=
  if negb (free (mown s j)) then None else
  match thr s t with
  | IAcqM j' :: rest => if Nat.eqb j j' then Some (set_prog (s <| mown := upd (mown s) j (Some t) |>) t rest) else None
  | IAcqMSet j' x :: rest =>
      if Nat.eqb j j' then Some (set_prog (s <| mown := upd (mown s) j (Some t) |> <| mdel := upd (mdel s) j x |>) t rest) else None
  | _ => None
  end.
Definition do_rel_m (s : st) (t j : nat) : option st :=
  if negb (owned (mown s j) t) then None else
  match thr s t with
  | IRelM j' :: rest => if Nat.eqb j j' then Some (set_prog (s <| mown := upd (mown s) j None |>) t rest) else None
  | IRelMCbs j' :: rest =>
      (* _me_invoke_callbacks: only ThrottleFuture._clear_executor (silent) *)
      if Nat.eqb j j' then Some (set_prog (s <| mown := upd (mown s) j None |> <| mexec := upd (mexec s) j false |>) t rest) else None
  | _ => None
  end.

Definition do_fm (s : st) (t op j : nat) (pre : fstate) : option st :=
  if negb (fstate_eqb pre (ms s j)) then None else
  let ts := clock s in
  match thr s t, op with
  | ICancelled j' :: rest, 0 =>
      if negb (Nat.eqb j j') then None else
      if fcancelled pre then Some (set_prog s t (IRelM j :: IRetB true :: rest)) else Some (set_prog s t (IDoneC j :: rest))
  | IDoneC j' :: rest, 1 =>
      if negb (Nat.eqb j j') then None else
      if fdone pre then Some (set_prog s t (IRelM j :: IRetB false :: rest)) else
      (* ThrottleFuture._me_cancel *)
      match mdel s j with
      | Some d => Some (set_prog s t (IDCancel j d :: rest))
      | None => if mexec s j then Some (set_prog s t (IXCancel j :: rest)) else Some (set_prog s t (IRelM j :: IRetB false :: rest))
      end
  | IDoneQ j' :: rest, 1 =>
      if negb (Nat.eqb j j') then None else
      if fdone pre then Some (set_prog s t rest) else Some (set_prog s t (setres_prog j (Ok none_value) ++ rest))
  | IFCancel j' :: rest, 2 =>
      if negb (Nat.eqb j j') then None else
      let '(n, b) := f_cancel pre in
      if b then Some (log (set_prog (s <| ms := upd (ms s) j n |>) t rest) (HCancelled j ts)) else None
  | IFSrnc j' :: rest, 3 =>
      if negb (Nat.eqb j j') then None else
      match f_srnc pre with Some (n, _) => Some (set_prog (s <| ms := upd (ms s) j n |>) t rest) | None => None end
  | IFSet j' o :: rest, _ =>
      if negb (Nat.eqb j j') || negb (Nat.eqb op (match o with Ok _ => 4 | Err _ => 6 end)) then None else
      match f_set pre with
      | Some n => Some (log (set_prog (s <| ms := upd (ms s) j n |> <| mout := upd (mout s) j (Some o) |>) t rest) (HFinal j o ts))
      | None => (* InvalidStateError is tolerated (try_set_result / copy_exception); the callbacks are skipped *)
                match rest with IRelMCbs _ :: rest' => Some (set_prog s t (IRelM j :: rest')) | _ => None end
      end
  | _, _ => None
  end.

Definition do_fd (s : st) (t op d : nat) (pre : fstate) : option st :=
  if negb (fstate_eqb pre (ds s d)) then None else
  let ts := clock s in
  match thr s t, op with
  | IAddCb1 d' :: rest, 5 =>
      if negb (Nat.eqb d d') then None else
      if fdone pre then Some (set_prog s t (cb_prog d CbDone ++ rest))
      else Some (set_prog (s <| dcbs := upd (dcbs s) d (dcbs s d ++ [CbDone]) |>) t rest)
  | IAddCb2 d' j :: rest, 5 =>
      if negb (Nat.eqb d d') then None else
      if fdone pre then Some (set_prog s t (cb_prog d (CbRes j) ++ rest))
      else Some (set_prog (s <| dcbs := upd (dcbs s) d (dcbs s d ++ [CbRes j]) |>) t rest)
  | IDCancelledQ j d' :: rest, 0 =>
      if negb (Nat.eqb d d') then None else
      if fcancelled pre then Some (set_prog s t rest)            (* plain `return`: the throttle future is left as it is *)
      else match dout s d with
           | Some o => Some (set_prog s t (setres_prog j o ++ rest))
           | None => None
           end
  | IDCancel j d' :: rest, 2 =>
      if negb (Nat.eqb d d') then None else
      let '(n, b) := f_cancel pre in
      let s1 := s <| ds := upd (ds s) d n |> in
      if b then
        let cont := IFCancel j :: IFSrnc j :: IRelMCbs j :: IRetB true :: rest in
        if f_cancel_fires pre then
          Some (log (set_prog (clear_del (s1 <| dcbs := upd (dcbs s1) d [] |>) (dcbs s d)) t
                              (flat_map (cb_prog_held d) (dcbs s d) ++ cont)) (HDDone d ts))
        else Some (set_prog s1 t cont)
      else Some (set_prog s1 t (IRelM j :: IRetB false :: rest))
  | _, _ => None
  end.

Definition do_env_run (s : st) (t d : nat) (pre : fstate) : option st :=
  if idle s t && (d <? ndel s) && fstate_eqb pre (ds s d) then
    match f_srnc pre with Some (n, _) => Some (s <| ds := upd (ds s) d n |>) | None => Some s end
  else None.
Definition do_env_finish (s : st) (t d : nat) (pre : fstate) (o : outcome) : option st :=
  if idle s t && (d <? ndel s) && fstate_eqb pre (ds s d) then
    match f_set pre with
    | Some n => Some (log (set_prog (s <| ds := upd (ds s) d n |> <| dout := upd (dout s) d (Some o) |> <| dcbs := upd (dcbs s) d [] |>)
                                    t (flat_map (cb_prog d) (dcbs s d))) (HDDone d (clock s)))
    | None => Some s
    end
  else None.

Definition step0 (s : st) (e : ev) : option st :=
  match e with
  | ENew b dy v => do_new s b dy v
  | EHStart => do_hstart s
  | EExit => do_exit s
  | ECallSubmit t => do_call_submit s t
  | ECallCancel t j => do_call_cancel s t j
  | ECallShutdown t w => do_call_shutdown s t w
  | ERet t c => do_ret s t c
  | EAcqG t => do_acq_g s t
  | ERelG t => do_rel_g s t
  | ECount t a => do_count s t a
  | EXSec t => do_xsec s t
  | EXAcq t => do_xacq s t
  | ERelX t => do_relx s t
  | ERcRead t x => do_rcread s t x
  | EPop t => do_pop s t
  | EAcqA t => do_acq_a s t
  | ERelA t => do_rel_a s t
  | EEvSet t => do_evset s t
  | EWait t r => do_wait s t r
  | EWoke t k => do_woke s t k
  | EClear t => do_clear s t
  | EDSubmit t d i => do_dsubmit s t d i
  | EDShutdown t => do_dshutdown s t
  | EAcqM t j => do_acq_m s t j
  | ERelM t j => do_rel_m s t j
  | EFM t op j p => do_fm s t op j p
  | EFD t op d p => do_fd s t op d p
  | EEnvRun t d p => do_env_run s t d p
  | EEnvFinish t d p o => do_env_finish s t d p o
  end.

(* every event carries the virtual time at which it took effect *)
Definition step (s : st) (te : Z * ev) : option st :=
  match tick s (fst te) with Some s1 => step0 s1 (snd te) | None => None end.

(* ---- wire format -------------------------------------------------------------------------------- *)
Local Open Scope Z_scope.
Definition n (z : Z) : nat := Z.to_nat z.
Definition oc (k v : Z) : outcome := if Z.eqb k 0 then Ok (n v) else Err (n v).
Definition cans (k v : Z) : option (policy_answer (option Z)) :=
  match k with 0 => Some (Answer (Some v)) | 1 => Some (Answer None) | 2 => Some Raises | _ => None end.
Definition decode (l : list Z) : option (Z * ev) :=
  match l with
  | ts :: k :: a =>
      match k, a with
      | 0, [b; dy; isn; v] => Some (ts, ENew (Z.eqb b 1) (Z.eqb dy 1) (if Z.eqb isn 1 then None else Some v))
      | 1, [] => Some (ts, EHStart)
      | 2, [] => Some (ts, EExit)
      | 3, [t] => Some (ts, ECallSubmit (n t))
      | 4, [t; j] => Some (ts, ECallCancel (n t) (n j))
      | 5, [t; w] => Some (ts, ECallShutdown (n t) (Z.eqb w 1))
      | 7, [t; c] => Some (ts, ERet (n t) (n c))
      | 8, [t; j] => Some (ts, EAcqM (n t) (n j))
      | 9, [t; j] => Some (ts, ERelM (n t) (n j))
      | 10, [t; op; j; p] => match fstate_of p with Some p => Some (ts, EFM (n t) (n op) (n j) p) | None => None end
      | 11, [t; op; d; p] => match fstate_of p with Some p => Some (ts, EFD (n t) (n op) (n d) p) | None => None end
      | 12, [t] => Some (ts, EAcqG (n t))
      | 13, [t] => Some (ts, ERelG (n t))
      | 14, [t; k; v] => match cans k v with Some a => Some (ts, ECount (n t) a) | None => None end
      | 15, [t; d; i; k; v] => Some (ts, EDSubmit (n t) (n d) (if Z.eqb i 1 then Some (oc k v) else None))
      | 16, [t; r] => Some (ts, EWait (n t) (n r))
      | 17, [t; k] => Some (ts, EWoke (n t) (n k))
      | 18, [t] => Some (ts, EClear (n t))
      | 19, [t; d; p] => match fstate_of p with Some p => Some (ts, EEnvRun (n t) (n d) p) | None => None end
      | 21, [t; d; p; k; v] => match fstate_of p with Some p => Some (ts, EEnvFinish (n t) (n d) p (oc k v)) | None => None end
      | 23, [t] => Some (ts, EXSec (n t))
      | 24, [t] => Some (ts, EXAcq (n t))
      | 25, [t] => Some (ts, ERelX (n t))
      | 26, [t; x] => Some (ts, ERcRead (n t) x)
      | 27, [t] => Some (ts, EAcqA (n t))
      | 28, [t] => Some (ts, ERelA (n t))
      | 29, [t] => Some (ts, EEvSet (n t))
      | 30, [t] => Some (ts, EDShutdown (n t))
      | 31, [t] => Some (ts, EPop (n t))
      | _, _ => None
      end
  | _ => None
  end.

Fixpoint decode_all (ls : list (list Z)) : option (list (Z * ev)) :=
  match ls with
  | [] => Some []
  | l :: r => match decode l, decode_all r with Some e, Some es => Some (e :: es) | _, _ => None end
  end.

Definition accept (ls : list (list Z)) : list Z :=
  match decode_all ls with
  | None => [-2]
  | Some es => match first_reject step init es 0 with None => [-1] | Some i => [Z.of_nat i] end
  end.
