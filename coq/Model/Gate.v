(* helpers.ShutdownHelper: the shutdown gate every executor wraps its submit() in, and the
   first-shutdown-wins flag.  Any number of threads.  Model + proofs (small). *)
From Coq Require Import List Bool Arith ZArith Lia.
From ME Require Import Base.Machine.
Import ListNotations.

Inductive pc := Idle | E0 | EIn | ERaise | H0 | HWon | HLost.
Inductive ev :=
| CallSubmit (t : nat)        (* with self._shutdown.ensure_alive(): *)
| CallShutdown (t : nat)      (* self._shutdown() *)
| Acq (t : nat)
| Rel (t : nat) (code : nat). (* leaves the gate: 0 submit body done, 1 raises RuntimeError, 2 returns True, 3 returns False *)

Record st := { gate : option nat; flag : bool; thr : nat -> pc; wins : nat; submits_after : nat }.
Definition init : st := {| gate := None; flag := false; thr := fun _ => Idle; wins := 0; submits_after := 0 |}.

Definition step (s : st) (e : ev) : option st :=
  match e with
  | CallSubmit t => match thr s t with Idle => Some {| gate := gate s; flag := flag s; thr := upd (thr s) t E0; wins := wins s; submits_after := submits_after s |} | _ => None end
  | CallShutdown t => match thr s t with Idle => Some {| gate := gate s; flag := flag s; thr := upd (thr s) t H0; wins := wins s; submits_after := submits_after s |} | _ => None end
  | Acq t =>
      match gate s, thr s t with
      | None, E0 => Some {| gate := Some t; flag := flag s; thr := upd (thr s) t (if flag s then ERaise else EIn); wins := wins s;
                            submits_after := submits_after s + (if flag s then 0 else (if Nat.ltb 0 (wins s) then 1 else 0)) |}
      | None, H0 => Some {| gate := Some t; flag := true; thr := upd (thr s) t (if flag s then HLost else HWon);
                            wins := wins s + (if flag s then 0 else 1); submits_after := submits_after s |}
      | _, _ => None
      end
  | Rel t code =>
      match thr s t, code with
      | EIn, 0 | ERaise, 1 | HWon, 2 | HLost, 3 =>
          Some {| gate := None; flag := flag s; thr := upd (thr s) t Idle; wins := wins s; submits_after := submits_after s |}
      | _, _ => None
      end
  end.

Definition holds (p : pc) : bool := match p with EIn | ERaise | HWon | HLost => true | _ => false end.

Record Inv (s : st) : Prop := {
  i_gate : forall t, gate s = Some t <-> holds (thr s t) = true;
  i_wins : wins s = (if flag s then 1 else 0);
  i_after : submits_after s = 0
}.

Lemma inv_init : Inv init.
Proof. constructor; simpl; auto. intros t; split; intros H; discriminate. Qed.

Lemma inv_step s e s' : Inv s -> step s e = Some s' -> Inv s'.
Proof.
  intros [Ig Iw Ia] H. destruct e as [t|t|t|t code]; simpl in H.
  - destruct (thr s t) eqn:E; try discriminate. inversion H; subst; clear H. constructor; simpl; auto.
    intros u. unfold upd. destruct (Nat.eqb u t) eqn:Eu.
    + apply Nat.eqb_eq in Eu; subst. split; [intros G; apply Ig in G; rewrite E in G; discriminate|discriminate].
    + apply Ig.
  - destruct (thr s t) eqn:E; try discriminate. inversion H; subst; clear H. constructor; simpl; auto.
    intros u. unfold upd. destruct (Nat.eqb u t) eqn:Eu.
    + apply Nat.eqb_eq in Eu; subst. split; [intros G; apply Ig in G; rewrite E in G; discriminate|discriminate].
    + apply Ig.
  - destruct (gate s) eqn:G; try discriminate. destruct (thr s t) eqn:E; try discriminate; inversion H; subst; clear H.
    + constructor; simpl; auto.
      * intros u. unfold upd. destruct (Nat.eqb u t) eqn:Eu.
        -- apply Nat.eqb_eq in Eu; subst. split; auto. intros _. destruct (flag s); reflexivity.
        -- apply Nat.eqb_neq in Eu. split; [intros X; inversion X; congruence|].
           intros X. apply Ig in X. congruence.
      * rewrite Ia, Iw. destruct (flag s); reflexivity.
    + constructor; simpl; auto.
      * intros u. unfold upd. destruct (Nat.eqb u t) eqn:Eu.
        -- apply Nat.eqb_eq in Eu; subst. split; auto. intros _. destruct (flag s); reflexivity.
        -- apply Nat.eqb_neq in Eu. split; [intros X; inversion X; congruence|].
           intros X. apply Ig in X. congruence.
      * rewrite Iw. destruct (flag s); reflexivity.
  - assert (G : holds (thr s t) = true -> gate s = Some t) by apply Ig.
    assert (R : forall s1, s1 = {| gate := None; flag := flag s; thr := upd (thr s) t Idle; wins := wins s; submits_after := submits_after s |} ->
                holds (thr s t) = true -> Inv s1).
    { intros s1 -> Hh. constructor; simpl; auto. intros u. split; [discriminate|].
      unfold upd. destruct (Nat.eqb u t) eqn:Eu; [discriminate|]. apply Nat.eqb_neq in Eu.
      intros X. apply Ig in X. rewrite (G Hh) in X. inversion X; congruence. }
    destruct (thr s t) eqn:E; try discriminate;
      destruct code as [|[|[|[|c]]]]; try discriminate; inversion H; subst; apply (R _ eq_refl); reflexivity.
Qed.

Theorem reachable_inv s : reachable_from step init s -> Inv s.
Proof. apply invariant_rule; [apply inv_init|intros; eapply inv_step; eauto]. Qed.

(* exactly the first shutdown() gets True; every later one gets False (idempotent) *)
Theorem gate_first_shutdown_wins s : reachable_from step init s -> wins s <= 1 /\ (flag s = true <-> wins s = 1).
Proof. intros R. destruct (reachable_inv s R) as [_ Iw _]. rewrite Iw. destruct (flag s); split; try lia; split; auto; discriminate. Qed.

(* once the flag is set every submit that takes the gate raises; none ever gets in afterwards *)
Theorem gate_submit_after_shutdown_raises s t s' : reachable_from step init s -> flag s = true ->
  thr s t = E0 -> step s (Acq t) = Some s' -> thr s' t = ERaise.
Proof.
  intros _ Hf Ht H. simpl in H. rewrite Ht in H. destruct (gate s); [discriminate|].
  inversion H; subst; simpl. rewrite upd_same, Hf. reflexivity.
Qed.
Theorem gate_no_submit_enters_after_win s : reachable_from step init s -> submits_after s = 0.
Proof. intros R. apply (reachable_inv s R). Qed.

(* the flag flips while nobody is inside a guarded submit section: a racing submit is entirely
   before the flip (it returns its future) or entirely after (it raises) *)
Theorem gate_mutual_exclusion s t u : reachable_from step init s ->
  holds (thr s t) = true -> holds (thr s u) = true -> t = u.
Proof.
  intros R Ht Hu. destruct (reachable_inv s R) as [Ig _ _].
  apply Ig in Ht. apply Ig in Hu. congruence.
Qed.

(* shutdown propagates down a chain: n nested layers call delegate.shutdown once each *)
Fixpoint shutdown_calls (depth : nat) (already : nat -> bool) (k : nat) : list nat :=
  match depth with
  | O => []
  | S d => if already k then [] else k :: shutdown_calls d already (S k)
  end.
Lemma shutdown_calls_fresh depth k : shutdown_calls depth (fun _ => false) k = seq k depth.
Proof. revert k; induction depth as [|d IH]; intros k; simpl; [reflexivity|]. rewrite IH. reflexivity. Qed.

(* ---- wire format + verdict for the correspondence runner (harness/p_c11g.py) ------------------ *)
Local Open Scope Z_scope.
Definition zn (z : Z) : nat := Z.to_nat z.
Definition decode (l : list Z) : option ev :=
  match l with
  | [0; t] => Some (CallSubmit (zn t))
  | [1; t] => Some (CallShutdown (zn t))
  | [2; t] => Some (Acq (zn t))
  | [3; t; c] => Some (Rel (zn t) (zn c))
  | _ => None
  end.
Fixpoint decode_all (ls : list (list Z)) : option (list ev) :=
  match ls with
  | [] => Some []
  | l :: r => match decode l, decode_all r with Some e, Some es => Some (e :: es) | _, _ => None end
  end.
Definition accept (ls : list (list Z)) : list Z :=
  match decode_all ls with
  | None => [-2]
  | Some es => match first_reject step init es 0 with None => [-1] | Some i => [Z.of_nat i] end
  end.
