(* Generic correspondence driver: each stdin line is
     <machine> i i i ; i i ; ...
   i.e. a list of integer lists; prints the machine's verdict (a list of integers) on one line. *)
open BinNums
let rec pos_of_int n = if n = 1 then Coq_xH else if n land 1 = 0 then Coq_xO (pos_of_int (n lsr 1)) else Coq_xI (pos_of_int (n lsr 1))
let z_of_int n = if n = 0 then Z0 else if n > 0 then Zpos (pos_of_int n) else Zneg (pos_of_int (-n))
let rec int_of_pos = function Coq_xH -> 1 | Coq_xO p -> 2 * int_of_pos p | Coq_xI p -> 2 * int_of_pos p + 1
let int_of_z = function Z0 -> 0 | Zpos p -> int_of_pos p | Zneg p -> - (int_of_pos p)
let parse toks =
  let rec go cur acc = function
    | [] -> Stdlib.List.rev (if cur = [] then acc else Stdlib.List.rev cur :: acc)
    | ";" :: r -> go [] (Stdlib.List.rev cur :: acc) r
    | "" :: r -> go cur acc r
    | t :: r -> go (z_of_int (int_of_string t) :: cur) acc r in
  go [] [] toks
let () =
  try
    while true do
      let line = input_line stdin in
      match Stdlib.String.split_on_char ' ' line with
      | [] | [""] -> print_endline ""
      | m :: toks ->
        let f = try Stdlib.List.assoc m Machines.table with Not_found -> failwith ("unknown machine " ^ m) in
        let out = f (parse toks) in
        print_endline (Stdlib.String.concat " " (Stdlib.List.map (fun z -> string_of_int (int_of_z z)) out))
    done
  with End_of_file -> ()
