(* Extraction of the executable models for the correspondence runner.
   Directives used: exactly those of ExtrOcamlBasic (bool, option, unit, list, prod, sumbool, sumor,
   andb, orb); nat, positive, Z, Q stay extracted inductive datatypes. *)
From Coq Require Extraction ExtrOcamlBasic.
From ME Require Import Model.Cos Model.Retry Model.RetryKernel Model.MapFut Model.Comb Model.Stack Model.Timeout Model.Throttle Model.Gate Model.Poll Model.Chain Model.QGauge Model.Refs Model.ExecGauge.
Extraction Language OCaml.
Set Extraction AccessOpaque.
Separate Extraction Cos.accept Retry.accept RetryKernel.run_line MapFut.accept Comb.accept Stack.run_line Timeout.accept Throttle.accept Gate.accept Poll.accept Chain.accept QGauge.accept Refs.accept ExecGauge.accept.
