#!/bin/sh
# builds coq/Extract/runner from the .ml files Separate Extraction left in coq/
set -e
cd "$(dirname "$0")"
mkdir -p ml
if ls ../*.ml >/dev/null 2>&1; then
  rm -f ml/*
  mv ../*.ml ml/
  rm -f ../*.mli
fi
cp driver.ml Machines.ml ml/
cd ml
rm -f *.mli *.cmx *.cmi *.o
ORDER=$(ocamlfind ocamldep -sort *.ml)
ocamlfind ocamlopt -w -a -O2 -o ../runner $ORDER 2>/dev/null || ocamlfind ocamlopt -w -a -o ../runner $ORDER
