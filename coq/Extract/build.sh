#!/bin/sh
# builds coq/Extract/runner from the .ml files Separate Extraction left in coq/
set -e
cd "$(dirname "$0")"
rm -rf ml; mkdir -p ml
mv ../*.ml ../*.mli ml/ 2>/dev/null || true
cp driver.ml Machines.ml ml/
cd ml
rm -f *.mli
ORDER=$(ocamlfind ocamldep -sort *.ml)
ocamlfind ocamlopt -w -a -O2 -o ../runner $ORDER 2>/dev/null || ocamlfind ocamlopt -w -a -o ../runner $ORDER
