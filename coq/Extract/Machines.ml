let table = [
  "cos", Cos.accept;
]
