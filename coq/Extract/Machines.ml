let table = [
  "cos", Cos.accept;
  "retry", Retry.accept;
  "retry_kernel", RetryKernel.run_line;
  "mapfut", MapFut.accept;
  "comb", Comb.accept;
  "stack", Stack.run_line;
  "timeout", Timeout.accept;
  "throttle", Throttle.accept;
  "gate", Gate.accept;
  "poll", Poll.accept;
  "chain", Chain.accept;
  "qgauge", QGauge.accept;
  "refs", Refs.accept;
  "execgauge", ExecGauge.accept;
]
