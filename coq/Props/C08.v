(* C08 -- Poll: one poll at a time, exact descriptor set, first yield wins, prompt polls.
   Statements over every state reachable in Model/Poll.v and its ghost history (newest first).
   The vocabulary (alternating, descs_of, snaps_ok, outs_of, src, owed_of, veto_ok, ...) is defined
   next to the invariants in Proofs/Poll_Inv.v, Poll_Prov.v, Poll_Raise.v, Poll_Refute.v. *)
From Coq Require Import ZArith List Bool.
From ME Require Import Base.Machine Base.Fut Model.Poll
     Proofs.Poll_Inv Proofs.Poll_Prov Proofs.Poll_Raise Proofs.Poll_NoDup Proofs.Poll_Snap Proofs.Poll_Thms Proofs.Poll_Refute.
Import ListNotations.

Definition reach (s : st) : Prop := reachable_from step init s.

(* single_poller: the poll function is entered by the poll thread only, and its calls never overlap
   (a call begins only when no call is open, a call ends only when one is open). *)
Theorem c08_single_poller : forall s, reach s ->
  alternating (hist s) /\ (forall t l ts, In (HPoll t l ts) (hist s) -> t = poller).
Proof. exact single_poller_lemma. Qed.

(* descriptor_exact: the descriptor list is exactly "registered and not yet deregistered"
   (descs_of replays HReg / HDereg), every snapshot is the list of that moment and every poll call receives
   the latest snapshot (snaps_ok); every listed descriptor belongs to a future that was registered with
   that value, and that value is the successful result of its delegate. *)
Theorem c08_descriptor_exact : forall s, reach s ->
  descs s = descs_of (hist s) /\ snaps_ok (hist s) /\
  (forall j v, In (j, v) (descs s) -> regd (hist s) j v /\ dok (hist s) j v).
Proof. exact descriptor_exact_lemma. Qed.

(* descriptor_exact, none duplicated: a future is registered at most once, so neither the descriptor
   list nor any snapshot nor the argument of any poll call contains two descriptors of one future. *)
Theorem c08_descriptor_nodup : forall s, reach s ->
  NoDup (map fst (descs s)) /\
  (forall l ts, In (HSnap l ts) (hist s) -> NoDup (map fst l)) /\
  (forall t l ts, In (HPoll t l ts) (hist s) -> NoDup (map fst l)).
Proof. exact descriptor_nodup_lemma. Qed.

(* descriptor_exact_at_snapshot: relative to the moment the SNAPSHOT is taken the set is exact: a snapshot
   (hence the poll call that receives it) holds a descriptor (j, v), exactly once, iff (j, v) was registered
   before the snapshot and j was not deregistered between that registration and the snapshot
   (deregistration runs inside the resolving yield / cancel(), before that call returns). *)
Theorem c08_descriptor_exact_at_snapshot : forall s h1 l ts r, reach s ->
  hist s = h1 ++ HSnap l ts :: r ->
  (forall j v, In (j, v) l <-> live_in r j v) /\ NoDup (map fst l).
Proof. intros s h1 l ts r. exact (descriptor_exact_at_snapshot_lemma s h1 l ts r). Qed.

(* The strict reading ("relative to the moment the poll function is entered") is FALSE for the faithful
   model -- and for the library (known finding P2): witnesses are implementation histories (corpus/C08).
   1. snapshot window, missing: a still pending future whose delegate's completing call and whose
      submit() have returned is not in the list;
   2. snapshot window, stale: the list contains a future whose cancel() already returned True.
   (The third witness of earlier versions, the constructor race P1, is gone: fixed in /repo b826474 and the
   model follows the new constructor order.) *)
Theorem c08_descriptor_strict_refuted :
  (exists s, reach s /\ strict_missing s) /\
  (exists s, reach s /\ stale_after_cancel s).
Proof. exact (conj strict_missing_witness stale_after_cancel_witness). Qed.

(* first_yield_wins: a poll future is given an outcome at most once, pout is that outcome, it never
   changes afterwards (later yields are ignored), and it comes from a yield for that very future, from an
   exception of a poll call that had been shown the future, or from the failure of its delegate. *)
Theorem c08_first_yield_wins : forall s j, reach s ->
  outs_of j (hist s) = (match pout s j with Some o => [o] | None => [] end) /\
  (forall o ts, In (HSet j o ts) (hist s) -> src (hist s) j o).
Proof. intros s j. exact (set_once_lemma s j). Qed.

Theorem c08_first_yield_stable : forall s es s' j o, reach s ->
  run step s es = Some s' -> pout s j = Some o -> pout s' j = Some o.
Proof. exact pout_stable_lemma. Qed.

(* poll_raise_fails_shown: when the poll thread is about to wait after a poll call that raised e on the
   snapshot l, every future of l is done; together with first_yield_wins (src): a future failed by a
   raising poll call was in the snapshot shown to that call, so exactly the shown, still pending futures
   get e (the others keep the outcome they already had). *)
Theorem c08_poll_raise_fails_shown : forall s tau e l, reach s ->
  pmode s = PRest tau -> thr s poller = [] -> last_end (hist s) = Some (e, l) ->
  forall j, In j (map fst l) -> fdone (ps s j) = true.
Proof. exact raise_done_lemma. Qed.

(* prompt_poll: from a set() of the poll event (registration or notify()) until the next descriptor
   snapshot the virtual clock does not advance and the poll thread is never asleep un-notified. *)
Theorem c08_prompt_poll : forall s T, reach s -> owed_of (hist s) = Some T ->
  clock s = T /\ ~ (pmode s = PBlocked /\ wnotif s = false).
Proof. exact prompt_poll_lemma. Qed.

(* cancel_fn_scope: the cancel function is called only for a registered future, with the value of its
   descriptor, which is the successful result of its delegate; after a falsy answer or an exception of
   the cancel function that cancel() does not return True (veto_ok). *)
Theorem c08_cancel_fn_scope : forall s, reach s ->
  (forall t j v a ts, In (HCancelFn t j v a ts) (hist s) -> regd (hist s) j v /\ dok (hist s) j v) /\
  veto_ok (hist s).
Proof. exact cancel_fn_scope_lemma. Qed.

(* non-vacuity: a concrete accepted trace (an implementation history) with three poll calls, a
   registration, a successful cancel and the deregistration *)
Example c08_nonvacuous :
  let s := state_of w_cancel in
  accepted w_cancel = true /\ length (hist s) = 18 /\ descs s = [] /\ ps s 0 = CancelledNotified /\
  pmode s = PBody [(0, 100)].
Proof. exact poll_nonvacuous. Qed.

Print Assumptions c08_single_poller.
Print Assumptions c08_descriptor_exact.
Print Assumptions c08_descriptor_nodup.
Print Assumptions c08_descriptor_exact_at_snapshot.
Print Assumptions c08_descriptor_strict_refuted.
Print Assumptions c08_first_yield_wins.
Print Assumptions c08_first_yield_stable.
Print Assumptions c08_poll_raise_fails_shown.
Print Assumptions c08_prompt_poll.
Print Assumptions c08_cancel_fn_scope.
