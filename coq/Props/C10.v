(* C10 — Cancel-on-shutdown covers every future the executor ever accepted.
   Nothing but statements; proofs are in Proofs/Cos_Inv.v. *)
From Coq Require Import List Arith Bool.
From ME Require Import Base.Machine Base.Fut Model.Cos Proofs.Cos_Inv.
Import ListNotations.

Definition reachable := reachable_from step init.

(* When the shutdown() call that flipped the flag has returned: the wrapped executor has been shut
   down exactly once, and every delegate future ever created for this executor (including those of
   submits that raced with the shutdown) is done or has received exactly one cancel(); no future
   ever receives more than one. Any number of threads, calls, interleavings. *)
Theorem c10_cover_once : forall s, reachable s -> shut_ret s = true ->
  dshut s = 1 /\
  forall f, f < created s -> cancels s f <= 1 /\ (fdone (fs s f) = true \/ cancels s f = 1).
Proof. exact cos_cover_once. Qed.

Theorem c10_at_most_once : forall s, reachable s -> forall f, cancels s f <= 1.
Proof. exact cos_at_most_once. Qed.

Theorem c10_delegate_shutdown_at_most_once : forall s, reachable s -> dshut s <= 1.
Proof. exact cos_dshut_le1. Qed.

(* a submit that gets past the gate check did so before the flag flipped: once the flag is set
   no thread is between the check and the release of the gate ... *)
Definition past_check (p : pc) : bool :=
  match p with S1 | S2 | S3 _ | S4 _ | S5 _ => true | _ => false end.
Theorem c10_no_submit_in_flight_after_flag : forall s, reachable s -> flag s = true ->
  forall t, past_check (thr s t) = false.
Proof. exact cos_no_inflight_after_flag. Qed.

(* ... and a submit that takes the gate after the flag flipped raises *)
Theorem c10_submit_after_flag_raises : forall s t s', reachable s -> flag s = true ->
  thr s t = S0 -> step s (Acq t LG) = Some s' -> thr s' t = SRaise.
Proof. exact cos_submit_after_flag_raises. Qed.

(* every future a submit is about to return was created by this executor, hence is covered *)
Theorem c10_returned_future_covered : forall s, reachable s -> shut_ret s = true ->
  forall t f, thr s t = S6 f -> fdone (fs s f) = true \/ cancels s f = 1.
Proof. exact cos_returned_covered. Qed.

(* no deadlock inside the executor: whenever some call is in progress, some thread can take a step
   (lock order: gate before executor lock, on the repaired code) *)
Definition thread_event (e : ev) : bool :=
  match e with CallSubmit _ | CallShutdown _ | EnvRun _ _ | EnvFinish _ _ => false | _ => true end.
Theorem c10_no_deadlock : forall s, reachable s -> (exists t, thr s t <> Idle) ->
  exists e s', thread_event e = true /\ step s e = Some s'.
Proof. exact cos_no_deadlock. Qed.

(* non-vacuity: a concrete history reaches a state satisfying the hypotheses, with one future
   finished by the environment and one cancelled by the sweep *)
Example c10_nonvacuous : exists s, reachable s /\ shut_ret s = true /\ created s = 2 /\
  cancels s 1 = 1 /\ fs s 0 = Finished /\ fs s 1 = Cancelled.
Proof. exact cos_nonvacuous. Qed.

Print Assumptions c10_cover_once.
Print Assumptions c10_at_most_once.
Print Assumptions c10_delegate_shutdown_at_most_once.
Print Assumptions c10_no_submit_in_flight_after_flag.
Print Assumptions c10_submit_after_flag_raises.
Print Assumptions c10_returned_future_covered.
Print Assumptions c10_no_deadlock.
