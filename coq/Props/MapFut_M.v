(* C20 on the MapFuture/FlatMapFuture machine (Model/MapFut.v): the futures-in-progress gauge and the
   cancelled / failed counters of track_future, as a pure ghost.  c is the id of the tracking done-callback
   (record_done): track_future(f) does inprogress.inc() and registers it once (In c (mreg s j)); when it
   runs (HCb j c) it does inprogress.dec() and cancelled.inc() / failed.inc() according to the outcome.
     tracked s c          the futures j < nfut s with In c (mreg s j)
     ncb s c              number of events HCb _ c in hist s
     inprogress s c       Z.of_nat (length (tracked s c)) - Z.of_nat (ncb s c)
     pending_tracked s c  the tracked futures that are not done
     ncb_if P c l         number of events HCb j c in l with P j = true
     is_cancelled s j     fcancelled (ms s j);   is_failed s j   mout s j = Some (Err _)
   (definitions in Proofs/MapFut_M1.v) *)
From Coq Require Import List Bool Arith ZArith Lia.
From ME Require Import Base.Machine Base.Fut Model.MapFut Proofs.MapFut_InvD Proofs.MapFut_M1.
Import ListNotations.

Definition reachable := reachable_from step init.
Definition quiescent (s : st) := forall t, thr s t = [].

(* (i) the gauge is never negative *)
Theorem c20_inprogress_never_negative : forall s c, reachable s -> (0 <= inprogress s c)%Z.
Proof. exact mapfut_inprogress_never_negative. Qed.
(* (iii) in every reachable state the gauge is at least the number of tracked futures still pending
   (a tracking callback never runs before its future is done, and at most once) *)
Theorem c20_inprogress_lower_bound : forall s c, reachable s ->
  (Z.of_nat (length (pending_tracked s c)) <= inprogress s c)%Z.
Proof. exact mapfut_inprogress_lower_bound. Qed.
(* (ii) at quiescence the gauge is exactly the number of tracked futures still pending *)
Theorem c20_inprogress_at_quiescence : forall s c, reachable s -> quiescent s ->
  inprogress s c = Z.of_nat (length (pending_tracked s c)).
Proof. exact mapfut_inprogress_at_quiescence. Qed.
(* (iv) at quiescence, for ANY classification P of futures, the tracking callback ran on exactly the done
   tracked P-futures; in particular the cancelled and the failed counter *)
Theorem c20_counter_at_quiescence : forall s c (P : nat -> bool), reachable s -> quiescent s ->
  ncb_if P c (hist s) = length (filter P (done_tracked s c)).
Proof. exact mapfut_counter_at_quiescence. Qed.
Theorem c20_cancel_counter_at_quiescence : forall s c, reachable s -> quiescent s ->
  ncb_if (is_cancelled s) c (hist s) = length (filter (is_cancelled s) (tracked s c)).
Proof. exact mapfut_cancel_counter_at_quiescence. Qed.
Theorem c20_failed_counter_at_quiescence : forall s c, reachable s -> quiescent s ->
  ncb_if (is_failed s) c (hist s) = length (filter (is_failed s) (tracked s c)).
Proof. exact mapfut_failed_counter_at_quiescence. Qed.
(* the classification read when the callback ran is the final one: a cancelled future stays cancelled
   (c02_cancel_true_stays / lstep_canc_stable) and the outcome is set once (c02_terminal_once) *)

(* non-vacuity: two tracked futures (callback 9): future 0 over the finished delegate 7 is done and its
   tracking callback ran; future 1 over the pending delegate 8 is pending; the gauge reads 1 *)
Definition w_gauge : list ev :=
  [ECallNew 0 0 KMap false false 7; EAcqM 0 0; ERelM 0 0; EFE 0 5 7 Pending; ERet 0 0;
   ECallAddCb 0 0 9; EAcqM 0 0; EFM 0 1 0 Pending; ERelM 0 0; ERet 0 0;
   ECallNew 0 1 KMap false false 8; EAcqM 0 1; ERelM 0 1; EFE 0 5 8 Pending; ERet 0 0;
   ECallAddCb 0 1 9; EAcqM 0 1; EFM 0 1 1 Pending; ERelM 0 1; ERet 0 0;
   EEnvFinish 1 7 Pending (Ok 5); EAcqM 1 0; ERelM 1 0; EFE 1 0 7 Finished; EAcqM 1 0; EFM 1 4 0 Pending;
   ERelM 1 0; EUserCb 1 0 9 false].
Example c20_nonvacuous_gauge : exists s, run step init w_gauge = Some s /\ quiescent s /\
  tracked s 9 = [0; 1] /\ pending_tracked s 9 = [1] /\ ncb s 9 = 1 /\ inprogress s 9 = 1%Z /\
  ms s 0 = Finished /\ ms s 1 = Pending /\ In (HCb 0 9) (hist s).
Proof.
  eexists. split; [vm_compute; reflexivity|].
  repeat split; try (vm_compute; reflexivity).
  - intros t. cbv. repeat match goal with |- context [match ?x with _ => _ end] => destruct x end; reflexivity.
  - vm_compute. auto.
Qed.

Print Assumptions c20_inprogress_never_negative.
Print Assumptions c20_inprogress_lower_bound.
Print Assumptions c20_inprogress_at_quiescence.
Print Assumptions c20_counter_at_quiescence.
Print Assumptions c20_cancel_counter_at_quiescence.
Print Assumptions c20_failed_counter_at_quiescence.
Print Assumptions c20_nonvacuous_gauge.
