(* C03 (RetryExecutor part) -- no future is lost, and progress does not hinge on a fallback timer: statements
   about the Retry machine (Model/Retry.v).  Statements only.
   Vocabulary (Proofs/Retry_N0.v, Retry_N1.v, Retry_N6.v, Retry_N7.v, Retry_N14.v):
   - quiescent s tau since: every thread other than the submit thread (thread 0) has an empty program, the
     submit thread is parked in event.wait(tau) since `since` (wblock s = Some (tau, since)) and no set() has
     arrived since it parked (wnotif s = false).  The event flag is then clear (c03_retry_parked_flag_clear):
     evf need not be assumed.
   - stepG / initG: the machine with one ghost component g, the clock value at the worker's latest scan
     (`with executor._lock: job = executor._get_next_job()` at the top of _submit_loop).  stepG runs step and
     records the time of every scan; it accepts exactly the same traces and has exactly the same reachable
     states (c03_retry_ghost_conservative).  The ghost is needed because the timeout handed to wait() is
     `job.when - now` with `now` read at the scan: the state alone does not remember `now`.
   - envc s d: somebody else (not RetryFuture.cancel()) cancelled delegate future d: the machine's event
     EEnvCancel t d Pending (wire code 23) made its Pending -> Cancelled transition (ghost history event
     HEnvCancel d ts).
   - the record r of a retry future that is not done is, in a quiescent state, in one of three situations:
       inflight_ok s r        an attempt in flight: jdel = Some d, d < ndel, d not done, _delegate_callback registered;
       sleeping_ok s g tau since r   between retries (jdel = None) and the wait is TIMED: tau = Some x, 0 < x,
                              g <= since and g + x <= jwhen (recs s r) -- measured from the scan the wait ends no
                              later than the record is due; the worker wakes by itself, no fallback timeout is
                              involved (the machine has none);
       foreign_cancelled s r  jdel = Some d, d < ndel, d cancelled, envc s d: the known defect G1 --
                              _delegate_callback returned silently, the record stays, nobody will resolve the future;
     waiting_ok s g tau since r is their disjunction, xor3 A B C says exactly one of them holds.
   - no_cancel_of j es: the continuation es contains no call of cancel() on retry future j. *)
From Coq Require Import List ZArith Bool Arith.
From ME Require Import Base.Machine Base.Fut Base.GenPrelude Gen.RetryGen Model.Retry
  Proofs.Retry_N0 Proofs.Retry_N1 Proofs.Retry_N5 Proofs.Retry_N6 Proofs.Retry_N7 Proofs.Retry_N8 Proofs.Retry_N9 Proofs.Retry_N12
  Proofs.Retry_N10 Proofs.Retry_N14 Proofs.Retry_N15 Proofs.Retry_N17.
Import ListNotations.

Definition reachable := reachable_from step init.
Definition reachableG := reachable_from stepG initG.

(* the ghost component is conservative *)
Theorem c03_retry_ghost_conservative :
  (forall s g, reachableG (s, g) -> reachable s) /\ (forall s, reachable s -> exists g, reachableG (s, g)).
Proof. split; [exact reachG_proj|exact reachG_lift]. Qed.

(* a parked, un-notified worker sees a cleared flag: set() while parked always leaves wnotif = true *)
Theorem c03_retry_parked_flag_clear : forall s tau since, reachable s ->
  wblock s = Some (tau, since) -> wnotif s = false -> evf s = false.
Proof. exact parked_flag_clear. Qed.

(* (a) in a quiescent state every retry future that is not done has a record in _jobs that is legitimately waiting
   -- attempt in flight with the callback registered, or sleeping with a timed worker wait that ends (measured from
   the scan, time g) no later than the record is due -- OR whose delegate future was cancelled by somebody else
   (third alternative of waiting_ok; it did not exist before the machine had EEnvCancel, see
   c03_retry_no_lost_two_way_refuted) *)
Theorem c03_retry_no_lost_scan_time : forall s g tau since, reachableG (s, g) -> quiescent s tau since ->
  evf s = false /\
  forall j, j < nfut s -> fdone (rs s j) = false ->
  exists r, In r (jobs s) /\ jf (recs s r) = j /\ waiting_ok s g tau since r.
Proof. exact retry_no_lost_G. Qed.

(* the same over the original machine: the scan time exists *)
Theorem c03_retry_no_lost : forall s tau since, reachable s -> quiescent s tau since ->
  evf s = false /\
  forall j, j < nfut s -> fdone (rs s j) = false ->
  exists r, In r (jobs s) /\ jf (recs s r) = j /\ exists g, waiting_ok s g tau since r.
Proof. exact retry_no_lost. Qed.

(* the three-way form: a pending future at quiescence has EXACTLY ONE record in _jobs, and that record is in exactly
   one of the situations: in flight (delegate not done, callback registered) XOR sleeping under a timed wait XOR in
   flight on a delegate future cancelled through EEnvCancel *)
Theorem c03_retry_no_lost_three_way : forall s tau since, reachable s -> quiescent s tau since ->
  forall j, j < nfut s -> fdone (rs s j) = false ->
  exists r, In r (jobs s) /\ jf (recs s r) = j /\
    (forall r', In r' (jobs s) -> jf (recs s r') = j -> r' = r) /\
    exists g, xor3 (inflight_ok s r) (sleeping_ok s g tau since r) (foreign_cancelled s r).
Proof. exact retry_no_lost_3. Qed.

(* the weaker three-way reading stated before the machine had EEnvCancel (still true: it is implied) *)
Theorem c03_retry_no_lost_three_way_weak : forall s tau since, reachable s -> quiescent s tau since ->
  forall j, j < nfut s -> fdone (rs s j) = false ->
  exists r, In r (jobs s) /\ jf (recs s r) = j /\
    ((exists d, jdel (recs s r) = Some d /\ fdone (ds s d) = false /\ dcb s d = true) \/
     (jdel (recs s r) = None /\ exists x, tau = Some x /\ (0 < x)%Z) \/
     (exists d, jdel (recs s r) = Some d /\ fcancelled (ds s d) = true)).
Proof. exact retry_no_lost_3_weak. Qed.

(* the TWO-way reading (the property as stated: every pending future is in flight or sleeping under a timed wait) is
   FALSE of the machine with EEnvCancel: in the state exl_state below the only record of the pending future 0 is in
   neither situation *)
Theorem c03_retry_no_lost_two_way_refuted :
  exists s tau since j, reachable s /\ quiescent s tau since /\ j < nfut s /\ fdone (rs s j) = false /\
    forall r, In r (jobs s) -> jf (recs s r) = j -> forall g, ~ (inflight_ok s r \/ sleeping_ok s g tau since r).
Proof. exact exl_two_way_refuted. Qed.

(* (b) retry_lost_after_foreign_cancel: "the dependent future ends cancelled or failed rather than pending forever"
   is REFUTED by a concrete accepted trace (G1) -- submit, the worker submits the first attempt and parks, an
   environment thread calls cancel() on the delegate future (EEnvCancel 2 0 Pending, wire [1; 23; 2; 0; 0]),
   _delegate_callback runs inline and returns silently: a reachable quiescent state in which the delegate future
   is cancelled, the retry future is Pending without outcome, its record is still in _jobs in flight on the
   cancelled delegate future, and the worker waits WITHOUT timeout *)
Example c03_retry_lost_after_foreign_cancel_refuted :
  run step init exl_trace <> None /\ reachable exl_state /\ quiescent exl_state None 0%Z /\
  nfut exl_state = 1 /\ rs exl_state 0 = Pending /\ rout exl_state 0 = None /\ jobs exl_state = [1] /\
  jf (recs exl_state 1) = 0 /\ jdel (recs exl_state 1) = Some 0 /\ ds exl_state 0 = Cancelled /\
  dcb exl_state 0 = true /\ In (HEnvCancel 0 1%Z) (hist exl_state) /\
  evf exl_state = false /\ wblock exl_state = Some (None, 0%Z) /\ wnotif exl_state = false.
Proof. split; [exact exl_accepted|]. split; [exact exl_reachable|]. split; [exact exl_quiescent|exact exl_facts]. Qed.

(* later (the delegate executor discards the cancelled future, another submit() is served and finishes, time 5):
   future 0 is still Pending, its record still queued *)
Example c03_retry_lost_later_example :
  run step init exl_later_trace <> None /\
  clock exl_later_state = 5%Z /\ rs exl_later_state 0 = Pending /\ rs exl_later_state 1 = Finished /\
  jobs exl_later_state = [1] /\ ds exl_later_state 0 = CancelledNotified /\ wblock exl_later_state = Some (None, 5%Z).
Proof. split; [exact exl_later_accepted|exact exl_later_facts]. Qed.

(* ... and for ever: from a reachable quiescent state in which the record r of a pending retry future j is in flight
   on a cancelled delegate future d, along EVERY continuation that contains no call of cancel() on j itself
   (whatever clients, environment, policy, worker and clock do), j stays pending and r stays in _jobs in flight
   on the cancelled d.  no_cancel_of j es := forall e, In e es -> forall t, snd e <> ECallCancel t j. *)
Theorem c03_retry_lost_for_ever : forall s tau since j r d es s', reachable s -> quiescent s tau since ->
  j < nfut s -> fdone (rs s j) = false -> In r (jobs s) -> jf (recs s r) = j -> jdel (recs s r) = Some d ->
  fcancelled (ds s d) = true ->
  run step s es = Some s' -> no_cancel_of j es ->
  fdone (rs s' j) = false /\
  In r (jobs s') /\ jf (recs s' r) = j /\ jdel (recs s' r) = Some d /\ fcancelled (ds s' d) = true.
Proof. exact retry_lost_for_ever. Qed.

(* one-step form (any state in which no thread works on j, not only quiescent ones): lost s j r d is kept by every
   step other than a call of cancel() on j *)
Theorem c03_retry_lost_stable : forall s te s' j r d, reachable s -> j < nfut s -> lost s j r d ->
  step s te = Some s' -> (forall t, snd te <> ECallCancel t j) -> lost s' j r d /\ fdone (rs s' j) = false.
Proof. exact retry_lost_stable. Qed.

(* the hypothesis no_cancel_of is needed: cancel() on the lost retry future does resolve it (delegate_future.cancel()
   answers True for the already cancelled future, the job is popped, the retry future is cancelled) *)
Example c03_retry_lost_then_cancel_example :
  run step init exl_cancel_trace <> None /\
  rs exl_cancel_state 0 = CancelledNotified /\ jobs exl_cancel_state = [] /\ ds exl_cancel_state 0 = Cancelled /\
  In (HCancelRet 0 true 2%Z) (hist exl_cancel_state).
Proof. split; [exact exl_cancel_accepted|exact exl_cancel_facts]. Qed.

(* what remains of "a cancelled delegate future belongs to a done retry future" at quiescence: the retry future is
   done, or the delegate future was cancelled by somebody else *)
Theorem c03_retry_cancelled_delegate_resolved : forall s tau since, reachable s -> quiescent s tau since ->
  forall d, d < ndel s -> fcancelled (ds s d) = true -> fdone (rs s (dfor s d)) = true \/ envc s d.
Proof. exact retry_cancelled_delegate_resolved. Qed.

(* the statement without the second alternative (true before the machine had EEnvCancel) is false now *)
Theorem c03_retry_cancelled_delegate_resolved_old_refuted :
  exists s tau since d, reachable s /\ quiescent s tau since /\ d < ndel s /\
    fcancelled (ds s d) = true /\ fdone (rs s (dfor s d)) = false.
Proof. exact exl_cancelled_delegate_unresolved. Qed.

(* for comparison, RetryFuture.cancel() on a future whose attempt is pending in the delegate executor: the library
   cancels the delegate future itself, pops the record and cancels the retry future *)
Example c03_retry_cancel_example :
  run step init exc_trace <> None /\ reachable exc_state /\ quiescent exc_state None 0%Z /\
  ds exc_state 0 = Cancelled /\ dfor exc_state 0 = 0 /\ rs exc_state 0 = CancelledNotified /\ jobs exc_state = [].
Proof. split; [exact exc_accepted|]. split; [exact exc_reachable|]. split; [exact exc_quiescent|exact exc_facts]. Qed.

(* (d) non-vacuity of (a): a reachable quiescent state with future 0 finished (no record left), future 1 with an
   attempt in flight (record 3, delegate future 1 pending, callback registered) and future 2 sleeping between
   retries (record 6, due at 14) under a timed worker wait: scan at 5, timeout 9, parked at 6 *)
Example c03_retry_nonvacuous :
  run step init ex3_trace <> None /\ reachable ex3_state /\ reachableG (ex3_state, 5%Z) /\
  quiescent ex3_state (Some 9%Z) 6%Z /\
  nfut ex3_state = 3 /\ jobs ex3_state = [3; 6] /\
  rs ex3_state 0 = Finished /\ rs ex3_state 1 = Pending /\ rs ex3_state 2 = Pending /\
  jf (recs ex3_state 3) = 1 /\ jdel (recs ex3_state 3) = Some 1 /\ ds ex3_state 1 = Pending /\ dcb ex3_state 1 = true /\
  jf (recs ex3_state 6) = 2 /\ jdel (recs ex3_state 6) = None /\ jwhen (recs ex3_state 6) = 14%Z /\
  evf ex3_state = false /\ wblock ex3_state = Some (Some 9%Z, 6%Z) /\ wnotif ex3_state = false.
Proof.
  split; [exact ex3_accepted|]. split; [exact ex3_reachable|]. split; [exact ex3_reachableG|].
  split; [exact ex3_quiescent|exact ex3_facts].
Qed.

(* the literal timing clause "since + tau <= when" is false in the model: in the state above the wait was
   entered at 6 with the timeout 9 computed at the scan (time 5), so it ends at 15 > 14.  The lateness is
   exactly the time between the scan and the wait() call; that is why (a) measures from the scan. *)
Example c03_retry_literal_timing_refuted :
  exists s r tau since x, reachable s /\ quiescent s tau since /\ In r (jobs s) /\ jdel (recs s r) = None /\
    tau = Some x /\ ~ (since + x <= jwhen (recs s r))%Z.
Proof. exact ex3_literal_refuted. Qed.

(* the record found by (a) is the only record of its future in _jobs (any reachable state) *)
Theorem c03_retry_one_record : forall s, reachable s -> forall r1 r2, In r1 (jobs s) -> In r2 (jobs s) ->
  jf (recs s r1) = jf (recs s r2) -> fdone (rs s (jf (recs s r1))) = false -> r1 = r2.
Proof. exact retry_one_record. Qed.

(* (c), partial: a FINISHED future keeps no idle (between-retries) record in _jobs, in any reachable state *)
Theorem c03_retry_finished_no_idle_job : forall s, reachable s -> forall j, rs s j = Finished ->
  forall r, In r (jobs s) -> jf (recs s r) = j -> jdel (recs s r) <> None.
Proof. exact retry_finished_no_idle_job. Qed.

(* (a) strengthened, from the side of the records: in a quiescent state EVERY in-flight record in _jobs belongs to a
   retry future that is not done, and it is legitimate -- its delegate future is not done and _delegate_callback is
   registered on it -- or its delegate future was cancelled by somebody else *)
Theorem c03_retry_inflight_at_quiescence : forall s tau since, reachable s -> quiescent s tau since ->
  forall r d, In r (jobs s) -> jdel (recs s r) = Some d ->
  d < ndel s /\ fdone (rs s (jf (recs s r))) = false /\
  ((fdone (ds s d) = false /\ dcb s d = true) \/ (fcancelled (ds s d) = true /\ envc s d)).
Proof. exact retry_inflight_at_quiescence2. Qed.

(* the statement without the second alternative (true before the machine had EEnvCancel) is false now *)
Theorem c03_retry_inflight_at_quiescence_old_refuted :
  exists s tau since r d, reachable s /\ quiescent s tau since /\ In r (jobs s) /\
    jdel (recs s r) = Some d /\ fdone (ds s d) = true.
Proof. exact exl_inflight_done. Qed.

(* (c) for FINISHED futures, any reachable state: a record of a finished future that is still in _jobs is the in-flight
   record of the delegate future whose outcome the retry future got (the finalising thread pops it right after
   set_result / set_exception) *)
Theorem c03_retry_finished_job_is_last : forall s, reachable s -> forall r, In r (jobs s) ->
  rs s (jf (recs s r)) = Finished -> exists d, jdel (recs s r) = Some d /\ ds s d = Finished.
Proof. exact retry_finished_job_is_last. Qed.

(* (c) for CANCELLED futures, any reachable state: a record of a cancelled future that is still in _jobs is about to
   be popped -- some thread's program will certainly execute _pop_job on it (wpop, Proofs/Retry_N10.v).  The cancel
   paths of the repaired code pop the job (G7/G19): executor._cancel removes an idle job before super().cancel(),
   and pops the in-flight job after delegate_future.cancel() answered True *)
Theorem c03_retry_cancelled_job_popped : forall s, reachable s -> forall r, In r (jobs s) ->
  fcancelled (rs s (jf (recs s r))) = true -> exists c, wpop r false (thr s c) = true.
Proof. exact retry_cancelled_job_popped. Qed.

(* (c), FULL -- retry_done_has_no_job: in every reachable quiescent state no record at all of a DONE future is left
   in _jobs.  (With c03_retry_no_lost_three_way: the records in _jobs of a quiescent state are exactly the records of
   the futures that are not done, one each.) *)
Theorem c03_retry_done_has_no_job : forall s tau since, reachable s -> quiescent s tau since ->
  forall r, In r (jobs s) -> fdone (rs s (jf (recs s r))) = false.
Proof. exact retry_done_has_no_job. Qed.

Theorem c03_retry_finished_has_no_job : forall s tau since, reachable s -> quiescent s tau since ->
  forall r, In r (jobs s) -> rs s (jf (recs s r)) <> Finished.
Proof. exact retry_finished_has_no_job. Qed.

(* the residue statement of the earlier development ("the only record a done future could still own in a quiescent
   state is an idle record of a CANCELLED future"): kept; its premise is now known to be impossible *)
Theorem c03_retry_done_job_residue : forall s tau since, reachable s -> quiescent s tau since ->
  forall r, In r (jobs s) -> fdone (rs s (jf (recs s r))) = true ->
  jdel (recs s r) = None /\ fcancelled (rs s (jf (recs s r))) = true.
Proof. exact retry_done_job_residue_orig. Qed.

(* non-vacuity of c03_retry_done_has_no_job: exc_state (c03_retry_cancel_example) is a reachable quiescent state with
   a cancelled future and an empty _jobs; ex3_state (c03_retry_nonvacuous) one with a finished future whose record is
   gone while the records 3 and 6 of the pending futures 1 and 2 are queued *)

Print Assumptions c03_retry_ghost_conservative.
Print Assumptions c03_retry_parked_flag_clear.
Print Assumptions c03_retry_no_lost_scan_time.
Print Assumptions c03_retry_no_lost.
Print Assumptions c03_retry_no_lost_three_way.
Print Assumptions c03_retry_no_lost_three_way_weak.
Print Assumptions c03_retry_no_lost_two_way_refuted.
Print Assumptions c03_retry_lost_after_foreign_cancel_refuted.
Print Assumptions c03_retry_lost_later_example.
Print Assumptions c03_retry_lost_for_ever.
Print Assumptions c03_retry_lost_stable.
Print Assumptions c03_retry_lost_then_cancel_example.
Print Assumptions c03_retry_cancelled_delegate_resolved.
Print Assumptions c03_retry_cancelled_delegate_resolved_old_refuted.
Print Assumptions c03_retry_one_record.
Print Assumptions c03_retry_finished_no_idle_job.
Print Assumptions c03_retry_inflight_at_quiescence.
Print Assumptions c03_retry_inflight_at_quiescence_old_refuted.
Print Assumptions c03_retry_finished_job_is_last.
Print Assumptions c03_retry_cancelled_job_popped.
Print Assumptions c03_retry_done_has_no_job.
Print Assumptions c03_retry_finished_has_no_job.
Print Assumptions c03_retry_done_job_residue.
Print Assumptions c03_retry_cancel_example.
Print Assumptions c03_retry_nonvacuous.
Print Assumptions c03_retry_literal_timing_refuted.
