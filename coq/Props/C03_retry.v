(* C03 (RetryExecutor part) -- no future is lost, and progress does not hinge on a fallback timer: statements
   about the Retry machine (Model/Retry.v).  Statements only.
   Vocabulary (Proofs/Retry_N0.v, Retry_N6.v, Retry_N7.v):
   - quiescent s tau since: every thread other than the submit thread (thread 0) has an empty program, the
     submit thread is parked in event.wait(tau) since `since` (wblock s = Some (tau, since)) and no set() has
     arrived since it parked (wnotif s = false).  The event flag is then clear (c03_retry_parked_flag_clear):
     evf need not be assumed.
   - stepG / initG: the machine with one ghost component g, the clock value at the worker's latest scan
     (`with executor._lock: job = executor._get_next_job()` at the top of _submit_loop).  stepG runs step and
     records the time of every scan; it accepts exactly the same traces and has exactly the same reachable
     states (c03_retry_ghost_conservative).  The ghost is needed because the timeout handed to wait() is
     `job.when - now` with `now` read at the scan: the state alone does not remember `now`.
   - waiting_ok s g tau since r: record r either has an attempt in flight (jdel = Some d, d < ndel, d not done,
     _delegate_callback registered on d) or sleeps between retries (jdel = None) and the wait is TIMED:
     tau = Some x, 0 < x, g <= since and g + x <= jwhen (recs s r) -- measured from the scan the wait ends no
     later than the record is due; the worker wakes by itself, no fallback timeout is involved (the machine
     has none).  *)
From Coq Require Import List ZArith Bool Arith.
From ME Require Import Base.Machine Base.Fut Base.GenPrelude Gen.RetryGen Model.Retry
  Proofs.Retry_N0 Proofs.Retry_N5 Proofs.Retry_N6 Proofs.Retry_N7 Proofs.Retry_N8 Proofs.Retry_N9 Proofs.Retry_N12.
Import ListNotations.

Definition reachable := reachable_from step init.
Definition reachableG := reachable_from stepG initG.

(* the ghost component is conservative *)
Theorem c03_retry_ghost_conservative :
  (forall s g, reachableG (s, g) -> reachable s) /\ (forall s, reachable s -> exists g, reachableG (s, g)).
Proof. split; [exact reachG_proj|exact reachG_lift]. Qed.

(* a parked, un-notified worker sees a cleared flag: set() while parked always leaves wnotif = true *)
Theorem c03_retry_parked_flag_clear : forall s tau since, reachable s ->
  wblock s = Some (tau, since) -> wnotif s = false -> evf s = false.
Proof. exact parked_flag_clear. Qed.

(* (a) no future is lost: in a quiescent state every retry future that is not done has a record in _jobs
   that is legitimately waiting -- attempt in flight with the callback registered, or sleeping with a
   timed worker wait that ends (measured from the scan, time g) no later than the record is due *)
Theorem c03_retry_no_lost_scan_time : forall s g tau since, reachableG (s, g) -> quiescent s tau since ->
  evf s = false /\
  forall j, j < nfut s -> fdone (rs s j) = false ->
  exists r, In r (jobs s) /\ jf (recs s r) = j /\ waiting_ok s g tau since r.
Proof. exact retry_no_lost_G. Qed.

(* the same over the original machine: the scan time exists *)
Theorem c03_retry_no_lost : forall s tau since, reachable s -> quiescent s tau since ->
  evf s = false /\
  forall j, j < nfut s -> fdone (rs s j) = false ->
  exists r, In r (jobs s) /\ jf (recs s r) = j /\ exists g, waiting_ok s g tau since r.
Proof. exact retry_no_lost. Qed.

(* the three-way reading of the property (in flight / sleeping with a timed wait / delegate future cancelled
   by somebody else); the third alternative never arises in this machine, see below *)
Theorem c03_retry_no_lost_three_way : forall s tau since, reachable s -> quiescent s tau since ->
  forall j, j < nfut s -> fdone (rs s j) = false ->
  exists r, In r (jobs s) /\ jf (recs s r) = j /\
    ((exists d, jdel (recs s r) = Some d /\ fdone (ds s d) = false /\ dcb s d = true) \/
     (jdel (recs s r) = None /\ exists x, tau = Some x /\ (0 < x)%Z) \/
     (exists d, jdel (recs s r) = Some d /\ fcancelled (ds s d) = true)).
Proof. exact retry_no_lost_3. Qed.

(* (b) -- NOT refuted here.  Model/Retry.v has no event by which the environment cancels a delegate future
   (the environment only runs / starts / finishes them: EEnvRun, EEnvStart, EEnvFinish; Future.cancel() on a
   delegate future is only issued by RetryFuture.cancel() through IDCancel).  Within the machine the
   literal property therefore HOLDS: at quiescence the retry future of a cancelled delegate future is done
   (cancelled), and in the example below its record is gone.  The known defect G1 (_delegate_callback returns silently
   for a delegate future cancelled by someone else) needs an environment-cancel event in the model. *)
(* TODO-PROOF retry_lost_after_foreign_cancel_refuted: needs `EEnvCancel t d pre` in Model/Retry.v *)
Theorem c03_retry_cancelled_delegate_resolved : forall s tau since, reachable s -> quiescent s tau since ->
  forall d, d < ndel s -> fcancelled (ds s d) = true -> fdone (rs s (dfor s d)) = true.
Proof. exact retry_cancelled_delegate_resolved. Qed.

Example c03_retry_cancel_example :
  run step init exc_trace <> None /\ reachable exc_state /\ quiescent exc_state None 0%Z /\
  ds exc_state 0 = Cancelled /\ dfor exc_state 0 = 0 /\ rs exc_state 0 = CancelledNotified /\ jobs exc_state = [].
Proof. split; [exact exc_accepted|]. split; [exact exc_reachable|]. split; [exact exc_quiescent|exact exc_facts]. Qed.

(* (d) non-vacuity of (a): a reachable quiescent state with future 0 finished (no record left), future 1 with an
   attempt in flight (record 3, delegate future 1 pending, callback registered) and future 2 sleeping between
   retries (record 6, due at 14) under a timed worker wait: scan at 5, timeout 9, parked at 6 *)
Example c03_retry_nonvacuous :
  run step init ex3_trace <> None /\ reachable ex3_state /\ reachableG (ex3_state, 5%Z) /\
  quiescent ex3_state (Some 9%Z) 6%Z /\
  nfut ex3_state = 3 /\ jobs ex3_state = [3; 6] /\
  rs ex3_state 0 = Finished /\ rs ex3_state 1 = Pending /\ rs ex3_state 2 = Pending /\
  jf (recs ex3_state 3) = 1 /\ jdel (recs ex3_state 3) = Some 1 /\ ds ex3_state 1 = Pending /\ dcb ex3_state 1 = true /\
  jf (recs ex3_state 6) = 2 /\ jdel (recs ex3_state 6) = None /\ jwhen (recs ex3_state 6) = 14%Z /\
  evf ex3_state = false /\ wblock ex3_state = Some (Some 9%Z, 6%Z) /\ wnotif ex3_state = false.
Proof.
  split; [exact ex3_accepted|]. split; [exact ex3_reachable|]. split; [exact ex3_reachableG|].
  split; [exact ex3_quiescent|exact ex3_facts].
Qed.

(* the literal timing clause "since + tau <= when" is false in the model: in the state above the wait was
   entered at 6 with the timeout 9 computed at the scan (time 5), so it ends at 15 > 14.  The lateness is
   exactly the time between the scan and the wait() call; that is why (a) measures from the scan. *)
Example c03_retry_literal_timing_refuted :
  exists s r tau since x, reachable s /\ quiescent s tau since /\ In r (jobs s) /\ jdel (recs s r) = None /\
    tau = Some x /\ ~ (since + x <= jwhen (recs s r))%Z.
Proof. exact ex3_literal_refuted. Qed.

(* the record found by (a) is the only record of its future in _jobs (any reachable state) *)
Theorem c03_retry_one_record : forall s, reachable s -> forall r1 r2, In r1 (jobs s) -> In r2 (jobs s) ->
  jf (recs s r1) = jf (recs s r2) -> fdone (rs s (jf (recs s r1))) = false -> r1 = r2.
Proof. exact retry_one_record. Qed.

(* (c), partial: a FINISHED future keeps no idle (between-retries) record in _jobs, in any reachable state *)
Theorem c03_retry_finished_no_idle_job : forall s, reachable s -> forall j, rs s j = Finished ->
  forall r, In r (jobs s) -> jf (recs s r) = j -> jdel (recs s r) <> None.
Proof. exact retry_finished_no_idle_job. Qed.

(* (a) strengthened, from the side of the records: in a quiescent state EVERY in-flight record in _jobs is
   legitimate -- its delegate future is not done, _delegate_callback is registered on it, and its retry future is
   not done.  In particular no in-flight record of a done future is retained. *)
Theorem c03_retry_inflight_at_quiescence : forall s tau since, reachable s -> quiescent s tau since ->
  forall r d, In r (jobs s) -> jdel (recs s r) = Some d ->
  d < ndel s /\ fdone (ds s d) = false /\ dcb s d = true /\ fdone (rs s (jf (recs s r))) = false.
Proof. exact retry_inflight_at_quiescence. Qed.

(* (c), as far as proved: the only record a done future could still own in a quiescent state is an idle
   (between-retries) record of a CANCELLED future *)
Theorem c03_retry_done_job_residue : forall s tau since, reachable s -> quiescent s tau since ->
  forall r, In r (jobs s) -> fdone (rs s (jf (recs s r))) = true ->
  jdel (recs s r) = None /\ fcancelled (rs s (jf (recs s r))) = true.
Proof. exact retry_done_job_residue. Qed.

(* TODO-PROOF retry_done_has_no_job (c), full: in every reachable quiescent state no record at all of a done
   future is left in _jobs.  Remaining gap (see c03_retry_done_job_residue): an idle record of a cancelled
   future.  REPORT.md lists the invariants it needs. *)

Print Assumptions c03_retry_ghost_conservative.
Print Assumptions c03_retry_parked_flag_clear.
Print Assumptions c03_retry_no_lost_scan_time.
Print Assumptions c03_retry_no_lost.
Print Assumptions c03_retry_no_lost_three_way.
Print Assumptions c03_retry_cancelled_delegate_resolved.
Print Assumptions c03_retry_one_record.
Print Assumptions c03_retry_finished_no_idle_job.
Print Assumptions c03_retry_inflight_at_quiescence.
Print Assumptions c03_retry_done_job_residue.
Print Assumptions c03_retry_cancel_example.
Print Assumptions c03_retry_nonvacuous.
Print Assumptions c03_retry_literal_timing_refuted.
