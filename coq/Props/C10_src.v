(* C10 -- source facts.  The machines and monitors this property rests on were written against, and validated on,
   these definitions of /repo; tools/srcfacts.py regenerates their normal-form digests on every run (coq/Gen/Src_*.v).
   Statements only.  Written by `tools/srcfacts.py --props` from PROP_MODULES. *)
From Coq Require Import List String.
From ME Require Import Model.SrcExpected Gen.Src_cos Gen.Src_helpers Gen.Src_logwrap Gen.Src_metrics_null
  Proofs.Src_ok_cos Proofs.Src_ok_helpers Proofs.Src_ok_logwrap Proofs.Src_ok_metrics_null.

(* more_executors/_impl/cancel_on_shutdown.py *)
Theorem c10_source_cos : Src_cos.facts = expected_cos.
Proof. exact src_cos_ok. Qed.
(* more_executors/_impl/helpers.py *)
Theorem c10_source_helpers : Src_helpers.facts = expected_helpers.
Proof. exact src_helpers_ok. Qed.
(* more_executors/_impl/logwrap.py *)
Theorem c10_source_logwrap : Src_logwrap.facts = expected_logwrap.
Proof. exact src_logwrap_ok. Qed.
(* more_executors/_impl/metrics/null.py *)
Theorem c10_source_metrics_null : Src_metrics_null.facts = expected_metrics_null.
Proof. exact src_metrics_null_ok. Qed.

Print Assumptions c10_source_cos.
Print Assumptions c10_source_helpers.
Print Assumptions c10_source_logwrap.
Print Assumptions c10_source_metrics_null.
