(* C10 -- source facts.  The machines and monitors this property rests on were written against, and validated on,
   these definitions of /repo; tools/srcfacts.py regenerates their normal-form digests on every run (coq/Gen/Src_*.v).
   Statements only. *)
From Coq Require Import List String.
From ME Require Import Model.SrcExpected Gen.Src_cos Gen.Src_helpers
  Proofs.Src_ok_cos Proofs.Src_ok_helpers.

(* more_executors/_impl/cancel_on_shutdown.py *)
Theorem c10_source_cos : Src_cos.facts = expected_cos.
Proof. exact src_cos_ok. Qed.
(* more_executors/_impl/helpers.py *)
Theorem c10_source_helpers : Src_helpers.facts = expected_helpers.
Proof. exact src_helpers_ok. Qed.

Print Assumptions c10_source_cos.
Print Assumptions c10_source_helpers.
