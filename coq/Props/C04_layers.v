(* C04 across layers -- the composition of the per-layer lock orders.  Statements only.
   Model/Layers.v: layered lock programs (LAcq / LRel of a LOCAL lock of the current layer, LDown body = a call into
   the layer below made with the current layer's locks held, LUp body = a callback of the layer above), their
   flattening `flat K i p` to Model/Locks.v programs over the global numbering glob K i k = i*K + k, and the
   layer-local checker `wf_layers K i0 p`:
     - an acquisition is compared ONLY with the locks of its own layer that the thread holds: it re-acquires one of
       them or is strictly above all of them in the layer's local order (and is below the bound K);
     - releases are nested; the body of a call gives back the context it was entered with;
     - a downward call may be made with any locks held;
     - an upward call is made only while NO lock of the calling layer is held (and there is a layer above).
   Model/LayerShapes.v: the library's call shapes, written from the code.
   Proofs: Proofs/Layers_{Exec,Wf,Deadlock,Refute,Solo,Instances}.v. *)
From Coq Require Import List Bool Arith.
From ME Require Import Base.Machine Model.Locks Proofs.Locks_Proofs Model.Layers Model.LayerShapes
  Proofs.Layers_Exec Proofs.Layers_Wf Proofs.Layers_Deadlock Proofs.Layers_Refute Proofs.Layers_Solo
  Proofs.Layers_Seq Proofs.Layers_Num Proofs.Layers_Sync Proofs.Layers_Instances.
Import ListNotations.

(* 0. the global numbering is the lexicographic order on (layer, local number) *)
Theorem c04_layers_numbering : forall K,
  (forall i k1 k2, k1 < k2 -> glob K i k1 < glob K i k2) /\
  (forall i j k1 k2, i < j -> k1 < K -> glob K i k1 < glob K j k2) /\
  (forall i j k1 k2, k1 < K -> k2 < K -> glob K i k1 = glob K j k2 -> i = j /\ k1 = k2).
Proof. exact glob_lexicographic. Qed.

(* 1. THE COMPOSITION LEMMA: layer-local discipline + lock-free upward calls ==> ONE global order.
      Any starting layer i0, any depth, any nesting of downward and upward calls. *)
Theorem c04_layers_ordered : forall K i0 p,
  wf_layers K i0 p = true -> ordered [] (flat K i0 p) = true.
Proof. exact wf_layers_ordered. Qed.

(* 2. THE THEOREM: any number of threads of a stack (user threads entering at the top, worker threads of the layers
      in the middle, completing threads of the base pool at the bottom), each with a well-formed layered program:
      no reachable state is a deadlock *)
Theorem c04_layers_no_deadlock : forall K n (ths : nat -> lthread),
  (forall t, lwf K (ths t) = true) -> (forall t, n <= t -> l_prog (ths t) = []) ->
  forall s, reachable_from step (init_of (fun t => lflat K (ths t))) s ->
  (exists t, prog s t <> []) -> exists t s', step s t = Some s'.
Proof. exact layers_no_deadlock. Qed.

(* 2'. well-formedness is closed under sequencing and under calls made with nothing held, so a thread may perform ANY
       finite sequence of well-formed API calls / loop iterations *)
Theorem c04_layers_wf_closure : forall K i0,
  (forall p q, wf_layers K i0 p = true -> wf_layers K i0 q = true -> wf_layers K i0 (p ++ q) = true) /\
  (forall ps, Forall (fun p => wf_layers K i0 p = true) ps -> wf_layers K i0 (concat ps) = true) /\
  (forall b, wf_layers K (S i0) b = true -> wf_layers K i0 [LDown b] = true) /\
  (forall b, wf_layers K i0 b = true -> wf_layers K (S i0) [LUp b] = true).
Proof. exact wf_closure. Qed.
Theorem c04_layers_calls_no_deadlock : forall K n start (calls : nat -> list (list lp)),
  (forall t, Forall (fun p => wf_layers K (start t) p = true) (calls t)) ->
  (forall t, n <= t -> calls t = []) ->
  forall s, reachable_from step (init_of (fun t => lflat K (seq_thread start calls t))) s ->
  (exists t, prog s t <> []) -> exists t s', step s t = Some s'.
Proof. exact layers_calls_no_deadlock. Qed.

(* 3. instances: the library's call shapes are well-formed *)
(* cancel_on_shutdown / throttle / retry / pool: submit() at the top (gate and _lock of layer 0 held across the
   downward submit), the throttle hand-over thread, the retry submit thread (M and X held across delegate.submit),
   the pool worker whose completion travels up through retry and throttle to layer 0 *)
Example c04_layers_stack4_wf : forall t, lwf KL (stack4 t) = true.
Proof. exact stack4_wf. Qed.
Example c04_layers_stack4_no_deadlock : forall s,
  reachable_from step (init_of (fun t => lflat KL (stack4 t))) s ->
  (exists t, prog s t <> []) -> exists t s', step s t = Some s'.
Proof. exact stack4_no_deadlock. Qed.
(* any number of threads; a user thread (start 0) makes any sequence of submit() / shutdown() on the top executor and
   cancel() / add_done_callback() on the returned future; the hand-over thread (start 1), the retry thread (start 2) and
   pool workers (start 3) iterate any number of times *)
Example c04_layers_stack4_any_calls_no_deadlock : forall n start (calls : nat -> list (list lp)),
  (forall t, incl (calls t) (stack4_api (start t))) -> (forall t, n <= t -> calls t = []) ->
  forall s, reachable_from step (init_of (fun t => lflat KL (seq_thread start calls t))) s ->
  (exists t, prog s t <> []) -> exists t s', step s t = Some s'.
Proof. exact stack4_any_calls_no_deadlock. Qed.
(* non-vacuity: a reachable state with four locks of two layers held by one thread, a blocked thread, a thread that moves *)
Example c04_layers_stack4_blocked :
  exists s, run step (init_of (fun t => lflat KL (stack4 t))) stack4_schedule = Some s /\
            owner s (glob KL 0 G) = Some 0 /\ owner s (glob KL 0 cL) = Some 0 /\
            owner s (glob KL 1 G) = Some 0 /\ owner s (glob KL 1 X) = Some 0 /\
            owner s (glob KL 2 (M 0)) = Some 2 /\ owner s (glob KL 3 (C 0)) = Some 3 /\
            step s 1 = None /\ prog s 1 <> [] /\ step s 0 <> None.
Proof. exact stack4_blocked_example. Qed.
(* submit with the gates of three layers held (cancel_on_shutdown / map / map / pool); cancel() of a MapFuture over a
   RetryFuture (M of the outer future held across inner.cancel(), whose callbacks re-enter it); shutdown() going down;
   a completion going up through two map layers *)
Example c04_layers_shapes_wf :
  wf_layers KL 0 cos_submit = true /\ wf_layers KL 1 throttle_handover = true /\
  wf_layers KL 2 retry_thread = true /\ wf_layers KL 3 pool_worker = true /\
  wf_layers KL 0 cos_map_map_submit = true /\
  wf_layers KL 0 map_cancel = true /\
  wf_layers KL 0 cos_shutdown = true /\
  wf_layers KL 2 completion_up2 = true.
Proof. exact shapes_wf. Qed.
Example c04_layers_gates_held_across_submit :
  exists pre post, flat KL 0 cos_map_map_submit =
    pre ++ [Acq (glob KL 0 G); Acq (glob KL 0 cL); Acq (glob KL 1 G); Acq (glob KL 2 G);
            Acq (glob KL 3 pS); Acq (glob KL 3 pGS)] ++ post.
Proof. exact gates_held_across_submit. Qed.
Example c04_layers_cancel_holds_outer_M :
  exists post, flat KL 0 map_cancel =
    [Acq (glob KL 0 (M 0)); Acq (glob KL 0 (M 0)); Acq (glob KL 1 (M 0)); Acq (glob KL 1 X); Rel (glob KL 1 X);
     Acq (glob KL 2 (C 0))] ++ post.
Proof. exact cancel_holds_outer_M. Qed.

(* 4. the side condition on upward calls cannot be dropped.
   An upward call while a lock of the calling layer is held is never accepted ... *)
Theorem c04_layers_up_holding_rejected : forall K above c cs b, wf1 K above (c :: cs) (LUp b) = None.
Proof. exact wf_up_holding_rejected. Qed.
(* ... its flattening does violate the global order as soon as the callback takes a lock ... *)
Theorem c04_layers_up_holding_not_ordered : forall K i g x, g < K ->
  ordered [] (flat K (S i) (up_prog g x)) = false.
Proof. exact up_prog_not_ordered. Qed.
(* ... and against a thread that holds that lock g of layer i and calls down for x (well-formed), it deadlocks:
   the G10 shape at any layer of any stack, for any two locks *)
Theorem c04_layers_updown_refuted : forall K i g x, g < K ->
  lwf K (updown_threads i g x 0) = (Nat.ltb x K) /\
  lwf K (updown_threads i g x 1) = false /\
  exists s, reachable_from step (init_of (fun t => lflat K (updown_threads i g x t))) s /\
            (exists t, prog s t <> []) /\ forall t, step s t = None.
Proof. exact updown_deadlock. Qed.
(* the smallest instance is literally the pair of programs of c04_retry_inline_nested_submit_refuted (Props/C04.v) *)
Example c04_layers_updown_is_opposite_orders :
  lflat 2 (updown_threads 0 1 0 0) = [Acq 1; Acq 2; Rel 2; Rel 1] /\
  lflat 2 (updown_threads 0 1 0 1) = [Acq 2; Acq 1; Rel 1; Rel 2].
Proof. exact updown_is_opposite_orders. Qed.
(* G10 written from the code: timeout over retry over a SYNCHRONOUS executor (the repaired one, commit 3a8457b: the
   callable runs after the sync gate has been released -- that does not help here).  submit() at the top is
   well-formed; the retry thread (M and X held across SyncExecutor.submit, the callable inline, its nested submit to
   the top) is not, its flattening violates the order, and the two deadlock: the user thread holds gate 0 and waits
   for X of retry, the retry thread holds X and waits for gate 0 *)
Theorem c04_layers_g10_refuted :
  lwf KL (g10_threads 0) = true /\ lwf KL (g10_threads 1) = false /\
  ordered [] (lflat KL (g10_threads 1)) = false /\
  exists s, reachable_from step (init_of (fun t => lflat KL (g10_threads t))) s /\
            owner s (glob KL 0 G) = Some 0 /\ owner s (glob KL 1 X) = Some 1 /\
            (exists r, prog s 0 = Acq (glob KL 1 X) :: r) /\ (exists r, prog s 1 = Acq (glob KL 0 G) :: r) /\
            forall t, step s t = None.
Proof. exact g10_refuted. Qed.
(* the same two threads over a thread pool instead of the synchronous executor are well-formed *)
Example c04_layers_g10_with_pool_wf :
  wf_layers KL 0 (timeout_submit 1) = true /\ wf_layers KL 1 (retry_submit_now pool_submit) = true.
Proof. exact g10_with_pool_wf. Qed.
(* seeded change C04-m3 (MapFuture runs its callbacks under its lock): rejected, order violated *)
Example c04_layers_m3_rejected :
  wf_layers KL 2 completion_up2_m3 = false /\ ordered [] (flat KL 2 completion_up2_m3) = false.
Proof. exact m3_rejected. Qed.

(* 5. nested submission: a thread never blocks on itself.
   a. re-acquisition by the owner always steps (the owner case of Locks.step) *)
Theorem c04_reentrant_acquire_steps : forall s t l r,
  prog s t = Acq l :: r -> owner s l = Some t ->
  exists s', step s t = Some s' /\ prog s' t = r /\ owner s' l = Some t /\ depth s' l = S (depth s l).
Proof. exact reentrant_acquire_steps. Qed.
(* b. among ordered programs, a thread that cannot move waits for a lock owned by ANOTHER thread *)
Theorem c04_never_blocks_on_itself : forall progs, (forall t, ordered [] (progs t) = true) ->
  forall s, reachable_from step (init_of progs) s -> forall t, prog s t <> [] ->
  (exists s', step s t = Some s') \/
  (exists l r u, prog s t = Acq l :: r /\ owner s l = Some u /\ u <> t).
Proof. exact never_blocks_on_itself. Qed.
(* c. a well-formed layered program run by one thread with nobody else around runs to its end, all locks free *)
Theorem c04_layers_solo_returns : forall K t0 th, lwf K th = true ->
  exists s', run step (init_of (only t0 (lflat K th))) (solo t0 (length (lflat K th))) = Some s' /\
             (forall t, prog s' t = []) /\ (forall l, owner s' l = None).
Proof. exact layers_solo_returns. Qed.
(* d. without any order condition: ANY balanced program over re-entrant locks run by one thread returns *)
Theorem c04_solo_balanced_returns : forall p t0, balanced [] p = true ->
  exists s', run step (init_of (only t0 p)) (solo t0 (length p)) = Some s' /\
             (forall t, prog s' t = []) /\ (forall l, owner s' l = None).
Proof. exact solo_balanced_returns. Qed.
(* e. a NON-reentrant lock requested by its owner blocks for ever; all-reentrant step_nr is Locks.step *)
Theorem c04_nonreentrant_self_block : forall rl s t l r,
  prog s t = Acq l :: r -> owner s l = Some t -> rl l = false -> step_nr rl s t = None.
Proof. exact nonreentrant_self_block. Qed.
Theorem c04_step_nr_all_reentrant : forall s t, step_nr (fun _ => true) s t = step s t.
Proof. exact step_nr_all_reentrant. Qed.
(* instance (defect G5): MapExecutor.submit over a synchronous executor; the map function, invoked inline inside
   submit(), submits to the same executor again.  Well-formed; it re-enters gate 0; run alone it returns; with the
   gate a plain Lock (the code before the repair) the same program blocks on itself for ever *)
Example c04_layers_nested_in_map_fn_wf : wf_layers KL 0 nested_in_map_fn = true.
Proof. exact nested_in_map_fn_wf. Qed.
Example c04_layers_nested_reenters_gate :
  exists pre post, flat KL 0 nested_in_map_fn = Acq (glob KL 0 G) :: pre ++ Acq (glob KL 0 G) :: post /\
                   ~ In (Rel (glob KL 0 G)) pre.
Proof. exact nested_in_map_fn_reenters. Qed.
Example c04_layers_g5_repaired_returns :
  exists s', run step (init_of (only 0 (flat KL 0 nested_in_map_fn))) (solo 0 (length (flat KL 0 nested_in_map_fn))) = Some s' /\
             (forall t, prog s' t = []) /\ (forall l, owner s' l = None).
Proof. exact g5_repaired_returns. Qed.
Example c04_layers_g5_self_deadlock :
  exists s, run (step_nr gate0_plain) (init_of (only 0 (flat KL 0 nested_in_map_fn))) (solo 0 9) = Some s /\
            (exists r, prog s 0 = Acq (glob KL 0 G) :: r) /\ owner s (glob KL 0 G) = Some 0 /\
            forall t, step_nr gate0_plain s t = None.
Proof. exact g5_self_deadlock. Qed.
(* the callable itself, inline inside SyncExecutor.submit, submits to the map executor again.  On the code since commit
   3a8457b (the callable runs after the sync gate has been released) this is well-formed, and alone it returns *)
Example c04_layers_nested_in_callable_wf : wf_layers KL 0 nested_in_callable = true.
Proof. exact nested_in_callable_wf. Qed.
Example c04_layers_nested_in_callable_returns :
  exists s', run step (init_of (only 0 (flat KL 0 nested_in_callable))) (solo 0 (length (flat KL 0 nested_in_callable))) = Some s' /\
             (forall t, prog s' t = []) /\ (forall l, owner s' l = None).
Proof. exact nested_in_callable_returns. Qed.
(* HISTORICAL, the code before commit 3a8457b: the callable ran UNDER the sync gate: an upward call with a lock of the
   calling layer held -- outside wf_layers and outside the lexicographic order (the new MapFuture's lock of layer 0 is
   taken under the sync gate of layer 1), so c04_layers_no_deadlock said nothing about it; alone it returned all the
   same (d.) *)
Example c04_layers_nested_in_callable_before_fix :
  wf_layers KL 0 nested_in_callable_before_fix = false /\
  ordered [] (flat KL 0 nested_in_callable_before_fix) = false /\
  balanced [] (flat KL 0 nested_in_callable_before_fix) = true.
Proof. exact nested_in_callable_before_fix_facts. Qed.
Example c04_layers_nested_in_callable_before_fix_returns :
  exists s', run step (init_of (only 0 (flat KL 0 nested_in_callable_before_fix)))
                 (solo 0 (length (flat KL 0 nested_in_callable_before_fix))) = Some s' /\
             (forall t, prog s' t = []) /\ (forall l, owner s' l = None).
Proof. exact nested_in_callable_before_fix_returns. Qed.

(* 6. other numberings.  flat K is flatn (glob K); for ANY numbering of (layer, local lock), threads performing
   sequences of calls whose flattenings are ordered do not deadlock (this is c04_lock_order_no_deadlock plus closure
   of `ordered` under sequencing; the check is `ordered` itself, by vm_compute) *)
Theorem c04_layers_flat_flatn : forall K i p, flat K i p = flatn (glob K) i p.
Proof. exact flat_flatn. Qed.
Theorem c04_numbered_calls_no_deadlock : forall num n start (calls : nat -> list (list lp)),
  (forall t, Forall (fun p => ordered [] (flatn num (start t) p) = true) (calls t)) ->
  (forall t, n <= t -> calls t = []) ->
  forall s, reachable_from step (init_of (fun t => flatn num (start t) (concat (calls t)))) s ->
  (exists t, prog s t <> []) -> exists t s', step s t = Some s'.
Proof. exact numbered_calls_no_deadlock. Qed.
(* gates first: the gates (local lock 0) of layers 0..L-1 by layer, then the other locks lexicographically; injective *)
Theorem c04_gate_first_inj : forall L K i j k1 k2, i < L -> j < L -> k1 < K -> k2 < K ->
  gate_first L K i k1 = gate_first L K j k2 -> i = j /\ k1 = k2.
Proof. exact gate_first_inj. Qed.
Theorem c04_gate_first_order : forall L K,
  (forall i j, i < j -> gate_first L K i 0 < gate_first L K j 0) /\
  (forall i j k, i < L -> gate_first L K i 0 < gate_first L K j (S k)) /\
  (forall i k1 k2, 0 < k1 -> k1 < k2 -> gate_first L K i k1 < gate_first L K i k2) /\
  (forall i j k1 k2, i < j -> 0 < k1 -> k1 < K -> 0 < k2 -> gate_first L K i k1 < gate_first L K j k2).
Proof. exact gate_first_order. Qed.
(* HISTORICAL, the code before commit 3a8457b.  map over a SYNCHRONOUS executor, every call entering at the top: submit,
   submit whose map function / whose callable (inline, under the sync gate) submits again, cancel, shutdown,
   add_done_callback -- any number of threads, any sequences: no deadlock under the gates-first numbering.  This
   covered the shape that wf_layers and the lexicographic numbering reject *)
Example c04_layers_map_sync_before_fix_any_calls_no_deadlock : forall n (calls : nat -> list (list lp)),
  (forall t, incl (calls t) map_sync_api_before_fix) -> (forall t, n <= t -> calls t = []) ->
  forall s, reachable_from step (init_of (fun t => flatn (gate_first LS KL) 0 (concat (calls t)))) s ->
  (exists t, prog s t <> []) -> exists t s', step s t = Some s'.
Proof. exact map_sync_before_fix_any_calls_no_deadlock. Qed.
Example c04_layers_map_sync_api_before_fix_has_nested_in_callable :
  In nested_in_callable_before_fix map_sync_api_before_fix /\
  wf_layers KL 0 nested_in_callable_before_fix = false /\
  ordered [] (flatn (glob KL) 0 nested_in_callable_before_fix) = false /\
  ordered [] (flatn (gate_first LS KL) 0 nested_in_callable_before_fix) = true.
Proof. exact map_sync_api_before_fix_has_nested_in_callable. Qed.
(* ... but ONLY when every call entered at the top.  G20, HISTORICAL WITNESS about the code before commit 3a8457b: the
   same stack entered at two layers, no retry executor involved: thread 0 submits through the map executor, thread 1
   submits DIRECTLY to the synchronous executor a callable that submits to the map executor.  SyncExecutor.submit held
   its gate while the callable ran: gate 1 then gate 0 against gate 0 then gate 1 -- the up/down shape of
   c04_layers_updown_refuted with both locks gates; a reachable deadlock (it was reproduced on /repo with two real
   threads; repaired by commit 3a8457b) *)
Theorem c04_layers_gate_inversion_refuted :
  lwf KL (gate_inversion_threads_before_fix 0) = true /\ lwf KL (gate_inversion_threads_before_fix 1) = false /\
  ordered [] (flatn (gate_first LS KL) 1 sync_direct_nested_before_fix) = false /\
  exists s, run step (init_of (fun t => lflat KL (gate_inversion_threads_before_fix t))) gate_inversion_schedule = Some s /\
            owner s (glob KL 0 G) = Some 0 /\ owner s (glob KL 1 G) = Some 1 /\
            (exists r, prog s 0 = Acq (glob KL 1 G) :: r) /\ (exists r, prog s 1 = Acq (glob KL 0 G) :: r) /\
            forall t, step s t = None.
Proof. exact gate_inversion_deadlock. Qed.

(* 7. the repaired synchronous executor (commit 3a8457b: gate section, THEN the callable).
   For the checker the repaired submit is transparent: in every context the callable is checked exactly as if the
   caller had run it itself at the sync layer, with nothing of that layer held ... *)
Theorem c04_sync_repaired_transparent : forall K above callable, 0 < K ->
  wfs K above [] (sync_submit_inline callable) = wfs K above [] callable.
Proof. exact sync_repaired_transparent. Qed.
(* ... whereas before the repair every upward call made by the callable was rejected *)
Theorem c04_sync_before_fix_rejects_up : forall K above b r,
  wfs K above [] (sync_submit_inline_before_fix (LUp b :: r)) = None.
Proof. exact sync_before_fix_rejects_up. Qed.
(* a submission made directly to the repaired synchronous executor at layer n+i with nothing held, whose callable calls
   n layers up (ups n = n nested upward calls) and runs there ANY program c that is well-formed when entered
   lock-free, is well-formed; so is the same call made from the layer just above the synchronous executor *)
Theorem c04_sync_repaired_callable_wf : forall K n i c, 0 < K ->
  wf_layers K i c = true -> wf_layers K (n + i) (sync_submit_inline (ups n c)) = true.
Proof. exact sync_repaired_callable_wf. Qed.
Theorem c04_sync_repaired_down_wf : forall K n i c, 0 < K ->
  wf_layers K i c = true -> wf_layers K (n + i) [LDown (sync_submit_inline (ups (S n) c))] = true.
Proof. exact sync_repaired_down_wf. Qed.
(* hence: any number of threads, each making any sequence of calls that are well-formed or are such direct submissions
   (call_ok) -- no reachable deadlock *)
Theorem c04_sync_repaired_no_deadlock : forall K n start (calls : nat -> list (list lp)), 0 < K ->
  (forall t, Forall (call_ok K (start t)) (calls t)) ->
  (forall t, n <= t -> calls t = []) ->
  forall s, reachable_from step (init_of (fun t => lflat K (seq_thread start calls t))) s ->
  (exists t, prog s t <> []) -> exists t s', step s t = Some s'.
Proof. exact sync_repaired_no_deadlock. Qed.
(* map over the repaired synchronous executor, entered at the top (start 0: submit, submit whose map function / whose
   callable submits again, cancel, shutdown, add_done_callback) AND directly at the sync layer (start 1: submit of a
   plain callable, submit of a callable that submits to the map executor, shutdown): every shape is well-formed for the
   lexicographic order; any number of threads, any sequences: no deadlock *)
Example c04_layers_map_sync_any_calls_no_deadlock : forall n start (calls : nat -> list (list lp)),
  (forall t, incl (calls t) (map_sync_api (start t))) -> (forall t, n <= t -> calls t = []) ->
  forall s, reachable_from step (init_of (fun t => lflat KL (seq_thread start calls t))) s ->
  (exists t, prog s t <> []) -> exists t s', step s t = Some s'.
Proof. exact map_sync_any_calls_no_deadlock. Qed.
(* G20 REPAIRED: the two threads of c04_layers_gate_inversion_refuted on the code since commit 3a8457b are well-formed,
   belong to that API, have no reachable deadlock, and the schedule prefix that deadlocked extends to a run in which
   both calls return *)
Theorem c04_layers_gate_inversion_repaired :
  (forall t, lwf KL (gate_inversion_threads t) = true) /\
  In (l_prog (gate_inversion_threads 0)) (map_sync_api 0) /\ In (l_prog (gate_inversion_threads 1)) (map_sync_api 1) /\
  (forall s, reachable_from step (init_of (fun t => lflat KL (gate_inversion_threads t))) s ->
             (exists t, prog s t <> []) -> exists t s', step s t = Some s') /\
  exists s, run step (init_of (fun t => lflat KL (gate_inversion_threads t)))
                (gate_inversion_schedule ++ [1] ++ repeat 0 11 ++ repeat 1 12) = Some s /\
            (forall t, prog s t = []) /\ (forall l, owner s l = None).
Proof. exact gate_inversion_repaired. Qed.

(* 8. further components.  PollExecutor over a pool (submit with a running / an already finished delegate -- gate, X, M
   nested --, the pool worker completing or failing the delegate, the poll thread's iteration, cancel() holding M across
   delegate.cancel(), shutdown, add_done_callback); FlatMapExecutor over a pool whose map function, run by the pool
   worker inside _delegate_resolved, submits to the flat-map executor itself, both stages of the flattening, cancel of
   the flattened future (M_0, then M_1 of the same layer, then the pool future): all well-formed; any number of
   threads, any sequences: no deadlock *)
Example c04_layers_poll_any_calls_no_deadlock : forall n start (calls : nat -> list (list lp)),
  (forall t, incl (calls t) (poll_api (start t))) -> (forall t, n <= t -> calls t = []) ->
  forall s, reachable_from step (init_of (fun t => lflat KL (seq_thread start calls t))) s ->
  (exists t, prog s t <> []) -> exists t s', step s t = Some s'.
Proof. exact poll_any_calls_no_deadlock. Qed.
Example c04_layers_poll_nested_gate_X_M :
  exists pre post, flat KL 0 poll_submit_delegate_done =
    Acq (glob KL 0 G) :: pre ++ [Acq (glob KL 0 pX); Acq (glob KL 0 (pM 0))] ++ post /\
    ~ In (Rel (glob KL 0 G)) pre.
Proof. exact poll_nested_gate_X_M. Qed.
Example c04_layers_flat_map_any_calls_no_deadlock : forall n start (calls : nat -> list (list lp)),
  (forall t, incl (calls t) (flat_map_api (start t))) -> (forall t, n <= t -> calls t = []) ->
  forall s, reachable_from step (init_of (fun t => lflat KL (seq_thread start calls t))) s ->
  (exists t, prog s t <> []) -> exists t s', step s t = Some s'.
Proof. exact flat_map_any_calls_no_deadlock. Qed.

Print Assumptions c04_layers_numbering.
Print Assumptions c04_layers_ordered.
Print Assumptions c04_layers_no_deadlock.
Print Assumptions c04_layers_wf_closure.
Print Assumptions c04_layers_calls_no_deadlock.
Print Assumptions c04_layers_stack4_no_deadlock.
Print Assumptions c04_layers_stack4_any_calls_no_deadlock.
Print Assumptions c04_layers_stack4_blocked.
Print Assumptions c04_layers_shapes_wf.
Print Assumptions c04_layers_up_holding_not_ordered.
Print Assumptions c04_layers_updown_refuted.
Print Assumptions c04_layers_g10_refuted.
Print Assumptions c04_reentrant_acquire_steps.
Print Assumptions c04_never_blocks_on_itself.
Print Assumptions c04_layers_solo_returns.
Print Assumptions c04_solo_balanced_returns.
Print Assumptions c04_nonreentrant_self_block.
Print Assumptions c04_layers_g5_self_deadlock.
Print Assumptions c04_layers_nested_in_callable_returns.
Print Assumptions c04_numbered_calls_no_deadlock.
Print Assumptions c04_gate_first_inj.
Print Assumptions c04_layers_map_sync_any_calls_no_deadlock.
Print Assumptions c04_layers_gate_inversion_refuted.
Print Assumptions c04_layers_nested_in_callable_before_fix_returns.
Print Assumptions c04_layers_map_sync_before_fix_any_calls_no_deadlock.
Print Assumptions c04_sync_repaired_transparent.
Print Assumptions c04_sync_before_fix_rejects_up.
Print Assumptions c04_sync_repaired_callable_wf.
Print Assumptions c04_sync_repaired_down_wf.
Print Assumptions c04_sync_repaired_no_deadlock.
Print Assumptions c04_layers_gate_inversion_repaired.
Print Assumptions c04_layers_poll_any_calls_no_deadlock.
Print Assumptions c04_layers_flat_map_any_calls_no_deadlock.
