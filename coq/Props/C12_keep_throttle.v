(* C12 (second sentence) on the ThrottleExecutor machine (Model/Throttle.v): once a ThrottleFuture is done -- resolved
   from its delegate or cancelled -- the executor keeps no record of it.  Who could retain it: the queue `_to_submit`
   (qu), the hand-over thread's local `to_submit` list and its pending delegate.submit calls (pend), the callback list
   of the delegate future created for it (CbRes j in dcbs d = the bound method ThrottleFuture._delegate_resolved).
   Statements only; proofs in Proofs/Keep_Throttle_A..E.v, Proofs/Keep_Throttle.v. *)
From Coq Require Import ZArith List Bool Arith Lia.
From ME Require Import Base.Machine Base.Fut Base.GenPrelude Gen.ThrottleGen Model.Throttle
  Proofs.Throttle_Spec Proofs.Throttle_Inv Proofs.Throttle_Fifo Proofs.Throttle_U3
  Proofs.Keep_Throttle_A Proofs.Keep_Throttle_E Proofs.Keep_Throttle.
Import ListNotations.

Definition reachable (s : st) : Prop := reachable_from step init s.

(* ---- 1. the queue: in EVERY reachable state (no window: cancel() removes the entry under the executor lock before
   the future is cancelled; a future is resolved only after it was handed to the delegate) ------------------------ *)
Theorem c12_throttle_done_not_queued : forall s, reachable s -> forall j,
  fdone (ms s j) = true -> ~ In j (qu s) /\ ~ In j (pend s).
Proof. exact throttle_done_not_queued_lemma. Qed.

(* why a throttle future can be done at all: it was cancelled while queued, or the delegate future created for it is done *)
Theorem c12_throttle_done_justified : forall s, reachable s -> forall j, fdone (ms s j) = true ->
  In j (cancq (hist s)) \/ exists d, (d < ndel s)%nat /\ dfor s d = j /\ fdone (ds s d) = true.
Proof. exact throttle_done_justified_lemma. Qed.

(* ---- 2. callback lists: in EVERY reachable state no delegate future holds _delegate_resolved of a done throttle
   future, and a done delegate future holds no callback at all (stdlib clears them; = c03_throttle_done_callbacks_cleared) *)
Theorem c12_throttle_done_not_in_delegate_callbacks : forall s, reachable s -> forall j d,
  In (CbRes j) (dcbs s d) -> fdone (ms s j) = false.
Proof. exact throttle_done_not_in_callbacks_lemma. Qed.
Theorem c12_throttle_done_delegate_callbacks_cleared : forall s, reachable s -> forall d,
  fdone (ds s d) = true -> dcbs s d = [].
Proof. exact invC_reachable. Qed.

(* ---- 3. the link ThrottleFuture._delegate (future -> delegate) ---------------------------------------------------
   Every set link is accounted for: _delegate_resolved is registered on that delegate future, or its registration
   (IAddCb2) / the clearing of the link (IAcqMSet j None: first step of _delegate_resolved) is pending in a program. *)
Theorem c12_throttle_link_accounted : forall s, reachable s -> forall j d, mdel s j = Some d ->
  In (CbRes j) (dcbs s d) \/ clr s j d.
Proof. exact throttle_link_accounted_lemma. Qed.
(* exact window for a DONE future: only while that registration / clearing is pending *)
Theorem c12_throttle_done_link_window : forall s, reachable s -> forall j d,
  fdone (ms s j) = true -> mdel s j = Some d ->
  exists t, In (IAddCb2 d j) (thr s t) \/ In (IAcqMSet j None) (thr s t).
Proof. exact throttle_done_link_window_lemma. Qed.
(* at rest (every client thread idle, the hand-over thread parked in event.wait()): cleared *)
Theorem c12_throttle_done_link_cleared_at_rest : forall s, reachable s -> forall j,
  all_idle_parked s -> fdone (ms s j) = true -> mdel s j = None.
Proof. exact throttle_done_link_cleared_at_rest_lemma. Qed.
(* more generally: whenever no program holds a pending registration / clearing *)
Theorem c12_throttle_done_link_cleared : forall s, reachable s -> forall j,
  (forall t x, In x (thr s t) -> rel x = false) -> fdone (ms s j) = true -> mdel s j = None.
Proof. exact throttle_done_link_cleared_lemma. Qed.
(* the literal "in every reachable state a done ThrottleFuture has _delegate cleared" is FALSE: cancel() between
   `_set_delegate(d)` and `d.add_done_callback(_delegate_resolved)` of the hand-over thread *)
Theorem c12_throttle_done_link_cleared_everywhere_refuted :
  exists s j d, reachable s /\ fdone (ms s j) = true /\ mdel s j = Some d /\ In (IAddCb2 d j) (thr s H).
Proof.
  destruct keep_window_example as [s [Hr [A [B [_ [_ [_ C]]]]]]]. exists s, 0%nat, 0%nat.
  split; [exact Hr|]. rewrite A. auto.
Qed.
(* ... and that window closes with the hand-over thread's next two steps *)
Example c12_throttle_window_closes :
  exists s, reachable s /\ ms s 0 = CancelledNotified /\ mdel s 0 = None /\ dcbs s 0 = [].
Proof. exact keep_window_closed_example. Qed.

(* ---- non-vacuity: at rest, job 1 cancelled while queued (done: nowhere), job 0 handed over and pending (registered on
   its delegate future, link set), job 2 pending in the queue ---------------------------------------------------- *)
Example c12_throttle_at_rest_nonvacuous :
  exists s, reachable s /\ all_idle_parked s /\
            ms s 1 = CancelledNotified /\ mdel s 1 = None /\ qu s = [2%nat] /\ pend s = [] /\
            ms s 0 = Pending /\ mdel s 0 = Some 0%nat /\ dcbs s 0 = [CbDone; CbRes 0] /\ ds s 0 = Pending /\ ms s 2 = Pending.
Proof. exact keep_rest_example. Qed.

Print Assumptions c12_throttle_done_not_queued.
Print Assumptions c12_throttle_done_justified.
Print Assumptions c12_throttle_done_not_in_delegate_callbacks.
Print Assumptions c12_throttle_done_delegate_callbacks_cleared.
Print Assumptions c12_throttle_link_accounted.
Print Assumptions c12_throttle_done_link_window.
Print Assumptions c12_throttle_done_link_cleared_at_rest.
Print Assumptions c12_throttle_done_link_cleared.
Print Assumptions c12_throttle_done_link_cleared_everywhere_refuted.
Print Assumptions c12_throttle_window_closes.
Print Assumptions c12_throttle_at_rest_nonvacuous.
