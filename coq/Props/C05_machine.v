(* C05 -- statements about the Retry machine (Model/Retry.v).  Statements only. *)
From Coq Require Import List ZArith Bool Arith.
From ME Require Import Base.Machine Base.Fut Base.GenPrelude Gen.RetryGen Model.Retry Proofs.Retry_InvB.
Import ListNotations.

Definition reachable := reachable_from step init.

(* the returned future finishes only through HFinal, with the outcome of the LAST attempt's
   delegate future, which is done *)
Theorem c05_final_outcome : forall s, reachable s -> forall j o ts,
  In (HFinal j o ts) (hist s) ->
  exists d, d < ndel s /\ dfor s d = j /\ dout s d = Some o /\ fdone (ds s d) = true /\
            forall d', d' < ndel s -> dfor s d' = j -> d' <= d.
Proof. exact retry_final_outcome. Qed.

Theorem c05_finished_iff_final : forall s, reachable s -> forall j,
  rs s j = Finished -> exists o ts, In (HFinal j o ts) (hist s) /\ rout s j = Some o.
Proof. exact retry_finished_has_final. Qed.

(* no done-callback of j runs before j was resolved (by its final attempt) or cancelled *)
Theorem c05_callbacks_after_final : forall s, reachable s -> forall l1 j c ts l2,
  hist s = l1 ++ HCb j c ts :: l2 ->
  (exists o t', In (HFinal j o t') l2) \/ (exists t', In (HCancelled j t') l2).
Proof. exact retry_callbacks_after_final. Qed.

(* the policy is consulted at most once per finished attempt, with that attempt's number (>= 1),
   and attempt a > 1 is consulted only after attempt a-1 was granted a retry *)
Theorem c05_policy_once_per_attempt : forall s, reachable s -> forall l1 j a ans ts l2,
  hist s = l1 ++ HPolSR j a ans ts :: l2 ->
  1 <= a /\ (forall ans' ts', ~ In (HPolSR j a ans' ts') l2) /\
  (2 <= a -> exists t', In (HPolSR j (a - 1) 1 t') l2).
Proof. exact retry_policy_once. Qed.

(* a policy that raises (ans = 2) or declines (ans = 0) ends retrying for that submission *)
Theorem c05_policy_raise_ends_retrying : forall s, reachable s -> forall l1 j a ans ts l2,
  hist s = l1 ++ HPolSR j a ans ts :: l2 -> ans <> 1 ->
  forall j' d a' t' w, In (HDSubmit j' d a' t' w) l1 -> j' <> j.
Proof. exact retry_policy_decline_ends. Qed.


Print Assumptions c05_final_outcome.
Print Assumptions c05_finished_iff_final.
Print Assumptions c05_callbacks_after_final.
Print Assumptions c05_policy_once_per_attempt.
Print Assumptions c05_policy_raise_ends_retrying.
