(* C01 -- composed executors deliver each callable's own outcome, exactly once.  Statements only.
   Reference semantics: Model/Stack.v (seq_eval), evaluated by the extracted model against real
   stacks on every run.  PARTIAL: the theorems below are laws of the reference semantics; that the
   composed implementation refines it is validated by the whole-stack differential (and per layer by
   the machine theorems of C05/C06/C13), not proved across layers. *)
From Coq Require Import List ZArith Bool Arith.
From ME Require Import Model.Stack.
Import ListNotations.

(* a propagated exception is the very object that was raised: by one of the callable's invocations
   or by a map / flat_map function of the stack -- never an invented or foreign one *)
Theorem c01_exception_identity_partial : forall ls script k e,
  fst (fst (eval ls script k)) = Err e -> (exists i, script i = Err e) \/ raised_by_stack ls e.
Proof. exact eval_exception_identity. Qed.

(* without a retry layer the callable is invoked exactly once, whatever the other layers *)
Theorem c01_invoked_once_without_retry_partial : forall ls script k,
  no_retry ls = true -> snd (fst (eval ls script k)) = S k.
Proof. exact eval_no_retry_once. Qed.

(* invocations consume the callable's script without gaps or repeats *)
Theorem c01_invocations_consecutive_partial : forall ls script k, k < snd (fst (eval ls script k)).
Proof. exact eval_mono. Qed.

(* throttle / timeout / cancel-on-shutdown layers are transparent for outcomes *)
Theorem c01_identity_layers_partial : forall ls script k, eval (LIdent :: ls) script k = eval ls script k.
Proof. exact eval_ident. Qed.

Example c01_instance :
  seq_eval [LRetry 3; LMap 5 false; LIdent] (fun k => if k <? 2 then Err (1000 + Z.of_nat k)%Z else Ok 2%Z) = (Ok 37%Z, 3, 1).
Proof. reflexivity. Qed.

Print Assumptions c01_exception_identity_partial.
Print Assumptions c01_invoked_once_without_retry_partial.
Print Assumptions c01_invocations_consecutive_partial.
Print Assumptions c01_identity_layers_partial.
