(* C04 -- no lock deadlock among API calls and internal threads of the Retry machine (Model/Retry.v).
   Statements only.  Vocabulary (Proofs/Retry_L0.v): lock = LM j | LX; lock_lt (LM _) LX is the only
   strict pair; owner/holds read mown and xown; requests s t is the lock the next instruction of t has to
   take (IAcqM j -> LM j; IXAcqPop and the atomic X-sections, incl. the idle worker's loop top -> LX);
   blocked s t u: t requests a lock owned by u; pendM/pendX: the program still carries the release
   obligation for the lock.  The model's locks are not re-entrant (EAcqM/EXAcq need a free lock), so
   there is no re-entrancy exemption: a thread never requests a lock it holds. *)
From Coq Require Import List ZArith Bool Arith.
From ME Require Import Base.Machine Base.Fut Base.GenPrelude Gen.RetryGen Model.Retry
  Proofs.Retry_L0 Proofs.Retry_L3.
Import ListNotations.

Definition reachable := reachable_from step init.

(* 1. each M_j and X has at most one owner; the owner is exactly the thread whose program still carries
      the matching release obligation; a non-owner carries none *)
Theorem c04_retry_lock_owner : forall s, reachable s ->
  (forall j t, mown s j = Some t <-> pendM (recs s) j false (thr s t) = true) /\
  (forall t, xown s = Some t <-> pendX false (thr s t) = true) /\
  (forall j t1 t2, pendM (recs s) j false (thr s t1) = true -> pendM (recs s) j false (thr s t2) = true -> t1 = t2) /\
  (forall t1 t2, pendX false (thr s t1) = true -> pendX false (thr s t2) = true -> t1 = t2).
Proof. exact retry_lock_owner. Qed.

(* 2. the nesting order is strict (M_j < X, nothing else: never X then M_k, never M_j then M_k, also on
      the inline-completion paths), and every acquisition respects it *)
Theorem c04_retry_lock_order_strict :
  (forall a, ~ lock_lt a a) /\ (forall a b c, lock_lt a b -> lock_lt b c -> lock_lt a c).
Proof. split; [exact lock_lt_irrefl|exact lock_lt_trans]. Qed.
Theorem c04_retry_lock_order : forall s, reachable s -> forall t l,
  requests s t = Some l -> forall l', holds s t l' -> lock_lt l' l.
Proof. exact retry_lock_order. Qed.

(* 3. behind every blocked thread the owner chain is finite (at most 2 links), repetition-free, and ends
      in a thread whose next instruction is not a blocked acquisition *)
Theorem c04_retry_no_deadlock : forall s, reachable s -> forall t u, blocked s t u ->
  exists path, chain s t path /\ path <> [] /\ NoDup (t :: path) /\
               unblocked s (last path t) /\ length path <= 2.
Proof. exact retry_no_deadlock. Qed.

(* non-vacuity: an accepted trace after which thread 2 waits for M_1 held by thread 1, which waits for X
   held by the worker (thread 0), which can move *)
Example c04_retry_example :
  run step init ex_trace <> None /\ reachable ex_state /\
  blocked ex_state 2 1 /\ blocked ex_state 1 0 /\ unblocked ex_state 0.
Proof. split; [exact ex_accepted|]. split; [exact ex_reachable|exact ex_blocked]. Qed.

Print Assumptions c04_retry_lock_owner.
Print Assumptions c04_retry_lock_order_strict.
Print Assumptions c04_retry_lock_order.
Print Assumptions c04_retry_no_deadlock.
Print Assumptions c04_retry_example.
