(* C15 on the programs REGENERATED FROM THE SOURCE (tools/comb2coq.py -> Gen/CombSkel.v: the f_zip wrapper,
   Zipper.__init__ / handle_done, chain_cancel, notify_cancel), run by the IR machine Model/CombIR.v.  The tie to the
   hand-written Model/Comb.v (lockstep, trace equivalence) is stated in Props/C14_ir.v.  Statements only. *)
From Coq Require Import List Bool Arith ZArith.
From ME Require Import Base.Machine Base.Fut Base.GenPrelude Gen.ZipGen Model.Comb Model.CombIR Gen.CombSkel
  Proofs.Comb_Spec Proofs.Comb_I0 Proofs.CombIR_Sim Proofs.CombIR_Sim9 Proofs.CombIR_Transfer.
Import ListNotations.

Definition src_step : ist -> ev -> option ist :=
  istep or_wrapper_prog and_wrapper_prog zip_wrapper_prog bool_init_prog zip_init_prog
        bool_handle_prog zip_handle_prog chain_cb_prog notify_cb_prog.
Definition src_reachable (s : ist) : Prop := reachable_from src_step iinit s.
Definition src_quiescent (s : ist) : Prop := forall t, ithr s t = [].

(* the tie, for f_zip: every trace of the generated programs is a trace of Comb.v *)
Theorem c15_ir_trace_accepted_by_comb : forall es s, run src_step iinit es = Some s ->
  exists cs, run step init es = Some cs /\ R s cs.
Proof. exact ir_trace_accepted_by_comb. Qed.

(* f_zip() (no argument) constructs nothing: the `if not fs: return f_return(maketuple([]))` of the generated wrapper;
   Comb.v accepts a Zipper over no inputs, the generated program does not (Props/Comb_G.v c03_comb_zip_no_inputs_refuted
   is therefore about a call the source never makes) *)
Theorem c15_zip_no_input_constructs_nothing_src : forall h lv,
  iinputs h = [] ->
  srun bool_init_prog zip_init_prog FUEL h (map IS zip_wrapper_prog ++ [KRet]) lv = (h, [KRet], set_ret lv RUnit).
Proof. exact zip_no_input_constructs_nothing. Qed.
Theorem c15_zip_no_inputs_only_in_comb : forall t,
  src_step iinit (ECallNew t KZip []) = None /\ step init (ECallNew t KZip []) <> None.
Proof. exact zip_no_inputs_only_in_comb. Qed.

(* f_zip holds every input's result at its own position *)
Theorem c15_zip_positions_src : forall s, src_reachable s -> ick (sh s) = KZip -> forall o, In (HSetOut o) (ihist (sh s)) ->
  (exists e, o = Err e) \/
  forall i, i < length (iinputs (sh s)) ->
    exists v t, islots (sh s) i = Some v /\ ieout (sh s) (iinput_at (sh s) i) = Some (Ok v t).
Proof. exact ir_zip_positions. Qed.

(* f_zip fails with the first input exception to be observed / is cancelled if an input is cancelled first *)
Theorem c15_zip_first_failure_wins_src : forall s, src_reachable s -> ick (sh s) = KZip -> forall l1 d o l2,
  ihist (sh s) = l1 ++ HDecide d o :: l2 ->
  exists v l2', (l2 = HSeen d v :: l2' \/
                 (v_cancelled v = false /\ v_failed v = false /\ exists i w, l2 = HStore i w :: HSeen d v :: l2')) /\
    (forall d' v', In (HSeen d' v') l2' -> v_cancelled v' = false /\ v_failed v' = false) /\
    o = (if v_cancelled v then None else Some (ioc_of (sh s) d)).
Proof. exact ir_zip_first_failure. Qed.

(* the decision is taken once; the output's outcome is set at most once *)
Theorem c15_decide_once_src : forall s, src_reachable s -> forall l1 d o l2,
  ihist (sh s) = l1 ++ HDecide d o :: l2 -> forall d' o', ~ In (HDecide d' o') l2 /\ ~ In (HDecide d' o') l1.
Proof. exact ir_decide_once. Qed.
Theorem c15_output_once_src : forall s, src_reachable s -> forall l1 o l2,
  ihist (sh s) = l1 ++ HSetOut o :: l2 -> (forall o', ~ In (HSetOut o') l2) /\ ~ In HOutCancelled l2 /\ ~ In HOutCancelled l1.
Proof. exact ir_output_once. Qed.

(* a cancellation of the output reaches every input (f_zip only fans out a cancellation) *)
Theorem c15_cancelled_output_cancels_inputs_src : forall s, src_reachable s -> src_quiescent s -> ibuilt (sh s) = true ->
  fdone (ios (sh s)) = true ->
  ~ In out_id (iinputs (sh s)) -> length (iinputs (sh s)) <= notify_id ->
  (ick (sh s) <> KZip \/ fcancelled (ios (sh s)) = true) ->
  forall x, In x (iinputs (sh s)) -> fdone (ies (sh s) x) = true.
Proof. exact ir_losers_cancelled. Qed.

(* ---- non-vacuity --------------------------------------------------------------------------------------------------- *)
Ltac quiesce := intros t; cbv; repeat match goal with |- context [match ?x with _ => _ end] => destruct x end; reflexivity.

(* f_zip over inputs 1, 2, with input 2 already done at call time (its handle_done runs inside the constructor), then
   input 1 finishes: the tuple is set; each slot holds its input's value *)
Definition w_zip : list ev :=
  [EEnvFinish 5 2 Pending (Ok 7 true);
   ECallNew 0 KZip [1; 2]; EFO 0 5 Pending; EFO 0 5 Pending; EFI 0 5 1 Pending; EFO 0 5 Pending;
   EFI 0 5 2 Finished; EAcqL 0; EFI 0 0 2 Finished; ERelL 0; ERet 0 0;
   EEnvFinish 1 1 Pending (Ok 4 false); EAcqL 1; EFI 1 0 1 Finished; ERelL 1; EFO 1 4 Pending;
   EFO 1 0 Finished; EFO 1 0 Finished; EFO 1 0 Finished].
Example c15_nonvacuous_zip_src : exists s, run src_step iinit w_zip = Some s /\ src_quiescent s /\ ick (sh s) = KZip /\
  ios (sh s) = Finished /\ islots (sh s) 0 = Some 4 /\ islots (sh s) 1 = Some 7 /\
  ihist (sh s) = [HSetOut (Ok 0 true); HDecide 1 (Some (Ok 4 false)); HStore 0 4; HSeen 1 (iview (sh s) 1);
                  HEnvDone 1 (Ok 4 false); HStore 1 7; HSeen 2 (iview (sh s) 2); HEnvDone 2 (Ok 7 true)] /\
  run step init w_zip <> None.
Proof.
  eexists. split; [vm_compute; reflexivity|].
  repeat split; try (vm_compute; reflexivity); [quiesce|vm_compute; discriminate].
Qed.

(* first failure wins: input 2 fails, then input 1 succeeds; the output carries input 2's exception *)
Definition w_zip_fail : list ev :=
  [ECallNew 0 KZip [1; 2]; EFO 0 5 Pending; EFO 0 5 Pending; EFI 0 5 1 Pending; EFO 0 5 Pending; EFI 0 5 2 Pending; ERet 0 0;
   EEnvFinish 2 2 Pending (Err 9); EAcqL 2; EFI 2 0 2 Finished; ERelL 2; EFO 2 6 Pending;
   EFO 2 0 Finished; EFO 2 0 Finished; EFO 2 0 Finished;
   EEnvFinish 1 1 Pending (Ok 4 true); EAcqL 1; ERelL 1].
Example c15_nonvacuous_zip_first_failure_src : exists s, run src_step iinit w_zip_fail = Some s /\ src_quiescent s /\
  ios (sh s) = Finished /\ ioout (sh s) = Some (Err 9) /\
  ihist (sh s) = [HEnvDone 1 (Ok 4 true); HSetOut (Err 9); HDecide 2 (Some (Err 9)); HSeen 2 (iview (sh s) 2); HEnvDone 2 (Err 9)].
Proof.
  eexists. split; [vm_compute; reflexivity|].
  repeat split; try (vm_compute; reflexivity). quiesce.
Qed.

Print Assumptions c15_ir_trace_accepted_by_comb.
Print Assumptions c15_zip_no_input_constructs_nothing_src.
Print Assumptions c15_zip_no_inputs_only_in_comb.
Print Assumptions c15_zip_positions_src.
Print Assumptions c15_zip_first_failure_wins_src.
Print Assumptions c15_decide_once_src.
Print Assumptions c15_output_once_src.
Print Assumptions c15_cancelled_output_cancels_inputs_src.
Print Assumptions c15_nonvacuous_zip_src.
Print Assumptions c15_nonvacuous_zip_first_failure_src.
