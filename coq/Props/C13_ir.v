(* C13 on the methods REGENERATED FROM THE SOURCE: MapFuture._delegate_resolved / _delegate_failed / _on_mapped /
   set_result / set_exception / set_exception_info, FlatMapFuture._on_mapped, copy_exception / copy_future_exception /
   try_set_result, _Future._me_invoke_callbacks (tools/map2coq.py -> Gen/MapSkel.v; Model/MapIR.v) against Model/MapFut.v:
   PATH CONFORMANCE of the done-callback the library registers on its delegate, for the three ways the environment can
   complete the delegate (result, exception, cancel), every answer of fn / error_fn (value, new exception, the same exception
   re-raised, a future - pending, cancelled, finished or failed - to flatten), callbacks raising or not, the future already
   cancelled / finished meanwhile (tolerated InvalidStateError).  Nothing but statements; proofs in Proofs/MapIR_Conf*.v. *)
From Coq Require Import List Bool Arith.
From ME Require Import Base.Machine Base.Fut Model.MapFut Model.MapIR Gen.MapSkel Proofs.MapIR_Conf Proofs.MapIR_Conf2 Proofs.MapIR_Conf5.
Import ListNotations.

(* the delegate finishes with a result *)
Theorem c13_resolved_result_paths_conform_src : forall c x, In c cfgs -> In x scns -> applicable (EnResolved 0) c x = true ->
  paths (EnResolved 0) c x <> [] /\
  forall p, In p (paths (EnResolved 0) c x) ->
  exists its evs s1 s2,
    path_items (EnResolved 0) p = Some its /\
    step (state_of c x) (EEnvFinish T 1 (s_e1 x) (Ok 5)) = Some s1 /\
    run step s1 evs = Some s2 /\
    heads s1 (map it_t its) evs = Some (map it_head its) /\
    thr s2 T = [] /\ thr s2 T2 = [] /\ agree s2 (fst p) = true.
Proof. exact (conf_all_conforms (EnResolved 0) resolved_ok_conf). Qed.

(* the delegate finishes with an exception *)
Theorem c13_resolved_exception_paths_conform_src : forall c x, In c cfgs -> In x scns -> applicable (EnResolved 1) c x = true ->
  paths (EnResolved 1) c x <> [] /\
  forall p, In p (paths (EnResolved 1) c x) ->
  exists its evs s1 s2,
    path_items (EnResolved 1) p = Some its /\
    step (state_of c x) (EEnvFinish T 1 (s_e1 x) (Err 7)) = Some s1 /\
    run step s1 evs = Some s2 /\
    heads s1 (map it_t its) evs = Some (map it_head its) /\
    thr s2 T = [] /\ thr s2 T2 = [] /\ agree s2 (fst p) = true.
Proof. exact (conf_all_conforms (EnResolved 1) resolved_err_conf). Qed.

(* the delegate is cancelled by the environment *)
Theorem c13_resolved_cancel_paths_conform_src : forall c x, In c cfgs -> In x scns -> applicable (EnResolved 2) c x = true ->
  paths (EnResolved 2) c x <> [] /\
  forall p, In p (paths (EnResolved 2) c x) ->
  exists its evs s1 s2,
    path_items (EnResolved 2) p = Some its /\
    step (state_of c x) (EEnvCancel T 1 (s_e1 x)) = Some s1 /\
    run step s1 evs = Some s2 /\
    heads s1 (map it_t its) evs = Some (map it_head its) /\
    thr s2 T = [] /\ thr s2 T2 = [] /\ agree s2 (fst p) = true.
Proof. exact (conf_all_conforms (EnResolved 2) resolved_cancel_conf). Qed.

(* the constructor on a delegate that is already done runs _delegate_resolved inline *)
Theorem c13_new_paths_conform_src : forall c x, In c cfgs -> In x scns -> applicable EnNew c x = true ->
  paths EnNew c x <> [] /\ forall p, In p (paths EnNew c x) -> conforms EnNew c x p.
Proof. exact (conf_all_conforms EnNew new_conf). Qed.

(* a racing cancel() between self.done() and set_result: the tolerated InvalidStateError path, on the machine *)
Theorem c13_resolved_paths_conform_one_interference_src : forall k c x, In k [0; 1; 2] -> In c cfgs -> In x scns -> applicable (EnResolved k) c x = true ->
  paths_n 1 (EnResolved k) c x <> [] /\ forall p, In p (paths_n 1 (EnResolved k) c x) -> conforms (EnResolved k) c x p.
Proof.
  intros k c x Hk. apply all_paths_conform1. simpl in Hk. simpl.
  destruct Hk as [<-|[<-|[<-|[]]]]; auto 10.
Qed.

(* in the families no path of a generated method gets stuck or raises out of the method *)
Theorem c13_all_paths_complete_src :
  forallb (fun en => forallb (fun c => forallb (fun x => negb (applicable en c x) || forallb completes (paths en c x)) scns) cfgs) entries = true.
Proof. exact all_paths_complete. Qed.

(* non-vacuity: a FlatMapFuture whose error_fn answers with the already failed future d3: flattened, d3's callback runs
   inline, its exception 8 becomes the outcome, the two callbacks run *)
Example c13_ir_flatten_path :
  nth_error (map (fun p => option_map (map it_instr) (path_items (EnResolved 1) p))
                 (paths (EnResolved 1) (mkCfg KFlat true true false [40; 41]) (mkScn Pending (Some 1) Pending (Ok 5) Finished (Err 8)))) 12
  = Some (Some [IAcqMSet 0 None false; IRelM 0; IDCancelledQ 0 1; IUserEfn 0 1; IDoneQ 0 (Some (MFut 3));
                IAcqMSet 0 (Some 3) true; IRelM 0; IAddCbE 3 0; IAcqMSet 0 None false; IRelM 0; IDCancelledQ 0 3;
                IAcqM 0; IRelM 0; IAcqM 0; IFSetExc 0 8; IRelMCbs 0; IUserCb 0 40 false; IUserCb 0 41 false; IDoneQ 0 None]).
Proof. vm_compute. reflexivity. Qed.

Print Assumptions c13_resolved_result_paths_conform_src.
Print Assumptions c13_resolved_exception_paths_conform_src.
Print Assumptions c13_resolved_cancel_paths_conform_src.
Print Assumptions c13_new_paths_conform_src.
Print Assumptions c13_all_paths_complete_src.
Print Assumptions c13_resolved_paths_conform_one_interference_src.
