(* C14 (and the C02 / C03 / C06 / C18 statements of Props/Comb_F.v, Props/Comb_G.v) on the programs REGENERATED FROM THE
   SOURCE: every reachable state of the IR machine (Model/CombIR.v) running Gen/CombSkel.v (tools/comb2coq.py: the f_or /
   f_and / f_zip wrappers, BoolOperation.__init__ / handle_done, Zipper.__init__ / handle_done, chain_cancel,
   notify_cancel), and the equivalence of that machine with the hand-written acceptor Model/Comb.v.
   Nothing but statements; proofs are in Proofs/CombIR_Sim*.v, Proofs/CombIR_Transfer.v.

   Reading guide (Model/CombIR.v): sh s is the shared part (fields as in Comb.st, prefixed with i), ithr s t the stack of
   frames of thread t; ihist (sh s) the ghost history, newest first (events as in Props/Comb_G.v). *)
From Coq Require Import List Bool Arith ZArith.
From ME Require Import Base.Machine Base.Fut Base.GenPrelude Gen.BoolGen Model.Comb Model.CombIR Gen.CombSkel
  Proofs.Comb_Spec Proofs.Comb_I0 Proofs.CombIR_Sim Proofs.CombIR_Sim9 Proofs.CombIR_Transfer.
Import ListNotations.

(* the machine the theorems are about: the generic IR semantics applied to the generated programs *)
Definition src_step : ist -> ev -> option ist :=
  istep or_wrapper_prog and_wrapper_prog zip_wrapper_prog bool_init_prog zip_init_prog
        bool_handle_prog zip_handle_prog chain_cb_prog notify_cb_prog.
Definition src_reachable (s : ist) : Prop := reachable_from src_step iinit s.
Definition src_quiescent (s : ist) : Prop := forall t, ithr s t = [].

(* static checks on the generated text: every set_running_or_notify_cancel() is inside try / except RuntimeError; the
   operation lock is never taken while it is held, and nothing that runs callbacks is called under it *)
Theorem c14_generated_programs_checked_src :
  forallb srnc_guarded [or_wrapper_prog; and_wrapper_prog; zip_wrapper_prog; bool_init_prog; zip_init_prog;
                        bool_handle_prog; zip_handle_prog; chain_cb_prog; notify_cb_prog] = true /\
  forallb lock_discipline [or_wrapper_prog; and_wrapper_prog; zip_wrapper_prog; bool_init_prog; zip_init_prog;
                           bool_handle_prog; zip_handle_prog; chain_cb_prog; notify_cb_prog] = true.
Proof. exact generated_programs_checked. Qed.

(* ---- tie: the generated programs and Comb.v move in lockstep ----------------------------------------------------- *)
(* from related states every event is accepted by both machines, with related successors, or rejected by both; the one
   exception is Comb.v's constructor call of Zipper over NO inputs, which the generated f_zip never makes *)
Theorem c14_lockstep_src : forall s cs e, R s cs ->
  match src_step s e, step cs e with
  | Some s', Some cs' => R s' cs'
  | None, None => True
  | None, Some _ => match e with ECallNew _ KZip [] => True | _ => False end
  | Some _, None => False
  end.
Proof. exact lockstep. Qed.

(* forward: every trace of the generated programs is accepted by Comb.v (this is what transfers the safety theorems) *)
Theorem c14_ir_trace_accepted_by_comb : forall es s, run src_step iinit es = Some s ->
  exists cs, run step init es = Some cs /\ R s cs.
Proof. exact ir_trace_accepted_by_comb. Qed.

(* backward: Comb.v accepts nothing the generated programs cannot do, Zipper over no inputs apart *)
Theorem c14_comb_trace_accepted_by_ir : forall es cs,
  Forall (fun e => match e with ECallNew _ KZip [] => False | _ => True end) es ->
  run step init es = Some cs -> exists s, run src_step iinit es = Some s /\ R s cs.
Proof.
  intros es cs H. apply comb_trace_accepted_by_ir.
  unfold no_zip0. eapply Forall_impl; [|exact H]. intros e He Hz. destruct e; try exact Hz. destruct k; try exact Hz.
  destruct ins; [exact He|exact Hz].
Qed.

Theorem c14_trace_equivalent_src : forall es, no_zip0 es -> (run src_step iinit es <> None <-> run step init es <> None).
Proof. exact ir_comb_trace_equivalent. Qed.

(* the lockstep runner's verdict on a wire trace would be the same with the generated programs in place of Comb.v *)
Theorem c14_same_verdict_src : forall ls,
  (forall es, decode_all ls = Some es -> no_zip0 es) -> iaccept src_step ls = accept ls.
Proof. exact iaccept_eq_accept. Qed.

Theorem c14_zip_no_inputs_only_in_comb : forall t,
  src_step iinit (ECallNew t KZip []) = None /\ step init (ECallNew t KZip []) <> None.
Proof. exact zip_no_inputs_only_in_comb. Qed.

(* every invariant of Comb.v transfers *)
Theorem c14_invariant_transfer_src : forall (P : st -> Prop),
  (forall cs, reachable_from step init cs -> P cs) ->
  forall s, src_reachable s -> exists cs, R s cs /\ P cs.
Proof. exact ir_invariant_transfer. Qed.

(* ---- the wrappers: a single input is returned as is (the `if not fs: return f` of the generated f_or / f_and) ----- *)
Theorem c14_single_input_identity_src : forall h f lv,
  iinputs h = [f] ->
  srun bool_init_prog zip_init_prog FUEL h (map IS or_wrapper_prog ++ [KRet]) lv = (h, [KRet], set_ret lv (RIn f)) /\
  srun bool_init_prog zip_init_prog FUEL h (map IS and_wrapper_prog ++ [KRet]) lv = (h, [KRet], set_ret lv (RIn f)).
Proof. exact single_input_returns_it. Qed.

(* ---- C14 on the generated program -------------------------------------------------------------------------------- *)
(* f_or decides on the first input to finish truthy, otherwise on the last input to finish *)
Theorem c14_or_first_truthy_else_last_src : forall s, src_reachable s -> ick (sh s) = KOr -> forall l1 d o l2,
  ihist (sh s) = l1 ++ HDecide d o :: l2 ->
  exists v l2', l2 = HSeen d v :: l2' /\
    (truthy_view v = true \/ forall x, In x (iinputs (sh s)) -> seen_in l2 x) /\
    (forall d' v', In (HSeen d' v') l2' -> truthy_view v' = false) /\
    o = (if v_cancelled v then None else Some (ioc_of (sh s) d)).
Proof. exact ir_or_fold. Qed.

(* f_and decides on the first input to finish falsy, otherwise on the last input to finish *)
Theorem c14_and_first_falsy_else_last_src : forall s, src_reachable s -> ick (sh s) = KAnd -> forall l1 d o l2,
  ihist (sh s) = l1 ++ HDecide d o :: l2 ->
  exists v l2', l2 = HSeen d v :: l2' /\
    (falsy_view v = true \/ forall x, In x (iinputs (sh s)) -> seen_in l2 x) /\
    (forall d' v', In (HSeen d' v') l2' -> falsy_view v' = false) /\
    o = (if v_cancelled v then None else Some (ioc_of (sh s) d)).
Proof. exact ir_and_fold. Qed.

Theorem c14_decide_once_src : forall s, src_reachable s -> forall l1 d o l2,
  ihist (sh s) = l1 ++ HDecide d o :: l2 -> forall d' o', ~ In (HDecide d' o') l2 /\ ~ In (HDecide d' o') l1.
Proof. exact ir_decide_once. Qed.

Theorem c14_output_is_deciders_outcome_src : forall s, src_reachable s -> ick (sh s) <> KZip -> forall o,
  In (HSetOut o) (ihist (sh s)) -> exists d, In (HDecide d (Some o)) (ihist (sh s)).
Proof. exact ir_output_is_decider. Qed.

(* once the output is decided or cancelled, every input still pending receives cancel() (hypotheses as in
   Props/Comb_F.v c14_losers_cancelled) *)
Theorem c14_losers_cancelled_src : forall s, src_reachable s -> src_quiescent s -> ibuilt (sh s) = true ->
  fdone (ios (sh s)) = true ->
  ~ In out_id (iinputs (sh s)) -> length (iinputs (sh s)) <= notify_id ->
  (ick (sh s) <> KZip \/ fcancelled (ios (sh s)) = true) ->
  forall x, In x (iinputs (sh s)) -> fdone (ies (sh s) x) = true.
Proof. exact ir_losers_cancelled. Qed.

(* ---- C02 / C18 ---------------------------------------------------------------------------------------------------- *)
Theorem c02_comb_output_once_src : forall s, src_reachable s -> forall l1 o l2,
  ihist (sh s) = l1 ++ HSetOut o :: l2 -> (forall o', ~ In (HSetOut o') l2) /\ ~ In HOutCancelled l2 /\ ~ In HOutCancelled l1.
Proof. exact ir_output_once. Qed.
Theorem c02_comb_cancelled_output_notified_src : forall s, src_reachable s -> src_quiescent s -> ios (sh s) <> Cancelled.
Proof. exact ir_cancel_notified. Qed.
(* no thread of the generated programs dies (the IR machine has no step for a thread death, and by the lockstep theorem
   Comb.v accepts none either from a related state) *)
Theorem c18_comb_no_thread_dies_src : forall s, src_reachable s -> forall t, src_step s (EDied t) = None.
Proof. exact ir_no_thread_dies. Qed.

(* ---- C03: no future is lost ---------------------------------------------------------------------------------------- *)
Theorem c03_comb_no_lost_src : forall s, src_reachable s -> src_quiescent s -> ibuilt (sh s) = true -> iinputs (sh s) <> [] ->
  (forall x, In x (iinputs (sh s)) -> fdone (ies (sh s) x) = true) ->
  ios (sh s) = Finished \/ ios (sh s) = CancelledNotified.
Proof. exact ir_no_lost. Qed.
Theorem c03_comb_pending_output_waits_for_input_src : forall s, src_reachable s -> src_quiescent s -> ibuilt (sh s) = true ->
  iinputs (sh s) <> [] -> fdone (ios (sh s)) = false -> exists x, In x (iinputs (sh s)) /\ fdone (ies (sh s) x) = false.
Proof. exact ir_pending_output_pending_input. Qed.
Theorem c03_comb_all_inputs_done_decided_src : forall s, src_reachable s -> src_quiescent s -> ibuilt (sh s) = true ->
  iinputs (sh s) <> [] -> (forall x, In x (iinputs (sh s)) -> fdone (ies (sh s) x) = true) ->
  exists d o, In (HDecide d o) (ihist (sh s)).
Proof. exact ir_all_done_decided. Qed.
Theorem c03_comb_decided_output_done_src : forall s, src_reachable s -> src_quiescent s ->
  forall d o, In (HDecide d o) (ihist (sh s)) -> ios (sh s) = Finished \/ ios (sh s) = CancelledNotified.
Proof. exact ir_decided_output_done. Qed.
Theorem c03_comb_decision_published_src : forall s, src_reachable s -> src_quiescent s ->
  forall d o, In (HDecide d o) (ihist (sh s)) ->
  (ios (sh s) = CancelledNotified /\ In HOutCancelled (ihist (sh s))) \/
  (ios (sh s) = Finished /\ exists o', In (HSetOut o') (ihist (sh s)) /\ ioout (sh s) = Some o' /\ (ick (sh s) <> KZip -> o = Some o')).
Proof. exact ir_decision_published. Qed.
Theorem c03_comb_output_pending_means_undecided_src : forall s, src_reachable s -> src_quiescent s ->
  (fdone (ios (sh s)) = false <-> (forall d o, ~ In (HDecide d o) (ihist (sh s))) /\ ~ In HOutCancelled (ihist (sh s))).
Proof. exact ir_pending_iff_undecided. Qed.
Theorem c03_comb_output_done_means_decided_src : forall s, src_reachable s -> fdone (ios (sh s)) = true ->
  (exists d o, In (HDecide d o) (ihist (sh s))) \/ In HOutCancelled (ihist (sh s)).
Proof. exact ir_done_means_decided. Qed.

(* ---- C06: cancellation of the output -------------------------------------------------------------------------------- *)
Theorem c06_comb_output_cancel_fans_out_src : forall s, src_reachable s -> src_quiescent s ->
  length (iinputs (sh s)) <= notify_id ->
  forall l1 l2, ihist (sh s) = l1 ++ HOutCancelled :: l2 ->
  forall x, In x (iinputs (sh s)) -> exists pre, In (HCancelReq x pre) l1.
Proof. exact ir_cancel_fans_out. Qed.
Theorem c06_comb_output_cancel_reaches_inputs_src : forall s, src_reachable s -> src_quiescent s ->
  length (iinputs (sh s)) <= notify_id ->
  forall l1 l2, ihist (sh s) = l1 ++ HOutCancelled :: l2 ->
  forall x, In x (iinputs (sh s)) -> exists pre, In (HCancelReq x pre) l1 /\
    (pre = Pending -> ies (sh s) x = Cancelled) /\ (pre <> Pending -> fdone pre = true /\ ies (sh s) x = pre).
Proof. exact ir_cancel_fans_out_effect. Qed.
Theorem c06_comb_cancel_true_only_when_cancelled_src : forall s t s1, src_reachable s -> src_step s (ERet t 2) = Some s1 ->
  fcancelled (ios (sh s)) = true /\ ios (sh s1) = ios (sh s) /\ ihist (sh s1) = ihist (sh s).
Proof. exact ir_cancel_true_cancelled. Qed.
Theorem c06_comb_cancel_true_stays_src : forall s t s1, src_reachable s -> src_step s (ERet t 2) = Some s1 ->
  forall evs s', run src_step s1 evs = Some s' ->
  fcancelled (ios (sh s')) = true /\ In HOutCancelled (ihist (sh s')) /\ forall o, ~ In (HSetOut o) (ihist (sh s')).
Proof. exact ir_cancel_true_stays. Qed.
Theorem c06_comb_cancelled_no_outcome_src : forall s, src_reachable s -> forall l1 l2,
  ihist (sh s) = l1 ++ HOutCancelled :: l2 ->
  fcancelled (ios (sh s)) = true /\ (forall o, ~ In (HSetOut o) l1) /\ (forall o, ~ In (HSetOut o) l2).
Proof. exact ir_out_cancelled_split. Qed.

(* ---- non-vacuity: the witness traces of Props/Comb_G.v, run by the generated programs ------------------------------- *)
Ltac quiesce := intros t; cbv; repeat match goal with |- context [match ?x with _ => _ end] => destruct x end; reflexivity.

(* f_or over inputs 1, 2: both finish falsy; the last one decides; the output is set *)
Definition w_done : list ev :=
  [ECallNew 0 KOr [1; 2]; EFO 0 5 Pending; EFO 0 5 Pending; EFI 0 5 1 Pending; EFO 0 5 Pending; EFI 0 5 2 Pending; ERet 0 0;
   EEnvFinish 1 1 Pending (Ok 5 false); EAcqL 1; EFI 1 0 1 Finished; ERelL 1;
   EEnvFinish 2 2 Pending (Ok 6 false); EAcqL 2; EFI 2 0 2 Finished; ERelL 2; EFO 2 4 Pending;
   EFO 2 0 Finished; EFO 2 0 Finished; EFO 2 0 Finished].
Example c14_nonvacuous_or_src : exists s, run src_step iinit w_done = Some s /\ src_quiescent s /\ ibuilt (sh s) = true /\
  ick (sh s) = KOr /\ iinputs (sh s) = [1; 2] /\ (forall x, In x (iinputs (sh s)) -> fdone (ies (sh s) x) = true) /\
  ios (sh s) = Finished /\ ioout (sh s) = Some (Ok 6 false) /\
  ihist (sh s) = [HSetOut (Ok 6 false); HDecide 2 (Some (Ok 6 false)); HSeen 2 (iview (sh s) 2); HEnvDone 2 (Ok 6 false);
                  HSeen 1 (iview (sh s) 1); HEnvDone 1 (Ok 5 false)].
Proof.
  eexists. split; [vm_compute; reflexivity|].
  repeat split; try (vm_compute; reflexivity).
  - quiesce.
  - intros x Hx. vm_compute in Hx. destruct Hx as [<-|[<-|[]]]; vm_compute; reflexivity.
Qed.

(* f_and over inputs 1, 2, 1 (a duplicate): input 1 finishes truthy (both its registrations run; the second finds it
   already removed), input 2 finishes falsy and decides *)
Definition w_and_dup : list ev :=
  [ECallNew 0 KAnd [1; 2; 1]; EFO 0 5 Pending; EFO 0 5 Pending; EFI 0 5 1 Pending; EFO 0 5 Pending; EFI 0 5 2 Pending;
   EFO 0 5 Pending; EFI 0 5 1 Pending; ERet 0 0;
   EEnvFinish 1 1 Pending (Ok 5 true); EAcqL 1; EFI 1 0 1 Finished; ERelL 1; EAcqL 1; EFI 1 0 1 Finished; ERelL 1;
   EEnvFinish 2 2 Pending (Ok 0 false); EAcqL 2; EFI 2 0 2 Finished; ERelL 2; EFO 2 4 Pending;
   EFO 2 0 Finished; EFO 2 0 Finished; EFO 2 0 Finished; EFO 2 0 Finished].
Example c14_nonvacuous_and_dup_src : exists s, run src_step iinit w_and_dup = Some s /\ src_quiescent s /\
  ick (sh s) = KAnd /\ ios (sh s) = Finished /\ ioout (sh s) = Some (Ok 0 false) /\
  run step init w_and_dup <> None.
Proof.
  eexists. split; [vm_compute; reflexivity|].
  repeat split; try (vm_compute; reflexivity); [quiesce|vm_compute; discriminate].
Qed.

(* f_zip over the pending inputs 1, 2: the caller cancels the output; cancel() answers True; both inputs receive cancel() *)
Definition w_cancel : list ev :=
  [ECallNew 0 KZip [1; 2]; EFO 0 5 Pending; EFO 0 5 Pending; EFI 0 5 1 Pending; EFO 0 5 Pending; EFI 0 5 2 Pending; ERet 0 0;
   ECallCancelOut 3; EFO 3 2 Pending; EFO 3 0 Cancelled; EFO 3 3 Cancelled;
   EFO 3 0 CancelledNotified; EFI 3 2 1 Pending; EAcqL 3; EFI 3 0 1 Cancelled; ERelL 3; EFO 3 2 CancelledNotified;
   EFO 3 0 CancelledNotified; EFI 3 2 2 Pending; EAcqL 3; ERelL 3; ERet 3 2].
Example c06_nonvacuous_cancel_fans_out_src : exists s, run src_step iinit w_cancel = Some s /\ src_quiescent s /\
  ibuilt (sh s) = true /\ iinputs (sh s) = [1; 2] /\ ios (sh s) = CancelledNotified /\
  ies (sh s) 1 = Cancelled /\ ies (sh s) 2 = Cancelled /\
  ihist (sh s) = [HCancelReq 2 Pending; HDecide 1 None; HSeen 1 (iview (sh s) 1); HCancelReq 1 Pending; HOutCancelled].
Proof.
  eexists. split; [vm_compute; reflexivity|].
  repeat split; try (vm_compute; reflexivity). quiesce.
Qed.
Example c06_nonvacuous_cancel_true_src : exists s s1, run src_step iinit (removelast w_cancel) = Some s /\
  src_step s (ERet 3 2) = Some s1.
Proof. eexists. eexists. split; vm_compute; reflexivity. Qed.

Print Assumptions c14_generated_programs_checked_src.
Print Assumptions c14_lockstep_src.
Print Assumptions c14_ir_trace_accepted_by_comb.
Print Assumptions c14_comb_trace_accepted_by_ir.
Print Assumptions c14_trace_equivalent_src.
Print Assumptions c14_same_verdict_src.
Print Assumptions c14_zip_no_inputs_only_in_comb.
Print Assumptions c14_invariant_transfer_src.
Print Assumptions c14_single_input_identity_src.
Print Assumptions c14_or_first_truthy_else_last_src.
Print Assumptions c14_and_first_falsy_else_last_src.
Print Assumptions c14_decide_once_src.
Print Assumptions c14_output_is_deciders_outcome_src.
Print Assumptions c14_losers_cancelled_src.
Print Assumptions c02_comb_output_once_src.
Print Assumptions c02_comb_cancelled_output_notified_src.
Print Assumptions c18_comb_no_thread_dies_src.
Print Assumptions c03_comb_no_lost_src.
Print Assumptions c03_comb_pending_output_waits_for_input_src.
Print Assumptions c03_comb_all_inputs_done_decided_src.
Print Assumptions c03_comb_decided_output_done_src.
Print Assumptions c03_comb_decision_published_src.
Print Assumptions c03_comb_output_pending_means_undecided_src.
Print Assumptions c03_comb_output_done_means_decided_src.
Print Assumptions c06_comb_output_cancel_fans_out_src.
Print Assumptions c06_comb_output_cancel_reaches_inputs_src.
Print Assumptions c06_comb_cancel_true_only_when_cancelled_src.
Print Assumptions c06_comb_cancel_true_stays_src.
Print Assumptions c06_comb_cancelled_no_outcome_src.
Print Assumptions c14_nonvacuous_or_src.
Print Assumptions c14_nonvacuous_and_dup_src.
Print Assumptions c06_nonvacuous_cancel_fans_out_src.
Print Assumptions c06_nonvacuous_cancel_true_src.
