(* C02 -- the Future-protocol clauses on the component machines whose futures the C02 lockstep families do not drive:
   ThrottleFuture (Model/Throttle.v), PollFuture (Model/Poll.v), the TimeoutExecutor's futures (Model/Timeout.v).
   Statements only.  Proofs: Proofs/Proto_Gen.v (the protocol of one library future seen through a view, machine
   independent), Proofs/Proto_<Machine>_P*.v (program-shape invariant of cancel()), _V.v (every machine step is a
   protocol step), _T.v (the clauses below).
   Clauses: (a) TERMINAL ONCE  (b) CANCEL  (c) NOTIFIED  (d) CALLBACKS (where the machine has them). *)
From Coq Require Import ZArith List Bool Arith Lia.
From ME Require Import Base.Machine Base.Fut Base.GenPrelude Proofs.Proto_Gen.
From ME Require Gen.ThrottleGen Model.Throttle Proofs.Throttle_U3
  Proofs.Proto_Throttle_P Proofs.Proto_Throttle_V Proofs.Proto_Throttle_T.
From ME Require Model.Poll Proofs.Poll_Inv Proofs.Poll_Refute Proofs.Keep_PollC
  Proofs.Proto_Poll_P Proofs.Proto_Poll_V Proofs.Proto_Poll_T Proofs.Proto_Poll_D Proofs.Proto_Poll_D1 Proofs.Proto_Poll_D2.
From ME Require Gen.TimeoutGen Model.Timeout Proofs.Keep_Timeout
  Proofs.Proto_Timeout_P Proofs.Proto_Timeout_V Proofs.Proto_Timeout_T
  Proofs.Proto_Timeout_D Proofs.Proto_Timeout_D2 Proofs.Proto_Timeout_D3 Proofs.Proto_Timeout_D4.
Import ListNotations.

(* =========================================================================================================== *)
(* ThrottleFuture                                                                                               *)
(* =========================================================================================================== *)
Module Throttle.
Import ME.Gen.ThrottleGen ME.Model.Throttle ME.Proofs.Throttle_U3
  ME.Proofs.Proto_Throttle_P ME.Proofs.Proto_Throttle_V ME.Proofs.Proto_Throttle_T.

Definition reachable (s : st) : Prop := reachable_from step init s.

(* ---- (a) TERMINAL ONCE.  Once throttle future j is done, no extension of the run changes its recorded outcome, and
   its state changes at most by the stdlib's CANCELLED -> CANCELLED_AND_NOTIFIED refinement
   (frefines a b := a = b \/ (a = Cancelled /\ b = CancelledNotified)). *)
Theorem c02_throttle_terminal_stable : forall s, reachable s -> forall es s', run step s es = Some s' ->
  forall j, fdone (ms s j) = true -> frefines (ms s j) (ms s' j) /\ mout s' j = mout s j.
Proof. exact throttle_stable. Qed.
(* the literal "the state never changes" is FALSE: that refinement does happen (set_running_or_notify_cancel) *)
Theorem c02_throttle_state_frozen_refuted :
  exists s e s' j, reachable s /\ step s e = Some s' /\ fdone (ms s j) = true /\ ms s j = Cancelled /\ ms s' j = CancelledNotified.
Proof. exact proto_state_frozen_refuted. Qed.
(* FINISHED iff an outcome is recorded; a cancelled future has none; unallocated ids are untouched *)
Theorem c02_throttle_outcome_iff_finished : forall s, reachable s -> forall j,
  (ms s j = Finished <-> exists o, mout s j = Some o) /\ (fcancelled (ms s j) = true -> mout s j = None) /\
  (nfut s <= j -> ms s j = Pending /\ mout s j = None).
Proof. exact throttle_outcome_iff. Qed.
(* history form (as Props/MapFut_D.v c02_terminal_once; newest first): the outcome of j is set at most once, no
   cancellation of j and no True answer of cancel(j) before or after it, and it is the recorded one *)
Theorem c02_throttle_terminal_once : forall s, reachable s -> forall l1 j o ts l2, hist s = l1 ++ HFinal j o ts :: l2 ->
  (forall o' ts', ~ In (HFinal j o' ts') l1) /\ (forall o' ts', ~ In (HFinal j o' ts') l2) /\
  (forall ts', ~ In (HCancelled j ts') l1) /\ (forall ts', ~ In (HCancelled j ts') l2) /\
  (forall ts', ~ In (HCancelRet j true ts') l1) /\ (forall ts', ~ In (HCancelRet j true ts') l2) /\
  ms s j = Finished /\ mout s j = Some o.
Proof. exact throttle_final_once. Qed.
(* conversely the state of a done future is justified by an event of the history *)
Theorem c02_throttle_done_justified : forall s, reachable s -> forall j,
  (ms s j = Finished -> exists o ts, mout s j = Some o /\ In (HFinal j o ts) (hist s)) /\
  (fcancelled (ms s j) = true -> exists ts, In (HCancelled j ts) (hist s)).
Proof. exact throttle_done_justified. Qed.

(* ---- (b) CANCEL.  A True return: the future is cancelled, has no outcome, and stays so in every later state *)
Theorem c02_throttle_cancel_true_stays : forall s, reachable s -> forall j ts, In (HCancelRet j true ts) (hist s) ->
  fcancelled (ms s j) = true /\ mout s j = None /\
  forall es s', run step s es = Some s' -> fcancelled (ms s' j) = true /\ mout s' j = None.
Proof. exact throttle_cancel_true_stays. Qed.
(* a future that finished with a result / exception gets False from every later cancel() *)
Theorem c02_throttle_cancel_false_on_finished : forall s, reachable s -> forall l1 j b ts l2,
  hist s = l1 ++ HCancelRet j b ts :: l2 -> (exists o ts', In (HFinal j o ts') l2) -> b = false.
Proof. exact throttle_cancel_false_on_finished. Qed.
(* ... and after a True answer no outcome is ever recorded *)
Theorem c02_throttle_no_outcome_after_true : forall s, reachable s -> forall l1 j ts l2,
  hist s = l1 ++ HCancelRet j true ts :: l2 -> forall o ts', ~ In (HFinal j o ts') l1.
Proof. exact throttle_no_outcome_after_true. Qed.
(* cancel() never raises: the program of a thread inside cancel(j) consists of instructions of the cancel path and of
   the callbacks it runs inline (cbody: lock operations on M / A, event.set, the stdlib calls on the two futures --
   none of them can raise in the model), closed by exactly one instruction that returns the bool or expands to it
   (closer); no IRetRaise is ever reachable from it *)
Theorem c02_throttle_cancel_never_raises : forall s, reachable s -> forall t j, cancelling s t = Some j ->
  (j < nfut s)%nat /\
  (exists body c, thr s t = body ++ [c] /\ forallb cbody body = true /\ closer j c = true) /\
  ~ In IRetRaise (thr s t).
Proof. exact throttle_cancel_never_raises. Qed.
(* ... and its API return is a bool (code 1 = False, 2 = True), the one recorded in the history *)
Theorem c02_throttle_cancel_returns_bool : forall s ts t c s', reachable s -> step s (ts, ERet t c) = Some s' ->
  forall j, cancelling s t = Some j ->
  (c = 1 \/ c = 2)%nat /\ hist s' = HCancelRet j (Nat.eqb c 2) ts :: hist s /\ cancelling s' t = None.
Proof. exact throttle_cancel_returns_bool. Qed.

(* ---- (c) NOTIFIED.  A future in the bare CANCELLED state has its set_running_or_notify_cancel() pending in the
   program of some thread; at rest (every client thread idle, the hand-over thread parked in event.wait()) no future
   is in the bare CANCELLED state: wait() / as_completed() callers have been released *)
Theorem c02_throttle_cancelled_notification_pending : forall s, reachable s -> forall j,
  ms s j = Cancelled -> exists t, In (IFSrnc j) (thr s t).
Proof. exact throttle_cancelled_notified. Qed.
Theorem c02_throttle_at_rest_notified : forall s, reachable s -> all_idle_parked s -> forall j, ms s j <> Cancelled.
Proof. exact throttle_at_rest_notified. Qed.

(* ---- (d) CALLBACKS: Model/Throttle.v has no user done-callbacks on the ThrottleFuture (its only done-callback,
   _clear_executor, is the silent flag [mexec] reset by IRelMCbs); CbDone / CbRes are callbacks on the DELEGATE future
   (a stdlib future), covered by Props/C07_more.v (c03_throttle_done_callbacks_cleared, c03_throttle_quiescent_accounting)
   and Props/C12_keep_throttle.v.  Nothing is stated here. *)

(* ---- non-vacuity: at rest, future 0 finished with value 7, future 1 cancelled while queued (cancel() returned True,
   notified), future 2 pending ---------------------------------------------------------------------------------- *)
Example c02_throttle_nonvacuous :
  exists s, reachable s /\ all_idle_parked s /\
            ms s 0 = Finished /\ mout s 0 = Some (Ok 7) /\ ms s 1 = CancelledNotified /\ mout s 1 = None /\
            ms s 2 = Pending /\ nfut s = 3%nat /\
            hist s = HFinal 0 (Ok 7) 2 :: HDecr 0 0 2 :: HDDone 0 2 :: HCancelRet 1 true 1 :: HCancelled 1 1 :: HCancelQ 1 1 ::
                     skipn 6 (hist s).
Proof. exact proto_rest_example. Qed.
(* a thread inside cancel(), between super().cancel() and the notification: the bare CANCELLED state *)
Example c02_throttle_inside_cancel :
  exists s, reachable s /\ cancelling s 2 = Some 1%nat /\ thr s 2 = [IFSrnc 1; IRelMCbs 1; IRetB true] /\ ms s 1 = Cancelled.
Proof. exact proto_cancel_example. Qed.
End Throttle.

(* =========================================================================================================== *)
(* PollFuture                                                                                                   *)
(* =========================================================================================================== *)
Module Poll.
Import ME.Model.Poll ME.Proofs.Poll_Inv ME.Proofs.Poll_Refute ME.Proofs.Keep_PollC
  ME.Proofs.Proto_Poll_P ME.Proofs.Proto_Poll_V ME.Proofs.Proto_Poll_T ME.Proofs.Proto_Poll_D ME.Proofs.Proto_Poll_D1 ME.Proofs.Proto_Poll_D2.

(* reachable s := reachable_from step init s (Proofs/Poll_Inv.v) *)

(* ---- (a) TERMINAL ONCE ---- *)
Theorem c02_poll_terminal_stable : forall s, reachable s -> forall es s', run step s es = Some s' ->
  forall j, fdone (ps s j) = true -> frefines (ps s j) (ps s' j) /\ pout s' j = pout s j.
Proof. exact poll_stable. Qed.
Theorem c02_poll_state_frozen_refuted :
  exists s e s' j, reachable s /\ step s e = Some s' /\ fdone (ps s j) = true /\ ps s j = Cancelled /\ ps s' j = CancelledNotified.
Proof. exact proto_state_frozen_refuted. Qed.
Theorem c02_poll_outcome_iff_finished : forall s, reachable s -> forall j,
  (ps s j = Finished <-> exists o, pout s j = Some o) /\ (fcancelled (ps s j) = true -> pout s j = None) /\
  (nfut s <= j -> ps s j = Pending /\ pout s j = None).
Proof. exact poll_outcome_iff. Qed.
(* first yield wins (cf. Props/C08.v) in protocol form: the outcome is set at most once, never around a cancellation *)
Theorem c02_poll_terminal_once : forall s, reachable s -> forall l1 j o ts l2, hist s = l1 ++ HSet j o ts :: l2 ->
  (forall o' ts', ~ In (HSet j o' ts') l1) /\ (forall o' ts', ~ In (HSet j o' ts') l2) /\
  (forall ts', ~ In (HCancelled j ts') l1) /\ (forall ts', ~ In (HCancelled j ts') l2) /\
  (forall t' ts', ~ In (HCancelRet t' j true ts') l1) /\ (forall t' ts', ~ In (HCancelRet t' j true ts') l2) /\
  ps s j = Finished /\ pout s j = Some o.
Proof. exact poll_final_once. Qed.
Theorem c02_poll_done_justified : forall s, reachable s -> forall j,
  (ps s j = Finished -> exists o ts, pout s j = Some o /\ In (HSet j o ts) (hist s)) /\
  (fcancelled (ps s j) = true -> exists ts, In (HCancelled j ts) (hist s)).
Proof. exact poll_done_justified. Qed.

(* ---- (b) CANCEL ---- *)
Theorem c02_poll_cancel_true_stays : forall s, reachable s -> forall t0 j ts, In (HCancelRet t0 j true ts) (hist s) ->
  fcancelled (ps s j) = true /\ pout s j = None /\
  forall es s', run step s es = Some s' -> fcancelled (ps s' j) = true /\ pout s' j = None.
Proof. exact poll_cancel_true_stays. Qed.
Theorem c02_poll_cancel_false_on_finished : forall s, reachable s -> forall l1 t0 j b ts l2,
  hist s = l1 ++ HCancelRet t0 j b ts :: l2 -> (exists o ts', In (HSet j o ts') l2) -> b = false.
Proof. exact poll_cancel_false_on_finished. Qed.
Theorem c02_poll_no_outcome_after_true : forall s, reachable s -> forall l1 t0 j ts l2,
  hist s = l1 ++ HCancelRet t0 j true ts :: l2 -> forall o ts', ~ In (HSet j o ts') l1.
Proof. exact poll_no_outcome_after_true. Qed.
(* cancel() never raises -- also when the user's cancel function raises (ECancelFn ... 2: a veto, Props/C18.v): the
   program of a thread inside cancel(j) is cancel-body instructions closed by one instruction that returns the bool or
   expands to it (ICancelled / IDoneC / IDCancel / the silent ICancelFnQ / IUserCancelFn / IRetB); the machine has no
   raising return; the poll thread is never inside cancel() *)
Theorem c02_poll_cancel_never_raises : forall s, reachable s -> forall t j, cancelling s t = Some j ->
  j < nfut s /\ t <> poller /\
  (exists body c, thr s t = body ++ [c] /\ forallb cbody body = true /\ closer j c = true).
Proof. exact poll_cancel_never_raises. Qed.
Theorem c02_poll_cancel_returns_bool : forall s ts t c s', reachable s -> step s (ts, ERet t c) = Some s' ->
  forall j, cancelling s t = Some j ->
  (c = 1 \/ c = 2) /\ hist s' = HCancelRet t j (Nat.eqb c 2) ts :: hist s /\ cancelling s' t = None.
Proof. exact poll_cancel_returns_bool. Qed.

(* ---- (c) NOTIFIED: at rest = every client / environment thread outside the library, the poll thread with no yield in
   progress and not between its snapshot and the return of the poll function (Proofs/Keep_PollC.v) ---- *)
Theorem c02_poll_cancelled_notification_pending : forall s, reachable s -> forall j,
  ps s j = Cancelled -> exists t, In (IFSrnc j) (thr s t).
Proof. exact poll_cancelled_notified. Qed.
Theorem c02_poll_at_rest_notified : forall s, reachable s -> poll_at_rest s -> forall j, ps s j <> Cancelled.
Proof. exact poll_at_rest_notified. Qed.

(* ---- (d) CALLBACKS.  Model/Poll.v has no USER done-callbacks on the PollFuture (poll futures with user callbacks are
   driven by the monitor family p_c02p only), but it models the future's one built-in done-callback _clear_executor,
   added by PollFuture.__init__ through self.add_done_callback: pending registration = instruction IDoneA j, registered =
   flag pcb s j, pending invocation = IXDereg j (the X-section of _deregister_poll), ran = history event HDereg j.
   hD j h = number of HDereg j _ in h; bP s j = 1 if pcb s j else 0; alloc s j = 1 if j < nfut s else 0;
   pcI j p = occurrences of IDoneA j / IXDereg j in program p. ---- *)
(* conservation: the callback of an allocated future is in exactly one place, for every finite cover T of the busy threads *)
Theorem c02_poll_callback_conservation : forall s, reachable s -> forall T, supp s T -> forall j, total j s T = alloc s j.
Proof. intros s Hr. exact (proj2 (invC_reachable s Hr)). Qed.
(* at most once, and only for an allocated future -- whether it was added before or after completion *)
Theorem c02_poll_callback_at_most_once : forall s, reachable s -> forall l1 j ts l2, hist s = l1 ++ HDereg j ts :: l2 ->
  j < nfut s /\ (forall ts', ~ In (HDereg j ts') l1) /\ (forall ts', ~ In (HDereg j ts') l2).
Proof. exact poll_dereg_once. Qed.
(* only on a done future *)
Theorem c02_poll_callback_only_on_done : forall s, reachable s ->
  (forall t j, In (IXDereg j) (thr s t) -> fdone (ps s j) = true) /\
  (forall j ts, In (HDereg j ts) (hist s) -> fdone (ps s j) = true).
Proof. exact poll_dereg_only_on_done. Qed.
(* a done future whose callback is still registered has its callbacks (or the notification before them) pending *)
Theorem c02_poll_callback_pending_when_done : forall s, reachable s -> forall j,
  fdone (ps s j) = true -> pcb s j = true -> exists t, has_w2 j (thr s t) = true.
Proof. exact invK_reachable. Qed.
(* at rest: registered xor ran; on a done future it ran exactly once and is no longer registered *)
Theorem c02_poll_callback_exactly_once_at_rest : forall s, reachable s -> poll_at_rest s -> forall j,
  hD j (hist s) + bP s j = alloc s j /\
  (fdone (ps s j) = true -> pcb s j = false /\ (j < nfut s -> hD j (hist s) = 1)) /\
  (fdone (ps s j) = false -> hD j (hist s) = 0 /\ (j < nfut s -> pcb s j = true)).
Proof. exact poll_dereg_at_rest. Qed.
Example c02_poll_callbacks_at_rest :
  let s := state_of w_proto in
  accepted w_proto = true /\ poll_at_rest s /\
  hD 0 (hist s) = 1 /\ pcb s 0 = false /\ hD 1 (hist s) = 1 /\ pcb s 1 = false /\ hD 2 (hist s) = 0 /\ pcb s 2 = true /\
  ps s 2 = Pending.
Proof. exact proto_dereg_rest_example. Qed.
(* the literal "a done future's callback has run" is false before rest (the window of Props/C12_keep_poll.v) *)
Example c02_poll_callback_window :
  let s := state_of w_proto_window in
  accepted w_proto_window = true /\ ps s 1 = CancelledNotified /\ pcb s 1 = true /\ hD 1 (hist s) = 0 /\
  thr s 3 = [IRelMCbs 1; IRetB true].
Proof. exact proto_dereg_window_example. Qed.

(* ---- non-vacuity: at rest, future 0 resolved by the poll function with 7, future 1 cancelled by client thread 3
   (True; notified), future 2 pending in the polling stage ---- *)
Example c02_poll_nonvacuous :
  let s := state_of w_proto in
  accepted w_proto = true /\ poll_at_rest s /\ nfut s = 3 /\
  ps s 0 = Finished /\ pout s 0 = Some (Ok 7) /\ ps s 1 = CancelledNotified /\ pout s 1 = None /\ ps s 2 = Pending /\
  In (HCancelRet 3 1 true 1%Z) (hist s) /\ In (HCancelled 1 1%Z) (hist s) /\ In (HSet 0 (Ok 7) 1%Z) (hist s).
Proof. exact proto_rest_example. Qed.
Example c02_poll_inside_cancel :
  let s := state_of w_proto_prefix in
  accepted w_proto_prefix = true /\ cancelling s 3 = Some 1 /\ thr s 3 = [IFSrnc 1; IRelMCbs 1; IRetB true] /\ ps s 1 = Cancelled.
Proof. exact proto_cancel_example. Qed.
End Poll.

(* =========================================================================================================== *)
(* the futures returned by the TimeoutExecutor                                                                  *)
(* =========================================================================================================== *)
Module Timeout.
Import ME.Gen.TimeoutGen ME.Model.Timeout ME.Proofs.Keep_Timeout
  ME.Proofs.Proto_Timeout_P ME.Proofs.Proto_Timeout_V ME.Proofs.Proto_Timeout_T
  ME.Proofs.Proto_Timeout_D ME.Proofs.Proto_Timeout_D2 ME.Proofs.Proto_Timeout_D3 ME.Proofs.Proto_Timeout_D4.

Definition reachable (s : st) : Prop := reachable_from step init s.

(* ---- (a) TERMINAL ONCE ---- *)
Theorem c02_timeout_terminal_stable : forall s, reachable s -> forall es s', run step s es = Some s' ->
  forall j, fdone (rs s j) = true -> frefines (rs s j) (rs s' j) /\ rout s' j = rout s j.
Proof. exact timeout_stable. Qed.
Theorem c02_timeout_state_frozen_refuted :
  exists s e s' j, reachable s /\ step s e = Some s' /\ fdone (rs s j) = true /\ rs s j = Cancelled /\ rs s' j = CancelledNotified.
Proof. exact proto_state_frozen_refuted. Qed.
Theorem c02_timeout_outcome_iff_finished : forall s, reachable s -> forall j,
  (rs s j = Finished <-> exists o, rout s j = Some o) /\ (fcancelled (rs s j) = true -> rout s j = None) /\
  (nfut s <= j -> rs s j = Pending /\ rout s j = None).
Proof. exact timeout_outcome_iff. Qed.
(* in particular an outcome that arrived before the deadline is kept and a timed-out future never gets one (cf. C09) *)
Theorem c02_timeout_terminal_once : forall s, reachable s -> forall l1 j o ts l2, hist s = l1 ++ HSet j o ts :: l2 ->
  (forall o' ts', ~ In (HSet j o' ts') l1) /\ (forall o' ts', ~ In (HSet j o' ts') l2) /\
  (forall ts', ~ In (HCancelled j ts') l1) /\ (forall ts', ~ In (HCancelled j ts') l2) /\
  (forall ts', ~ In (HCancelRet j true ts') l1) /\ (forall ts', ~ In (HCancelRet j true ts') l2) /\
  rs s j = Finished /\ rout s j = Some o.
Proof. exact timeout_final_once. Qed.
Theorem c02_timeout_done_justified : forall s, reachable s -> forall j,
  (rs s j = Finished -> exists o ts, rout s j = Some o /\ In (HSet j o ts) (hist s)) /\
  (fcancelled (rs s j) = true -> exists ts, In (HCancelled j ts) (hist s)).
Proof. exact timeout_done_justified. Qed.

(* ---- (b) CANCEL (client calls; the job thread's own _do_cancel has no API return) ---- *)
Theorem c02_timeout_cancel_true_stays : forall s, reachable s -> forall j ts, In (HCancelRet j true ts) (hist s) ->
  fcancelled (rs s j) = true /\ rout s j = None /\
  forall es s', run step s es = Some s' -> fcancelled (rs s' j) = true /\ rout s' j = None.
Proof. exact timeout_cancel_true_stays. Qed.
Theorem c02_timeout_cancel_false_on_finished : forall s, reachable s -> forall l1 j b ts l2,
  hist s = l1 ++ HCancelRet j b ts :: l2 -> (exists o ts', In (HSet j o ts') l2) -> b = false.
Proof. exact timeout_cancel_false_on_finished. Qed.
Theorem c02_timeout_no_outcome_after_true : forall s, reachable s -> forall l1 j ts l2,
  hist s = l1 ++ HCancelRet j true ts :: l2 -> forall o ts', ~ In (HSet j o ts') l1.
Proof. exact timeout_no_outcome_after_true. Qed.
(* cancel() never raises (the machine has no raising return; a raising user callback run inline by cancel() is swallowed:
   EUserCb ... raises): cancel-body instructions closed by the bool return; never the job thread *)
Theorem c02_timeout_cancel_never_raises : forall s, reachable s -> forall t j, cancelling s t = Some j ->
  j < nfut s /\ t <> jt /\
  (exists body c, thr s t = body ++ [c] /\ forallb cbody body = true /\ closer j c = true) /\
  (forall i, In i (thr s t) -> cbody i = true \/ closer j i = true).
Proof. exact timeout_cancel_never_raises. Qed.
Theorem c02_timeout_cancel_returns_bool : forall s ts t c s', reachable s -> step s (ts, ERet t c) = Some s' ->
  forall j, cancelling s t = Some j ->
  (c = 1 \/ c = 2) /\ hist s' = HCancelRet j (Nat.eqb c 2) ts :: hist s /\ cancelling s' t = None.
Proof. exact timeout_cancel_returns_bool. Qed.

(* ---- (c) NOTIFIED: at rest = every client thread idle, the job thread blocked in event.wait() (Keep_Timeout.v) ---- *)
Theorem c02_timeout_cancelled_notification_pending : forall s, reachable s -> forall j,
  rs s j = Cancelled -> exists t, In (IFSrnc j) (thr s t).
Proof. exact timeout_cancelled_notified. Qed.
Theorem c02_timeout_at_rest_notified : forall s, reachable s -> timeout_parked s -> forall j, rs s j <> Cancelled.
Proof. exact timeout_at_rest_notified. Qed.

(* ---- (d) CALLBACKS: user done-callbacks (ECallAddCb t j c, list rcbs, invocation IUserCb j c, history HCb j c).
   Registrations are not in the ghost history, so the counting statements are about accepted traces [es]:
   regs j c es = number of add_done_callback(c) calls on j in es; hc j c h = number of HCb j c _ in h;
   rc c l = number of CbUser c in a callback list; pc j c p = pending occurrences (IDoneA / IUserCb) in a program. ---- *)
(* a callback runs only on a done future *)
Theorem c02_timeout_callback_only_on_done : forall s, reachable s ->
  (forall t j c, In (IUserCb j c) (thr s t) -> fdone (rs s j) = true) /\
  (forall j c ts, In (HCb j c ts) (hist s) -> fdone (rs s j) = true).
Proof. exact timeout_cb_only_on_done. Qed.
(* ... and sees the final outcome: nothing changes it afterwards *)
Theorem c02_timeout_callback_sees_final : forall s ts t j c r s', reachable s -> step s (ts, EUserCb t j c r) = Some s' ->
  fdone (rs s j) = true /\ hist s' = HCb j c ts :: hist s /\ rs s' j = rs s j /\ rout s' j = rout s j /\
  forall es s'', run step s' es = Some s'' -> frefines (rs s j) (rs s'' j) /\ rout s'' j = rout s j.
Proof. exact timeout_cb_sees_final. Qed.
(* conservation: ran + in the list + pending in programs = registered, for every finite cover T of the busy threads *)
Theorem c02_timeout_callback_conservation : forall j c es s, run step init es = Some s -> forall T, supp s T ->
  total j c s T = regs j c es.
Proof. intros j c es. exact (timeout_cb_conservation j c es). Qed.
(* at most once per registration, in every state; literally at most once for an id registered once *)
Theorem c02_timeout_callback_at_most_once : forall es s j c, run step init es = Some s -> hc j c (hist s) <= regs j c es.
Proof. exact timeout_cb_at_most. Qed.
Theorem c02_timeout_callback_once : forall es s j c, run step init es = Some s -> regs j c es <= 1 ->
  forall l1 ts l2, hist s = l1 ++ HCb j c ts :: l2 -> (forall ts', ~ In (HCb j c ts') l1) /\ (forall ts', ~ In (HCb j c ts') l2).
Proof. exact timeout_cb_once. Qed.
(* the literal "HCb j c occurs at most once" is FALSE: the same callback registered twice runs twice (as with the stdlib) *)
Theorem c02_timeout_callback_literal_once_refuted :
  exists es s, run step init es = Some s /\ timeout_parked s /\ rs s 0 = Finished /\ regs 0 5 es = 2 /\
               hist s = HCb 0 5 0 :: HCb 0 5 0 :: skipn 2 (hist s).
Proof. exact proto_cb_at_most_once_refuted. Qed.
(* exactly once per registration at rest, whether added before, during or after completion *)
Theorem c02_timeout_callback_exactly_once_at_rest : forall es s j, run step init es = Some s -> timeout_parked s ->
  fdone (rs s j) = true -> rcbs s j = [] /\ forall c, hc j c (hist s) = regs j c es.
Proof. exact timeout_cb_exactly_at_rest. Qed.

(* ---- non-vacuity ---- *)
Example c02_timeout_nonvacuous :
  exists s, reachable s /\ timeout_parked s /\
            rs s 0 = Finished /\ rout s 0 = Some (Ok 7) /\ rs s 1 = CancelledNotified /\ rout s 1 = None /\
            rs s 2 = Pending /\ nfut s = 3 /\ rcbs s 0 = [] /\ rcbs s 1 = [] /\ rcbs s 2 = [CbWake] /\
            hist s = HCb 0 5 0 :: HSet 0 (Ok 7) 0 :: HEnvDone 0 (Ok 7) 0 :: HCancelRet 1 true 0 :: HCb 1 6 0 :: HCancelled 1 0 ::
                     HDCancel 1 1 true 0 :: HCancelCall 1 0 :: skipn 8 (hist s).
Proof. exact proto_rest_example. Qed.
Example c02_timeout_inside_cancel :
  exists s, reachable s /\ cancelling s 2 = Some 1 /\ thr s 2 = [IFSrnc 1; IRelMCbs 1; IRetB true] /\ rs s 1 = Cancelled /\
            rcbs s 1 = [CbWake; CbUser 6].
Proof. exact proto_cancel_example. Qed.
Example c02_timeout_callbacks_at_rest :
  exists es s, run step init es = Some s /\ timeout_parked s /\ fdone (rs s 0) = true /\ fdone (rs s 1) = true /\
               regs 0 5 es = 1 /\ hc 0 5 (hist s) = 1 /\ regs 1 6 es = 1 /\ hc 1 6 (hist s) = 1 /\
               rcbs s 0 = [] /\ rcbs s 1 = [].
Proof. exact proto_cb_rest_example. Qed.
Example c02_timeout_callback_after_done :
  exists es s, run step init es = Some s /\ timeout_parked s /\ rs s 0 = Finished /\ regs 0 9 es = 1 /\ hc 0 9 (hist s) = 1 /\
               hist s = HCb 0 9 0 :: HCb 0 5 0 :: HSet 0 (Ok 7) 0 :: skipn 3 (hist s).
Proof. exact proto_cb_after_done_example. Qed.
End Timeout.

Print Assumptions Throttle.c02_throttle_terminal_stable.
Print Assumptions Throttle.c02_throttle_state_frozen_refuted.
Print Assumptions Throttle.c02_throttle_outcome_iff_finished.
Print Assumptions Throttle.c02_throttle_terminal_once.
Print Assumptions Throttle.c02_throttle_done_justified.
Print Assumptions Throttle.c02_throttle_cancel_true_stays.
Print Assumptions Throttle.c02_throttle_cancel_false_on_finished.
Print Assumptions Throttle.c02_throttle_no_outcome_after_true.
Print Assumptions Throttle.c02_throttle_cancel_never_raises.
Print Assumptions Throttle.c02_throttle_cancel_returns_bool.
Print Assumptions Throttle.c02_throttle_cancelled_notification_pending.
Print Assumptions Throttle.c02_throttle_at_rest_notified.
Print Assumptions Throttle.c02_throttle_nonvacuous.
Print Assumptions Throttle.c02_throttle_inside_cancel.
Print Assumptions Poll.c02_poll_terminal_stable.
Print Assumptions Poll.c02_poll_state_frozen_refuted.
Print Assumptions Poll.c02_poll_outcome_iff_finished.
Print Assumptions Poll.c02_poll_terminal_once.
Print Assumptions Poll.c02_poll_done_justified.
Print Assumptions Poll.c02_poll_cancel_true_stays.
Print Assumptions Poll.c02_poll_cancel_false_on_finished.
Print Assumptions Poll.c02_poll_no_outcome_after_true.
Print Assumptions Poll.c02_poll_cancel_never_raises.
Print Assumptions Poll.c02_poll_cancel_returns_bool.
Print Assumptions Poll.c02_poll_cancelled_notification_pending.
Print Assumptions Poll.c02_poll_at_rest_notified.
Print Assumptions Poll.c02_poll_callback_conservation.
Print Assumptions Poll.c02_poll_callback_at_most_once.
Print Assumptions Poll.c02_poll_callback_only_on_done.
Print Assumptions Poll.c02_poll_callback_pending_when_done.
Print Assumptions Poll.c02_poll_callback_exactly_once_at_rest.
Print Assumptions Poll.c02_poll_callbacks_at_rest.
Print Assumptions Poll.c02_poll_callback_window.
Print Assumptions Poll.c02_poll_nonvacuous.
Print Assumptions Poll.c02_poll_inside_cancel.
Print Assumptions Timeout.c02_timeout_terminal_stable.
Print Assumptions Timeout.c02_timeout_state_frozen_refuted.
Print Assumptions Timeout.c02_timeout_outcome_iff_finished.
Print Assumptions Timeout.c02_timeout_terminal_once.
Print Assumptions Timeout.c02_timeout_done_justified.
Print Assumptions Timeout.c02_timeout_cancel_true_stays.
Print Assumptions Timeout.c02_timeout_cancel_false_on_finished.
Print Assumptions Timeout.c02_timeout_no_outcome_after_true.
Print Assumptions Timeout.c02_timeout_cancel_never_raises.
Print Assumptions Timeout.c02_timeout_cancel_returns_bool.
Print Assumptions Timeout.c02_timeout_cancelled_notification_pending.
Print Assumptions Timeout.c02_timeout_at_rest_notified.
Print Assumptions Timeout.c02_timeout_nonvacuous.
Print Assumptions Timeout.c02_timeout_inside_cancel.
Print Assumptions Timeout.c02_timeout_callback_only_on_done.
Print Assumptions Timeout.c02_timeout_callback_sees_final.
Print Assumptions Timeout.c02_timeout_callback_conservation.
Print Assumptions Timeout.c02_timeout_callback_at_most_once.
Print Assumptions Timeout.c02_timeout_callback_once.
Print Assumptions Timeout.c02_timeout_callback_literal_once_refuted.
Print Assumptions Timeout.c02_timeout_callback_exactly_once_at_rest.
Print Assumptions Timeout.c02_timeout_callbacks_at_rest.
Print Assumptions Timeout.c02_timeout_callback_after_done.
