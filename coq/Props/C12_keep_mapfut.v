(* C12 (second sentence) on the MapFuture/FlatMapFuture machine (Model/MapFut.v):
   "Once a future is done the library keeps no reference to it, its callable, its arguments or its result".
   What the library (as opposed to the user) holds of a library future j:
     mcbs s j            _me_done_callbacks: the user callbacks still registered (they hold whatever the user closed over);
     mdel s j = Some d   MapFuture._delegate: j -> its delegate d (keeps d, hence d's result, alive through j);
     In j (ecbs s d)     d's callback list holds the bound method j._delegate_resolved (keeps j, hence its fn / error_fn
                         and its result, alive through d -- the reference that matters when the user drops j);
     thr s t             frames of running library code (gone at quiescence).
   Results: a registration exists only between two PENDING futures, in every reachable state (no window);
   the callback list and the delegate link of a done future are empty except in two exactly stated windows;
   at quiescence nothing is left.  The literal "every reachable state" forms that fail in a window are refuted
   by concrete traces.  No Model change.  Proofs: Proofs/Keep_MapFut1.v, Proofs/Keep_MapFut2.v. *)
From Coq Require Import List Bool Arith ZArith Lia.
From ME Require Import Base.Machine Base.Fut Model.MapFut Model.MapLaw Proofs.MapFut_InvD
  Proofs.Keep_MapFut1 Proofs.Keep_MapFut2.
Import ListNotations.

Definition reachable := reachable_from step init.
Definition quiescent (s : st) := forall t, thr s t = [].

(* ================================ (a) user callback list ========================================== *)
(* every reachable state: the callback list of a done future is empty, except while the thread that completed it
   has not yet left M_j (IRelMCbs j: release the lock, then _me_invoke_callbacks; the list is emptied by that move) *)
Theorem c12_map_done_callbacks_window : forall s, reachable s -> forall j,
  fdone (ms s j) = true -> mcbs s j = [] \/ exists t, In (IRelMCbs j) (thr s t).
Proof. exact keep_map_done_callbacks_window. Qed.
Theorem c12_map_done_callbacks_quiescent : forall s, reachable s -> quiescent s -> forall j,
  fdone (ms s j) = true -> mcbs s j = [].
Proof. exact keep_map_done_callbacks_quiescent. Qed.

(* ======================= (b) registrations in delegate callback lists ============================== *)
(* stdlib: a done delegate future has dropped its callback list *)
Theorem c12_map_done_delegate_cbs_cleared : forall s, reachable s -> forall d,
  fdone (es s d) = true -> ecbs s d = [].
Proof. exact keep_map_done_delegate_cbs_cleared. Qed.
(* the C12 content, literal form, TRUE IN EVERY REACHABLE STATE: whenever j._delegate_resolved sits in the callback
   list of d, neither j nor d is done, and j._delegate is d.  So no done library future is ever kept alive by a
   delegate future, and a delegate only retains futures that are still waiting for it. *)
Theorem c12_map_registered_not_done : forall s, reachable s -> forall d j, In j (ecbs s d) ->
  fdone (ms s j) = false /\ fdone (es s d) = false /\ mdel s j = Some d.
Proof. exact keep_map_registered_not_done. Qed.

(* ================================= (c) the delegate link ========================================== *)
(* every reachable state, every future: a non-empty _delegate is backed by the registration on that delegate, by a
   pending delegate.add_done_callback, or is about to be cleared by a pending _clear_delegate (IAcqMSet j None) *)
Theorem c12_map_delegate_link_window : forall s, reachable s -> forall j d, mdel s j = Some d ->
  In j (ecbs s d) \/ exists t, In (IAddCbE d j) (thr s t) \/ exists fl, In (IAcqMSet j None fl) (thr s t).
Proof. exact keep_map_delegate_link_window. Qed.
(* exact window for a DONE future: if _delegate is still set then the delegate is done too (it retains nothing and
   its own callback list is empty), j is registered nowhere, and a thread is about to clear the field: its pending
   add_done_callback (which finds the delegate done and runs _delegate_resolved inline) or a pending _clear_delegate.
   Only cancel() opens this window (set_result / set_exception run after _clear_delegate). *)
Theorem c12_map_done_delegate_link_window : forall s, reachable s -> forall j d,
  fdone (ms s j) = true -> mdel s j = Some d ->
  fdone (es s d) = true /\ (forall d', ~ In j (ecbs s d')) /\
  exists t, In (IAddCbE d j) (thr s t) \/ exists fl, In (IAcqMSet j None fl) (thr s t).
Proof. exact keep_map_done_delegate_link_window. Qed.
Theorem c12_map_done_delegate_link_quiescent : forall s, reachable s -> quiescent s -> forall j,
  fdone (ms s j) = true -> mdel s j = None.
Proof. exact keep_map_done_delegate_link_quiescent. Qed.

(* ================================= at quiescence, together ======================================== *)
(* a done future: no callback, no delegate link, registered nowhere (map and flat_map alike) *)
Theorem c12_map_done_nothing_kept : forall s, reachable s -> quiescent s -> forall j,
  fdone (ms s j) = true -> mcbs s j = [] /\ mdel s j = None /\ (forall d, ~ In j (ecbs s d)).
Proof. exact keep_map_done_nothing_kept. Qed.
(* what IS retained is bounded by the pending futures: every link j -> d, in either direction, joins a pending
   library future and a pending delegate, and the two directions coincide *)
Theorem c12_map_retained_only_pending : forall s, reachable s -> quiescent s -> forall j d,
  In j (ecbs s d) \/ mdel s j = Some d ->
  fdone (ms s j) = false /\ fdone (es s d) = false /\ In j (ecbs s d) /\ mdel s j = Some d.
Proof. exact keep_map_retained_only_pending. Qed.

(* ================================= non-vacuity and witnesses ====================================== *)
Ltac quiet := let t := fresh "t" in intros t; cbv;
  repeat match goal with |- context [match ?x with _ => _ end] => destruct x end; reflexivity.

(* two futures with a user callback (id 9) each: future 0 over delegate 7, which finished -> 0 is done and its callback
   ran; future 1 over the pending delegate 8.  Quiescent.  Hypotheses of the quiescent theorems and of (b) hold. *)
Definition w_keep : list ev :=
  [ECallNew 0 0 KMap false false 7; EAcqM 0 0; ERelM 0 0; EFE 0 5 7 Pending; ERet 0 0;
   ECallAddCb 0 0 9; EAcqM 0 0; EFM 0 1 0 Pending; ERelM 0 0; ERet 0 0;
   ECallNew 0 1 KMap false false 8; EAcqM 0 1; ERelM 0 1; EFE 0 5 8 Pending; ERet 0 0;
   ECallAddCb 0 1 9; EAcqM 0 1; EFM 0 1 1 Pending; ERelM 0 1; ERet 0 0;
   EEnvFinish 1 7 Pending (Ok 5); EAcqM 1 0; ERelM 1 0; EFE 1 0 7 Finished; EAcqM 1 0; EFM 1 4 0 Pending;
   ERelM 1 0; EUserCb 1 0 9 false].
Example c12_map_nonvacuous_quiescent : exists s, run step init w_keep = Some s /\ quiescent s /\
  ms s 0 = Finished /\ mreg s 0 = [9] /\ mcbs s 0 = [] /\ mdel s 0 = None /\ es s 7 = Finished /\ ecbs s 7 = [] /\
  ms s 1 = Pending /\ mcbs s 1 = [9] /\ mdel s 1 = Some 8 /\ es s 8 = Pending /\ ecbs s 8 = [1].
Proof.
  eexists. split; [vm_compute; reflexivity|]. split; [quiet|]. repeat split; vm_compute; reflexivity.
Qed.

(* the same with a flat_map future: 0 = flat_map(7, fn), fn returned the future 8; 7 and 8 finished, 0 is done;
   1 = map(9) is pending.  Before 8 finishes (w_flat_waiting) future 0 is pending and registered on 8, no longer on 7 *)
Definition w_flat_waiting : list ev :=
  [ECallNew 0 0 KFlat true false 7; EAcqM 0 0; ERelM 0 0; EFE 0 5 7 Pending; ERet 0 0;
   ECallNew 0 1 KMap false false 9; EAcqM 0 1; ERelM 0 1; EFE 0 5 9 Pending; ERet 0 0;
   EEnvFinish 1 7 Pending (Ok 5); EAcqM 1 0; ERelM 1 0; EFE 1 0 7 Finished; EUserFn 1 (ARetFut 8);
   EAcqM 1 0; ERelM 1 0; EFE 1 5 8 Pending].
Definition w_flat_done : list ev :=
  w_flat_waiting ++ [EEnvFinish 1 8 Pending (Ok 6); EAcqM 1 0; ERelM 1 0; EFE 1 0 8 Finished; EAcqM 1 0; EFM 1 4 0 Pending; ERelM 1 0].
Example c12_map_nonvacuous_flat_waiting : exists s, run step init w_flat_waiting = Some s /\ quiescent s /\
  ms s 0 = Pending /\ mdel s 0 = Some 8 /\ ecbs s 8 = [0] /\ es s 8 = Pending /\ es s 7 = Finished /\ ecbs s 7 = [] /\
  ms s 1 = Pending /\ mdel s 1 = Some 9 /\ ecbs s 9 = [1].
Proof.
  eexists. split; [vm_compute; reflexivity|]. split; [quiet|]. repeat split; vm_compute; reflexivity.
Qed.
Example c12_map_nonvacuous_flat_done : exists s, run step init w_flat_done = Some s /\ quiescent s /\
  ms s 0 = Finished /\ mout s 0 = Some (Ok 6) /\ mcbs s 0 = [] /\ mdel s 0 = None /\ ecbs s 7 = [] /\ ecbs s 8 = [] /\
  ms s 1 = Pending /\ mdel s 1 = Some 9 /\ ecbs s 9 = [1] /\ es s 9 = Pending.
Proof.
  eexists. split; [vm_compute; reflexivity|]. split; [quiet|]. repeat split; vm_compute; reflexivity.
Qed.

(* (a) literal form "a done future has no callbacks, in every reachable state" is REFUTED: between set_result and the
   release of M_0 future 0 is Finished and still lists callback 9 (thread 1 is at IRelMCbs 0: the window of
   c12_map_done_callbacks_window, whose hypotheses this state satisfies) *)
Definition w_cbs_window : list ev := firstn 26 w_keep.
Example c12_map_done_callbacks_every_state_refuted : exists s, reachable s /\
  fdone (ms s 0) = true /\ mcbs s 0 = [9] /\ thr s 1 = [IRelMCbs 0; ICatch].
Proof.
  eexists. split; [exists w_cbs_window; vm_compute; reflexivity|]. repeat split; vm_compute; reflexivity.
Qed.

(* (c) literal form "a done future has _delegate = None, in every reachable state" is REFUTED, in both windows of
   c12_map_done_delegate_link_window.
   Window 1: cancel() of future 0 wins the race against the constructor's add_done_callback: 0 is Cancelled, its
   _delegate still names the (cancelled) delegate 7, thread 0 is at IAddCbE 7 0 *)
Definition w_link_addcb : list ev :=
  [ECallNew 0 0 KMap false false 7; EAcqM 0 0; ERelM 0 0;
   ECallCancel 1 0; EAcqM 1 0; EFM 1 0 0 Pending; EFM 1 1 0 Pending; EFE 1 2 7 Pending; EFM 1 2 0 Pending].
Example c12_map_done_delegate_link_every_state_refuted : exists s, reachable s /\
  fdone (ms s 0) = true /\ mdel s 0 = Some 7 /\ es s 7 = Cancelled /\ ecbs s 7 = [] /\ thr s 0 = [IAddCbE 7 0; IRet].
Proof.
  eexists. split; [exists w_link_addcb; vm_compute; reflexivity|]. repeat split; vm_compute; reflexivity.
Qed.
(* ... and the window closes: both threads run to completion, the field is cleared *)
Definition w_link_addcb_end : list ev :=
  w_link_addcb ++ [EFM 1 3 0 Cancelled; ERelM 1 0; ERet 1 2; EFE 0 5 7 Cancelled; EAcqM 0 0; ERelM 0 0; EFE 0 0 7 Cancelled; ERet 0 0].
Example c12_map_link_window_closes : exists s, run step init w_link_addcb_end = Some s /\ quiescent s /\
  ms s 0 = CancelledNotified /\ mdel s 0 = None /\ ecbs s 7 = [] /\ hist s <> [].
Proof.
  eexists. split; [vm_compute; reflexivity|]. split; [quiet|]. repeat split; try (vm_compute; reflexivity).
  vm_compute. discriminate.
Qed.
(* Window 2: the environment cancels delegate 7 while cancel() of future 0 holds M_0: thread 2 runs 7's callbacks and
   blocks on M_0 in front of _clear_delegate; thread 1 cancels future 0 *)
Definition w_link_clear : list ev :=
  [ECallNew 0 0 KMap false false 7; EAcqM 0 0; ERelM 0 0; EFE 0 5 7 Pending; ERet 0 0;
   ECallCancel 1 0; EAcqM 1 0; EFM 1 0 0 Pending; EFM 1 1 0 Pending;
   EEnvCancel 2 7 Pending; EFE 1 2 7 Cancelled; EFM 1 2 0 Pending].
Example c12_map_done_delegate_link_every_state_refuted2 : exists s, reachable s /\
  fdone (ms s 0) = true /\ mdel s 0 = Some 7 /\ es s 7 = Cancelled /\ ecbs s 7 = [] /\
  thr s 2 = [IAcqMSet 0 None false; IRelM 0; IDCancelledQ 0 7; ICatch].
Proof.
  eexists. split; [exists w_link_clear; vm_compute; reflexivity|]. repeat split; vm_compute; reflexivity.
Qed.

Print Assumptions c12_map_done_callbacks_window.
Print Assumptions c12_map_done_callbacks_quiescent.
Print Assumptions c12_map_done_delegate_cbs_cleared.
Print Assumptions c12_map_registered_not_done.
Print Assumptions c12_map_delegate_link_window.
Print Assumptions c12_map_done_delegate_link_window.
Print Assumptions c12_map_done_delegate_link_quiescent.
Print Assumptions c12_map_done_nothing_kept.
Print Assumptions c12_map_retained_only_pending.
Print Assumptions c12_map_nonvacuous_quiescent.
Print Assumptions c12_map_nonvacuous_flat_waiting.
Print Assumptions c12_map_nonvacuous_flat_done.
Print Assumptions c12_map_done_callbacks_every_state_refuted.
Print Assumptions c12_map_done_delegate_link_every_state_refuted.
Print Assumptions c12_map_link_window_closes.
Print Assumptions c12_map_done_delegate_link_every_state_refuted2.
