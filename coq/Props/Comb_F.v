(* Statements about the combinator machine (Model/Comb.v): f_or / f_and / f_zip.
   Corrected versions of c14_losers_cancelled and c15_zip_first_failure_wins (see Proofs/Comb_Inv.v). *)
From Coq Require Import List Bool Arith ZArith.
From ME Require Import Base.Machine Base.Fut Base.GenPrelude Model.Comb Proofs.Comb_Spec Proofs.Comb_Inv.
Import ListNotations.

Definition reachable := reachable_from step init.
Definition quiescent (s : st) := forall t, thr s t = [].
Definition seen_in (l : list hev) (x : nat) := exists v, In (HSeen x v) l.

(* C14: f_or decides on the first input to finish truthy, otherwise on the last input to finish
   (order = the order in which completions are evaluated under the combinator's lock) *)
Theorem c14_or_first_truthy_else_last : forall s, reachable s -> ck s = KOr -> forall l1 d o l2,
  hist s = l1 ++ HDecide d o :: l2 ->
  exists v l2', l2 = HSeen d v :: l2' /\
    (truthy_view v = true \/ forall x, In x (inputs s) -> seen_in l2 x) /\
    (forall d' v', In (HSeen d' v') l2' -> truthy_view v' = false) /\
    o = (if v_cancelled v then None else Some (oc_of s d)).
Proof. exact comb_or_fold. Qed.

(* C14: f_and decides on the first input to finish falsy (false value, exception or cancellation),
   otherwise on the last input to finish *)
Theorem c14_and_first_falsy_else_last : forall s, reachable s -> ck s = KAnd -> forall l1 d o l2,
  hist s = l1 ++ HDecide d o :: l2 ->
  exists v l2', l2 = HSeen d v :: l2' /\
    (falsy_view v = true \/ forall x, In x (inputs s) -> seen_in l2 x) /\
    (forall d' v', In (HSeen d' v') l2' -> falsy_view v' = false) /\
    o = (if v_cancelled v then None else Some (oc_of s d)).
Proof. exact comb_and_fold. Qed.

(* the decision is taken once, and the output is only ever set with the deciding input's outcome *)
Theorem c14_decide_once : forall s, reachable s -> forall l1 d o l2,
  hist s = l1 ++ HDecide d o :: l2 -> forall d' o', ~ In (HDecide d' o') l2 /\ ~ In (HDecide d' o') l1.
Proof. exact comb_decide_once. Qed.
Theorem c14_output_is_deciders_outcome : forall s, reachable s -> ck s <> KZip -> forall o,
  In (HSetOut o) (hist s) -> exists d, In (HDecide d (Some o)) (hist s).
Proof. exact comb_output_is_decider. Qed.

(* C14/C15/C06: once the output is decided or cancelled, every input still pending receives cancel():
   when nothing is in progress and the output is done, no input is left pending *)
Theorem c14_losers_cancelled : forall s, reachable s -> quiescent s -> built s = true ->
  fdone (os s) = true ->
  (* model artifacts: an input id equal to out_id / a position index equal to notify_id would be
     mistaken for the output / its notify callback in the cancel and callback lists *)
  ~ In out_id (inputs s) -> length (inputs s) <= notify_id ->
  (* f_zip only fans out a cancellation of the output (a failing input does not cancel the others) *)
  (ck s <> KZip \/ fcancelled (os s) = true) ->
  forall x, In x (inputs s) -> fdone (es s x) = true.
Proof. exact comb_losers_cancelled_alt. Qed.

(* C15: f_zip holds every input's result at its own position *)
Theorem c15_zip_positions : forall s, reachable s -> ck s = KZip -> forall o, In (HSetOut o) (hist s) ->
  (exists e, o = Err e) \/
  forall i, i < length (inputs s) -> exists v t, slots s i = Some v /\ eout s (input_at s i) = Some (Ok v t).
Proof. exact comb_zip_positions. Qed.

(* C15: f_zip fails with the first input exception to be observed / is cancelled if an input is
   cancelled first: before the deciding evaluation every evaluated input had succeeded *)
Theorem c15_zip_first_failure_wins : forall s, reachable s -> ck s = KZip -> forall l1 d o l2,
  hist s = l1 ++ HDecide d o :: l2 ->
  exists v l2', (l2 = HSeen d v :: l2' \/
                 (* the last input succeeded: its result is stored between evaluation and decision *)
                 (v_cancelled v = false /\ v_failed v = false /\ exists i w, l2 = HStore i w :: HSeen d v :: l2')) /\
    (forall d' v', In (HSeen d' v') l2' -> v_cancelled v' = false /\ v_failed v' = false) /\
    o = (if v_cancelled v then None else Some (oc_of s d)).
Proof. exact comb_zip_first_failure_alt. Qed.

(* C02: the output's outcome is set at most once; a cancelled output is always notified
   (set_running_or_notify_cancel), so wait()/as_completed() callers are released *)
Theorem c02_comb_output_once : forall s, reachable s -> forall l1 o l2,
  hist s = l1 ++ HSetOut o :: l2 -> (forall o', ~ In (HSetOut o') l2) /\ ~ In HOutCancelled l2 /\ ~ In HOutCancelled l1.
Proof. exact comb_output_once. Qed.
Theorem c02_comb_cancelled_output_notified : forall s, reachable s -> quiescent s -> os s <> Cancelled.
Proof. exact comb_cancel_notified. Qed.

(* C18: no thread dies, no exception escapes the constructor *)
Theorem c18_comb_no_thread_dies : forall s, reachable s -> forall t, ~ In IDead (thr s t) /\ ~ In IRetRaise (thr s t).
Proof. exact comb_no_thread_dies. Qed.

Print Assumptions c14_or_first_truthy_else_last.
Print Assumptions c14_and_first_falsy_else_last.
Print Assumptions c14_decide_once.
Print Assumptions c14_output_is_deciders_outcome.
Print Assumptions c14_losers_cancelled.
Print Assumptions c15_zip_positions.
Print Assumptions c15_zip_first_failure_wins.
Print Assumptions c02_comb_output_once.
Print Assumptions c02_comb_cancelled_output_notified.
Print Assumptions c18_comb_no_thread_dies.
