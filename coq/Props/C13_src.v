(* C13 -- source facts.  The machines and monitors this property rests on were written against, and validated on,
   these definitions of /repo; tools/srcfacts.py regenerates their normal-form digests on every run (coq/Gen/Src_*.v).
   Statements only.  Written by `tools/srcfacts.py --props` from PROP_MODULES. *)
From Coq Require Import List String.
From ME Require Import Model.SrcExpected Gen.Src_map Gen.Src_flat_map Gen.Src_common Gen.Src_fmap Gen.Src_futures_init Gen.Src_logwrap Gen.Src_metrics_null
  Proofs.Src_ok_map Proofs.Src_ok_flat_map Proofs.Src_ok_common Proofs.Src_ok_fmap Proofs.Src_ok_futures_init Proofs.Src_ok_logwrap Proofs.Src_ok_metrics_null.

(* more_executors/_impl/map.py *)
Theorem c13_source_map : Src_map.facts = expected_map.
Proof. exact src_map_ok. Qed.
(* more_executors/_impl/flat_map.py *)
Theorem c13_source_flat_map : Src_flat_map.facts = expected_flat_map.
Proof. exact src_flat_map_ok. Qed.
(* more_executors/_impl/common.py *)
Theorem c13_source_common : Src_common.facts = expected_common.
Proof. exact src_common_ok. Qed.
(* more_executors/_impl/futures/map.py *)
Theorem c13_source_fmap : Src_fmap.facts = expected_fmap.
Proof. exact src_fmap_ok. Qed.
(* more_executors/_impl/futures/__init__.py *)
Theorem c13_source_futures_init : Src_futures_init.facts = expected_futures_init.
Proof. exact src_futures_init_ok. Qed.
(* more_executors/_impl/logwrap.py *)
Theorem c13_source_logwrap : Src_logwrap.facts = expected_logwrap.
Proof. exact src_logwrap_ok. Qed.
(* more_executors/_impl/metrics/null.py *)
Theorem c13_source_metrics_null : Src_metrics_null.facts = expected_metrics_null.
Proof. exact src_metrics_null_ok. Qed.

Print Assumptions c13_source_map.
Print Assumptions c13_source_flat_map.
Print Assumptions c13_source_common.
Print Assumptions c13_source_fmap.
Print Assumptions c13_source_futures_init.
Print Assumptions c13_source_logwrap.
Print Assumptions c13_source_metrics_null.
