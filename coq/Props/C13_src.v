(* C13 -- source facts.  The machines and monitors this property rests on were written against, and validated on,
   these definitions of /repo; tools/srcfacts.py regenerates their normal-form digests on every run (coq/Gen/Src_*.v).
   Statements only. *)
From Coq Require Import List String.
From ME Require Import Model.SrcExpected Gen.Src_map Gen.Src_flat_map Gen.Src_common Gen.Src_fmap
  Proofs.Src_ok_map Proofs.Src_ok_flat_map Proofs.Src_ok_common Proofs.Src_ok_fmap.

(* more_executors/_impl/map.py *)
Theorem c13_source_map : Src_map.facts = expected_map.
Proof. exact src_map_ok. Qed.
(* more_executors/_impl/flat_map.py *)
Theorem c13_source_flat_map : Src_flat_map.facts = expected_flat_map.
Proof. exact src_flat_map_ok. Qed.
(* more_executors/_impl/common.py *)
Theorem c13_source_common : Src_common.facts = expected_common.
Proof. exact src_common_ok. Qed.
(* more_executors/_impl/futures/map.py *)
Theorem c13_source_fmap : Src_fmap.facts = expected_fmap.
Proof. exact src_fmap_ok. Qed.

Print Assumptions c13_source_map.
Print Assumptions c13_source_flat_map.
Print Assumptions c13_source_common.
Print Assumptions c13_source_fmap.
