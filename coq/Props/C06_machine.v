(* C06 (RetryExecutor part) -- statements about the Retry machine.  Statements only. *)
From Coq Require Import List ZArith Bool Arith.
From ME Require Import Base.Machine Base.Fut Base.GenPrelude Gen.RetryGen Model.Retry Proofs.Retry_InvC.
Import ListNotations.

Definition reachable := reachable_from step init.

(* any cancel() call on a retry future, successful or not, ends retrying: after cancel() has
   returned (HCancelRet) no attempt of that future is handed to the delegate executor any more *)
Theorem c06_retry_cancel_stops_retries : forall s, reachable s -> forall l1 j b ts l2,
  hist s = l1 ++ HCancelRet j b ts :: l2 ->
  forall d a t w, ~ In (HDSubmit j d a t w) l1.
Proof. exact retry_cancel_stops. Qed.

(* cancel() returned True: the callable is never started afterwards (for any delegate future of j) *)
Theorem c06_retry_cancel_true_no_start : forall s, reachable s -> forall l1 j ts l2,
  hist s = l1 ++ HCancelRet j true ts :: l2 ->
  forall d t, In (HStart d t) l1 -> d < ndel s -> dfor s d <> j.
Proof. exact retry_cancel_true_no_start. Qed.

(* cancel() returned True: the future is cancelled, and stays cancelled *)
Theorem c06_retry_cancel_true_stays : forall s, reachable s -> forall j ts,
  In (HCancelRet j true ts) (hist s) -> fcancelled (rs s j) = true.
Proof. exact retry_cancel_true_stays. Qed.

(* cancel() never raises: no thread's program ever contains the "raise to the caller" instruction,
   nor does a cancelling thread die *)
Theorem c06_retry_cancel_never_raises : forall s, reachable s -> forall t,
  ~ In IRaise (thr s t) /\ (t <> worker -> ~ In IDead (thr s t)).
Proof. exact retry_cancel_never_raises. Qed.

(* C18 (retry part): no thread -- in particular not the submit thread -- ever dies from an exception
   escaping the library's own code, whatever the policy/callable/cancel interleaving *)
Theorem c18_retry_no_thread_dies : forall s, reachable s -> forall t, ~ In IDead (thr s t).
Proof. exact retry_no_thread_dies. Qed.

Print Assumptions c18_retry_no_thread_dies.
Print Assumptions c06_retry_cancel_stops_retries.
Print Assumptions c06_retry_cancel_true_no_start.
Print Assumptions c06_retry_cancel_true_stays.
Print Assumptions c06_retry_cancel_never_raises.
