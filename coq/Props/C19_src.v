(* C19 -- source facts.  The machines and monitors this property rests on were written against, and validated on,
   these definitions of /repo; tools/srcfacts.py regenerates their normal-form digests on every run (coq/Gen/Src_*.v).
   Statements only.  Written by `tools/srcfacts.py --props` from PROP_MODULES. *)
From Coq Require Import List String.
From ME Require Import Model.SrcExpected Gen.Src_bind Gen.Src_wrap Gen.Src_wrapped Gen.Src_executors Gen.Src_flat_map Gen.Src_map Gen.Src_logwrap Gen.Src_metrics_null
  Proofs.Src_ok_bind Proofs.Src_ok_wrap Proofs.Src_ok_wrapped Proofs.Src_ok_executors Proofs.Src_ok_flat_map Proofs.Src_ok_map Proofs.Src_ok_logwrap Proofs.Src_ok_metrics_null.

(* more_executors/_impl/bind.py *)
Theorem c19_source_bind : Src_bind.facts = expected_bind.
Proof. exact src_bind_ok. Qed.
(* more_executors/_impl/wrap.py *)
Theorem c19_source_wrap : Src_wrap.facts = expected_wrap.
Proof. exact src_wrap_ok. Qed.
(* more_executors/_impl/wrapped.py *)
Theorem c19_source_wrapped : Src_wrapped.facts = expected_wrapped.
Proof. exact src_wrapped_ok. Qed.
(* more_executors/_impl/executors.py *)
Theorem c19_source_executors : Src_executors.facts = expected_executors.
Proof. exact src_executors_ok. Qed.
(* more_executors/_impl/flat_map.py *)
Theorem c19_source_flat_map : Src_flat_map.facts = expected_flat_map.
Proof. exact src_flat_map_ok. Qed.
(* more_executors/_impl/map.py *)
Theorem c19_source_map : Src_map.facts = expected_map.
Proof. exact src_map_ok. Qed.
(* more_executors/_impl/logwrap.py *)
Theorem c19_source_logwrap : Src_logwrap.facts = expected_logwrap.
Proof. exact src_logwrap_ok. Qed.
(* more_executors/_impl/metrics/null.py *)
Theorem c19_source_metrics_null : Src_metrics_null.facts = expected_metrics_null.
Proof. exact src_metrics_null_ok. Qed.

Print Assumptions c19_source_bind.
Print Assumptions c19_source_wrap.
Print Assumptions c19_source_wrapped.
Print Assumptions c19_source_executors.
Print Assumptions c19_source_flat_map.
Print Assumptions c19_source_map.
Print Assumptions c19_source_logwrap.
Print Assumptions c19_source_metrics_null.
