(* C12 (second sentence): "Once a future is done the library keeps no reference to it, its callable, its arguments or
   its result, so they are freed when the user drops them while the executor lives on" -- on the component machines.
   This file only gathers the per-machine statement files (each machine has its own st / step / reachable, hence one
   file per machine) and re-checks the assumptions of the headline theorems:

     Props/C12_keep_throttle.v   queue, hand-over list, delegate callback lists, link future -> delegate
     Props/C12_keep_timeout.v    _jobs at quiescence + exact window, partition, callback lists
     Props/C12_keep_poll.v       _poll_descriptors (exact window, at rest, snapshot), delegate link, delegate callback flag
     Props/C12_keep_cos.v        _futures (exact window, at rest)
     Props/C12_keep_mapfut.v     callback lists, delegate callback lists, delegate link (windows, quiescence)
     Props/C12_keep_comb.v       BoolOperation.fs / registrations on inputs and output (bounded by the pending inputs)

   For every machine: the true "at rest" form, the exact window in every reachable state, a `_refuted` witness for the
   literal "in every reachable state" form where it fails, and a non-vacuity Example with one done and one pending future. *)
From ME Require Props.C12_keep_throttle Props.C12_keep_timeout Props.C12_keep_poll Props.C12_keep_cos
  Props.C12_keep_mapfut Props.C12_keep_comb.

Print Assumptions C12_keep_throttle.c12_throttle_done_not_queued.
Print Assumptions C12_keep_throttle.c12_throttle_done_not_in_delegate_callbacks.
Print Assumptions C12_keep_throttle.c12_throttle_done_link_window.
Print Assumptions C12_keep_throttle.c12_throttle_done_link_cleared_at_rest.
Print Assumptions C12_keep_throttle.c12_throttle_done_link_cleared_everywhere_refuted.
Print Assumptions C12_keep_timeout.c12_timeout_jobs_quiescent.
Print Assumptions C12_keep_timeout.c12_timeout_done_job_window.
Print Assumptions C12_keep_timeout.c12_timeout_done_callbacks_window.
Print Assumptions C12_keep_timeout.c12_timeout_done_job_in_jobs_refuted.
Print Assumptions C12_keep_poll.c12_poll_window.
Print Assumptions C12_keep_poll.c12_poll_at_rest.
Print Assumptions C12_keep_poll.c12_poll_done_in_descs_refuted.
Print Assumptions C12_keep_poll.c12_poll_link_done.
Print Assumptions C12_keep_cos.c12_cos_tracked_done_window.
Print Assumptions C12_keep_cos.c12_cos_tracked_not_done_at_rest.
Print Assumptions C12_keep_cos.c12_cos_tracked_done_refuted.
Print Assumptions C12_keep_mapfut.c12_map_done_nothing_kept.
Print Assumptions C12_keep_mapfut.c12_map_registered_not_done.
Print Assumptions C12_keep_mapfut.c12_map_done_delegate_link_window.
Print Assumptions C12_keep_comb.c12_comb_decided_quiescent.
Print Assumptions C12_keep_comb.c12_comb_registrations_only_pending.
Print Assumptions C12_keep_comb.c12_comb_fs_incl_pending.
