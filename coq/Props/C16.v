(* C16 -- f_apply calls the function once, with every argument in its place.  Statements only;
   model and proofs in Model/Apply.v; the insertion index is regenerated from futures/apply.py. *)
From Coq Require Import List String Bool Arith.
From ME Require Import Base.GenPrelude Gen.ApplyGen Model.Apply.
Import ListNotations.

(* for every arity and mix of positional / keyword arguments: the function finally invoked by the
   curried chain receives the positional arguments in their original order and every keyword
   argument under its own name *)
Theorem c16_args_in_place : forall (val res : Type) (fn : list val -> list (string * val) -> res) fargs,
  wrapped val res fn fargs [] [] = fn (positional val fargs) (keywords val fargs).
Proof. exact apply_args_in_place. Qed.

Theorem c16_keywords_own_name : forall (val : Type) (kw : list (string * val)) k x,
  NoDup (map fst kw) -> In (k, x) kw -> klookup val k kw = Some x.
Proof. exact klookup_keywords. Qed.

(* what the theorem rests on, as the code says it today *)
Theorem c16_source_facts : runner_insert_at = 0 /\ apply_recurses_on_tail = true.
Proof. split; reflexivity. Qed.

Example c16_instance :
  wrapped nat (list nat * list (string * nat)) (fun a k => (a, k))
          [(KPos, 1); (KKw "x"%string, 7); (KPos, 2); (KPos, 3); (KKw "y"%string, 8)] [] []
  = ([1; 2; 3], [("x"%string, 7); ("y"%string, 8)]).
Proof. reflexivity. Qed.

Print Assumptions c16_args_in_place.
Print Assumptions c16_keywords_own_name.
Print Assumptions c16_source_facts.
