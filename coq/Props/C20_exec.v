(* C20 -- metrics: exec_inprogress / exec_total and future_inprogress / future_total / future_cancel /
   future_error.  Statements only.
   Model/ExecGauge.v is in lockstep with the real executors (harness/p_c20e.py: every update of these series in
   the stand-in registry together with the executor instance in whose __init__ / shutdown() it happens, the
   answer of the instance's ShutdownHelper, entry and exit of every shutdown() call, every track_future /
   record_done with the future it is about and that future's real outcome).  What the acceptor checks is local
   to one call; the theorems below turn it into the global laws of the property:
     - the share of an instance in exec_inprogress is 1 exactly while it is created and not shut down, plus the
       single decrement the winner of the test-and-set still owes; never negative, at most 1; exact at rest;
       the labelled gauge (instances share a (type, name) label) over any set of instances = number in use;
     - exec_total = number created; at most one decrement per instance, only by the winner, after its win; a
       losing shutdown() changes nothing;
     - future_inprogress = tracked futures whose record_done has not run, never negative; future_total = tracked;
       future_cancel / future_error = futures whose REAL outcome was cancelled / failed; cancel + error <= total - inprogress;
     - the two historical / seeded bug shapes are refuted on ablated steps with kernel-evaluated witnesses. *)
From Coq Require Import List ZArith Bool Arith.
From ME Require Import Base.Machine Model.ExecGauge Proofs.ExecGauge_Defs Proofs.ExecGauge_Thm Proofs.ExecGauge_Fut
  Proofs.ExecGauge_FutThm Proofs.ExecGauge_Refute.
Import ListNotations.
Local Open Scope Z_scope.

(* ---- executors in use ------------------------------------------------------------------------------- *)
Theorem c20_exec_gauge_exact : forall s, reachable s -> forall e,
  gauge (xs s) e = b2z (gauged (xs s) e && negb (flag (xs s) e)) + b2z (is_some (pend (xs s) e))
  /\ 0 <= gauge (xs s) e <= 1.
Proof. exact exec_gauge_exact. Qed.

Theorem c20_exec_gauge_at_rest : forall s, reachable s -> forall e, busy (xs s) e = false ->
  gauge (xs s) e = b2z (gauged (xs s) e && negb (flag (xs s) e))
  /\ (settled (xs s) e = true -> gauge (xs s) e = b2z (in_use (xs s) e))
  /\ (settled (xs s) e = true -> (gauge (xs s) e = 1 <-> (created (xs s) e = true /\ flag (xs s) e = false))).
Proof. exact exec_gauge_at_rest. Qed.

(* the labelled gauge: the sum of the shares of any list of instances at rest = the number of them in use *)
Theorem c20_exec_gauge_sum_at_rest : forall s, reachable s -> forall l,
  (forall e, In e l -> busy (xs s) e = false /\ settled (xs s) e = true) ->
  sumZ (gauge (xs s)) l = Z.of_nat (countb (in_use (xs s)) l).
Proof. exact exec_gauge_sum_at_rest. Qed.

(* on the way: above the number in use by the owed decrements only; in particular never negative *)
Theorem c20_exec_gauge_sum_bounds : forall s, reachable s -> forall l,
  (forall e, In e l -> settled (xs s) e = true) ->
  Z.of_nat (countb (in_use (xs s)) l) <= sumZ (gauge (xs s)) l
    <= Z.of_nat (countb (in_use (xs s)) l) + Z.of_nat (countb (fun e => is_some (pend (xs s) e)) l).
Proof. exact exec_gauge_sum_bounds. Qed.

Theorem c20_exec_gauge_zero_after_shutdown : forall s, reachable s -> forall e,
  flag (xs s) e = true -> pend (xs s) e = None -> gauge (xs s) e = 0.
Proof. exact exec_gauge_zero_after_shutdown. Qed.

(* ---- executors created ------------------------------------------------------------------------------ *)
Theorem c20_exec_total : forall s, reachable s -> forall e,
  total (xs s) e = b2z (counted (xs s) e)
  /\ (total (xs s) e = 1 <-> counted (xs s) e = true)
  /\ (settled (xs s) e = true -> total (xs s) e = b2z (created (xs s) e)).
Proof. exact exec_total_exact. Qed.

Theorem c20_exec_total_sum : forall s, reachable s -> forall l,
  sumZ (total (xs s)) l = Z.of_nat (countb (counted (xs s)) l).
Proof. exact exec_total_sum. Qed.

(* ---- one decrement per instance, by the winner ------------------------------------------------------- *)
Theorem c20_exec_dec_once : forall s, reachable s -> forall e,
  (decs (xs s) e <= 1)%nat /\ (wins (xs s) e <= 1)%nat
  /\ decs (xs s) e = b2n (flag (xs s) e && negb (is_some (pend (xs s) e)))
  /\ (decs (xs s) e = 1%nat -> flag (xs s) e = true /\ wins (xs s) e = 1%nat /\ pend (xs s) e = None).
Proof. exact exec_dec_once. Qed.

Theorem c20_exec_dec_only_by_winner : forall s t e s', reachable s -> step s (EX (XDec t e)) = Some s' ->
  pend (xs s) e = Some t /\ flag (xs s) e = true /\ decs (xs s) e = 0%nat /\ wins (xs s) e = 1%nat
  /\ top t (open (xs s)) = Some (mkF t e FWon)
  /\ gauge (xs s') e = gauge (xs s) e - 1 /\ pend (xs s') e = None.
Proof. exact exec_dec_only_by_winner. Qed.

Theorem c20_exec_lose_changes_nothing : forall s t e s', step s (EX (XLose t e)) = Some s' ->
  flag (xs s) e = true
  /\ gauge (xs s') = gauge (xs s) /\ total (xs s') = total (xs s) /\ flag (xs s') = flag (xs s)
  /\ pend (xs s') = pend (xs s) /\ decs (xs s') = decs (xs s) /\ wins (xs s') = wins (xs s)
  /\ counted (xs s') = counted (xs s) /\ gauged (xs s') = gauged (xs s) /\ fu s' = fu s.
Proof. exact exec_lose_changes_nothing. Qed.

(* what the acceptor rejects *)
Theorem c20_exec_second_win_rejected : forall s t e, flag (xs s) e = true -> step s (EX (XWin t e)) = None.
Proof. exact exec_second_win_rejected. Qed.
Theorem c20_exec_dec_by_other_rejected : forall s t e, pend (xs s) e <> Some t -> step s (EX (XDec t e)) = None.
Proof. exact exec_dec_by_other_rejected. Qed.
Theorem c20_exec_ret_before_dec_rejected : forall s t e,
  top t (open (xs s)) = Some (mkF t e FWon) -> step s (EX (XRet t e)) = None.
Proof. exact exec_ret_before_dec_rejected. Qed.
Theorem c20_exec_second_inc_rejected : forall s e,
  (counted (xs s) e = true -> step s (EX (XIncTotal e)) = None)
  /\ (gauged (xs s) e = true -> step s (EX (XIncProg e)) = None).
Proof. exact exec_second_inc_rejected. Qed.

(* an accepted observation of the real executor at final quiescence ties the model's flag to the real
   ShutdownHelper.is_shutdown: with no call in progress the share of the gauge is 1 iff the real executor is alive *)
Theorem c20_exec_obs_sound : forall s e b s', reachable s -> step s (EX (XObs e b)) = Some s' ->
  s' = s /\ created (xs s) e = true /\ flag (xs s) e = b
  /\ (busy (xs s) e = false -> gauge (xs s) e = b2z (negb b)) /\ total (xs s) e = 1.
Proof. exact exec_obs_sound. Qed.

(* ---- futures ------------------------------------------------------------------------------------------ *)
Theorem c20_future_seen_exact : forall s, reachable s ->
  NoDup (seen (fu s)) /\ forall f, In f (seen (fu s)) <-> fs (fu s) f <> SNone.
Proof. exact future_seen_exact. Qed.

Theorem c20_future_gauge_exact : forall s, reachable s -> forall q,
  fprog (fu s) q = Z.of_nat (n_inprogress s q) /\ 0 <= fprog (fu s) q.
Proof. exact future_gauge_exact. Qed.

Theorem c20_future_counters : forall s, reachable s -> forall q,
  ftot (fu s) q = Z.of_nat (n_tracked s q)
  /\ fcancel (fu s) q = Z.of_nat (n_counted KCancel s q)
  /\ ferr (fu s) q = Z.of_nat (n_counted KErr s q)
  /\ fcancel (fu s) q + ferr (fu s) q <= ftot (fu s) q - fprog (fu s) q.
Proof. exact future_counters. Qed.

Theorem c20_future_counters_at_rest : forall s, reachable s -> forall q, no_recording s q ->
  fcancel (fu s) q = Z.of_nat (n_done KCancel s q)
  /\ ferr (fu s) q = Z.of_nat (n_done KErr s q)
  /\ ftot (fu s) q - fprog (fu s) q
     = Z.of_nat (n_done KOk s q + n_done KCancel s q + n_done KErr s q
                 + countb (fun f => match fs (fu s) f with STot l => Nat.eqb q l | _ => false end) (seen (fu s))).
Proof. exact future_counters_at_rest. Qed.

Theorem c20_future_record_untracked_rejected : forall s l f,
  fs (fu s) f <> STracked l -> step s (EF (FDec l f)) = None.
Proof. exact future_record_untracked_rejected. Qed.
Theorem c20_future_track_twice_rejected : forall s l f, fs (fu s) f <> SNone -> step s (EF (FTotal l f)) = None.
Proof. exact future_track_twice_rejected. Qed.
Theorem c20_future_outcome_matches : forall s l f k s', step s (EF (FEnd l f k)) = Some s' ->
  fs (fu s) f = SRec l k /\ fs (fu s') f = SDone l k.
Proof. exact future_outcome_matches. Qed.

(* an accepted observation of the real future at final quiescence: really done with outcome k -> recorded with k *)
Theorem c20_future_obs_sound : forall s f o s', step s (EF (FObs f o)) = Some s' ->
  s' = s /\ match o with
            | Some k => exists l, fs (fu s) f = SDone l k
            | None => exists l, fs (fu s) f = STracked l
            end.
Proof. exact future_obs_sound. Qed.

(* ---- the two bug shapes, on ablated steps --------------------------------------------------------------- *)
(* (a) decrement before the test-and-set answer is known (every caller decrements): negative *)
Theorem c20_exec_decfirst_refuted :
  exists s, reachable_from (step_gen true false) init s /\ flag (xs s) 0%nat = true /\ gauge (xs s) 0%nat = -1.
Proof. exact decfirst_goes_negative_refuted. Qed.
Example c20_exec_decfirst_trace_rejected : first_reject step init trace_decfirst 0 = Some 3%nat.
Proof. exact decfirst_trace_rejected. Qed.
(* (b) the winner's call ends between the flag flip and the decrement: stuck at 1, shut down, at rest *)
Theorem c20_exec_skipdec_refuted :
  exists s, reachable_from (step_gen false true) init s /\ created (xs s) 0%nat = true /\ flag (xs s) 0%nat = true
            /\ busy (xs s) 0%nat = false /\ gauge (xs s) 0%nat = 1.
Proof. exact skipdec_stuck_refuted. Qed.
Example c20_exec_skipdec_trace_rejected : first_reject step init trace_skipdec 0 = Some 4%nat.
Proof. exact skipdec_trace_rejected. Qed.

(* ---- non-vacuity -------------------------------------------------------------------------------------- *)
Example c20_exec_trace_accepted : accept nv_trace = [-1].
Proof. exact nv_trace_accepted. Qed.
Example c20_exec_nonvacuous_final :
  exists s, reachable s
    /\ created (xs s) 0%nat = true /\ created (xs s) 1%nat = true /\ flag (xs s) 0%nat = true /\ flag (xs s) 1%nat = true
    /\ busy (xs s) 0%nat = false /\ busy (xs s) 1%nat = false
    /\ gauge (xs s) 0%nat = 0 /\ gauge (xs s) 1%nat = 0 /\ total (xs s) 0%nat = 1 /\ total (xs s) 1%nat = 1
    /\ decs (xs s) 0%nat = 1%nat /\ decs (xs s) 1%nat = 1%nat
    /\ ftot (fu s) 5%nat = 3 /\ fprog (fu s) 5%nat = 0 /\ fcancel (fu s) 5%nat = 1 /\ ferr (fu s) 5%nat = 1
    /\ fs (fu s) 0%nat = SDone 5 KOk /\ fs (fu s) 1%nat = SDone 5 KCancel /\ fs (fu s) 2%nat = SRec 5 KErr.
Proof. exact nv_final. Qed.
Example c20_exec_nonvacuous_middle :
  exists s, reachable s
    /\ flag (xs s) 0%nat = true /\ pend (xs s) 0%nat = Some 1%nat /\ gauge (xs s) 0%nat = 1 /\ busy (xs s) 0%nat = true
    /\ in_use (xs s) 1%nat = true /\ busy (xs s) 1%nat = false /\ gauge (xs s) 1%nat = 1
    /\ top 2 (open (xs s)) = Some (mkF 2 0 FLost) /\ top 1 (open (xs s)) = Some (mkF 1 0 FWon)
    /\ fprog (fu s) 5%nat = 3 /\ ftot (fu s) 5%nat = 3.
Proof. exact nv_middle. Qed.
Example c20_exec_nonvacuous_dec_step : exists s s', reachable s /\ step s (EX (XDec 1 0)) = Some s'.
Proof. exact nv_dec_step. Qed.
Example c20_exec_nonvacuous_lose_step : exists s s', reachable s /\ step s (EX (XLose 2 0)) = Some s'.
Proof. exact nv_lose_step. Qed.
Example c20_exec_nonvacuous_end_step : exists s s', reachable s /\ step s (EF (FEnd 5 2 KErr)) = Some s'.
Proof. exact nv_end_step. Qed.
Example c20_exec_trace_obs_accepted : accept nv_trace_obs = [-1].
Proof. exact nv_trace_obs_accepted. Qed.
Example c20_exec_wrong_obs_rejected :
  accept (nv_trace ++ [[7; 0; 0]]) = [28] /\ accept (nv_trace ++ [[15; 1; 0]]) = [28] /\ accept (nv_trace ++ [[15; 2; 3]]) = [28].
Proof. exact nv_wrong_obs_rejected. Qed.
Example c20_exec_nonvacuous_obs_step :
  exists s s', reachable s /\ step s (EX (XObs 0 true)) = Some s' /\ busy (xs s) 0%nat = false.
Proof. exact nv_obs_step. Qed.
Example c20_exec_nonvacuous_fobs_step : exists s s', reachable s /\ step s (EF (FObs 1 (Some KCancel))) = Some s'.
Proof. exact nv_fobs_step. Qed.

Print Assumptions c20_exec_gauge_exact.
Print Assumptions c20_exec_gauge_at_rest.
Print Assumptions c20_exec_gauge_sum_at_rest.
Print Assumptions c20_exec_gauge_sum_bounds.
Print Assumptions c20_exec_gauge_zero_after_shutdown.
Print Assumptions c20_exec_total.
Print Assumptions c20_exec_total_sum.
Print Assumptions c20_exec_dec_once.
Print Assumptions c20_exec_dec_only_by_winner.
Print Assumptions c20_exec_lose_changes_nothing.
Print Assumptions c20_exec_second_win_rejected.
Print Assumptions c20_exec_dec_by_other_rejected.
Print Assumptions c20_exec_ret_before_dec_rejected.
Print Assumptions c20_exec_second_inc_rejected.
Print Assumptions c20_future_seen_exact.
Print Assumptions c20_future_gauge_exact.
Print Assumptions c20_future_counters.
Print Assumptions c20_future_counters_at_rest.
Print Assumptions c20_future_record_untracked_rejected.
Print Assumptions c20_future_track_twice_rejected.
Print Assumptions c20_future_outcome_matches.
Print Assumptions c20_exec_decfirst_refuted.
Print Assumptions c20_exec_skipdec_refuted.
Print Assumptions c20_exec_nonvacuous_final.
Print Assumptions c20_exec_nonvacuous_middle.
Print Assumptions c20_exec_nonvacuous_dec_step.
Print Assumptions c20_exec_nonvacuous_lose_step.
Print Assumptions c20_exec_nonvacuous_end_step.
Print Assumptions c20_exec_obs_sound.
Print Assumptions c20_future_obs_sound.
Print Assumptions c20_exec_nonvacuous_obs_step.
Print Assumptions c20_exec_nonvacuous_fobs_step.
