(* C14 -- f_and / f_or are folds over the order in which inputs finish.  Statements only.
   Kernels regenerated from futures/bool.py (Gen/BoolGen.v); machine Model/Comb.v. *)
From Coq Require Import List Bool Arith ZArith.
From ME Require Import Base.Machine Base.Fut Base.GenPrelude Gen.BoolGen Proofs.Comb_Spec.
Import ListNotations.

(* OrOperation.get_state_update, as the code says it today: decides iff last input or truthy; mirrors
   the deciding input; cancels every remaining input (and the output if the decider was cancelled) *)
Theorem c14_or_update_closed_form : forall fs out f,
  or_update fs out f =
  if isnil fs || truthy_view f then
    (true, negb (v_cancelled f) && negb (v_failed f), negb (v_cancelled f) && v_failed f,
     if v_cancelled f then fs ++ [out] else fs)
  else (false, false, false, []).
Proof. exact or_update_spec. Qed.

Theorem c14_and_update_closed_form : forall fs out f,
  and_update fs out f =
  if falsy_view f || isnil fs then
    (true, negb (v_cancelled f) && negb (v_failed f), negb (v_cancelled f) && v_failed f,
     if v_cancelled f then fs ++ [out] else fs)
  else (false, false, false, []).
Proof. exact and_update_spec. Qed.

(* a single input is returned as is; repeated inputs are tolerated (both read off the source) *)
Theorem c14_single_input_identity : single_input_identity = true.
Proof. reflexivity. Qed.
Theorem c14_duplicates_tolerated : bool_remove_tolerant = true.
Proof. reflexivity. Qed.

Print Assumptions c14_or_update_closed_form.
Print Assumptions c14_and_update_closed_form.
Print Assumptions c14_single_input_identity.
Print Assumptions c14_duplicates_tolerated.
