(* C18 -- source facts.  The machines and monitors this property rests on were written against, and validated on,
   these definitions of /repo; tools/srcfacts.py regenerates their normal-form digests on every run (coq/Gen/Src_*.v).
   Statements only.  Written by `tools/srcfacts.py --props` from PROP_MODULES. *)
From Coq Require Import List String.
From ME Require Import Model.SrcExpected Gen.Src_common Gen.Src_map Gen.Src_flat_map Gen.Src_poll Gen.Src_retry Gen.Src_throttle Gen.Src_fbool Gen.Src_fzip Gen.Src_timeout Gen.Src_cos Gen.Src_helpers Gen.Src_fbase Gen.Src_logwrap Gen.Src_metrics_null
  Proofs.Src_ok_common Proofs.Src_ok_map Proofs.Src_ok_flat_map Proofs.Src_ok_poll Proofs.Src_ok_retry Proofs.Src_ok_throttle Proofs.Src_ok_fbool Proofs.Src_ok_fzip Proofs.Src_ok_timeout Proofs.Src_ok_cos Proofs.Src_ok_helpers Proofs.Src_ok_fbase Proofs.Src_ok_logwrap Proofs.Src_ok_metrics_null.

(* more_executors/_impl/common.py *)
Theorem c18_source_common : Src_common.facts = expected_common.
Proof. exact src_common_ok. Qed.
(* more_executors/_impl/map.py *)
Theorem c18_source_map : Src_map.facts = expected_map.
Proof. exact src_map_ok. Qed.
(* more_executors/_impl/flat_map.py *)
Theorem c18_source_flat_map : Src_flat_map.facts = expected_flat_map.
Proof. exact src_flat_map_ok. Qed.
(* more_executors/_impl/poll.py *)
Theorem c18_source_poll : Src_poll.facts = expected_poll.
Proof. exact src_poll_ok. Qed.
(* more_executors/_impl/retry.py *)
Theorem c18_source_retry : Src_retry.facts = expected_retry.
Proof. exact src_retry_ok. Qed.
(* more_executors/_impl/throttle.py *)
Theorem c18_source_throttle : Src_throttle.facts = expected_throttle.
Proof. exact src_throttle_ok. Qed.
(* more_executors/_impl/futures/bool.py *)
Theorem c18_source_fbool : Src_fbool.facts = expected_fbool.
Proof. exact src_fbool_ok. Qed.
(* more_executors/_impl/futures/zip.py *)
Theorem c18_source_fzip : Src_fzip.facts = expected_fzip.
Proof. exact src_fzip_ok. Qed.
(* more_executors/_impl/timeout.py *)
Theorem c18_source_timeout : Src_timeout.facts = expected_timeout.
Proof. exact src_timeout_ok. Qed.
(* more_executors/_impl/cancel_on_shutdown.py *)
Theorem c18_source_cos : Src_cos.facts = expected_cos.
Proof. exact src_cos_ok. Qed.
(* more_executors/_impl/helpers.py *)
Theorem c18_source_helpers : Src_helpers.facts = expected_helpers.
Proof. exact src_helpers_ok. Qed.
(* more_executors/_impl/futures/base.py *)
Theorem c18_source_fbase : Src_fbase.facts = expected_fbase.
Proof. exact src_fbase_ok. Qed.
(* more_executors/_impl/logwrap.py *)
Theorem c18_source_logwrap : Src_logwrap.facts = expected_logwrap.
Proof. exact src_logwrap_ok. Qed.
(* more_executors/_impl/metrics/null.py *)
Theorem c18_source_metrics_null : Src_metrics_null.facts = expected_metrics_null.
Proof. exact src_metrics_null_ok. Qed.

Print Assumptions c18_source_common.
Print Assumptions c18_source_map.
Print Assumptions c18_source_flat_map.
Print Assumptions c18_source_poll.
Print Assumptions c18_source_retry.
Print Assumptions c18_source_throttle.
Print Assumptions c18_source_fbool.
Print Assumptions c18_source_fzip.
Print Assumptions c18_source_timeout.
Print Assumptions c18_source_cos.
Print Assumptions c18_source_helpers.
Print Assumptions c18_source_fbase.
Print Assumptions c18_source_logwrap.
Print Assumptions c18_source_metrics_null.
