(* C20 -- source facts.  The machines and monitors this property rests on were written against, and validated on,
   these definitions of /repo; tools/srcfacts.py regenerates their normal-form digests on every run (coq/Gen/Src_*.v).
   Statements only. *)
From Coq Require Import List String.
From ME Require Import Model.SrcExpected Gen.Src_metrics Gen.Src_retry Gen.Src_throttle Gen.Src_metrics_prom
  Proofs.Src_ok_metrics Proofs.Src_ok_retry Proofs.Src_ok_throttle Proofs.Src_ok_metrics_prom.

(* more_executors/_impl/metrics/__init__.py *)
Theorem c20_source_metrics : Src_metrics.facts = expected_metrics.
Proof. exact src_metrics_ok. Qed.
(* more_executors/_impl/retry.py *)
Theorem c20_source_retry : Src_retry.facts = expected_retry.
Proof. exact src_retry_ok. Qed.
(* more_executors/_impl/throttle.py *)
Theorem c20_source_throttle : Src_throttle.facts = expected_throttle.
Proof. exact src_throttle_ok. Qed.
(* more_executors/_impl/metrics/prometheus.py *)
Theorem c20_source_metrics_prom : Src_metrics_prom.facts = expected_metrics_prom.
Proof. exact src_metrics_prom_ok. Qed.

Print Assumptions c20_source_metrics.
Print Assumptions c20_source_retry.
Print Assumptions c20_source_throttle.
Print Assumptions c20_source_metrics_prom.
