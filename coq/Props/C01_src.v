(* C01 -- source facts.  The machines and monitors this property rests on were written against, and validated on,
   these definitions of /repo; tools/srcfacts.py regenerates their normal-form digests on every run (coq/Gen/Src_*.v).
   Statements only. *)
From Coq Require Import List String.
From ME Require Import Model.SrcExpected Gen.Src_executors Gen.Src_wrap Gen.Src_wrapped Gen.Src_sync
  Proofs.Src_ok_executors Proofs.Src_ok_wrap Proofs.Src_ok_wrapped Proofs.Src_ok_sync.

(* more_executors/_impl/executors.py *)
Theorem c01_source_executors : Src_executors.facts = expected_executors.
Proof. exact src_executors_ok. Qed.
(* more_executors/_impl/wrap.py *)
Theorem c01_source_wrap : Src_wrap.facts = expected_wrap.
Proof. exact src_wrap_ok. Qed.
(* more_executors/_impl/wrapped.py *)
Theorem c01_source_wrapped : Src_wrapped.facts = expected_wrapped.
Proof. exact src_wrapped_ok. Qed.
(* more_executors/_impl/sync.py *)
Theorem c01_source_sync : Src_sync.facts = expected_sync.
Proof. exact src_sync_ok. Qed.

Print Assumptions c01_source_executors.
Print Assumptions c01_source_wrap.
Print Assumptions c01_source_wrapped.
Print Assumptions c01_source_sync.
