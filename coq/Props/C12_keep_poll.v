(* C12 (second sentence) on the Poll machine Model/Poll.v: "Once a future is done the library keeps no reference to
   it ... so they are freed when the user drops them while the executor lives on."
   What could retain a finished PollFuture: the executor's list PollExecutor._poll_descriptors (descs s: pairs
   (future id, descriptor value)), and - while the poll function runs - the snapshot of that list held by the poll
   thread (pmode s = PCall l / PBody l).  The other link of a PollFuture is PollFuture._delegate (pdel s j), a
   reference FROM the user's future TO the delegate future; the delegate future in turn refers to the poll future
   only through the parked done-callback _delegate_resolved (dcb s d).
   Vocabulary: Proofs/Keep_PollA.v (program shapes), Keep_PollB.v (clearing, InvL), Keep_PollC.v (dereg_window,
   snapshot_held, poll_at_rest), Keep_PollW.v (witness traces); Proofs/Poll_N6.v (quiescent), Poll_NoDup.v (nreg).
     dereg_window s j := (exists t, In (IRelMCbs j) (thr s t) /\ pcb s j = true) \/ (exists t, In (IXDereg j) (thr s t))
     clearing s j     := exists t r, thr s t = IAcqMClr j :: r /\ xown s = Some t
     snapshot_held m  := match m with PCall l | PBody l => l | _ => [] end
     poll_at_rest s   := (forall t, t <> poller -> thr s t = []) /\ thr s poller = [] /\
                         match pmode s with PCall _ | PBody _ => False | _ => True end *)
From Coq Require Import ZArith List Bool.
From ME Require Import Base.Machine Base.Fut Model.Poll
     Proofs.Poll_Inv Proofs.Poll_NoDup Proofs.Poll_Refute Proofs.Poll_N6 Proofs.Poll_N7
     Proofs.Keep_PollA Proofs.Keep_PollB Proofs.Keep_PollC Proofs.Keep_PollW.
Import ListNotations.

Definition reach (s : st) : Prop := reachable_from step init s.

(* ---- 1. the window, in EVERY reachable state ------------------------------------------------------------------
   A done poll future still has a descriptor in the executor's list only while its deregistration is pending in
   some thread's program: the thread that made it done has not yet left M_j and run the callbacks (IRelMCbs j, with
   _clear_executor registered: pcb), or the X-section of _deregister_poll itself is the pending step (IXDereg j).
   (The third way a deregistration can be pending - the constructor's own add_done_callback finding the future done,
   IDoneA j - never coexists with a descriptor: while IDoneA j is pending so is IAddCbD j, registered_no_doneA.) *)
Theorem c12_poll_window : forall s j v, reach s ->
  In (j, v) (descs s) -> fdone (ps s j) = true ->
  (exists t, In (IRelMCbs j) (thr s t) /\ pcb s j = true) \/ (exists t, In (IXDereg j) (thr s t)).
Proof. exact window_lemma. Qed.

(* the window is entered by done futures only: the callbacks / the deregistration are the next step of a thread only
   for a done future (the list never loses a pending future) *)
Theorem c12_poll_window_only_done : forall s t j r, reach s ->
  (thr s t = IRelMCbs j :: r \/ thr s t = IXDereg j :: r) -> fdone (ps s j) = true.
Proof. exact window_only_done_lemma. Qed.

(* and nothing is appended for a done future: when a thread is about to append (j, v), j is not done
   (this is c03_poll_registered_not_done, restated here because the window theorem rests on it) *)
Theorem c12_poll_append_not_done : forall s t j v l, reach s ->
  thr s t = IXAcqReg j v :: l -> fdone (ps s j) = false.
Proof. exact Poll_N10.registered_not_done_lemma. Qed.

(* both disjuncts occur (non-vacuity of c12_poll_window) *)
Example c12_poll_window_cbs_example :
  let s := state_of w_win1 in
  accepted w_win1 = true /\ descs s = [(0, 100)] /\ ps s 0 = Finished /\ pout s 0 = Some (Ok 7) /\
  thr s poller = [IRelMCbs 0] /\ pcb s 0 = true /\ mown s 0 = Some poller /\ pmode s = PBody [(0, 100)].
Proof. exact window_cbs_example. Qed.
Example c12_poll_window_dereg_example :
  let s := state_of w_win2 in
  accepted w_win2 = true /\ descs s = [(0, 100)] /\ ps s 0 = Finished /\
  thr s poller = [IXDereg 0] /\ pcb s 0 = false /\ mown s 0 = None.
Proof. exact window_dereg_example. Qed.
Theorem c12_poll_window_both_disjuncts :
  (exists s j v, reach s /\ In (j, v) (descs s) /\ fdone (ps s j) = true /\
                 (exists t, In (IRelMCbs j) (thr s t) /\ pcb s j = true) /\ forall t, ~ In (IXDereg j) (thr s t)) /\
  (exists s j v, reach s /\ In (j, v) (descs s) /\ fdone (ps s j) = true /\
                 (exists t, In (IXDereg j) (thr s t)) /\ pcb s j = false).
Proof. exact window_both_witness. Qed.

(* ---- 3. the literal reading is FALSE ---------------------------------------------------------------------------
   "in every reachable state no descriptor of a done future is in the list": refuted by the state right after the
   stdlib set_result of a yield (w_win1: future 0 Finished, (0, 100) still listed, callbacks not yet run). *)
Theorem c12_poll_done_in_descs_refuted :
  exists s j v, reach s /\ In (j, v) (descs s) /\ fdone (ps s j) = true.
Proof. exact done_in_descs_witness. Qed.

(* ---- 2. at rest ---------------------------------------------------------------------------------------------------
   If every thread's program is empty, no descriptor of a done future is in the executor's list. *)
Theorem c12_poll_idle_no_done : forall s j v, reach s ->
  (forall t, thr s t = []) -> In (j, v) (descs s) -> fdone (ps s j) = false /\ j < nfut s.
Proof. exact idle_no_done_lemma. Qed.

(* at rest - programs empty AND the poll thread outside the snapshot .. poll-function-return stretch (pmode PTop,
   PRest, PBlocked or PClear) - neither the list nor the poll thread's snapshot holds a done future *)
Theorem c12_poll_at_rest : forall s j v, reach s -> poll_at_rest s ->
  In (j, v) (descs s ++ snapshot_held (pmode s)) -> fdone (ps s j) = false /\ j < nfut s.
Proof. exact at_rest_lemma. Qed.

(* summary: at rest nothing of the library refers to a done poll future - not the executor's list, not the poll
   thread's snapshot, not a _delegate_resolved callback parked on its delegate, and no thread is inside the library *)
Theorem c12_poll_at_rest_unreferenced : forall s j, reach s -> poll_at_rest s -> fdone (ps s j) = true ->
  ~ In j (map fst (descs s)) /\ snapshot_held (pmode s) = [] /\ dcb s j = false /\ forall t, thr s t = [].
Proof. exact at_rest_unreferenced_lemma. Qed.

(* the quiescent states of C03 (clients idle, poll thread parked in wait un-notified) are at rest *)
Theorem c12_poll_quiescent_at_rest : forall s, reach s -> quiescent s -> poll_at_rest s.
Proof. exact quiescent_at_rest. Qed.

(* the requirement on pmode is needed for the snapshot: with every program empty and the list already clean, the
   descriptors passed to the still running poll function keep the future it has just resolved (w_win3) *)
Theorem c12_poll_snapshot_keeps_done_refuted :
  exists s j v, reach s /\ (forall t, thr s t = []) /\ descs s = [] /\
                In (j, v) (snapshot_held (pmode s)) /\ fdone (ps s j) = true.
Proof. exact snapshot_keeps_done_witness. Qed.
Example c12_poll_snapshot_example :
  let s := state_of w_win3 in
  accepted w_win3 = true /\ (forall t, thr s t = []) /\ descs s = [] /\ ps s 0 = Finished /\
  pmode s = PBody [(0, 100)] /\ snapshot_held (pmode s) = [(0, 100)].
Proof. exact snapshot_example. Qed.

(* ---- 5. non-vacuity of the at-rest theorems: a reachable state at rest (even quiescent) with a done future (0:
   resolved by the poll function, not listed, link cleared), a future waiting for its delegate (1: link set, callback
   parked on the delegate) and a pending future listed for polling (2: link cleared) *)
Example c12_poll_at_rest_example :
  let s := state_of w_three in
  accepted w_three = true /\ poll_at_rest s /\ quiescent s /\ nfut s = 3 /\
  (ps s 0 = Finished /\ ~ In 0 (map fst (descs s)) /\ pdel s 0 = false /\ pexec s 0 = false /\ pcb s 0 = false) /\
  (ps s 1 = Pending /\ pdel s 1 = true /\ dcb s 1 = true) /\
  (ps s 2 = Pending /\ In (2, 200) (descs s) /\ pdel s 2 = false /\ pcb s 2 = true) /\
  descs s = [(2, 200)] /\ snapshot_held (pmode s) = [] /\ xown s = None.
Proof. exact at_rest_example. Qed.

(* ---- 4. the delegate link PollFuture._delegate ---------------------------------------------------------------------
   (a) it is cleared by the registration: once (j, descriptor) has been appended (HReg in the history; in particular
   while (j, v) is listed) _delegate of j is None - or clearing it is the very next step (IAcqMClr j at the head of the
   program) of the thread that made the append and still holds X. *)
Theorem c12_poll_link_registered : forall s j v, reach s ->
  In (j, v) (descs s) -> pdel s j = false \/ (exists t r, thr s t = IAcqMClr j :: r /\ xown s = Some t).
Proof. exact link_registered_lemma. Qed.
Theorem c12_poll_link_after_append : forall s j v ts, reach s ->
  In (HReg j v ts) (hist s) -> pdel s j = false \/ (exists t r, thr s t = IAcqMClr j :: r /\ xown s = Some t).
Proof. exact link_hreg_lemma. Qed.
(* ... and by nothing else *)
Theorem c12_poll_link_cleared_only_by_registration : forall s j, reach s ->
  j < nfut s -> pdel s j = false -> 1 <= nreg j (hist s).
Proof. exact link_cleared_registered_lemma. Qed.
(* while X is free nobody is inside _register_poll: listed implies cleared *)
Theorem c12_poll_link_xfree : forall s j v, reach s -> xown s = None -> In (j, v) (descs s) -> pdel s j = false.
Proof. exact link_xfree_lemma. Qed.
(* the snapshot is taken under X: every future shown to the poll function has its link cleared, hence every future
   the poll function yields for *)
Theorem c12_poll_link_snapshot : forall s j v, reach s -> In (j, v) (snapshot_held (pmode s)) -> pdel s j = false.
Proof. exact link_snapshot_lemma. Qed.
Theorem c12_poll_link_yield : forall s j o ts, reach s -> In (HYield j o ts) (hist s) -> pdel s j = false.
Proof. exact link_yield_lemma. Qed.
(* every outcome a poll future was given came with a cleared link - unless it is the delegate's own exception *)
Theorem c12_poll_link_outcome : forall s j o, reach s -> pout s j = Some o ->
  pdel s j = false \/ exists e, o = Err e /\ dout s j = Some (Err e).
Proof. exact link_pout_lemma. Qed.
Theorem c12_poll_link_set : forall s j o ts, reach s -> In (HSet j o ts) (hist s) ->
  pdel s j = false \/ exists e, o = Err e /\ dout s j = Some (Err e).
Proof. exact link_set_lemma. Qed.
(* the strongest statement for done futures: a done poll future that still has its delegate link was cancelled, or
   was failed by its delegate's exception (both keep the link for ever: (b)) *)
Theorem c12_poll_link_done : forall s j, reach s -> fdone (ps s j) = true -> pdel s j = true ->
  fcancelled (ps s j) = true \/ exists e, pout s j = Some (Err e) /\ dout s j = Some (Err e).
Proof. exact link_done_lemma. Qed.

Example c12_poll_link_clearing_example :
  let s := state_of w_clearing in
  accepted w_clearing = true /\ descs s = [(0, 100)] /\ ps s 0 = Pending /\ pdel s 0 = true /\
  thr s 2 = [IAcqMClr 0; IRelM 0; IEvSet; IXRel; IRetEnv 0] /\ xown s = Some 2 /\ clearing s 0.
Proof. exact clearing_example. Qed.

(* (b) "a done poll future has _delegate cleared" is FALSE: reachable states at rest with a cancelled poll future
   (cancel() while the delegate was pending: w_cancel_pending) and with a poll future failed by its delegate's
   exception (w_failed) whose link is still set.  This is a reference from the user's future to the (done) delegate
   future, not a reference of the library to the user's future. *)
Theorem c12_poll_done_keeps_delegate_link_refuted :
  (exists s j, reach s /\ poll_at_rest s /\ fcancelled (ps s j) = true /\ pdel s j = true) /\
  (exists s j e, reach s /\ poll_at_rest s /\ ps s j = Finished /\ pout s j = Some (Err e) /\ pdel s j = true).
Proof. exact done_keeps_link_witness. Qed.
Example c12_poll_cancelled_keeps_link_example :
  let s := state_of w_cancel_pending in
  accepted w_cancel_pending = true /\ poll_at_rest s /\ quiescent s /\
  ps s 0 = CancelledNotified /\ pdel s 0 = true /\ descs s = [] /\ ds s 0 = Cancelled /\ dcb s 0 = false /\ pexec s 0 = false.
Proof. exact cancelled_keeps_link_example. Qed.
Example c12_poll_failed_keeps_link_example :
  let s := state_of w_failed in
  accepted w_failed = true /\ poll_at_rest s /\
  ps s 0 = Finished /\ pout s 0 = Some (Err 9) /\ dout s 0 = Some (Err 9) /\ pdel s 0 = true /\ descs s = [] /\
  dcb s 0 = false /\ pexec s 0 = false.
Proof. exact failed_keeps_link_example. Qed.

(* (c) the callback _delegate_resolved parked on the delegate future is a bound method of the poll future: in every
   reachable state it is gone once the poll future is done ... *)
Theorem c12_poll_done_no_parked_callback : forall s j, reach s -> fdone (ps s j) = true -> dcb s j = false.
Proof. exact done_no_parked_cb_lemma. Qed.
(* ... and once the delegate future is done (it keeps no callback referring to the poll future) *)
Theorem c12_poll_delegate_done_no_callback : forall s d, reach s -> fdone (ds s d) = true -> dcb s d = false.
Proof. exact delegate_done_no_cb_lemma. Qed.

Print Assumptions c12_poll_window.
Print Assumptions c12_poll_window_only_done.
Print Assumptions c12_poll_append_not_done.
Print Assumptions c12_poll_window_cbs_example.
Print Assumptions c12_poll_window_dereg_example.
Print Assumptions c12_poll_window_both_disjuncts.
Print Assumptions c12_poll_done_in_descs_refuted.
Print Assumptions c12_poll_idle_no_done.
Print Assumptions c12_poll_at_rest.
Print Assumptions c12_poll_at_rest_unreferenced.
Print Assumptions c12_poll_quiescent_at_rest.
Print Assumptions c12_poll_snapshot_keeps_done_refuted.
Print Assumptions c12_poll_snapshot_example.
Print Assumptions c12_poll_at_rest_example.
Print Assumptions c12_poll_link_registered.
Print Assumptions c12_poll_link_after_append.
Print Assumptions c12_poll_link_cleared_only_by_registration.
Print Assumptions c12_poll_link_xfree.
Print Assumptions c12_poll_link_snapshot.
Print Assumptions c12_poll_link_yield.
Print Assumptions c12_poll_link_outcome.
Print Assumptions c12_poll_link_set.
Print Assumptions c12_poll_link_done.
Print Assumptions c12_poll_link_clearing_example.
Print Assumptions c12_poll_done_keeps_delegate_link_refuted.
Print Assumptions c12_poll_cancelled_keeps_link_example.
Print Assumptions c12_poll_failed_keeps_link_example.
Print Assumptions c12_poll_done_no_parked_callback.
Print Assumptions c12_poll_delegate_done_no_callback.
