(* C17 -- source facts.  The machines and monitors this property rests on were written against, and validated on,
   these definitions of /repo; tools/srcfacts.py regenerates their normal-form digests on every run (coq/Gen/Src_*.v).
   Statements only. *)
From Coq Require Import List String.
From ME Require Import Model.SrcExpected Gen.Src_map Gen.Src_common Gen.Src_fproxy Gen.Src_fnocancel
  Proofs.Src_ok_map Proofs.Src_ok_common Proofs.Src_ok_fproxy Proofs.Src_ok_fnocancel.

(* more_executors/_impl/map.py *)
Theorem c17_source_map : Src_map.facts = expected_map.
Proof. exact src_map_ok. Qed.
(* more_executors/_impl/common.py *)
Theorem c17_source_common : Src_common.facts = expected_common.
Proof. exact src_common_ok. Qed.
(* more_executors/_impl/futures/proxy.py *)
Theorem c17_source_fproxy : Src_fproxy.facts = expected_fproxy.
Proof. exact src_fproxy_ok. Qed.
(* more_executors/_impl/futures/nocancel.py *)
Theorem c17_source_fnocancel : Src_fnocancel.facts = expected_fnocancel.
Proof. exact src_fnocancel_ok. Qed.

Print Assumptions c17_source_map.
Print Assumptions c17_source_common.
Print Assumptions c17_source_fproxy.
Print Assumptions c17_source_fnocancel.
