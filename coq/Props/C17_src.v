(* C17 -- source facts.  The machines and monitors this property rests on were written against, and validated on,
   these definitions of /repo; tools/srcfacts.py regenerates their normal-form digests on every run (coq/Gen/Src_*.v).
   Statements only. *)
From Coq Require Import List String.
From ME Require Import Model.SrcExpected Gen.Src_map Gen.Src_common
  Proofs.Src_ok_map Proofs.Src_ok_common.

(* more_executors/_impl/map.py *)
Theorem c17_source_map : Src_map.facts = expected_map.
Proof. exact src_map_ok. Qed.
(* more_executors/_impl/common.py *)
Theorem c17_source_common : Src_common.facts = expected_common.
Proof. exact src_common_ok. Qed.

Print Assumptions c17_source_map.
Print Assumptions c17_source_common.
