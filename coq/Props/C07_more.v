(* C06 / C03 on the ThrottleExecutor machine (Model/Throttle.v): cancel() == True means the work never starts;
   a queued cancel removes exactly its entry; no future lost / no idle capacity in quiescent form.
   Proofs: Proofs/Throttle_U1..U3 (exact accounting of the running count, callbacks of done futures, quiescence),
   Proofs/Throttle_U4..U6 (cancel). *)
From Coq Require Import ZArith List Bool Arith Lia.
From ME Require Import Base.Machine Base.Fut Base.GenPrelude Gen.ThrottleGen Model.Throttle
  Proofs.Throttle_Spec Proofs.Throttle_Inv Proofs.Throttle_Fifo Proofs.Throttle_Tok Proofs.Throttle_TokC
  Proofs.Throttle_U1 Proofs.Throttle_U2 Proofs.Throttle_U3 Proofs.Throttle_U4 Proofs.Throttle_U5 Proofs.Throttle_U6.
Import ListNotations.
Local Open Scope Z_scope.

Definition reachable (s : st) : Prop := reachable_from step init s.

(* ---- C06: cancel() ---------------------------------------------------------------------------------------- *)
(* cancel() of submission j returned True (history event HCancelRet j true).  Then either
   (a) j was removed from the queue by this or an earlier cancel (HCancelQ j): it is not queued, was never taken
       off the queue by the hand-over thread (no HPop j), never given to the delegate (no HDSub j) -- neither
       before nor after the cancel; or
   (b) j had been handed over: the delegate future d created for j (ghost dfor) is in a cancelled state --
       delegate.cancel() answered True, which the stdlib Future does only for a future that has not started
       (Base/Fut.v: f_cancel) and after which it can never run (cancelled_never_runs).
   The literal "no hand-over of j exists" is FALSE for (b): see c06_cancel_true_after_handover below. *)
Theorem c06_throttle_cancel_true_never_handed_over : forall s, reachable s -> forall j ts,
  In (HCancelRet j true ts) (hist s) ->
  (In j (cancq (hist s)) /\ ~ In j (qu s) /\ ~ In j (pend s) /\
   (forall tp, ~ In (HPop j tp) (hist s)) /\ (forall d td, ~ In (HDSub j d td) (hist s)))
  \/ (exists d, (d < ndel s)%nat /\ dfor s d = j /\ fcancelled (ds s d) = true).
Proof.
  intros s Hr j ts Hin. destruct (cancel_true_lemma s Hr j ts Hin) as [Hc|Hd]; [left|right; exact Hd].
  destruct (cancel_queued_never_handed_over_lemma s Hr j Hc) as [_ [Hq [Hp [Hpe Hd]]]].
  split; [exact Hc|]. split; [exact Hq|]. split; [exact Hpe|].
  split; [intros tp Hx; apply Hp; eapply in_hpop_pops; eauto|intros d td Hx; apply Hd; eapply in_hdsub_dsubs; eauto].
Qed.

(* the same for the state of the throttle future: cancelled only for one of these two reasons *)
Theorem c06_throttle_future_cancelled_justified : forall s, reachable s -> forall j, fcancelled (ms s j) = true ->
  In j (cancq (hist s)) \/ exists d, (d < ndel s)%nat /\ dfor s d = j /\ fcancelled (ds s d) = true.
Proof. exact throttle_future_cancelled_lemma. Qed.

(* a submission cancelled while queued is never handed over (whatever cancel() then returns) *)
Theorem c06_throttle_cancel_queued_never_handed_over : forall s, reachable s -> forall j tc, In (HCancelQ j tc) (hist s) ->
  (forall ts, ~ In (HPop j ts) (hist s)) /\ (forall d ts, ~ In (HDSub j d ts) (hist s)) /\ ~ In j (qu s).
Proof. exact cancel_queued_no_handover_events_lemma. Qed.

(* _me_cancel under the executor lock: a queued submission is removed -- exactly that one entry, the order of the
   others is kept -- and cancel() goes on to return True; one the hand-over thread has already popped is left
   alone, cancel() goes on to return False *)
Theorem c06_throttle_cancel_removes_exactly_one : forall s ts t j rest s', reachable s ->
  step s (ts, EXSec t) = Some s' -> thr s t = IXCancel j :: rest ->
  (In j (qu s) ->
     exists a b, qu s = a ++ j :: b /\ qu s' = a ++ b /\ ~ In j a /\ ~ In j b /\
                 hist s' = HCancelQ j ts :: hist s /\
                 thr s' t = IFCancel j :: IFSrnc j :: IRelMCbs j :: IRetB true :: rest) /\
  (~ In j (qu s) -> qu s' = qu s /\ hist s' = hist s /\ thr s' t = IRelM j :: IRetB false :: rest).
Proof. intros s ts t j rest s' Hr. exact (cancel_removes_exactly_one_lemma s ts t j rest s' Hr). Qed.
Theorem c06_throttle_queue_nodup : forall s, reachable s -> NoDup (qu s).
Proof. exact queue_nodup_lemma. Qed.

(* a submission already handed over: cancel() is forwarded to the delegate future and answers what it answers *)
Theorem c06_throttle_cancel_forwarded : forall s ts t j rest s',
  step s (ts, EFM t 1 j (ms s j)) = Some s' -> thr s t = IDoneC j :: rest -> fdone (ms s j) = false ->
  forall d, mdel s j = Some d -> thr s' t = IDCancel j d :: rest.
Proof. exact cancel_forwarded_lemma. Qed.
Theorem c06_throttle_cancel_delegate_answer : forall s ts t j d rest s',
  step s (ts, EFD t 2 d (ds s d)) = Some s' -> thr s t = IDCancel j d :: rest ->
  ds s' d = fst (f_cancel (ds s d)) /\
  (snd (f_cancel (ds s d)) = true ->
     fcancelled (ds s' d) = true /\ exists pre, thr s' t = pre ++ IFCancel j :: IFSrnc j :: IRelMCbs j :: IRetB true :: rest) /\
  (snd (f_cancel (ds s d)) = false -> ds s' d = ds s d /\ thr s' t = IRelM j :: IRetB false :: rest).
Proof. exact cancel_delegate_answer_lemma. Qed.

(* ---- C03: no future lost, no capacity idle (quiescent form) ------------------------------------------------ *)
(* Quiescent: every thread but the hand-over thread has an empty program, the hand-over thread is parked in
   event.wait() without having been notified (egen unchanged since it parked), the shared flag is clear.  With a
   static count, started, not shut down:
   - the running count is exactly the number of delegate futures in flight (created, not done);
   - each of them has _delegate_future_done registered (CbDone in dcbs): its completion will decrement and set
     the event, i.e. free the slot and wake the hand-over thread;
   - the queue is empty, or the count c is the limit in force and c delegate futures are in flight. *)
Theorem c03_throttle_no_lost : forall s, reachable s -> started s = true -> dyn s = false -> shut s = false ->
  all_idle_parked s -> (exists g tau since, wst s H = Some (g, tau, since) /\ egen s = g) -> eflag s = false ->
  running s = inflight s /\
  (forall d, (d < ndel s)%nat -> fdone (ds s d) = false -> In CbDone (dcbs s d)) /\
  (qu s = [] \/ exists c, last s = Some c /\ hlim s = Some c /\ c <= inflight s).
Proof. exact no_lost_lemma. Qed.

(* the accounting alone needs neither a static count nor the flag: all idle, hand-over thread parked *)
Theorem c03_throttle_quiescent_accounting : forall s, reachable s -> all_idle_parked s ->
  running s = inflight s /\
  forall d, (d < ndel s)%nat -> fdone (ds s d) = false -> In CbDone (dcbs s d) /\ cb (dcbs s d) = 1.
Proof. exact quiescent_accounting_lemma. Qed.

(* exact accounting in every reachable state (no shape assumption): running = pending delegate.submit calls
   + (pending popleft - pending incr) + |local to_submit| while in the X-section + tokens *)
Theorem c03_throttle_running_exact : forall s, reachable s -> exists N, InvN N s /\ InvE N s.
Proof. exact invKE_reachable. Qed.
(* a done delegate future has no registered callbacks left *)
Theorem c03_throttle_done_callbacks_cleared : forall s, reachable s -> forall d, fdone (ds s d) = true -> dcbs s d = [].
Proof. exact invC_reachable. Qed.

(* ---- witnesses ---------------------------------------------------------------------------------------------- *)
Definition evs (w : list (list Z)) : list (Z * ev) := match decode_all w with Some es => es | None => [] end.

(* limit 1, static, non-blocking; thread 1 submits jobs 0 and 1; the hand-over thread admits job 0, hands it to the
   delegate (future 0, callbacks registered), finds the limit reached for job 1, and parks *)
Definition quiet_trace : list (list Z) :=
  [[0; 0; 0; 0; 0; 1]; [0; 1];
   [0; 3; 1]; [0; 12; 1]; [0; 23; 1]; [0; 29; 1]; [0; 13; 1]; [0; 7; 1; 0];
   [0; 3; 1]; [0; 12; 1]; [0; 23; 1]; [0; 29; 1]; [0; 13; 1]; [0; 7; 1; 0];
   [0; 24; 0]; [0; 26; 0; 0]; [0; 31; 0]; [0; 27; 0]; [0; 28; 0]; [0; 26; 0; 1]; [0; 25; 0];
   [0; 15; 0; 0; 0; 0; 0]; [0; 11; 0; 5; 0; 0]; [0; 8; 0; 0]; [0; 9; 0; 0]; [0; 11; 0; 5; 0; 0];
   [0; 26; 0; 1]; [0; 16; 0; 0]; [0; 18; 0];
   [0; 24; 0]; [0; 26; 0; 1]; [0; 25; 0]; [0; 26; 0; 1]; [0; 16; 0; 1]].

Example c03_throttle_no_lost_nonvacuous :
  exists s, reachable s /\ started s = true /\ dyn s = false /\ shut s = false /\ all_idle_parked s /\
            (exists g tau since, wst s H = Some (g, tau, since) /\ egen s = g) /\ eflag s = false /\
            qu s = [1%nat] /\ last s = Some 1 /\ running s = 1 /\ inflight s = 1 /\ dcbs s 0 = [CbDone; CbRes 0].
Proof.
  eexists. split; [exists (evs quiet_trace); vm_compute; reflexivity|].
  repeat split; try reflexivity.
  - intros u Hu. destruct u as [|[|u]]; [contradiction Hu; reflexivity|reflexivity|reflexivity].
  - do 3 eexists. split; reflexivity.
Qed.

(* from there thread 2 cancels the queued job 1: removed from the queue, True *)
Definition cancel_queued_trace : list (list Z) :=
  quiet_trace ++ [[1; 4; 2; 1]; [1; 8; 2; 1]; [1; 10; 2; 0; 1; 0]; [1; 10; 2; 1; 1; 0]; [1; 23; 2];
                  [1; 10; 2; 2; 1; 0]; [1; 10; 2; 3; 1; 2]; [1; 9; 2; 1]; [1; 7; 2; 2]].
Example c06_throttle_cancel_true_queued :
  exists s, reachable s /\ In (HCancelRet 1 true 1) (hist s) /\ In 1%nat (cancq (hist s)) /\ qu s = [] /\
            pops (hist s) = [0%nat] /\ fcancelled (ms s 1) = true.
Proof.
  eexists. split; [exists (evs cancel_queued_trace); vm_compute; reflexivity|].
  repeat split; try reflexivity; vm_compute; auto 10.
Qed.

(* ... and cancels job 0, which has been handed over (HDSub 0 0): forwarded to delegate future 0, which is still
   pending: cancelled, its callbacks run in the canceller (the running count is decremented), True.  So
   "cancel() == True => no hand-over of j in the history" is false as a literal statement; what holds is case (b). *)
Definition cancel_handed_trace : list (list Z) :=
  cancel_queued_trace ++ [[2; 4; 2; 0]; [2; 8; 2; 0]; [2; 10; 2; 0; 0; 0]; [2; 10; 2; 1; 0; 0]; [2; 11; 2; 2; 0; 0];
                          [2; 27; 2]; [2; 28; 2]; [2; 29; 2]; [2; 11; 2; 0; 0; 2];
                          [2; 10; 2; 2; 0; 0]; [2; 10; 2; 3; 0; 2]; [2; 9; 2; 0]; [2; 7; 2; 2]].
Example c06_throttle_cancel_true_after_handover :
  exists s, reachable s /\ In (HCancelRet 0 true 2) (hist s) /\ In (HDSub 0 0 0) (hist s) /\ ~ In 0%nat (cancq (hist s)) /\
            dfor s 0 = 0%nat /\ ds s 0 = Cancelled /\ fcancelled (ms s 0) = true /\ running s = 0 /\ inflight s = 0.
Proof.
  eexists. split; [exists (evs cancel_handed_trace); vm_compute; reflexivity|].
  repeat split; try reflexivity; vm_compute; auto 20.
  intros [Hx|[]]. discriminate.
Qed.

(* cancel() of a job that is running in the delegate: forwarded, the delegate future refuses, False *)
Definition cancel_running_trace : list (list Z) :=
  quiet_trace ++ [[1; 19; 2; 0; 0];
                  [1; 4; 2; 0]; [1; 8; 2; 0]; [1; 10; 2; 0; 0; 0]; [1; 10; 2; 1; 0; 0]; [1; 11; 2; 2; 0; 1];
                  [1; 9; 2; 0]; [1; 7; 2; 1]].
Example c06_throttle_cancel_false_when_running :
  exists s, reachable s /\ In (HCancelRet 0 false 1) (hist s) /\ ds s 0 = Running /\ running s = 1 /\ inflight s = 1.
Proof.
  eexists. split; [exists (evs cancel_running_trace); vm_compute; reflexivity|].
  repeat split; try reflexivity; vm_compute; auto 10.
Qed.

Print Assumptions c06_throttle_cancel_true_never_handed_over.
Print Assumptions c06_throttle_future_cancelled_justified.
Print Assumptions c06_throttle_cancel_queued_never_handed_over.
Print Assumptions c06_throttle_cancel_removes_exactly_one.
Print Assumptions c06_throttle_queue_nodup.
Print Assumptions c06_throttle_cancel_forwarded.
Print Assumptions c06_throttle_cancel_delegate_answer.
Print Assumptions c03_throttle_no_lost.
Print Assumptions c03_throttle_quiescent_accounting.
Print Assumptions c03_throttle_running_exact.
Print Assumptions c03_throttle_done_callbacks_cleared.
Print Assumptions c03_throttle_no_lost_nonvacuous.
Print Assumptions c06_throttle_cancel_true_queued.
Print Assumptions c06_throttle_cancel_true_after_handover.
Print Assumptions c06_throttle_cancel_false_when_running.
