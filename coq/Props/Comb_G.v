(* C03 / C06 for the combinator machine (Model/Comb.v): f_or / f_and (futures/bool.py) and f_zip
   (futures/zip.py).  Statements only; proofs in Proofs/Comb_N1.v .. Comb_N7.v.

   Reading guide (Model/Comb.v):
     inputs s        positions -> input future id;  es s d / eout s d: state / outcome of input d
     os s            state of the output future;  done = Finished | Cancelled | CancelledNotified
     built s         the constructor call has been made;  quiescent: no thread has anything left to run
     hist s          ghost history, NEWEST FIRST:
       HDecide d o     the decision, taken under the combinator's lock, on input d's completion
       HSetOut o       try_set_result / copy_future_exception took effect on the output
       HOutCancelled   out.cancel() took effect (Pending -> Cancelled): the only way a cancel() of the
                       output can answer True (c06_comb_cancel_true_only_when_cancelled)
       HCancelReq d p  cancel() was called on input d (found in state p)
     ERet t 2        the return of out.cancel() to its caller with the answer True *)
From Coq Require Import List Bool Arith ZArith.
From ME Require Import Base.Machine Base.Fut Base.GenPrelude Model.Comb Proofs.Comb_Spec Proofs.Comb_N5 Proofs.Comb_N6 Proofs.Comb_N7.
Import ListNotations.

Definition reachable := reachable_from step init.
Definition quiescent (s : st) := forall t, thr s t = [].

(* ---- C03 (a): no future is lost ----------------------------------------------------------------- *)
(* once every input of the combinator is done (finished with a value or an exception, or cancelled) and
   nothing is running any more, the output is done -- and a cancelled output has been notified.
   [inputs s <> []]: Zipper is never built over no inputs (f_zip() returns f_return(()) directly); the
   model accepts that call, see c03_comb_zip_no_inputs_refuted below.  f_or / f_and have >= 2 inputs. *)
Theorem c03_comb_no_lost : forall s, reachable s -> quiescent s -> built s = true -> inputs s <> [] ->
  (forall x, In x (inputs s) -> fdone (es s x) = true) ->
  os s = Finished \/ os s = CancelledNotified.
Proof. exact no_lost. Qed.

(* equivalently: a pending output at quiescence is waiting for some input that is still pending *)
Theorem c03_comb_pending_output_waits_for_input : forall s, reachable s -> quiescent s -> built s = true ->
  inputs s <> [] -> fdone (os s) = false -> exists x, In x (inputs s) /\ fdone (es s x) = false.
Proof. exact pending_output_pending_input. Qed.

(* the step behind (a): with every input done and nothing running, the decision has been taken *)
Theorem c03_comb_all_inputs_done_decided : forall s, reachable s -> quiescent s -> built s = true ->
  inputs s <> [] -> (forall x, In x (inputs s) -> fdone (es s x) = true) ->
  exists d o, In (HDecide d o) (hist s).
Proof. exact all_done_decided_hist. Qed.

(* ---- C03 (b): the decision taken under the lock is always published ----------------------------- *)
Theorem c03_comb_decided_output_done : forall s, reachable s -> quiescent s ->
  forall d o, In (HDecide d o) (hist s) -> os s = Finished \/ os s = CancelledNotified.
Proof. exact decided_output_done. Qed.

(* ... faithfully: either the output had been cancelled, or it holds an outcome, which for f_or / f_and is
   the deciding input's (f_zip: the tuple of slots, c15_zip_positions) *)
Theorem c03_comb_decision_published : forall s, reachable s -> quiescent s ->
  forall d o, In (HDecide d o) (hist s) ->
  (os s = CancelledNotified /\ In HOutCancelled (hist s)) \/
  (os s = Finished /\ exists o', In (HSetOut o') (hist s) /\ oout s = Some o' /\ (ck s <> KZip -> o = Some o')).
Proof. exact decision_published. Qed.

(* at quiescence: output pending  <->  no decision yet and the output was not cancelled *)
Theorem c03_comb_output_pending_means_undecided : forall s, reachable s -> quiescent s ->
  (fdone (os s) = false <-> (forall d o, ~ In (HDecide d o) (hist s)) /\ ~ In HOutCancelled (hist s)).
Proof. exact pending_iff_undecided. Qed.

(* the converse half holds in every reachable state *)
Theorem c03_comb_output_done_means_decided : forall s, reachable s -> fdone (os s) = true ->
  (exists d o, In (HDecide d o) (hist s)) \/ In HOutCancelled (hist s).
Proof. exact done_means_decided. Qed.

(* ---- C06 (c): a cancellation of the output fans out to every input ------------------------------ *)
(* after the output's cancel() took effect, at quiescence EVERY input (pending or not at that moment:
   chain_cancel calls cancel() unconditionally) has received a cancel() request logged after the output's
   cancellation; all three kinds.  [length (inputs s) <= notify_id]: model artifact, a position index equal
   to notify_id (998) would be mistaken for the notify_cancel callback in the output's callback list. *)
Theorem c06_comb_output_cancel_fans_out : forall s, reachable s -> quiescent s ->
  length (inputs s) <= notify_id ->
  forall l1 l2, hist s = l1 ++ HOutCancelled :: l2 ->
  forall x, In x (inputs s) -> exists pre, In (HCancelReq x pre) l1.
Proof. exact cancel_fans_out. Qed.

(* ... and what each of these requests did: it found the input Pending and cancelled it, or the input was
   already done (in particular: every input that was pending when the request arrived ends up cancelled) *)
Theorem c06_comb_output_cancel_reaches_inputs : forall s, reachable s -> quiescent s ->
  length (inputs s) <= notify_id ->
  forall l1 l2, hist s = l1 ++ HOutCancelled :: l2 ->
  forall x, In x (inputs s) -> exists pre, In (HCancelReq x pre) l1 /\
    (pre = Pending -> es s x = Cancelled) /\ (pre <> Pending -> fdone pre = true /\ es s x = pre).
Proof. exact cancel_fans_out_effect. Qed.

(* ---- C06 (d): cancel() = True stays ------------------------------------------------------------- *)
(* out.cancel() only answers True on a cancelled output ... *)
Theorem c06_comb_cancel_true_only_when_cancelled : forall s t s1, reachable s -> step s (ERet t 2) = Some s1 ->
  fcancelled (os s) = true /\ os s1 = os s /\ hist s1 = hist s.
Proof. exact cancel_true_cancelled. Qed.

(* ... and from then on, whatever happens, the output stays cancelled and never gets an outcome *)
Theorem c06_comb_cancel_true_stays : forall s t s1, reachable s -> step s (ERet t 2) = Some s1 ->
  forall evs s', run step s1 evs = Some s' ->
  fcancelled (os s') = true /\ In HOutCancelled (hist s') /\ forall o, ~ In (HSetOut o) (hist s').
Proof. exact cancel_true_stays. Qed.

(* history form: no HSetOut before or after the output's cancellation *)
Theorem c06_comb_cancelled_no_outcome : forall s, reachable s -> forall l1 l2,
  hist s = l1 ++ HOutCancelled :: l2 ->
  fcancelled (os s) = true /\ (forall o, ~ In (HSetOut o) l1) /\ (forall o, ~ In (HSetOut o) l2).
Proof. exact out_cancelled_split. Qed.

(* ---- (e) non-vacuity ---------------------------------------------------------------------------- *)
Ltac quiesce := intros t; cbv; repeat match goal with |- context [match ?x with _ => _ end] => destruct x end; reflexivity.

(* f_or over inputs 1, 2: both finish falsy; the last one decides; the output is set *)
Definition w_done : list ev :=
  [ECallNew 0 KOr [1; 2]; EFO 0 5 Pending; EFO 0 5 Pending; EFI 0 5 1 Pending; EFO 0 5 Pending; EFI 0 5 2 Pending; ERet 0 0;
   EEnvFinish 1 1 Pending (Ok 5 false); EAcqL 1; EFI 1 0 1 Finished; ERelL 1;
   EEnvFinish 2 2 Pending (Ok 6 false); EAcqL 2; EFI 2 0 2 Finished; ERelL 2; EFO 2 4 Pending;
   EFO 2 0 Finished; EFO 2 0 Finished; EFO 2 0 Finished].
Example c03_comb_nonvacuous_all_done : exists s, run step init w_done = Some s /\ quiescent s /\ built s = true /\
  inputs s = [1; 2] /\ (forall x, In x (inputs s) -> fdone (es s x) = true) /\
  os s = Finished /\ oout s = Some (Ok 6 false) /\
  hist s = [HSetOut (Ok 6 false); HDecide 2 (Some (Ok 6 false)); HSeen 2 (view s 2); HEnvDone 2 (Ok 6 false);
            HSeen 1 (view s 1); HEnvDone 1 (Ok 5 false)].
Proof.
  eexists. split; [vm_compute; reflexivity|].
  repeat split; try (vm_compute; reflexivity).
  - quiesce.
  - intros x Hx. vm_compute in Hx. destruct Hx as [<-|[<-|[]]]; vm_compute; reflexivity.
Qed.

(* f_zip over the pending inputs 1, 2: the caller cancels the output; cancel() answers True; both inputs
   receive cancel() (found Pending), after the output's cancellation *)
Definition w_cancel : list ev :=
  [ECallNew 0 KZip [1; 2]; EFO 0 5 Pending; EFO 0 5 Pending; EFI 0 5 1 Pending; EFO 0 5 Pending; EFI 0 5 2 Pending; ERet 0 0;
   ECallCancelOut 3; EFO 3 2 Pending; EFO 3 0 Cancelled; EFO 3 3 Cancelled;
   EFO 3 0 CancelledNotified; EFI 3 2 1 Pending; EAcqL 3; EFI 3 0 1 Cancelled; ERelL 3; EFO 3 2 CancelledNotified;
   EFO 3 0 CancelledNotified; EFI 3 2 2 Pending; EAcqL 3; ERelL 3; ERet 3 2].
Example c06_comb_nonvacuous_cancel_fans_out : exists s, run step init w_cancel = Some s /\ quiescent s /\ built s = true /\
  inputs s = [1; 2] /\ os s = CancelledNotified /\ es s 1 = Cancelled /\ es s 2 = Cancelled /\
  hist s = [HCancelReq 2 Pending; HDecide 1 None; HSeen 1 (view s 1); HCancelReq 1 Pending; HOutCancelled].
Proof.
  eexists. split; [vm_compute; reflexivity|].
  repeat split; try (vm_compute; reflexivity). quiesce.
Qed.
(* the last event of w_cancel is the True answer of out.cancel() *)
Example c06_comb_nonvacuous_cancel_true : exists s s1, run step init (removelast w_cancel) = Some s /\
  step s (ERet 3 2) = Some s1.
Proof. eexists. eexists. split; vm_compute; reflexivity. Qed.

(* the literal (a) without [inputs s <> []] is false in the model: Zipper over no inputs never completes
   its output (count_remaining starts at 0 and no callback ever runs).  Not reachable through f_zip, which
   returns f_return(()) for no inputs. *)
Definition w_zip0 : list ev := [ECallNew 0 KZip []; EFO 0 5 Pending; ERet 0 0].
Example c03_comb_zip_no_inputs_refuted : exists s, run step init w_zip0 = Some s /\ quiescent s /\ built s = true /\
  (forall x, In x (inputs s) -> fdone (es s x) = true) /\ os s = Pending.
Proof.
  eexists. split; [vm_compute; reflexivity|].
  repeat split; try (vm_compute; reflexivity).
  - quiesce.
  - intros x Hx. vm_compute in Hx. contradiction.
Qed.

Print Assumptions c03_comb_no_lost.
Print Assumptions c03_comb_pending_output_waits_for_input.
Print Assumptions c03_comb_all_inputs_done_decided.
Print Assumptions c03_comb_decided_output_done.
Print Assumptions c03_comb_decision_published.
Print Assumptions c03_comb_output_pending_means_undecided.
Print Assumptions c03_comb_output_done_means_decided.
Print Assumptions c06_comb_output_cancel_fans_out.
Print Assumptions c06_comb_output_cancel_reaches_inputs.
Print Assumptions c06_comb_cancel_true_only_when_cancelled.
Print Assumptions c06_comb_cancel_true_stays.
Print Assumptions c06_comb_cancelled_no_outcome.
Print Assumptions c03_comb_nonvacuous_all_done.
Print Assumptions c06_comb_nonvacuous_cancel_fans_out.
Print Assumptions c06_comb_nonvacuous_cancel_true.
Print Assumptions c03_comb_zip_no_inputs_refuted.
