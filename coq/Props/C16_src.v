(* C16 -- source facts.  The machines and monitors this property rests on were written against, and validated on,
   these definitions of /repo; tools/srcfacts.py regenerates their normal-form digests on every run (coq/Gen/Src_*.v).
   Statements only.  Written by `tools/srcfacts.py --props` from PROP_MODULES. *)
From Coq Require Import List String.
From ME Require Import Model.SrcExpected Gen.Src_map Gen.Src_flat_map Gen.Src_common Gen.Src_fapply Gen.Src_fmap Gen.Src_fbase Gen.Src_fcheck Gen.Src_futures_init Gen.Src_logwrap Gen.Src_metrics_null
  Proofs.Src_ok_map Proofs.Src_ok_flat_map Proofs.Src_ok_common Proofs.Src_ok_fapply Proofs.Src_ok_fmap Proofs.Src_ok_fbase Proofs.Src_ok_fcheck Proofs.Src_ok_futures_init Proofs.Src_ok_logwrap Proofs.Src_ok_metrics_null.

(* more_executors/_impl/map.py *)
Theorem c16_source_map : Src_map.facts = expected_map.
Proof. exact src_map_ok. Qed.
(* more_executors/_impl/flat_map.py *)
Theorem c16_source_flat_map : Src_flat_map.facts = expected_flat_map.
Proof. exact src_flat_map_ok. Qed.
(* more_executors/_impl/common.py *)
Theorem c16_source_common : Src_common.facts = expected_common.
Proof. exact src_common_ok. Qed.
(* more_executors/_impl/futures/apply.py *)
Theorem c16_source_fapply : Src_fapply.facts = expected_fapply.
Proof. exact src_fapply_ok. Qed.
(* more_executors/_impl/futures/map.py *)
Theorem c16_source_fmap : Src_fmap.facts = expected_fmap.
Proof. exact src_fmap_ok. Qed.
(* more_executors/_impl/futures/base.py *)
Theorem c16_source_fbase : Src_fbase.facts = expected_fbase.
Proof. exact src_fbase_ok. Qed.
(* more_executors/_impl/futures/check.py *)
Theorem c16_source_fcheck : Src_fcheck.facts = expected_fcheck.
Proof. exact src_fcheck_ok. Qed.
(* more_executors/_impl/futures/__init__.py *)
Theorem c16_source_futures_init : Src_futures_init.facts = expected_futures_init.
Proof. exact src_futures_init_ok. Qed.
(* more_executors/_impl/logwrap.py *)
Theorem c16_source_logwrap : Src_logwrap.facts = expected_logwrap.
Proof. exact src_logwrap_ok. Qed.
(* more_executors/_impl/metrics/null.py *)
Theorem c16_source_metrics_null : Src_metrics_null.facts = expected_metrics_null.
Proof. exact src_metrics_null_ok. Qed.

Print Assumptions c16_source_map.
Print Assumptions c16_source_flat_map.
Print Assumptions c16_source_common.
Print Assumptions c16_source_fapply.
Print Assumptions c16_source_fmap.
Print Assumptions c16_source_fbase.
Print Assumptions c16_source_fcheck.
Print Assumptions c16_source_futures_init.
Print Assumptions c16_source_logwrap.
Print Assumptions c16_source_metrics_null.
