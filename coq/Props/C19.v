(* C19 -- bind / flat_bind chains are equivalent to the executor chain; names propagate.
   Statements only; model and proofs in Model/Bind.v; source facts regenerated (Gen/BindGen.v). *)
From Coq Require Import List String Bool Arith.
From ME Require Import Base.GenPrelude Gen.BindGen Model.Bind.
Import ListNotations.
Local Open Scope string_scope.

(* for every chain of with_* calls applied after bind: the callable submits fn to exactly the
   executor stack obtained by applying the same chain to the executor *)
Theorem c19_bind_chain_equiv : forall e fn ls, bound_callable_exposes_name = true ->
  call_target (chain (bind e fn) ls) = Some (the_exec (chain (OExec e) ls), fn).
Proof. exact bind_chain_equiv. Qed.

Theorem c19_flat_bind_is_bind_then_flat_map : forall e fn,
  flat_bind e fn = chain (bind e fn) [{| lclass := "FlatMapExecutor"; lname := None |}].
Proof. exact flat_bind_is_bind_flat_map. Qed.

(* a name given to the base executor is inherited by every layer chained before and after bind *)
Theorem c19_name_inherited : forall base fn ls1 ls2, bound_callable_exposes_name = true ->
  Forall (fun l => lname l = None) ls1 -> Forall (fun l => lname l = None) ls2 ->
  let e1 := the_exec (chain (OExec {| ebase := base; elayers := [] |}) ls1) in
  Forall (fun cn => snd cn = base) (elayers (the_exec (chain (bind e1 fn) ls2))).
Proof. exact name_inherited. Qed.

(* source facts: every with_* method propagates the name and goes through _customize; the bound
   callable carries its executor's name *)
Theorem c19_source_facts :
  all_with_methods_propagate = true /\ seven_layers_customize = true /\ bound_callable_exposes_name = true /\
  name_attrs = ["_name"; "_CustomizableThreadPoolExecutor__name"].
Proof. vm_compute. repeat split; reflexivity. Qed.

(* any callable may be bound, also one that carries attributes of its own - in particular a callable that is
   itself bound (ex2.bind(ex1.bind(fn))): the outer callable still submits ITS function to ITS executor.
   (G17, repaired in /repo: the private attributes used to be written before update_wrapper's copy.) *)
Theorem c19_bound_callable_own_target : forall e fn fn_dict,
  private_attrs_after_wrapper = true ->
  call_attrs (construct private_attrs_after_wrapper e fn fn_dict) = Some (e, fn).
Proof. intros e fn d ->. exact (construct_after_own_target e fn d). Qed.
Theorem c19_nested_bind_clobbered_if_written_before_refuted : forall e fn e' fn',
  call_attrs (construct false e fn (construct false e' fn' [])) = Some (e', fn').
Proof. exact construct_before_clobbered. Qed.
Theorem c19_init_order_fact : private_attrs_after_wrapper = true.
Proof. reflexivity. Qed.

Example c19_instance :
  elayers (the_exec (chain (bind {| ebase := "mine"; elayers := [] |} 1)
                           [{| lclass := "RetryExecutor"; lname := None |}; {| lclass := "ThrottleExecutor"; lname := None |}]))
  = [("RetryExecutor", "mine"); ("ThrottleExecutor", "mine")].
Proof. reflexivity. Qed.

Print Assumptions c19_bind_chain_equiv.
Print Assumptions c19_name_inherited.
Print Assumptions c19_source_facts.
Print Assumptions c19_bound_callable_own_target.
Print Assumptions c19_nested_bind_clobbered_if_written_before_refuted.
Print Assumptions c19_flat_bind_is_bind_then_flat_map.
Print Assumptions c19_init_order_fact.
