(* C19 -- bind / flat_bind chains are equivalent to the executor chain; names propagate.
   Statements only; model and proofs in Model/Bind.v; source facts regenerated (Gen/BindGen.v). *)
From Coq Require Import List String Bool Arith.
From ME Require Import Base.GenPrelude Gen.BindGen Model.Bind.
Import ListNotations.
Local Open Scope string_scope.

(* for every chain of with_* calls applied after bind: the callable submits fn to exactly the
   executor stack obtained by applying the same chain to the executor *)
Theorem c19_bind_chain_equiv : forall e fn ls, bound_callable_exposes_name = true ->
  call_target (chain (bind e fn) ls) = Some (the_exec (chain (OExec e) ls), fn).
Proof. exact bind_chain_equiv. Qed.

Theorem c19_flat_bind_is_bind_then_flat_map : forall e fn,
  flat_bind e fn = chain (bind e fn) [{| lclass := "FlatMapExecutor"; lname := None |}].
Proof. exact flat_bind_is_bind_flat_map. Qed.

(* a name given to the base executor is inherited by every layer chained before and after bind *)
Theorem c19_name_inherited : forall base fn ls1 ls2, bound_callable_exposes_name = true ->
  Forall (fun l => lname l = None) ls1 -> Forall (fun l => lname l = None) ls2 ->
  let e1 := the_exec (chain (OExec {| ebase := base; elayers := [] |}) ls1) in
  Forall (fun cn => snd cn = base) (elayers (the_exec (chain (bind e1 fn) ls2))).
Proof. exact name_inherited. Qed.

(* source facts: every with_* method propagates the name and goes through _customize; the bound
   callable carries its executor's name *)
Theorem c19_source_facts :
  all_with_methods_propagate = true /\ seven_layers_customize = true /\ bound_callable_exposes_name = true /\
  name_attrs = ["_name"; "_CustomizableThreadPoolExecutor__name"].
Proof. vm_compute. repeat split; reflexivity. Qed.

Example c19_instance :
  elayers (the_exec (chain (bind {| ebase := "mine"; elayers := [] |} 1)
                           [{| lclass := "RetryExecutor"; lname := None |}; {| lclass := "ThrottleExecutor"; lname := None |}]))
  = [("RetryExecutor", "mine"); ("ThrottleExecutor", "mine")].
Proof. reflexivity. Qed.

Print Assumptions c19_bind_chain_equiv.
Print Assumptions c19_name_inherited.
Print Assumptions c19_source_facts.
