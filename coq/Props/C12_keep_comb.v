(* C12 (second sentence) on the combinator machine (Model/Comb.v): f_or / f_and (futures/bool.py BoolOperation) and
   f_zip (futures/zip.py Zipper): what is retained once the output is decided.
   The operation object is referenced only by (a) the callback lists of its INPUT futures: ecbs s d lists the
   handle_done registrations (bound methods -> the operation -> its output future, its fs map, its slots), and (b)
   running frames (thr).  The OUTPUT future's callback list ocbs s holds the chain_cancel closures (-> the inputs).
   The operation itself holds fsd s (BoolOperation.fs, the remaining inputs) and slots s (Zipper.fs[i] = results).
   Results.  In every reachable state a registration only ever sits on a future that is not done (inputs and output
   alike, no window).  Before the decision fs holds only inputs whose handle_done has not taken the lock yet; at
   quiescence exactly pending inputs.  After the decision, at quiescence: the output is done, its callback list is empty,
   and the only thing left are handle_done registrations on inputs STILL PENDING (f_zip after a failure; for f_or /
   f_and in this model none at all, since the losers are cancelled).  BoolOperation.fs is NOT pruned after the
   decision (handle_done returns early): it keeps listing the cancelled losers -- refuted literal form below -- but
   then no future references the operation any more.  No Model change.  Proofs: Proofs/Keep_Comb1.v. *)
From Coq Require Import List Bool Arith ZArith Lia.
From ME Require Import Base.Machine Base.Fut Base.GenPrelude Model.Comb Proofs.Comb_Spec Proofs.Keep_Comb1.
Import ListNotations.

Definition reachable := reachable_from step init.
Definition quiescent (s : st) := forall t, thr s t = [].

(* ---- callback lists: every reachable state, no window ---------------------------------------------------- *)
(* stdlib: a done input has dropped its callback list, i.e. the handle_done registrations (and with them the
   reference to the operation and its output) *)
Theorem c12_comb_done_input_cbs_cleared : forall s, reachable s -> forall d, fdone (es s d) = true -> ecbs s d = [].
Proof. exact keep_comb_done_input_cbs_cleared. Qed.
(* a done output has dropped its callback list, i.e. the chain_cancel closures that hold the inputs *)
Theorem c12_comb_done_output_cbs_cleared : forall s, reachable s -> fdone (os s) = true -> ocbs s = [].
Proof. exact keep_comb_done_output_cbs_cleared. Qed.
(* what IS retained is bounded by the futures still pending: a registration exists only on an input that is not
   done (and is an input of the operation), the output's callbacks only while the output is not done *)
Theorem c12_comb_registrations_only_pending : forall s, reachable s ->
  (forall d, ecbs s d <> [] -> fdone (es s d) = false /\ In d (inputs s)) /\
  (ocbs s <> [] -> fdone (os s) = false).
Proof. exact keep_comb_registrations_only_pending. Qed.

(* ---- BoolOperation.fs before the decision ---------------------------------------------------------------- *)
Theorem c12_comb_fs_inputs : forall s, reachable s -> forall x, In x (fsd s) -> In x (inputs s).
Proof. exact keep_comb_fs_inputs. Qed.
(* every reachable state, exact window: a DONE input is still in fs only while its handle_done has not yet taken the
   lock (it pops the input first thing under the lock): the callback is queued in a thread (IAcqL i x), or the
   constructor has not reached add_done_callback for that position yet (IAddCbIn i) *)
Theorem c12_comb_fs_window : forall s, reachable s -> ck s <> KZip -> cdone s = false ->
  forall x, In x (fsd s) -> fdone (es s x) = true ->
  (exists t i, In (IAddCbIn i) (thr s t) /\ input_at s i = x) \/ (exists t i, In (IAcqL i x) (thr s t)).
Proof. exact keep_comb_fs_window. Qed.
(* at quiescence: fs holds only pending inputs, each with its handle_done registered *)
Theorem c12_comb_fs_pending_at_quiescence : forall s, reachable s -> quiescent s -> ck s <> KZip -> cdone s = false ->
  forall x, In x (fsd s) -> fdone (es s x) = false /\ In x (inputs s) /\ ecbs s x <> [].
Proof. exact keep_comb_fs_pending_at_quiescence. Qed.
Theorem c12_comb_fs_incl_pending : forall s, reachable s -> quiescent s -> ck s <> KZip -> cdone s = false ->
  incl (fsd s) (filter (fun d => negb (fdone (es s d))) (inputs s)).
Proof. exact keep_comb_fs_incl_pending. Qed.

(* ---- after the decision ---------------------------------------------------------------------------------- *)
(* every reachable state, exact window: once the decision is taken the output is done with an empty callback list,
   except while the deciding thread has not yet published it (ISetOut / ICancelOut on the output still pending) *)
Theorem c12_comb_decided_window : forall s, reachable s -> cdone s = true ->
  (fdone (os s) = true /\ ocbs s = []) \/ (exists t o, In (ISetOut o) (thr s t)) \/ (exists t, In ICancelOut (thr s t)).
Proof. exact keep_comb_decided_window. Qed.
(* at quiescence *)
(* every kind: the output is done, its callback list is empty, and what remains registered sits on pending inputs *)
Theorem c12_comb_decided_quiescent : forall s, reachable s -> quiescent s -> cdone s = true ->
  fdone (os s) = true /\ ocbs s = [] /\
  forall d, ecbs s d <> [] -> fdone (es s d) = false /\ In d (inputs s).
Proof. exact keep_comb_decided_quiescent. Qed.
(* f_or / f_and: every remaining input received cancel(); no registration is left anywhere: no future references the
   operation (hence its fs and its output) any more.  [~ In out_id (inputs s)], [length (inputs s) <= notify_id]:
   model artifacts, as in c14_losers_cancelled *)
Theorem c12_comb_decided_quiescent_bool : forall s, reachable s -> quiescent s -> cdone s = true -> ck s <> KZip ->
  ~ In out_id (inputs s) -> length (inputs s) <= notify_id ->
  fdone (os s) = true /\ ocbs s = [] /\ (forall x, In x (inputs s) -> fdone (es s x) = true) /\ (forall d, ecbs s d = []).
Proof. exact keep_comb_decided_quiescent_bool. Qed.

(* ---- non-vacuity and witnesses --------------------------------------------------------------------------- *)
Ltac quiesce := let t := fresh "t" in intros t; cbv;
  repeat match goal with |- context [match ?x with _ => _ end] => destruct x end; reflexivity.

Definition w_build (k : ckind) : list ev :=
  [ECallNew 0 k [1; 2]; EFO 0 5 Pending; EFO 0 5 Pending; EFI 0 5 1 Pending; EFO 0 5 Pending; EFI 0 5 2 Pending; ERet 0 0].

(* f_or(1, 2), input 1 finished falsy: undecided, quiescent; fs = [2], the pending input, with its registration;
   the output is pending and still holds its three callbacks *)
Definition w_undecided : list ev := w_build KOr ++ [EEnvFinish 1 1 Pending (Ok 5 false); EAcqL 1; EFI 1 0 1 Finished; ERelL 1].
Example c12_comb_nonvacuous_undecided : exists s, run step init w_undecided = Some s /\ quiescent s /\
  ck s = KOr /\ cdone s = false /\ es s 1 = Finished /\ es s 2 = Pending /\ fsd s = [2] /\ ecbs s 1 = [] /\ ecbs s 2 = [1] /\
  os s = Pending /\ ocbs s = [notify_id; 0; 1].
Proof.
  eexists. split; [vm_compute; reflexivity|]. split; [quiesce|]. repeat split; vm_compute; reflexivity.
Qed.

(* f_zip(1, 2), input 1 failed: decided, the output is Finished with the exception, quiescent; input 2 is still
   pending and keeps its handle_done registration (position 1): through it the Zipper and its done output stay
   reachable until input 2 completes -- this is what c12_comb_decided_quiescent allows, and all it allows *)
Definition w_zip_failed : list ev :=
  w_build KZip ++ [EEnvFinish 1 1 Pending (Err 3); EAcqL 1; EFI 1 0 1 Finished; ERelL 1; EFO 1 6 Pending;
                   EFO 1 0 Finished; EFO 1 0 Finished; EFO 1 0 Finished].
Example c12_comb_nonvacuous_zip_decided_one_pending : exists s, run step init w_zip_failed = Some s /\ quiescent s /\
  ck s = KZip /\ cdone s = true /\ os s = Finished /\ oout s = Some (Err 3) /\ ocbs s = [] /\
  es s 1 = Finished /\ ecbs s 1 = [] /\ es s 2 = Pending /\ ecbs s 2 = [1].
Proof.
  eexists. split; [vm_compute; reflexivity|]. split; [quiesce|]. repeat split; vm_compute; reflexivity.
Qed.
(* the same with three inputs: 1 succeeded (its result 5 sits in slot 0), 2 failed and decided, 3 is pending: the
   result of the done input 1 stays in the Zipper's slots as long as the pending input 3 keeps the Zipper alive *)
Definition w_zip3 : list ev :=
  [ECallNew 0 KZip [1; 2; 3]; EFO 0 5 Pending; EFO 0 5 Pending; EFI 0 5 1 Pending; EFO 0 5 Pending; EFI 0 5 2 Pending;
   EFO 0 5 Pending; EFI 0 5 3 Pending; ERet 0 0;
   EEnvFinish 1 1 Pending (Ok 5 true); EAcqL 1; EFI 1 0 1 Finished; ERelL 1;
   EEnvFinish 1 2 Pending (Err 3); EAcqL 1; EFI 1 0 2 Finished; ERelL 1; EFO 1 6 Pending;
   EFO 1 0 Finished; EFO 1 0 Finished; EFO 1 0 Finished; EFO 1 0 Finished].
Example c12_comb_zip_slots_kept_while_input_pending : exists s, run step init w_zip3 = Some s /\ quiescent s /\
  cdone s = true /\ os s = Finished /\ ocbs s = [] /\ es s 1 = Finished /\ slots s 0 = Some 5 /\
  es s 3 = Pending /\ ecbs s 3 = [2] /\ ecbs s 1 = [] /\ ecbs s 2 = [].
Proof.
  eexists. split; [vm_compute; reflexivity|]. split; [quiesce|]. repeat split; vm_compute; reflexivity.
Qed.

(* f_or(1, 2) decided by the truthy input 1: input 2 was cancelled; quiescent; no registration left anywhere
   (hypotheses and conclusion of c12_comb_decided_quiescent_bool) -- but fs still lists the DONE input 2.
   So the literal "at quiescence every member of fs is a pending input" (without [cdone s = false]) is REFUTED;
   the same state refutes "In d (fsd s) \/ ecbs s d <> [] -> fdone (es s d) = false" in its fs half *)
Definition w_or_decided : list ev :=
  w_build KOr ++ [EEnvFinish 1 1 Pending (Ok 5 true); EAcqL 1; EFI 1 0 1 Finished; EFI 1 0 1 Finished; ERelL 1; EFO 1 4 Pending;
                  EFO 1 0 Finished; EFO 1 0 Finished; EFO 1 0 Finished; EFI 1 2 2 Pending; EAcqL 1; ERelL 1].
Example c12_comb_fs_only_pending_refuted : exists s, reachable s /\ quiescent s /\ ck s = KOr /\ cdone s = true /\
  os s = Finished /\ oout s = Some (Ok 5 true) /\ ocbs s = [] /\ (forall d, ecbs s d = []) /\
  In 2 (fsd s) /\ es s 2 = Cancelled /\ ~ In out_id (inputs s) /\ length (inputs s) <= notify_id.
Proof.
  eexists. split; [exists w_or_decided; vm_compute; reflexivity|]. split; [quiesce|].
  repeat split; try (vm_compute; reflexivity).
  - intros d. cbv. repeat match goal with |- context [match ?x with _ => _ end] => destruct x end; reflexivity.
  - vm_compute. auto.
  - vm_compute. intros [H|[H|[]]]; discriminate H.
  - vm_compute. repeat constructor.
Qed.

(* the window of c12_comb_fs_window is real: right after input 1 finished, before its handle_done took the lock,
   the done input 1 is still in fs (literal every-state form of c12_comb_fs_pending_at_quiescence REFUTED) *)
Definition w_fs_window : list ev := w_build KOr ++ [EEnvFinish 1 1 Pending (Ok 5 false)].
Example c12_comb_fs_pending_every_state_refuted : exists s, reachable s /\ ck s = KOr /\ cdone s = false /\
  In 1 (fsd s) /\ es s 1 = Finished /\ ecbs s 1 = [] /\ thr s 1 = [IAcqL 0 1; ICatch].
Proof.
  eexists. split; [exists w_fs_window; vm_compute; reflexivity|]. repeat split; try (vm_compute; reflexivity).
  vm_compute. auto.
Qed.

(* the window of c12_comb_decided_window is real: right after the decision under the lock the output is still
   pending and holds its callbacks (literal "decided -> output's callback list empty, every state" REFUTED) *)
Definition w_decided_window : list ev := w_build KOr ++ [EEnvFinish 1 1 Pending (Ok 5 true); EAcqL 1; EFI 1 0 1 Finished].
Example c12_comb_decided_every_state_refuted : exists s, reachable s /\ cdone s = true /\ os s = Pending /\
  ocbs s = [notify_id; 0; 1] /\ thr s 1 = [ICancelledQ2 1; IRelL; ISetOut (Ok 5 true); ICancelIn 2; ICatch].
Proof.
  eexists. split; [exists w_decided_window; vm_compute; reflexivity|]. repeat split; vm_compute; reflexivity.
Qed.

Print Assumptions c12_comb_done_input_cbs_cleared.
Print Assumptions c12_comb_done_output_cbs_cleared.
Print Assumptions c12_comb_registrations_only_pending.
Print Assumptions c12_comb_fs_inputs.
Print Assumptions c12_comb_fs_window.
Print Assumptions c12_comb_fs_pending_at_quiescence.
Print Assumptions c12_comb_fs_incl_pending.
Print Assumptions c12_comb_decided_window.
Print Assumptions c12_comb_decided_quiescent.
Print Assumptions c12_comb_decided_quiescent_bool.
Print Assumptions c12_comb_nonvacuous_undecided.
Print Assumptions c12_comb_nonvacuous_zip_decided_one_pending.
Print Assumptions c12_comb_zip_slots_kept_while_input_pending.
Print Assumptions c12_comb_fs_only_pending_refuted.
Print Assumptions c12_comb_fs_pending_every_state_refuted.
Print Assumptions c12_comb_decided_every_state_refuted.
