(* Statements about the MapFuture/FlatMapFuture machine (Model/MapFut.v) for C06 (cancel propagates)
   and C03 (no future is lost).  The ghost history [hist s] is NEWEST FIRST: in
   [hist s = l1 ++ h :: l2] the events of l2 happened before h and those of l1 after it. *)
From Coq Require Import List Bool Arith ZArith Lia.
From ME Require Import Base.Machine Base.Fut Model.MapFut Model.MapLaw Proofs.MapFut_InvD
  Proofs.MapFut_E1 Proofs.MapFut_E2 Proofs.MapFut_E3 Proofs.MapFut_E4 Proofs.MapFut_E5 Proofs.MapFut_E6 Proofs.MapFut_E7.
Import ListNotations.

Definition reachable := reachable_from step init.
Definition quiescent (s : st) := forall t, thr s t = [].

(* ---- vocabulary ------------------------------------------------------------------------------ *)
(* [delegate_of k l j d]: in history l, d is one of the delegates of library future j (of kind k): the
   original one (HNew j d) or, for a flat_map future, the future returned by fn / error_fn *)
Definition delegate_of (k : kind) (l : list hev) (j d : nat) : Prop :=
  In (HNew j d) l \/ (k = KFlat /\ exists d0, In (HFn j d0 (ARetFut d)) l \/ In (HEfn j d0 (ARetFut d)) l).

(* number of fn / error_fn calls of j logged so far *)
Definition calls (s : st) (j : nat) : nat :=
  length (filter (fun h => match h with HFn j' _ _ | HEfn j' _ _ => Nat.eqb j j' | _ => false end) (hist s)).

(* [depends_on s j d]: d is the delegate whose outcome j is CURRENTLY waiting for: the original delegate
   as long as neither user function was called, or -- for a flattened flat_map future -- the inner
   future d that fn (error_fn) returned for the finished original delegate d0 *)
Definition depends_on (s : st) (j d : nat) : Prop :=
  (mkind s j = KFlat /\ exists d0 din, In (HNew j d0) (hist s) /\ eout s d0 = Some din /\ es s d0 = Finished /\
     match din with
     | Ok _ => mfn s j = true /\ In (HFn j d0 (ARetFut d)) (hist s)
     | Err _ => mefn s j = true /\ In (HEfn j d0 (ARetFut d)) (hist s)
     end)
  \/ (calls s j = 0 /\ In (HNew j d) (hist s)).

(* ================================== C06: cancel propagates ==================================== *)

(* (a) cancel() answered True: the future is cancelled for good and neither fn nor error_fn starts
   after that answer *)
Theorem c06_map_cancel_true_stays_and_fn_never_after : forall s, reachable s -> forall l1 j l2,
  hist s = l1 ++ HCancelRet j true :: l2 ->
  (forall d a, ~ In (HFn j d a) l1) /\ (forall d a, ~ In (HEfn j d a) l1) /\ fcancelled (ms s j) = true.
Proof. exact mapfut_cancel_true_fn_never_after. Qed.

(* (b) cancel is forwarded.  True is only answered once the future has been cancelled ... *)
Theorem c06_map_cancel_true_only_when_cancelled : forall s, reachable s -> forall l1 j l2,
  hist s = l1 ++ HCancelRet j true :: l2 -> In (HCancelled j) l2.
Proof. exact mapfut_cancel_true_cancelled_before. Qed.
(* ... a future is only ever cancelled after a delegate granted the forwarded request ... *)
Theorem c06_map_cancelled_only_after_delegate_granted : forall s, reachable s -> forall l1 j l2,
  hist s = l1 ++ HCancelled j :: l2 -> exists d, In (HDCancel j d true) l2.
Proof. exact mapfut_cancelled_forwarded. Qed.
(* ... and a request is only ever forwarded to a delegate of that very future *)
Theorem c06_map_cancel_forwards_to_own_delegate : forall s, reachable s -> forall l1 j d b l2,
  hist s = l1 ++ HDCancel j d b :: l2 -> delegate_of (mkind s j) l2 j d.
Proof. exact mapfut_dcancel_on_delegate. Qed.
(* the three together, in the shape of the property: an answer True is preceded by a granted
   delegate cancel, forwarded to a future that was a delegate of j at that moment *)
Theorem c06_map_cancel_forwards : forall s, reachable s -> forall l1 j l2,
  hist s = l1 ++ HCancelRet j true :: l2 ->
  exists d la lb, l2 = la ++ HDCancel j d true :: lb /\ delegate_of (mkind s j) lb j d.
Proof. exact mapfut_cancel_forwards. Qed.
(* the forwarding step itself (covers the answer False): a cancel() call of thread t that finds j not done
   and attached to d (mdel s j = Some d) continues with d.cancel() and nothing else; that move logs the
   delegate's answer.  (A call that finds j detached -- _delegate is None while _delegate_resolved runs --
   answers False without forwarding: this is the code's behaviour, see REPORT.) *)
Theorem c06_map_cancel_forward_step : forall s t j rest pre s',
  thr s t = IDoneC j :: rest -> step s (EFM t 1 j pre) = Some s' -> fdone pre = false ->
  forall d, mdel s j = Some d -> thr s' t = IDCancel j d :: rest /\ hist s' = hist s.
Proof. exact mapfut_cancel_forward_step. Qed.
Theorem c06_map_delegate_cancel_is_only_move : forall s t j d rest e s',
  thr s t = IDCancel j d :: rest -> step s e = Some s' -> tid e = t ->
  exists pre, e = EFE t 2 d pre /\ pre = es s d /\ hist s' = HDCancel j d (snd (f_cancel pre)) :: hist s.
Proof. exact mapfut_dcancel_only_move. Qed.

(* (c) the value cancel() returns is the delegate's answer.  Stated on accepted traces because history
   events carry no thread id: between a call ECallCancel t j and ITS return (the first ERet of thread t
   afterwards), if thread t cancelled a delegate (EFE t 2 d pre: delegate d in state pre, answer
   snd (f_cancel pre)) then the return code is that answer (2 = True, 1 = False) *)
Theorem c06_map_delegate_cancel_answer : forall es s, run step init es = Some s ->
  forall es1 t j es2 code es3, es = es1 ++ ECallCancel t j :: es2 ++ ERet t code :: es3 ->
  (forall c, ~ In (ERet t c) es2) ->
  forall d pre, In (EFE t 2 d pre) es2 -> code = if snd (f_cancel pre) then 2 else 1.
Proof. exact mapfut_cancel_returns_delegate_answer. Qed.

(* ================================== C03: no future is lost ==================================== *)

(* (d) at quiescence every pending library future is legitimately waiting: it depends on a delegate d that
   either is not done and has j's _delegate_resolved registered, or was cancelled (by someone else: the
   known defect G1 -- the dependent future then stays pending for ever, see (e)) *)
Theorem c03_map_no_lost : forall s, reachable s -> quiescent s -> forall j, j < nfut s ->
  fdone (ms s j) = false ->
  exists d, depends_on s j d /\
    ((In j (ecbs s d) /\ fdone (es s d) = false) \/ fcancelled (es s d) = true).
Proof. exact mapfut_no_lost. Qed.
(* (d) with the _delegate field: a legitimately waiting future still points at its delegate; a lost one is
   registered nowhere *)
Theorem c03_map_no_lost_delegate_field : forall s, reachable s -> quiescent s -> forall j, j < nfut s ->
  fdone (ms s j) = false ->
  exists d, depends_on s j d /\
    ((mdel s j = Some d /\ In j (ecbs s d) /\ fdone (es s d) = false) \/
     ((forall d', ~ In j (ecbs s d')) /\ fcancelled (es s d) = true)).
Proof. exact mapfut_no_lost_field. Qed.
(* TODO-PROOF c03_map_lost_field_none: in the second (lost) case additionally mdel s j = None (true in the
   witness (e); needs "mdel s j = Some d -> j registered on d or a pending IAddCbE d j / IAcqMSet j None",
   by the same token argument as Proofs/MapFut_E7.v). *)
(* TODO-PROOF c06_map_cancel_forwards_current: c06_map_cancel_forwards_to_own_delegate with depends_on at the
   moment of the HDCancel instead of delegate_of (needs: M_j is held from IDoneC to IDCancel). *)
(* the important half: if the delegate j depends on finished with a value or an exception, j is done *)
Theorem c03_map_resolved_when_delegate_finished : forall s, reachable s -> quiescent s -> forall j d, j < nfut s ->
  depends_on s j d -> es s d = Finished -> fdone (ms s j) = true.
Proof. exact mapfut_resolved_at_quiescence. Qed.

(* (e) the literal property "a dependent future ends cancelled or failed rather than pending for ever" is
   REFUTED in the faithful model: f = map(d); the environment cancels d; _delegate_resolved returns on
   `delegate.cancelled()`; everything is quiescent and f is Pending, detached, with no callback left *)
Definition w_lost : list ev :=
  [ECallNew 0 0 KMap true false 7; EAcqM 0 0; ERelM 0 0; EFE 0 5 7 Pending; ERet 0 0;
   EEnvCancel 1 7 Pending; EAcqM 1 0; ERelM 1 0; EFE 1 0 7 Cancelled].
Example c03_map_lost_after_foreign_cancel_refuted : exists s, run step init w_lost = Some s /\ quiescent s /\
  0 < nfut s /\ ms s 0 = Pending /\ mdel s 0 = None /\ es s 7 = Cancelled /\ (forall d, ecbs s d = []) /\
  hist s = [HEnvCancel 7; HNew 0 7].
Proof.
  eexists. split; [vm_compute; reflexivity|].
  repeat split; try (vm_compute; reflexivity); try (vm_compute; lia).
  - intros t. cbv. repeat match goal with |- context [match ?x with _ => _ end] => destruct x end; reflexivity.
  - intros d. cbv. repeat match goal with |- context [match ?x with _ => _ end] => destruct x end; reflexivity.
Qed.

(* (f) non-vacuity. (a)/(b): a cancel() that answered True after forwarding to the pending delegate 7 *)
Definition w_cancel : list ev :=
  [ECallNew 0 0 KMap true false 7; EAcqM 0 0; ERelM 0 0; EFE 0 5 7 Pending; ERet 0 0;
   ECallCancel 1 0; EAcqM 1 0; EFM 1 0 0 Pending; EFM 1 1 0 Pending; EFE 1 2 7 Pending;
   EFE 1 0 7 Cancelled; EFM 1 2 0 Pending; EFM 1 3 0 Cancelled; ERelM 1 0; ERet 1 2].
Example c06_nonvacuous_cancel_true : exists s, run step init w_cancel = Some s /\
  hist s = [HCancelRet 0 true; HCancelled 0; HDCancel 0 7 true; HCancelCall 0; HNew 0 7] /\
  ms s 0 = CancelledNotified /\ es s 7 = Cancelled.
Proof. eexists. split; [vm_compute; reflexivity|]. repeat split; vm_compute; reflexivity. Qed.
(* (d): a quiescent state with a resolved future (0 over the finished 7) and a legitimately waiting one
   (1 over the pending 8, registered on it) *)
Definition w_wait : list ev :=
  [ECallNew 0 0 KMap false false 7; EAcqM 0 0; ERelM 0 0; EFE 0 5 7 Pending; ERet 0 0;
   ECallNew 0 1 KMap false false 8; EAcqM 0 1; ERelM 0 1; EFE 0 5 8 Pending; ERet 0 0;
   EEnvFinish 1 7 Pending (Ok 5); EAcqM 1 0; ERelM 1 0; EFE 1 0 7 Finished; EAcqM 1 0; EFM 1 4 0 Pending; ERelM 1 0].
Example c03_nonvacuous_quiescent : exists s, run step init w_wait = Some s /\ quiescent s /\ nfut s = 2 /\
  ms s 0 = Finished /\ mout s 0 = Some (Ok 5) /\ ms s 1 = Pending /\ mdel s 1 = Some 8 /\ ecbs s 8 = [1] /\ es s 8 = Pending.
Proof.
  eexists. split; [vm_compute; reflexivity|].
  repeat split; try (vm_compute; reflexivity).
  intros t. cbv. repeat match goal with |- context [match ?x with _ => _ end] => destruct x end; reflexivity.
Qed.

Print Assumptions c06_map_cancel_true_stays_and_fn_never_after.
Print Assumptions c06_map_cancel_true_only_when_cancelled.
Print Assumptions c06_map_cancelled_only_after_delegate_granted.
Print Assumptions c06_map_cancel_forwards_to_own_delegate.
Print Assumptions c06_map_cancel_forwards.
Print Assumptions c06_map_cancel_forward_step.
Print Assumptions c06_map_delegate_cancel_is_only_move.
Print Assumptions c06_map_delegate_cancel_answer.
Print Assumptions c03_map_no_lost.
Print Assumptions c03_map_no_lost_delegate_field.
Print Assumptions c03_map_resolved_when_delegate_finished.
Print Assumptions c03_map_lost_after_foreign_cancel_refuted.
Print Assumptions c06_nonvacuous_cancel_true.
Print Assumptions c03_nonvacuous_quiescent.
