(* C06 -- cancel: True means the work never starts; it stops retries; it propagates.  Statements only.
   Retry machine theorems: Proofs/Retry_InvC.v; derived futures: Proofs/MapFut_InvE.v; combinators: Proofs/Comb_Inv.v. *)
From Coq Require Import List Bool Arith.
From ME Require Import Base.Machine Base.Fut.
Import ListNotations.

(* at the bottom of every stack: a delegate future whose cancel() returned True can never be started
   (set_running_or_notify_cancel answers False) nor resolved; a running one refuses cancel() and can
   still complete normally *)
Theorem c06_cancelled_delegate_never_runs : forall s, fcancelled s = true ->
  f_set s = None /\ (forall n b, f_srnc s = Some (n, b) -> b = false /\ fcancelled n = true) /\ fst (f_cancel s) = s.
Proof. exact cancelled_never_runs. Qed.
Theorem c06_running_refuses_cancel_and_completes : f_cancel Running = (Running, false) /\ f_set Running = Some Finished.
Proof. exact running_refuses_cancel. Qed.

Print Assumptions c06_cancelled_delegate_never_runs.
Print Assumptions c06_running_refuses_cancel_and_completes.
