(* C03 -- the four worker loops ARE instances of the wake-up protocol.  Statements only.
   The loop bodies (retry._submit_loop, poll._poll_loop, throttle._submit_loop with _submit_loop_iter,
   timeout._job_loop with _job_loop_iter) and every producer site (submit paths, completion callbacks, cancel,
   shutdown, the weak-reference finaliser, event.py's exit hook) are REGENERATED from the Python source on every
   run (tools/loop2coq.py -> Gen/LoopSkel.v) as terms of the protocol IR of Model/LoopIR.v.
   Proofs/LoopIR_Sim.v: for every loop with good_loop = true and producers with good_prod = true, on every
   channel (work container / shutdown flags / weak reference), for every resolution of the branches, each
   interleaved trace is a trace of EventLoop.step - so c03_no_lost_wakeup and c03_quiescent_no_unseen_work hold of
   the generated programs.  An edit of the source that reorders clear / wait, moves or drops a set(), or moves a
   read of the shutdown flag changes the generated term, good_loop / good_prod evaluate to false and this file
   stops compiling (or the translator fails closed). *)
From Coq Require Import List Bool Arith String.
From ME Require Import Base.Machine Model.EventLoop Model.LoopIR Proofs.LoopIR_Sim Proofs.LoopIR_Inst Proofs.LoopIR_Refute
  Proofs.LoopIR_Converse Gen.LoopSkel.
Import ListNotations.

(* ---- the general theorem (paths of any loop, paths of any producers, any oracle) ------------------------ *)
Theorem c03_loop_general_trace_inclusion : forall WP PP o, good_wpaths WP = true -> good_ppaths PP = true ->
  forall tr s, run (lstep WP PP o) linit tr = Some s -> exists s', run step init tr = Some s' /\ R s s'.
Proof. exact trace_inclusion. Qed.

Theorem c03_loop_general_no_lost_wakeup : forall WP PP o, good_wpaths WP = true -> good_ppaths PP = true ->
  forall s tm, reachable_from (lstep WP PP o) linit s -> lblk s = Some (false, tm) -> lwork s > 0 ->
  exists t, In PASet (pres s t).
Proof. exact l_no_lost_wakeup. Qed.

Theorem c03_loop_general_quiescent : forall WP PP o, good_wpaths WP = true -> good_ppaths PP = true ->
  forall s tm, reachable_from (lstep WP PP o) linit s -> lblk s = Some (false, tm) -> (forall t, pres s t = []) ->
  lwork s = 0.
Proof. exact l_quiescent_no_unseen_work. Qed.

(* the same for IR terms: one loop, a list of producer sites, every channel *)
Theorem c03_loop_ir_trace_inclusion : forall l ps, good_loop_all l = true -> forallb good_prod_all ps = true ->
  forall c o tr s, run (istep c l ps o) linit tr = Some s -> exists s', run step init tr = Some s' /\ R s s'.
Proof. exact inst_trace_inclusion. Qed.

(* ---- retry ------------------------------------------------------------------------------------------- *)
Theorem c03_loop_retry_is_instance :
  good_loop_all retry_loop = true /\ forallb good_prod_all retry_producers = true.
Proof. exact (conj retry_loop_good retry_producers_good). Qed.

Theorem c03_loop_retry_trace_inclusion : forall c o tr s,
  run (istep c retry_loop retry_producers o) linit tr = Some s -> exists s', run step init tr = Some s' /\ R s s'.
Proof. exact (inst_trace_inclusion _ _ retry_loop_good retry_producers_good). Qed.

(* the submit thread asleep in _submit_wait - with or without a timeout - un-notified, while something it has not
   seen was appended / flagged / finalised: some thread is inside a producer call with its set() still to come *)
Theorem c03_loop_retry_no_lost_wakeup : forall c o s tm,
  reachable_from (istep c retry_loop retry_producers o) linit s ->
  lblk s = Some (false, tm) -> lwork s > 0 -> exists t, In PASet (pres s t).
Proof. exact (inst_no_lost_wakeup _ _ retry_loop_good retry_producers_good). Qed.

Theorem c03_loop_retry_quiescent_no_unseen_work : forall c o s tm,
  reachable_from (istep c retry_loop retry_producers o) linit s ->
  lblk s = Some (false, tm) -> (forall t, pres s t = []) -> lwork s = 0.
Proof. exact (inst_quiescent_no_unseen_work _ _ retry_loop_good retry_producers_good). Qed.

(* ---- poll -------------------------------------------------------------------------------------------- *)
Theorem c03_loop_poll_is_instance :
  good_loop_all poll_loop = true /\ forallb good_prod_all poll_producers = true.
Proof. exact (conj poll_loop_good poll_producers_good). Qed.

Theorem c03_loop_poll_trace_inclusion : forall c o tr s,
  run (istep c poll_loop poll_producers o) linit tr = Some s -> exists s', run step init tr = Some s' /\ R s s'.
Proof. exact (inst_trace_inclusion _ _ poll_loop_good poll_producers_good). Qed.

Theorem c03_loop_poll_no_lost_wakeup : forall c o s tm,
  reachable_from (istep c poll_loop poll_producers o) linit s ->
  lblk s = Some (false, tm) -> lwork s > 0 -> exists t, In PASet (pres s t).
Proof. exact (inst_no_lost_wakeup _ _ poll_loop_good poll_producers_good). Qed.

Theorem c03_loop_poll_quiescent_no_unseen_work : forall c o s tm,
  reachable_from (istep c poll_loop poll_producers o) linit s ->
  lblk s = Some (false, tm) -> (forall t, pres s t = []) -> lwork s = 0.
Proof. exact (inst_quiescent_no_unseen_work _ _ poll_loop_good poll_producers_good). Qed.

(* ---- throttle ---------------------------------------------------------------------------------------- *)
Theorem c03_loop_throttle_is_instance :
  good_loop_all throttle_loop = true /\ forallb good_prod_all throttle_producers = true.
Proof. exact (conj throttle_loop_good throttle_producers_good). Qed.

Theorem c03_loop_throttle_trace_inclusion : forall c o tr s,
  run (istep c throttle_loop throttle_producers o) linit tr = Some s -> exists s', run step init tr = Some s' /\ R s s'.
Proof. exact (inst_trace_inclusion _ _ throttle_loop_good throttle_producers_good). Qed.

Theorem c03_loop_throttle_no_lost_wakeup : forall c o s tm,
  reachable_from (istep c throttle_loop throttle_producers o) linit s ->
  lblk s = Some (false, tm) -> lwork s > 0 -> exists t, In PASet (pres s t).
Proof. exact (inst_no_lost_wakeup _ _ throttle_loop_good throttle_producers_good). Qed.

Theorem c03_loop_throttle_quiescent_no_unseen_work : forall c o s tm,
  reachable_from (istep c throttle_loop throttle_producers o) linit s ->
  lblk s = Some (false, tm) -> (forall t, pres s t = []) -> lwork s = 0.
Proof. exact (inst_quiescent_no_unseen_work _ _ throttle_loop_good throttle_producers_good). Qed.

(* ---- timeout ----------------------------------------------------------------------------------------- *)
Theorem c03_loop_timeout_is_instance :
  good_loop_all timeout_loop = true /\ forallb good_prod_all timeout_producers = true.
Proof. exact (conj timeout_loop_good timeout_producers_good). Qed.

Theorem c03_loop_timeout_trace_inclusion : forall c o tr s,
  run (istep c timeout_loop timeout_producers o) linit tr = Some s -> exists s', run step init tr = Some s' /\ R s s'.
Proof. exact (inst_trace_inclusion _ _ timeout_loop_good timeout_producers_good). Qed.

Theorem c03_loop_timeout_no_lost_wakeup : forall c o s tm,
  reachable_from (istep c timeout_loop timeout_producers o) linit s ->
  lblk s = Some (false, tm) -> lwork s > 0 -> exists t, In PASet (pres s t).
Proof. exact (inst_no_lost_wakeup _ _ timeout_loop_good timeout_producers_good). Qed.

Theorem c03_loop_timeout_quiescent_no_unseen_work : forall c o s tm,
  reachable_from (istep c timeout_loop timeout_producers o) linit s ->
  lblk s = Some (false, tm) -> (forall t, pres s t = []) -> lwork s = 0.
Proof. exact (inst_quiescent_no_unseen_work _ _ timeout_loop_good timeout_producers_good). Qed.

(* the predicates are not satisfied by empty path sets: every generated loop has a waiting path on every channel,
   every generated producer set has a mutate-then-set path on every channel *)
Theorem c03_loop_instances_substantive :
  substantive retry_loop retry_producers = true /\ substantive poll_loop poll_producers = true /\
  substantive throttle_loop throttle_producers = true /\ substantive timeout_loop timeout_producers = true.
Proof. exact (conj retry_substantive (conj poll_substantive (conj throttle_substantive timeout_substantive))). Qed.

(* ---- the converse: the protocol is tight in the IR semantics ---------------------------------------------- *)
(* scan; clear; wait: rejected by good_loop, and the witness trace of c03_reversed_loop_refuted is a trace of that
   loop's IR semantics ending asleep, un-notified, one unseen mutation, every producer call returned *)
Theorem c03_loop_reversed_refuted :
  good_loop CJobs reversed_loop = false /\
  exists s s', run (istep CJobs reversed_loop [plain_prod] o0) linit reversed_witness = Some s /\
               run step_reversed init reversed_witness = Some s' /\
               lost s /\ wp s' = WBlocked false /\ work s' = lwork s /\ flag s' = lflag s /\ (forall t, prod s' t = PIdle).
Proof. exact (conj reversed_loop_not_good reversed_loop_connects). Qed.

(* set(); mutate: rejected by good_prod, loses the wake-up against the correct loop *)
Theorem c03_loop_set_before_mutate_refuted :
  good_loop CJobs plain_loop = true /\ good_prod CJobs reversed_prod = false /\
  exists s, run (istep CJobs plain_loop [reversed_prod] o0) linit set_first_witness = Some s /\ lost s.
Proof. exact (conj plain_loop_good (conj reversed_prod_not_good reversed_prod_lost)). Qed.

(* mutate without set() *)
Theorem c03_loop_missing_set_refuted :
  good_prod CJobs silent_prod = false /\
  exists s, run (istep CJobs plain_loop [silent_prod] o0) linit no_set_witness = Some s /\ lost s.
Proof. exact (conj silent_prod_not_good silent_prod_lost). Qed.

(* GENERAL converses.  Any loop one of whose paths has a clear between a scan and the wait that follows it - whatever
   comes before and after on that path, whatever the other paths are - is rejected by good_wpaths and loses a wake-up
   against the correct producer (PP1 = "mutate; set"): asleep un-notified, one unseen mutation, every call returned *)
Theorem c03_loop_clear_between_scan_and_wait_refuted : forall WP n pre tm post,
  nth n WP [] = pre ++ WAScan :: WAClear :: WAWait tm :: post ->
  good_wpaths WP = false /\
  exists tr s, run (lstep WP PP1 (oc n)) linit tr = Some s /\
    lblk s = Some (false, tm) /\ lwork s = 1 /\ lflag s = false /\ (forall t, pres s t = []).
Proof.
  exact (fun WP n pre tm post H => conj (clear_between_scan_and_wait_not_good WP n pre tm post H)
                                        (clear_between_scan_and_wait_loses WP n pre tm post H)).
Qed.

(* Any producer one of whose paths ends with a mutation that no set follows is rejected by good_ppaths and loses a
   wake-up against the correct loop (WP1 = "scan; wait; clear") *)
Theorem c03_loop_trailing_mutation_refuted : forall PP m pre,
  nth m PP [] = pre ++ [PAMut] ->
  good_ppaths PP = false /\
  exists tr s, run (lstep WP1 PP (op m)) linit tr = Some s /\
    lblk s = Some (false, false) /\ lwork s = 1 /\ lflag s = false /\ (forall t, pres s t = []).
Proof.
  exact (fun PP m pre H => conj (trailing_mutation_not_good PP m pre H) (trailing_mutation_loses PP m pre H)).
Qed.

(* non-vacuity of the converses: the path sets that the translator produces for the source with _submit_wait reversed
   (sensitivity a) and with _delegate_future_done reversed (sensitivity b) are of these shapes *)
Example c03_loop_converse_applies_to_reversed_submit_wait :
  exists tr s, run (lstep [[WAScan; WAClear; WAWait false]; [WAScan]; [WAScan]; [WAScan; WAClear; WAWait true]] PP1 (oc 3))
                 linit tr = Some s /\ lblk s = Some (false, true) /\ lwork s = 1.
Proof.
  destruct (clear_between_scan_and_wait_loses
              [[WAScan; WAClear; WAWait false]; [WAScan]; [WAScan]; [WAScan; WAClear; WAWait true]] 3 [] true [] eq_refl)
    as [tr [s [H1 [H2 [H3 _]]]]].
  exists tr, s. auto.
Qed.

Example c03_loop_converse_applies_to_set_before_decr :
  good_ppaths [[PAMut; PASet]; [PASet; PAMut]] = false.
Proof. exact (trailing_mutation_not_good [[PAMut; PASet]; [PASet; PAMut]] 1 [PASet] eq_refl). Qed.

(* ---- non-vacuity: accepted interleavings of the GENERATED programs with a producer racing the worker -------- *)
(* retry, work channel.  Thread 1 runs submit_retry (append under the lock, then _wake_thread), thread 2 stands for
   the hand-over _submit_now made by the submit thread itself.  The append lands between the worker's scan and its
   wait: the worker goes to sleep un-notified with unseen work while thread 1 still owes its set() - the state the
   theorem speaks about - then is woken, clears, re-scans, hands over (`continue`), re-scans and waits with a timeout. *)
Definition retry_oracle : oracle :=
  {| wch := fun k => match k with 0 => 0 | 1 => 2 | _ => 3 end;
     pch := fun t _ => match t with 1 => 1 | _ => 4 end |}.
Definition retry_race : list ev := [WorkerScan; ProdMutate 1; WorkerWait].
Definition retry_rest : list ev :=
  [ProdSet 1; WorkerWoke; WorkerClear; WorkerScan; ProdMutate 2; ProdSet 2; WorkerScan; WorkerWait; WorkerClear;
   WorkerScan; WorkerWait; WorkerTimeout; WorkerClear; WorkerScan].

Example c03_loop_retry_nonvacuous :
  exists s, reachable_from (istep CJobs retry_loop retry_producers retry_oracle) linit s /\
            lblk s = Some (false, false) /\ lwork s = 1 /\ pres s 1 = [PASet].
Proof. eexists. split; [exists retry_race; vm_compute; reflexivity|]. repeat split. Qed.

Example c03_loop_retry_accepts_whole_interleaving :
  exists s, run (istep CJobs retry_loop retry_producers retry_oracle) linit (retry_race ++ retry_rest) = Some s /\
            lblk s = None /\ lwork s = 0 /\ liter s = 5.
Proof. eexists. split; [vm_compute; reflexivity|]. repeat split. Qed.

(* retry, shutdown channel: shutdown() flips the flag between the worker's flag test and its wait *)
Example c03_loop_retry_shutdown_race :
  exists s, reachable_from (istep CShutdown retry_loop retry_producers
                              {| wch := fun _ => 0; pch := fun _ _ => 12 |}) linit s /\
            lblk s = Some (true, false) /\ lwork s = 1.
Proof. eexists. split; [exists [WorkerScan; ProdMutate 7; WorkerWait; ProdSet 7]; vm_compute; reflexivity|]. repeat split. Qed.

(* poll, work channel: _register_poll (append + set under the lock) racing the poll thread's timed wait *)
Example c03_loop_poll_nonvacuous :
  exists s, reachable_from (istep CJobs poll_loop poll_producers {| wch := fun _ => 0; pch := fun _ _ => 0 |}) linit s /\
            lblk s = Some (false, true) /\ lwork s = 1 /\ pres s 3 = [PASet].
Proof. eexists. split; [exists [WorkerScan; ProdMutate 3; WorkerWait]; vm_compute; reflexivity|]. repeat split. Qed.

(* throttle, work channel: a delegate completion (decr, then set) racing the hand-over thread *)
Example c03_loop_throttle_nonvacuous :
  exists s, reachable_from (istep CJobs throttle_loop throttle_producers {| wch := fun _ => 0; pch := fun _ _ => 2 |}) linit s /\
            lblk s = Some (false, true) /\ lwork s = 1 /\ pres s 5 = [PASet].
Proof. eexists. split; [exists [WorkerScan; ProdMutate 5; WorkerWait]; vm_compute; reflexivity|]. repeat split. Qed.

(* timeout, work channel: submit_timeout racing the job thread; then the whole round trip *)
Example c03_loop_timeout_nonvacuous :
  exists s, reachable_from (istep CJobs timeout_loop timeout_producers {| wch := fun _ => 0; pch := fun _ _ => 1 |}) linit s /\
            lblk s = Some (false, true) /\ lwork s = 1 /\ pres s 0 = [PASet].
Proof. eexists. split; [exists [WorkerScan; ProdMutate 0; WorkerWait]; vm_compute; reflexivity|]. repeat split. Qed.

Example c03_loop_timeout_round_trip :
  exists s, run (istep CJobs timeout_loop timeout_producers {| wch := fun _ => 0; pch := fun _ _ => 1 |}) linit
              [WorkerScan; ProdMutate 0; WorkerWait; ProdSet 0; WorkerWoke; WorkerClear; WorkerScan; WorkerWait] = Some s /\
            lblk s = Some (false, true) /\ lwork s = 0 /\ forall t, pres s t = [].
Proof. eexists. split; [vm_compute; reflexivity|]. repeat split. intros [|t]; reflexivity. Qed.

(* timeout, weak-reference channel: the finaliser (referent dead, then set) racing the job thread *)
Example c03_loop_timeout_finalizer_race :
  exists s, reachable_from (istep CAlive timeout_loop timeout_producers {| wch := fun _ => 0; pch := fun _ _ => 6 |}) linit s /\
            lblk s = Some (true, true) /\ lwork s = 1.
Proof. eexists. split; [exists [WorkerScan; ProdMutate 9; WorkerWait; ProdSet 9]; vm_compute; reflexivity|]. repeat split. Qed.

Print Assumptions c03_loop_general_trace_inclusion.
Print Assumptions c03_loop_general_no_lost_wakeup.
Print Assumptions c03_loop_general_quiescent.
Print Assumptions c03_loop_ir_trace_inclusion.
Print Assumptions c03_loop_retry_is_instance.
Print Assumptions c03_loop_retry_trace_inclusion.
Print Assumptions c03_loop_retry_no_lost_wakeup.
Print Assumptions c03_loop_retry_quiescent_no_unseen_work.
Print Assumptions c03_loop_poll_is_instance.
Print Assumptions c03_loop_poll_trace_inclusion.
Print Assumptions c03_loop_poll_no_lost_wakeup.
Print Assumptions c03_loop_poll_quiescent_no_unseen_work.
Print Assumptions c03_loop_throttle_is_instance.
Print Assumptions c03_loop_throttle_trace_inclusion.
Print Assumptions c03_loop_throttle_no_lost_wakeup.
Print Assumptions c03_loop_throttle_quiescent_no_unseen_work.
Print Assumptions c03_loop_timeout_is_instance.
Print Assumptions c03_loop_timeout_trace_inclusion.
Print Assumptions c03_loop_timeout_no_lost_wakeup.
Print Assumptions c03_loop_timeout_quiescent_no_unseen_work.
Print Assumptions c03_loop_instances_substantive.
Print Assumptions c03_loop_reversed_refuted.
Print Assumptions c03_loop_set_before_mutate_refuted.
Print Assumptions c03_loop_missing_set_refuted.
Print Assumptions c03_loop_clear_between_scan_and_wait_refuted.
Print Assumptions c03_loop_trailing_mutation_refuted.
