(* C17, continued -- f_proxy: the code AROUND the dunder table of Props/C17.v.  Statements only.
   Model: Model/Proxy2.v (timeout expression, `self.__result` as a result(timeout) call on a Resolved / Failed / Pending future
   with a ghost log of the timeouts handed to result(), special-method dispatch instrumented with that log, an evaluator for the
   method bodies, attribute lookup order).  Everything quoted from the source is REGENERATED on every run into Gen/Proxy2Gen.v:
   proxy_timeout_expr, proxy_result_timeout, proxy_bodies (all 33 method bodies as expressions), proxy_getattr_body,
   proxy_class_attrs / proxy_instance_attrs.  Proofs: Proofs/Proxy2_*.v.
   Reading of the results: a value of type [cres] is (outcome, log); the log lists the timeouts of the result() calls made, so
   its length is the number of resolutions.  [after_resolve fs tmo k] = one result(tmo) call, then k on the value:
   (k v, tmo :: log of k v) when the future is resolved with v, (RExc e, [tmo]) when it failed with e, (RExc timeout_error, [tmo])
   when it is still pending after tmo.  [proxy_at ... p name args] says that the object p is a ProxyFuture as far as calling its
   special method `name` on `args` goes (its method is the generated body run by the evaluator). *)
From Coq Require Import String List Bool Arith ZArith.
From ME Require Import Base.GenPrelude Base.ProxyPrelude Gen.ProxyGen Gen.Proxy2Gen Model.Proxy Model.Proxy2
  Proofs.Proxy2_Timeout Proofs.Proxy2_Dispatch Proofs.Proxy2_Forms Proofs.Proxy2_Attr Proofs.Proxy2_Refl Proofs.Proxy2_Table.
Import ListNotations.
Local Open Scope string_scope.
Local Open Scope list_scope.

(* ---- 1. the configured timeout ------------------------------------------------------------------------- *)
(* f_proxy(f, timeout=x) hands x itself to every result() call -- 0, 0.0 and None included; MAX_TIMEOUT only without the keyword *)
Theorem c17_timeout_configured :
  forall kw : kwargs, configured_timeout kw = match kwget kw "timeout" with
                                                     | Some x => x
                                                     | None => TVNum max_timeout
                                                     end.
Proof. exact configured_timeout_spec. Qed.

Theorem c17_timeout_used_by_result :
  forall kw : kwargs, result_timeout kw = match kwget kw "timeout" with
                                                 | Some x => x
                                                 | None => TVNum max_timeout
                                                 end.
Proof. exact result_timeout_spec. Qed.

Theorem c17_timeout_zero_is_zero :
  forall kw : kwargs, kwget kw "timeout" = Some (TVNum 0) -> result_timeout kw = TVNum 0.
Proof. exact result_timeout_zero. Qed.

Theorem c17_timeout_default_is_max :
  forall kw : kwargs, kwget kw "timeout" = None -> result_timeout kw = TVNum max_timeout.
Proof. exact result_timeout_default. Qed.

(* the `or` rendering (seeded change C17-m1) and an `is None` rendering are different functions of the keyword *)
Theorem c17_timeout_or_form_refuted :
  teval [("timeout", TVNum 0)] timeout_expr_m1 = TVNum max_timeout /\
         teval [("timeout", TVNum 0)] proxy_timeout_expr = TVNum 0 /\
         (forall z : Z, z <> 0%Z -> teval [("timeout", TVNum z)] timeout_expr_m1 = TVNum z).
Proof. exact timeout_or_form_differs. Qed.

Theorem c17_timeout_is_none_form_differs :
  teval [("timeout", TVNone)] (TEIfIsNone (TEKw true "timeout" TENone) TEMax (TEKw true "timeout" TENone)) = TVNum max_timeout /\
         teval [("timeout", TVNone)] proxy_timeout_expr = TVNone.
Proof. exact timeout_is_none_form_differs. Qed.

Example c17_timeout_instances :
  result_timeout [("timeout", TVNum 0)] = TVNum 0 /\ result_timeout [("timeout", TVNone)] = TVNone /\
  result_timeout [("timeout", TVNum 5)] = TVNum 5 /\ result_timeout [] = TVNum 3153600000 /\ result_timeout [("other", TVNum 1)] = TVNum 3153600000.
Proof. repeat split; vm_compute; reflexivity. Qed.

(* ---- the resolution: `self.__result` is ONE result(timeout) call, whatever its outcome ----------------------- *)
(* also for a future that failed with an AttributeError (Python then consults __getattr__("_ProxyFuture__result"), whose first
   statement re-raises the future's own exception) ... *)
Theorem c17_result_property_one_call :
  forall (val : Type) (fs : pstate val) (tmo : tval) (is_attr_err : nat -> bool) (vgetattr : val -> string -> cres val) (vnone : val),
         sane_attr_err is_attr_err -> get_result val fs tmo is_attr_err vgetattr vnone = (resolve val fs tmo, [tmo]).
Proof. exact get_result_eq. Qed.

(* ... without that statement the lookup recurses until the interpreter's limit, one more result() call per level *)
Theorem c17_result_property_unguarded_refuted :
  forall (val : Type) (fs : pstate val) (tmo : tval) (is_attr_err : nat -> bool) (vgetattr : val -> string -> cres val) (vnone : val) (e : nat),
         fs = PFailed e ->
         is_attr_err e = true ->
         forall fuel : nat,
         result_prop val fs tmo is_attr_err vgetattr vnone getattr_body_without_guard fuel = (RExc recursion_error, repeat tmo (S fuel)).
Proof. exact result_prop_unguarded_loops. Qed.

(* ---- 1./2. the forwarded forms: one resolution, then the operation on the value ------------------------------ *)
(* `return self.__result <op> other` *)
Theorem c17_binop_resolves_once :
  forall (val : Type) (cmeth : val -> string -> option (list val -> cres val)) (bpost : string -> res val -> res val)
           (bfallback : string -> val -> list val -> cres val) (fs : pstate val) (tmo : tval) (is_attr_err : nat -> bool)
           (vgetattr : val -> string -> cres val) (vtrue vfalse vnone : val) (obj_sem : string -> list val -> res val) (p : val),
         sane_attr_err is_attr_err ->
         forall (name rn a : string) (o : pop) (b : val),
         proxy_at val cmeth bpost bfallback fs tmo is_attr_err vgetattr vtrue vfalse vnone obj_sem p name [b] ->
         find_body name = Some (name, [(a, false)], BBin o BResult (BArg a)) ->
         pop_dunder o = (name, rn) -> cbinop val cmeth name rn p b = after_resolve val fs tmo (fun v : val => cbinop val cmeth name rn v b).
Proof. exact binop_body_resolves_once. Qed.

(* `return <op> self.__result` *)
Theorem c17_unop_resolves_once :
  forall (val : Type) (cmeth : val -> string -> option (list val -> cres val)) (bpost : string -> res val -> res val)
           (bfallback : string -> val -> list val -> cres val) (fs : pstate val) (tmo : tval) (is_attr_err : nat -> bool)
           (vgetattr : val -> string -> cres val) (vtrue vfalse vnone : val) (obj_sem : string -> list val -> res val) (p : val),
         sane_attr_err is_attr_err ->
         forall (name rn : string) (o : pop),
         proxy_at val cmeth bpost bfallback fs tmo is_attr_err vgetattr vtrue vfalse vnone obj_sem p name [] ->
         find_body name = Some (name, [], BUn o BResult) ->
         pop_dunder o = (name, rn) -> cunop val cmeth name p = after_resolve val fs tmo (fun v : val => cunop val cmeth name v).
Proof. exact unop_body_resolves_once. Qed.

(* `return builtin(self.__result, a, *b)`: len iter abs complex int float round math.trunc/floor/ceil, and divmod / two-argument pow
   (binary operators with a reflected method); post_ok = the builtin's own check of the returned value is idempotent, passes
   exceptions through and is already satisfied by what the builtin does for a type without the special method *)
Theorem c17_builtin_resolves_once :
  forall (val : Type) (cmeth : val -> string -> option (list val -> cres val)) (bpost : string -> res val -> res val)
           (bfallback : string -> val -> list val -> cres val) (fs : pstate val) (tmo : tval) (is_attr_err : nat -> bool)
           (vgetattr : val -> string -> cres val) (vtrue vfalse vnone : val) (obj_sem : string -> list val -> res val) (p : val),
         sane_attr_err is_attr_err ->
         forall (name : string) (params : list (string * bool)) (fn : string) (args : list val),
         proxy_at val cmeth bpost bfallback fs tmo is_attr_err vgetattr vtrue vfalse vnone obj_sem p name args ->
         find_body name = Some (name, params, BCall fn (BResult :: args_of_params params)) ->
         builtin_dunder fn = name ->
         nodup_names (map fst params) = true ->
         arity_ok val params args = true ->
         post_ok val bpost bfallback fn ->
         call_builtin val cmeth bpost bfallback fn (p :: args) =
         after_resolve val fs tmo (fun v : val => call_builtin val cmeth bpost bfallback fn (v :: args)).
Proof. exact builtin_body_resolves_once. Qed.

(* subscripts and containment *)
Theorem c17_getitem_resolves_once :
  forall (val : Type) (cmeth : val -> string -> option (list val -> cres val)) (bpost : string -> res val -> res val)
           (bfallback : string -> val -> list val -> cres val) (fs : pstate val) (tmo : tval) (is_attr_err : nat -> bool)
           (vgetattr : val -> string -> cres val) (vtrue vfalse vnone : val) (obj_sem : string -> list val -> res val) (p : val),
         sane_attr_err is_attr_err ->
         forall (kn : string) (k : val),
         proxy_at val cmeth bpost bfallback fs tmo is_attr_err vgetattr vtrue vfalse vnone obj_sem p "__getitem__" [k] ->
         find_body "__getitem__" = Some ("__getitem__", [(kn, false)], BGetItem BResult (BArg kn)) ->
         post_ok val bpost bfallback "operator.getitem" ->
         cbuiltin val cmeth bpost bfallback "operator.getitem" p [k] =
         after_resolve val fs tmo (fun v : val => cbuiltin val cmeth bpost bfallback "operator.getitem" v [k]).
Proof. exact getitem_body_resolves_once. Qed.

Theorem c17_setitem_resolves_once :
  forall (val : Type) (cmeth : val -> string -> option (list val -> cres val)) (bpost : string -> res val -> res val)
           (bfallback : string -> val -> list val -> cres val) (fs : pstate val) (tmo : tval) (is_attr_err : nat -> bool)
           (vgetattr : val -> string -> cres val) (vtrue vfalse vnone : val) (obj_sem : string -> list val -> res val) (p : val),
         sane_attr_err is_attr_err ->
         forall (kn vn : string) (k x : val),
         (vn =? kn) = false ->
         proxy_at val cmeth bpost bfallback fs tmo is_attr_err vgetattr vtrue vfalse vnone obj_sem p "__setitem__" [k; x] ->
         find_body "__setitem__" = Some ("__setitem__", [(kn, false); (vn, false)], BSetItem BResult (BArg kn) (BArg vn)) ->
         post_ok val bpost bfallback "operator.setitem" ->
         cbuiltin val cmeth bpost bfallback "operator.setitem" p [k; x] =
         after_resolve val fs tmo (fun v : val => cbuiltin val cmeth bpost bfallback "operator.setitem" v [k; x]).
Proof. exact setitem_body_resolves_once. Qed.

Theorem c17_delitem_resolves_once :
  forall (val : Type) (cmeth : val -> string -> option (list val -> cres val)) (bpost : string -> res val -> res val)
           (bfallback : string -> val -> list val -> cres val) (fs : pstate val) (tmo : tval) (is_attr_err : nat -> bool)
           (vgetattr : val -> string -> cres val) (vtrue vfalse vnone : val) (obj_sem : string -> list val -> res val) (p : val),
         sane_attr_err is_attr_err ->
         forall (kn : string) (k : val),
         proxy_at val cmeth bpost bfallback fs tmo is_attr_err vgetattr vtrue vfalse vnone obj_sem p "__delitem__" [k] ->
         find_body "__delitem__" = Some ("__delitem__", [(kn, false)], BDelItem BResult (BArg kn)) ->
         post_ok val bpost bfallback "operator.delitem" ->
         cbuiltin val cmeth bpost bfallback "operator.delitem" p [k] =
         after_resolve val fs tmo (fun v : val => cbuiltin val cmeth bpost bfallback "operator.delitem" v [k]).
Proof. exact delitem_body_resolves_once. Qed.

Theorem c17_contains_resolves_once :
  forall (val : Type) (cmeth : val -> string -> option (list val -> cres val)) (bpost : string -> res val -> res val)
           (bfallback : string -> val -> list val -> cres val) (fs : pstate val) (tmo : tval) (is_attr_err : nat -> bool)
           (vgetattr : val -> string -> cres val) (vtrue vfalse vnone : val) (obj_sem : string -> list val -> res val) (p : val),
         sane_attr_err is_attr_err ->
         forall (xn : string) (x : val),
         proxy_at val cmeth bpost bfallback fs tmo is_attr_err vgetattr vtrue vfalse vnone obj_sem p "__contains__" [x] ->
         find_body "__contains__" = Some ("__contains__", [(xn, false)], BContains (BArg xn) BResult) ->
         post_ok val bpost bfallback "operator.contains" ->
         cbuiltin val cmeth bpost bfallback "operator.contains" p [x] =
         after_resolve val fs tmo (fun v : val => cbuiltin val cmeth bpost bfallback "operator.contains" v [x]).
Proof. exact contains_body_resolves_once. Qed.

(* the explicit method-call body (`__div__`, which no Python 3 operator looks up): still exactly one resolution *)
Theorem c17_method_call_resolves_once :
  forall (val : Type) (cmeth : val -> string -> option (list val -> cres val)) (bpost : string -> res val -> res val)
           (bfallback : string -> val -> list val -> cres val) (fs : pstate val) (tmo : tval) (is_attr_err : nat -> bool)
           (vgetattr : val -> string -> cres val) (vtrue vfalse vnone : val) (obj_sem : string -> list val -> res val) (p : val),
         sane_attr_err is_attr_err ->
         forall (name mn a : string) (b : val),
         proxy_at val cmeth bpost bfallback fs tmo is_attr_err vgetattr vtrue vfalse vnone obj_sem p name [b] ->
         find_body name = Some (name, [(a, false)], BMethod BResult mn [BArg a]) ->
         cmethod_call val cmeth name p [b] = after_resolve val fs tmo (fun v : val => cmethod_call val cmeth mn v [b]).
Proof. exact method_call_body_resolves_once. Qed.

(* every generated body, whatever it is: it has one of ten shapes, and running it is [shape_sem] of that shape *)
Theorem c17_every_body_run :
  forall (val : Type) (cmeth : val -> string -> option (list val -> cres val)) (bpost : string -> res val -> res val)
           (bfallback : string -> val -> list val -> cres val) (fs : pstate val) (tmo : tval) (is_attr_err : nat -> bool)
           (vgetattr : val -> string -> cres val) (vtrue vfalse vnone : val),
         sane_attr_err is_attr_err ->
         forall (m : pmethod) (s : bshape) (args : list val),
         shape_of m = Some s ->
         arity_ok val (snd (fst m)) args = true ->
         run_method val cmeth bpost bfallback fs tmo is_attr_err vgetattr vtrue vfalse vnone
           (selfm1 val cmeth bpost bfallback fs tmo is_attr_err vgetattr vtrue vfalse vnone) m args =
         shape_sem val cmeth bpost bfallback fs tmo is_attr_err vgetattr vtrue vfalse vnone s args.
Proof. exact shape_run. Qed.

(* for the 31 resolving shapes the log is the configured timeout followed by whatever the operation on the VALUE logs; a failed or
   pending future gives its exception / the timeout error after exactly one call, before any dispatch on the operands *)
Theorem c17_resolving_body_log :
  forall (val : Type) (cmeth : val -> string -> option (list val -> cres val)) (bpost : string -> res val -> res val)
           (bfallback : string -> val -> list val -> cres val) (fs : pstate val) (tmo : tval) (is_attr_err : nat -> bool)
           (vgetattr : val -> string -> cres val) (vtrue vfalse vnone : val),
         sane_attr_err is_attr_err ->
         forall (m : pmethod) (s : bshape) (args : list val),
         shape_of m = Some s ->
         arity_ok val (snd (fst m)) args = true ->
         resolving_shape s = true ->
         exists k : val -> cres val,
           run_method val cmeth bpost bfallback fs tmo is_attr_err vgetattr vtrue vfalse vnone
             (selfm1 val cmeth bpost bfallback fs tmo is_attr_err vgetattr vtrue vfalse vnone) m args = after_resolve val fs tmo k /\
           snd
             (run_method val cmeth bpost bfallback fs tmo is_attr_err vgetattr vtrue vfalse vnone
                (selfm1 val cmeth bpost bfallback fs tmo is_attr_err vgetattr vtrue vfalse vnone) m args) =
           match resolve val fs tmo with
           | RVal v => tmo :: snd (k v)
           | _ => [tmo]
           end /\
           ((forall v : val, resolve val fs tmo <> RVal v) ->
            run_method val cmeth bpost bfallback fs tmo is_attr_err vgetattr vtrue vfalse vnone
              (selfm1 val cmeth bpost bfallback fs tmo is_attr_err vgetattr vtrue vfalse vnone) m args = (resolve val fs tmo, [tmo])).
Proof. exact resolving_body_log. Qed.

(* the two constant shapes (__bool__, __nonzero__): True, no resolution, whatever the state of the future *)
Theorem c17_constant_body_log :
  forall (val : Type) (cmeth : val -> string -> option (list val -> cres val)) (bpost : string -> res val -> res val)
           (bfallback : string -> val -> list val -> cres val) (fs : pstate val) (tmo : tval) (is_attr_err : nat -> bool)
           (vgetattr : val -> string -> cres val) (vtrue vfalse vnone : val),
         sane_attr_err is_attr_err ->
         forall (m : pmethod) (s : bshape) (args : list val),
         shape_of m = Some s ->
         arity_ok val (snd (fst m)) args = true ->
         s = SConst \/ s = SConstVia "__bool__" ->
         run_method val cmeth bpost bfallback fs tmo is_attr_err vgetattr vtrue vfalse vnone
           (selfm1 val cmeth bpost bfallback fs tmo is_attr_err vgetattr vtrue vfalse vnone) m args = (RVal vtrue, []).
Proof. exact constant_body_log. Qed.

(* ... and therefore, for EVERY entry of the regenerated table of the three operator kinds (no `find_body` hypothesis: membership in
   the table and its decidable shape): the operator applied to the proxy is one resolution followed by the operator on the value *)
Theorem c17_table_binop_resolves_once :
  forall (val : Type) (cmeth : val -> string -> option (list val -> cres val)) (bpost : string -> res val -> res val)
           (bfallback : string -> val -> list val -> cres val) (fs : pstate val) (tmo : tval) (is_attr_err : nat -> bool)
           (vgetattr : val -> string -> cres val) (vtrue vfalse vnone : val) (obj_sem : string -> list val -> res val) (p : val),
         sane_attr_err is_attr_err ->
         forall (m : pmethod) (o : pop) (b : val),
         In m proxy_bodies ->
         shape_of m = Some (SBin o) ->
         proxy_at val cmeth bpost bfallback fs tmo is_attr_err vgetattr vtrue vfalse vnone obj_sem p (mname m) [b] ->
         cbinop val cmeth (mname m) (snd (pop_dunder o)) p b =
         after_resolve val fs tmo (fun v : val => cbinop val cmeth (mname m) (snd (pop_dunder o)) v b).
Proof. exact table_binop_resolves_once. Qed.

Theorem c17_table_unop_resolves_once :
  forall (val : Type) (cmeth : val -> string -> option (list val -> cres val)) (bpost : string -> res val -> res val)
           (bfallback : string -> val -> list val -> cres val) (fs : pstate val) (tmo : tval) (is_attr_err : nat -> bool)
           (vgetattr : val -> string -> cres val) (vtrue vfalse vnone : val) (obj_sem : string -> list val -> res val) (p : val),
         sane_attr_err is_attr_err ->
         forall (m : pmethod) (o : pop),
         In m proxy_bodies ->
         shape_of m = Some (SUn o) ->
         proxy_at val cmeth bpost bfallback fs tmo is_attr_err vgetattr vtrue vfalse vnone obj_sem p (mname m) [] ->
         cunop val cmeth (mname m) p = after_resolve val fs tmo (fun v : val => cunop val cmeth (mname m) v).
Proof. exact table_unop_resolves_once. Qed.

Theorem c17_table_builtin_resolves_once :
  forall (val : Type) (cmeth : val -> string -> option (list val -> cres val)) (bpost : string -> res val -> res val)
           (bfallback : string -> val -> list val -> cres val) (fs : pstate val) (tmo : tval) (is_attr_err : nat -> bool)
           (vgetattr : val -> string -> cres val) (vtrue vfalse vnone : val) (obj_sem : string -> list val -> res val) (p : val),
         sane_attr_err is_attr_err ->
         forall (m : pmethod) (fn : string) (args : list val),
         In m proxy_bodies ->
         shape_of m = Some (SBuiltin fn) ->
         proxy_at val cmeth bpost bfallback fs tmo is_attr_err vgetattr vtrue vfalse vnone obj_sem p (mname m) args ->
         arity_ok val (snd (fst m)) args = true ->
         post_ok val bpost bfallback fn ->
         call_builtin val cmeth bpost bfallback fn (p :: args) =
         after_resolve val fs tmo (fun v : val => call_builtin val cmeth bpost bfallback fn (v :: args)).
Proof. exact table_builtin_resolves_once. Qed.

(* EXACTLY one resolution -- no second result() call -- whenever the plain values perform none of their own, in every state of the future *)
Theorem c17_table_binop_exactly_one :
  forall (val : Type) (cmeth : val -> string -> option (list val -> cres val)) (bpost : string -> res val -> res val)
           (bfallback : string -> val -> list val -> cres val) (fs : pstate val) (tmo : tval) (is_attr_err : nat -> bool)
           (vgetattr : val -> string -> cres val) (vtrue vfalse vnone : val) (obj_sem : string -> list val -> res val) (p : val),
         sane_attr_err is_attr_err ->
         forall (m : pmethod) (o : pop) (b : val),
         In m proxy_bodies ->
         shape_of m = Some (SBin o) ->
         proxy_at val cmeth bpost bfallback fs tmo is_attr_err vgetattr vtrue vfalse vnone obj_sem p (mname m) [b] ->
         quiet_values val cmeth bfallback p -> value_not_proxy val fs p -> b <> p -> snd (cbinop val cmeth (mname m) (snd (pop_dunder o)) p b) = [tmo].
Proof. exact table_binop_exactly_one. Qed.

Theorem c17_table_unop_exactly_one :
  forall (val : Type) (cmeth : val -> string -> option (list val -> cres val)) (bpost : string -> res val -> res val)
           (bfallback : string -> val -> list val -> cres val) (fs : pstate val) (tmo : tval) (is_attr_err : nat -> bool)
           (vgetattr : val -> string -> cres val) (vtrue vfalse vnone : val) (obj_sem : string -> list val -> res val) (p : val),
         sane_attr_err is_attr_err ->
         forall (m : pmethod) (o : pop),
         In m proxy_bodies ->
         shape_of m = Some (SUn o) ->
         proxy_at val cmeth bpost bfallback fs tmo is_attr_err vgetattr vtrue vfalse vnone obj_sem p (mname m) [] ->
         quiet_values val cmeth bfallback p -> value_not_proxy val fs p -> snd (cunop val cmeth (mname m) p) = [tmo].
Proof. exact table_unop_exactly_one. Qed.

Theorem c17_table_builtin_exactly_one :
  forall (val : Type) (cmeth : val -> string -> option (list val -> cres val)) (bpost : string -> res val -> res val)
           (bfallback : string -> val -> list val -> cres val) (fs : pstate val) (tmo : tval) (is_attr_err : nat -> bool)
           (vgetattr : val -> string -> cres val) (vtrue vfalse vnone : val) (obj_sem : string -> list val -> res val) (p : val),
         sane_attr_err is_attr_err ->
         forall (m : pmethod) (fn : string) (args : list val),
         In m proxy_bodies ->
         shape_of m = Some (SBuiltin fn) ->
         proxy_at val cmeth bpost bfallback fs tmo is_attr_err vgetattr vtrue vfalse vnone obj_sem p (mname m) args ->
         arity_ok val (snd (fst m)) args = true ->
         post_ok val bpost bfallback fn ->
         quiet_values val cmeth bfallback p ->
         value_not_proxy val fs p -> (forall a : val, In a args -> a <> p) -> snd (call_builtin val cmeth bpost bfallback fn (p :: args)) = [tmo].
Proof. exact table_builtin_exactly_one. Qed.

(* which entries that covers: 11 binary operators, 3 unary operators, 12 builtins; 4 item / containment entries and `__div__` have their own theorems above *)
Theorem c17_table_shapes_census :
  map (fun m : pmethod => mname m) (filter (fun m : pmethod => match shape_of m with
                                                                      | Some (SBin _) => true
                                                                      | _ => false
                                                                      end) proxy_bodies) =
         ["__add__"; "__sub__"; "__mul__"; "__truediv__"; "__floordiv__"; "__mod__"; "__lshift__"; "__rshift__"; "__and__"; "__xor__"; "__or__"] /\
         map (fun m : pmethod => mname m) (filter (fun m : pmethod => match shape_of m with
                                                                      | Some (SUn _) => true
                                                                      | _ => false
                                                                      end) proxy_bodies) = ["__neg__"; "__pos__"; "__invert__"] /\
         map (fun m : pmethod => mname m) (filter (fun m : pmethod => match shape_of m with
                                                                      | Some (SBuiltin _) => true
                                                                      | _ => false
                                                                      end) proxy_bodies) =
         ["__len__"; "__iter__"; "__divmod__"; "__pow__"; "__abs__"; "__complex__"; "__int__"; "__float__"; "__round__"; "__trunc__"; "__floor__";
          "__ceil__"] /\
         map (fun m : pmethod => mname m)
           (filter
              (fun m : pmethod =>
               match shape_of m with
               | Some SGetItem | Some SSetItem | Some SDelItem | Some SContains | Some (SMethodCall _) => true
               | _ => false
               end) proxy_bodies) = ["__getitem__"; "__setitem__"; "__delitem__"; "__contains__"; "__div__"].
Proof. exact table_shapes_census. Qed.

Example c17_table_instance :
  In ("__add__", [("other", false)], BBin OpAdd BResult (BArg "other")) proxy_bodies /\
  shape_of ("__add__", [("other", false)], BBin OpAdd BResult (BArg "other")) = Some (SBin OpAdd) /\
  In ("__pow__", [("other", false); ("modulo", true)], BCall "pow" [BResult; BArg "other"; BStar "modulo"]) proxy_bodies /\
  shape_of ("__pow__", [("other", false); ("modulo", true)], BCall "pow" [BResult; BArg "other"; BStar "modulo"]) = Some (SBuiltin "pow") /\
  arity_ok nat [("other", false); ("modulo", true)] [7] = true /\ arity_ok nat [("other", false); ("modulo", true)] [7; 8] = true /\
  arity_ok nat [("other", false); ("modulo", true)] [] = false.
Proof. repeat split; try (vm_compute; reflexivity); vm_compute; tauto. Qed.

(* forgetting the log gives the dispatch of Model/Proxy.v, so the results above are the values of Props/C17.v's operators *)
Theorem c17_erase_binop :
  forall (val : Type) (cmeth : val -> string -> option (list val -> cres val)) (op rop : string) (a b : val),
         fst (cbinop val cmeth op rop a b) = binop val (emeth val cmeth) op rop a b.
Proof. exact erase_binop. Qed.

Theorem c17_erase_unop :
  forall (val : Type) (cmeth : val -> string -> option (list val -> cres val)) (op : string) (a : val),
         fst (cunop val cmeth op a) = unop val (emeth val cmeth) op a.
Proof. exact erase_unop. Qed.

(* ---- 2. operations that never resolve ------------------------------------------------------------------- *)
Theorem c17_bool_no_resolution :
  forall (val : Type) (cmeth : val -> string -> option (list val -> cres val)) (bpost : string -> res val -> res val)
           (bfallback : string -> val -> list val -> cres val) (fs : pstate val) (tmo : tval) (is_attr_err : nat -> bool)
           (vgetattr : val -> string -> cres val) (vtrue vfalse vnone : val) (obj_sem : string -> list val -> res val) (p : val)
           (name : string) (args : list val),
         proxy_at val cmeth bpost bfallback fs tmo is_attr_err vgetattr vtrue vfalse vnone obj_sem p name args ->
         find_body name = Some (name, [], BTrue) ->
         exists f : list val -> cres val, cmeth p name = Some f /\ f args = (if arity_ok val [] args then (RVal vtrue, []) else (RExc type_error, [])).
Proof. exact const_body_no_resolution. Qed.

(* repr / str / == / != / hash / ordering / format: not in the table; the identity-based methods of object / Future *)
Theorem c17_inherited_no_resolution :
  forall (val : Type) (cmeth : val -> string -> option (list val -> cres val)) (bpost : string -> res val -> res val)
           (bfallback : string -> val -> list val -> cres val) (fs : pstate val) (tmo : tval) (is_attr_err : nat -> bool)
           (vgetattr : val -> string -> cres val) (vtrue vfalse vnone : val) (obj_sem : string -> list val -> res val) (p : val)
           (name : string) (args : list val),
         proxy_at val cmeth bpost bfallback fs tmo is_attr_err vgetattr vtrue vfalse vnone obj_sem p name args ->
         find_body name = None ->
         mem name object_dunders = true -> exists f : list val -> cres val, cmeth p name = Some f /\ f args = (obj_sem name args, []).
Proof. exact inherited_no_resolution. Qed.

Theorem c17_unknown_special_method_absent :
  forall (val : Type) (cmeth : val -> string -> option (list val -> cres val)) (bpost : string -> res val -> res val)
           (bfallback : string -> val -> list val -> cres val) (fs : pstate val) (tmo : tval) (is_attr_err : nat -> bool)
           (vgetattr : val -> string -> cres val) (vtrue vfalse vnone : val) (obj_sem : string -> list val -> res val) (p : val)
           (name : string) (args : list val),
         proxy_at val cmeth bpost bfallback fs tmo is_attr_err vgetattr vtrue vfalse vnone obj_sem p name args ->
         find_body name = None -> mem name object_dunders = false -> cmeth p name = None.
Proof. exact unknown_special_method_absent. Qed.

(* the regenerated table: which bodies resolve *)
Theorem c17_bodies_agree_with_table :
  tables_agree proxy_bodies proxy_table = true.
Proof. exact bodies_agree_with_table. Qed.

Theorem c17_bodies_all_shaped :
  forallb (fun m : pmethod => match shape_of m with
                                     | Some _ => true
                                     | None => false
                                     end) proxy_bodies = true.
Proof. exact bodies_all_shaped. Qed.

Theorem c17_bodies_found :
  Forall (fun m : pmethod => find_body (mname m) = Some m) proxy_bodies.
Proof. exact bodies_found. Qed.

Theorem c17_non_resolving_bodies :
  map (fun m : pmethod => (mname m, shape_of m))
           (filter (fun m : pmethod => match shape_of m with
                                       | Some s => negb (resolving_shape s)
                                       | None => true
                                       end) proxy_bodies) = [("__bool__", Some SConst); ("__nonzero__", Some (SConstVia "__bool__"))].
Proof. exact non_resolving_bodies. Qed.

Theorem c17_resolving_bodies_count :
  Datatypes.length (filter (fun m : pmethod => match shape_of m with
                                                      | Some s => resolving_shape s
                                                      | None => false
                                                      end) proxy_bodies) = 31.
Proof. exact resolving_bodies_count. Qed.

Theorem c17_identity_dunders_inherited :
  forallb (fun n : string => match find_body n with
                                    | Some _ => false
                                    | None => mem n object_dunders
                                    end) ["__repr__"; "__str__"; "__eq__"; "__ne__"; "__hash__"; "__lt__"; "__le__"; "__gt__"; "__ge__"; "__format__"] =
         true.
Proof. exact identity_dunders_inherited. Qed.

Theorem c17_unproxied_dunders_absent :
  forallb (fun n : string => match find_body n with
                                    | Some _ => false
                                    | None => negb (mem n object_dunders)
                                    end)
           ["__index__"; "__matmul__"; "__enter__"; "__exit__"; "__bytes__"; "__call__"; "__next__"; "__await__"; "__radd__"] = true.
Proof. exact unproxied_dunders_absent. Qed.

(* ---- 3. attribute access -------------------------------------------------------------------------------- *)
Theorem c17_own_attribute_not_forwarded :
  forall (val : Type) (fs : pstate val) (tmo : tval) (is_attr_err : nat -> bool) (vgetattr : val -> string -> cres val)
           (vnone : val) (own : string -> val) (name : string),
         is_own name = true -> pgetattr val fs tmo is_attr_err vgetattr vnone own name = (RVal (own name), []).
Proof. exact own_attribute_not_forwarded. Qed.

Theorem c17_plain_attribute_forwarded :
  forall (val : Type) (fs : pstate val) (tmo : tval) (is_attr_err : nat -> bool) (vgetattr : val -> string -> cres val)
           (vnone : val) (own : string -> val),
         sane_attr_err is_attr_err ->
         forall name : string,
         is_own name = false ->
         prefix "__" name = false ->
         pgetattr val fs tmo is_attr_err vgetattr vnone own name = after_resolve val fs tmo (fun v : val => vgetattr v name).
Proof. exact plain_attribute_forwarded. Qed.

Theorem c17_unknown_dunder_attribute_error :
  forall (val : Type) (fs : pstate val) (tmo : tval) (is_attr_err : nat -> bool) (vgetattr : val -> string -> cres val)
           (vnone : val) (own : string -> val) (name : string),
         is_own name = false -> prefix "__" name = true -> pgetattr val fs tmo is_attr_err vgetattr vnone own name = (RExc attribute_error, []).
Proof. exact unknown_dunder_attribute_error. Qed.

Theorem c17_attribute_resolution_count :
  forall (val : Type) (fs : pstate val) (tmo : tval) (is_attr_err : nat -> bool) (vgetattr : val -> string -> cres val)
           (vnone : val) (own : string -> val),
         sane_attr_err is_attr_err ->
         forall name : string,
         (is_own name = true \/ prefix "__" name = true -> snd (pgetattr val fs tmo is_attr_err vgetattr vnone own name) = []) /\
         (is_own name = false ->
          prefix "__" name = false ->
          snd (pgetattr val fs tmo is_attr_err vgetattr vnone own name) =
          match resolve val fs tmo with
          | RVal v => tmo :: snd (vgetattr v name)
          | _ => [tmo]
          end).
Proof. exact attribute_resolution_count. Qed.

(* the other lookup order (forward first) hands out the VALUE's attribute for a name the future class defines *)
Theorem c17_forward_first_refuted :
  forall (val : Type) (fs : pstate val) (tmo : tval) (is_attr_err : nat -> bool) (vgetattr : val -> string -> cres val)
           (vnone : val) (own : string -> val),
         sane_attr_err is_attr_err ->
         forall (name : string) (v x : val) (lg : rlog),
         is_own name = true ->
         prefix "__" name = false ->
         (name =? "_ProxyFuture__result") = false ->
         fs = PResolved v ->
         vgetattr v name = (RVal x, lg) ->
         pgetattr_forward_first val fs tmo is_attr_err vgetattr vnone own name = (RVal x, tmo :: lg) /\
         pgetattr val fs tmo is_attr_err vgetattr vnone own name = (RVal (own name), []).
Proof. exact forward_first_differs. Qed.

Theorem c17_future_api_is_own :
  forallb is_own
           ["result"; "exception"; "cancel"; "cancelled"; "done"; "running"; "add_done_callback"; "set_result"; "set_exception";
            "_ProxyFuture__result"; "_ProxyFuture__timeout"; "_delegate"; "_me_lock"; "__repr__"; "__eq__"; "__hash__"; "__str__"] = true.
Proof. exact future_api_is_own. Qed.

Theorem c17_sample_names_not_own :
  forallb (fun n : string => negb (is_own n))
           ["real"; "imag"; "upper"; "append"; "_private"; "x"; "__deepcopy__"; "__enter__"; "__index__"; "__fspath__"] = true.
Proof. exact sample_names_not_own. Qed.

(* ---- 4. the proxy as the right operand ------------------------------------------------------------------ *)
Theorem c17_reflected_form_transparent :
  forall (val : Type) (meth : val -> string -> option (list val -> res val)) (p v : val) (op rop : string) (x : val),
         meth x op = None \/ (exists f : list val -> res val, meth x op = Some f /\ f [p] = RNotImpl) ->
         meth p rop = Some (fun args : list val => binop val meth op rop (hd v args) v) -> binop val meth op rop x p = binop val meth op rop x v.
Proof. exact reflected_form_transparent. Qed.

Theorem c17_reflected_resolves_once :
  forall (val : Type) (cmeth : val -> string -> option (list val -> cres val)) (bpost : string -> res val -> res val)
           (bfallback : string -> val -> list val -> cres val) (fs : pstate val) (tmo : tval) (is_attr_err : nat -> bool)
           (vgetattr : val -> string -> cres val) (vtrue vfalse vnone p : val),
         sane_attr_err is_attr_err ->
         forall (selfm : string -> cres val) (op rop a : string) (o : pop) (x : val) (g : list val -> cres val),
         pop_dunder o = (op, rop) ->
         cmeth x op = None \/ (exists f : list val -> cres val, cmeth x op = Some f /\ f [p] = (RNotImpl, [])) ->
         cmeth p rop = Some g ->
         g [x] =
         run_method val cmeth bpost bfallback fs tmo is_attr_err vgetattr vtrue vfalse vnone selfm (rop, [(a, false)], BBin o (BArg a) BResult) [x] ->
         cbinop val cmeth op rop x p = after_resolve val fs tmo (fun v : val => cbinop val cmeth op rop x v).
Proof. exact reflected_body_resolves_once. Qed.

(* a proxy WITHOUT the reflected method: TypeError whatever `x op v` is -- not a violation, the property speaks about forwarded operations *)
Theorem c17_reflected_not_forwarded :
  forall (val : Type) (meth : val -> string -> option (list val -> res val)) (p : val) (op rop : string) (x : val),
         meth x op = None \/ (exists f : list val -> res val, meth x op = Some f /\ f [p] = RNotImpl) ->
         meth p rop = None -> binop val meth op rop x p = RExc type_error.
Proof. exact reflected_not_forwarded. Qed.

(* the first hypothesis is necessary: a left operand whose own method accepts the proxy object decides alone *)
Theorem c17_left_operand_accepting_proxy_wins :
  forall (val : Type) (meth : val -> string -> option (list val -> res val)) (p : val) (op rop : string) (x : val) (f : list val -> res val)
           (r : res val), meth x op = Some f -> f [p] = r -> r <> RNotImpl -> binop val meth op rop x p = r.
Proof. exact left_operand_accepting_proxy_wins. Qed.

(* the regenerated table forwards NO reflected dunder *)
Theorem c17_table_has_no_reflected :
  table_reflected = [].
Proof. exact table_has_no_reflected. Qed.

Theorem c17_table_reflected_absent :
  forallb (fun n : string => match find_body n with
                                    | Some _ => false
                                    | None => true
                                    end) reflected_dunders = true.
Proof. exact table_reflected_absent. Qed.


(* ---- non-vacuity: the concrete universe of Model/Proxy2.v (value 2 is a ProxyFuture over the int 3 / a failed / a pending future) - *)
Definition T0 := TVNum 0.
Example c17_ex_hypotheses_satisfiable :
  sane_attr_err w2_is_attr_err /\ w2_proxy_at (PResolved 0) T0 "__add__" [0] /\ w2_proxy_at PPending T0 "__add__" [0] /\
  w2_proxy_at (PResolved 0) T0 "__neg__" [] /\ w2_proxy_at (PResolved 0) T0 "__divmod__" [7] /\ w2_proxy_at (PResolved 12) T0 "__getitem__" [16] /\
  w2_proxy_at PPending T0 "__bool__" [] /\ w2_proxy_at PPending T0 "__repr__" [] /\ w2_proxy_at PPending T0 "__index__" [] /\
  find_body "__add__" = Some ("__add__", [("other", false)], BBin OpAdd BResult (BArg "other")) /\ pop_dunder OpAdd = ("__add__", "__radd__") /\
  post_ok nat w2_post w2_fallback "divmod" /\ post_ok nat w2_post w2_fallback "operator.getitem".
Proof. repeat split; try (vm_compute; reflexivity); intros; reflexivity. Qed.
Example c17_ex_quiet_universe : forall fs, (forall v, fs = PResolved v -> v <> 2) ->
  quiet_values nat (w2_meth fs T0) w2_fallback 2 /\ value_not_proxy nat fs 2.
Proof.
  intros fs H. split; [split|exact H].
  - intros x n f args N E. unfold w2_meth in E. destruct (Nat.eqb x 2) eqn:X; [apply Nat.eqb_eq in X; contradiction|].
    unfold w2_base in E.
    repeat match type of E with
           | match ?y with _ => _ end = _ => destruct y; try discriminate E
           | (if ?c then _ else _) = _ => destruct c; try discriminate E
           end;
      inversion E; subst; clear E; unfold w2_ret, w2_ni;
      repeat match goal with |- context [match ?y with _ => _ end] => destruct y end; reflexivity.
  - intros; reflexivity.
Qed.
(* proxy + 3 with the future resolved / failed / still pending after the zero timeout: value 6, f's exception 77, TimeoutError;
   one result(0) call each; 3 + 3 itself logs nothing *)
Example c17_ex_add :
  cbinop nat (w2_meth (PResolved 0) T0) "__add__" "__radd__" 2 0 = (RVal 4, [T0]) /\
  cbinop nat (w2_meth (PResolved 0) T0) "__add__" "__radd__" 0 0 = (RVal 4, []) /\
  cbinop nat (w2_meth (PFailed 77) T0) "__add__" "__radd__" 2 0 = (RExc 77, [T0]) /\
  cbinop nat (w2_meth PPending T0) "__add__" "__radd__" 2 0 = (RExc timeout_error, [T0]) /\
  cbinop nat (w2_meth PPending (result_timeout [("timeout", TVNum 0)])) "__add__" "__radd__" 2 0 = (RExc timeout_error, [TVNum 0]) /\
  cbinop nat (w2_meth PPending (result_timeout [])) "__add__" "__radd__" 2 0 = (RExc timeout_error, [TVNum 3153600000]).
Proof. repeat split; vm_compute; reflexivity. Qed.
(* proxy / 2.0 (the former G8 shape), -proxy, divmod(proxy, 2), len / [] / in on a proxied list *)
Example c17_ex_forms :
  cbinop nat (w2_meth (PResolved 0) T0) "__truediv__" "__rtruediv__" 2 1 = (RVal 3, [T0]) /\
  cunop nat (w2_meth (PResolved 0) T0) "__neg__" 2 = (RVal 9, [T0]) /\
  call_builtin nat (w2_meth (PResolved 0) T0) w2_post w2_fallback "divmod" [2; 7] = (RVal 15, [T0]) /\
  call_builtin nat (w2_meth (PResolved 12) T0) w2_post w2_fallback "len" [2] = (RVal 14, [T0]) /\
  cbuiltin nat (w2_meth (PResolved 12) T0) w2_post w2_fallback "operator.getitem" 2 [16] = (RVal 0, [T0]) /\
  cbuiltin nat (w2_meth (PResolved 12) T0) w2_post w2_fallback "operator.contains" 2 [0] = (RVal 5, [T0]) /\
  call_builtin nat (w2_meth (PFailed 77) T0) w2_post w2_fallback "len" [2] = (RExc 77, [T0]).
Proof. repeat split; vm_compute; reflexivity. Qed.
(* truth-testing, repr, ==, hash on a PENDING future with no timeout at all: an answer, and no result() call *)
Example c17_ex_non_resolving :
  cunop nat (w2_meth PPending TVNone) "__bool__" 2 = (RVal 5, []) /\ cunop nat (w2_meth PPending TVNone) "__nonzero__" 2 = (RVal 5, []) /\
  cunop nat (w2_meth PPending TVNone) "__repr__" 2 = (RVal 21, []) /\ cunop nat (w2_meth PPending TVNone) "__hash__" 2 = (RVal 21, []) /\
  cbinop nat (w2_meth PPending TVNone) "__eq__" "__eq__" 2 0 = (RVal 21, []) /\
  cunop nat (w2_meth PPending TVNone) "__index__" 2 = (RExc type_error, []).
Proof. repeat split; vm_compute; reflexivity. Qed.
(* attributes: .real is forwarded after one resolution; .result / .done are the future's own even when the value has an attribute of
   that name; an unknown dunder raises AttributeError on a pending future without touching it; forward-first would differ *)
Example c17_ex_attributes :
  w2_getattr_proxy (PResolved 0) T0 "real" = (RVal 0, [T0]) /\ w2_getattr_proxy (PFailed 77) T0 "real" = (RExc 77, [T0]) /\
  w2_getattr_proxy (PResolved 0) T0 "nosuch" = (RExc attribute_error, [T0]) /\
  w2_getattr_proxy (PResolved 18) T0 "result" = (RVal 20, []) /\ w2_getattr_proxy PPending TVNone "done" = (RVal 20, []) /\
  w2_getattr_proxy PPending TVNone "__deepcopy__" = (RExc attribute_error, []) /\
  pgetattr_forward_first nat (PResolved 18) T0 w2_is_attr_err w2_getattr 6 w2_own "result" = (RVal 19, [T0]).
Proof. repeat split; vm_compute; reflexivity. Qed.
(* the AttributeError edge: a future that failed with an AttributeError (id 2) still gives that exception after ONE result() call;
   with the unguarded __getattr__ the same operation ends in RecursionError after 1001 calls *)
Example c17_ex_attribute_error_edge :
  cbinop nat (w2_meth (PFailed attribute_error) T0) "__add__" "__radd__" 2 0 = (RExc attribute_error, [T0]) /\
  w2_getattr_proxy (PFailed attribute_error) T0 "real" = (RExc attribute_error, [T0]) /\
  result_prop nat (PFailed attribute_error) T0 w2_is_attr_err w2_getattr 6 getattr_body_without_guard 1000 = (RExc recursion_error, repeat T0 1001).
Proof. repeat split; vm_compute; reflexivity. Qed.
(* the right-hand side: 2 + proxy is a TypeError although 2 + 3 = 5 (the table has no __radd__) ... *)
Example c17_ex_reflected_not_forwarded :
  cbinop nat (w2_meth (PResolved 0) T0) "__add__" "__radd__" 7 2 = (RExc type_error, []) /\
  cbinop nat (w2_meth (PResolved 0) T0) "__add__" "__radd__" 7 0 = (RVal 8, []).
Proof. split; vm_compute; reflexivity. Qed.
(* ... a proxy that forwarded __radd__ in the FBinOp form would give 5 after one resolution; and a left operand whose own __add__
   accepts anything decides alone, without any resolution *)
Example c17_ex_reflected_hypothetical :
  cbinop nat (w3_meth (PResolved 0) T0) "__add__" "__radd__" 7 2 = (RVal 8, [T0]) /\
  cbinop nat (w3_meth (PFailed 77) T0) "__add__" "__radd__" 7 2 = (RExc 77, [T0]) /\
  cbinop nat (w2_meth (PResolved 0) T0) "__add__" "__radd__" 12 2 = (RVal 13, []).
Proof. repeat split; vm_compute; reflexivity. Qed.

Print Assumptions c17_timeout_configured.
Print Assumptions c17_timeout_used_by_result.
Print Assumptions c17_timeout_zero_is_zero.
Print Assumptions c17_timeout_default_is_max.
Print Assumptions c17_timeout_or_form_refuted.
Print Assumptions c17_timeout_is_none_form_differs.
Print Assumptions c17_result_property_one_call.
Print Assumptions c17_result_property_unguarded_refuted.
Print Assumptions c17_binop_resolves_once.
Print Assumptions c17_unop_resolves_once.
Print Assumptions c17_builtin_resolves_once.
Print Assumptions c17_getitem_resolves_once.
Print Assumptions c17_setitem_resolves_once.
Print Assumptions c17_delitem_resolves_once.
Print Assumptions c17_contains_resolves_once.
Print Assumptions c17_method_call_resolves_once.
Print Assumptions c17_every_body_run.
Print Assumptions c17_resolving_body_log.
Print Assumptions c17_constant_body_log.
Print Assumptions c17_table_binop_resolves_once.
Print Assumptions c17_table_unop_resolves_once.
Print Assumptions c17_table_builtin_resolves_once.
Print Assumptions c17_table_binop_exactly_one.
Print Assumptions c17_table_unop_exactly_one.
Print Assumptions c17_table_builtin_exactly_one.
Print Assumptions c17_table_shapes_census.
Print Assumptions c17_erase_binop.
Print Assumptions c17_erase_unop.
Print Assumptions c17_bool_no_resolution.
Print Assumptions c17_inherited_no_resolution.
Print Assumptions c17_unknown_special_method_absent.
Print Assumptions c17_bodies_agree_with_table.
Print Assumptions c17_bodies_all_shaped.
Print Assumptions c17_bodies_found.
Print Assumptions c17_non_resolving_bodies.
Print Assumptions c17_resolving_bodies_count.
Print Assumptions c17_identity_dunders_inherited.
Print Assumptions c17_unproxied_dunders_absent.
Print Assumptions c17_own_attribute_not_forwarded.
Print Assumptions c17_plain_attribute_forwarded.
Print Assumptions c17_unknown_dunder_attribute_error.
Print Assumptions c17_attribute_resolution_count.
Print Assumptions c17_forward_first_refuted.
Print Assumptions c17_future_api_is_own.
Print Assumptions c17_sample_names_not_own.
Print Assumptions c17_reflected_form_transparent.
Print Assumptions c17_reflected_resolves_once.
Print Assumptions c17_reflected_not_forwarded.
Print Assumptions c17_left_operand_accepting_proxy_wins.
Print Assumptions c17_table_has_no_reflected.
Print Assumptions c17_table_reflected_absent.
