(* C02 on the methods REGENERATED FROM THE SOURCE: common._Future.cancel / add_done_callback / _me_invoke_callbacks,
   MapFuture.__init__ / _set_delegate / _me_cancel, FlatMapFuture.__init__ (tools/map2coq.py -> Gen/MapSkel.v, IR and
   path semantics in Model/MapIR.v) against the hand-written acceptor Model/MapFut.v: PATH CONFORMANCE.
   For every configuration (class, fn / error_fn given, flattened, 0-2 registered callbacks) and every scenario (state of
   the future, of its delegate and of a second environment future) of the finite families of Proofs/MapIR_Conf.v, EVERY path
   through the generated method is executed by MapFut.step: the machine accepts the API call, then a run in which the
   successive heads of the calling thread's program are exactly the visible operations of the path (in the machine's own
   instruction alphabet, data included), after which the thread's program is empty and the machine's state of the future
   agrees with the IR's.  Nothing but statements; proofs in Proofs/MapIR_Conf*.v. *)
Set Warnings "-abstract-large-number".
From Coq Require Import List Bool Arith.
From ME Require Import Base.Machine Base.Fut Model.MapFut Model.MapIR Gen.MapSkel Proofs.MapIR_Conf Proofs.MapIR_Conf2 Proofs.MapIR_Conf5.
Import ListNotations.

(* future.cancel() *)
Theorem c02_cancel_paths_conform_src : forall c x, In c cfgs -> In x scns ->
  paths EnCancel c x <> [] /\
  forall p, In p (paths EnCancel c x) ->
  exists its evs s1 s2,
    path_items EnCancel p = Some its /\
    step (state_of c x) (ECallCancel T J) = Some s1 /\
    run step s1 evs = Some s2 /\
    heads s1 (map it_t its) evs = Some (map it_head its) /\
    thr s2 T = [] /\ thr s2 T2 = [] /\ agree s2 (fst p) = true.
Proof. intros c x Hc Hx. exact (conf_all_conforms EnCancel cancel_conf c x Hc Hx eq_refl). Qed.

(* future.add_done_callback(cb) *)
Theorem c02_add_done_callback_paths_conform_src : forall c x, In c cfgs -> In x scns ->
  paths EnAddCb c x <> [] /\
  forall p, In p (paths EnAddCb c x) ->
  exists its evs s1 s2,
    path_items EnAddCb p = Some its /\
    step (state_of c x) (ECallAddCb T J NEWCB) = Some s1 /\
    run step s1 evs = Some s2 /\
    heads s1 (map it_t its) evs = Some (map it_head its) /\
    thr s2 T = [] /\ thr s2 T2 = [] /\ agree s2 (fst p) = true.
Proof. intros c x Hc Hx. exact (conf_all_conforms EnAddCb addcb_conf c x Hc Hx eq_refl). Qed.

(* the constructors *)
Theorem c02_new_paths_conform_src : forall c x, In c cfgs -> In x scns -> applicable EnNew c x = true ->
  paths EnNew c x <> [] /\ forall p, In p (paths EnNew c x) -> conforms EnNew c x p.
Proof. exact (conf_all_conforms EnNew new_conf). Qed.

(* every entry point at once *)
Theorem c02_all_paths_conform_src : forall en c x, In en entries -> In c cfgs -> In x scns -> applicable en c x = true ->
  paths en c x <> [] /\ forall p, In p (paths en c x) -> conforms en c x p.
Proof. exact all_paths_conform. Qed.

(* every entry point, with ONE interference by a second thread inserted between two visible operations made while M is not
   held: a whole cancel() of the same future by thread T2 (the generated cancel, callbacks included), or the environment
   finishing d3 and, if the future is registered there, the generated _delegate_resolved(d3) in its thread *)
Theorem c02_all_paths_conform_one_interference_src : forall en c x, In en entries -> In c cfgs -> In x scns -> applicable en c x = true ->
  paths_n 1 en c x <> [] /\ forall p, In p (paths_n 1 en c x) -> conforms en c x p.
Proof. exact all_paths_conform1. Qed.

(* soundness of the driver used by the check: what it returns IS a run of MapFut.step *)
Theorem c02_drive_is_a_machine_run_src : forall its s evs s2,
  drive s its = Some (evs, s2) -> run step s evs = Some s2 /\ heads s (map it_t its) evs = Some (map it_head its).
Proof. exact drive_sound. Qed.

(* non-vacuity: the families are not empty, and how many (configuration, scenario) pairs / paths each entry point has *)
Example c02_ir_families : length cfgs = 30 /\ length scns = 144.
Proof. vm_compute. split; reflexivity. Qed.
Example c02_ir_coverage : map count entries = [(144, 212); (4320, 4800); (4320, 7200); (720, 1840); (720, 1960); (360, 360)].
Proof. exact coverage_counts. Qed.
(* the successful cancel of a pending MapFuture with two callbacks on a pending delegate: the delegate's cancel() runs
   _delegate_resolved inline, under M (silent re-entrant acquisitions), then the future's own cancel, notify, callbacks *)
Example c02_ir_coverage_one_interference :
  map count1 entries = [(144, 2212); (4320, 12300); (4320, 24720); (720, 19172); (720, 22130); (360, 1420)] /\
  map count1i entries = [2000; 7500; 17520; 17332; 20170; 1060].
Proof. exact coverage_counts1. Qed.
Example c02_ir_cancel_path :
  map (fun p => option_map (map it_instr) (path_items EnCancel p))
      (paths EnCancel (mkCfg KMap true true false [40; 41]) (mkScn Pending (Some 1) Pending (Ok 5) Pending (Ok 6)))
  = [ Some [IAcqM 0; ICancelled 0; IDoneC 0; IDCancel 0 1; IDCancelledQ 0 1; IFCancel 0; IFSrnc 0; IRelMCbs 0;
            IUserCb 0 40 false; IUserCb 0 41 false; IRetB true];
      Some [IAcqM 0; ICancelled 0; IDoneC 0; IDCancel 0 1; IDCancelledQ 0 1; IFCancel 0; IFSrnc 0; IRelMCbs 0;
            IUserCb 0 40 false; IUserCb 0 41 false; IRetB true];
      Some [IAcqM 0; ICancelled 0; IDoneC 0; IDCancel 0 1; IDCancelledQ 0 1; IFCancel 0; IFSrnc 0; IRelMCbs 0;
            IUserCb 0 40 false; IUserCb 0 41 false; IRetB true];
      Some [IAcqM 0; ICancelled 0; IDoneC 0; IDCancel 0 1; IDCancelledQ 0 1; IFCancel 0; IFSrnc 0; IRelMCbs 0;
            IUserCb 0 40 false; IUserCb 0 41 false; IRetB true] ].
Proof. vm_compute. reflexivity. Qed.

Print Assumptions c02_cancel_paths_conform_src.
Print Assumptions c02_add_done_callback_paths_conform_src.
Print Assumptions c02_new_paths_conform_src.
Print Assumptions c02_all_paths_conform_src.
Print Assumptions c02_drive_is_a_machine_run_src.
Print Assumptions c02_all_paths_conform_one_interference_src.
