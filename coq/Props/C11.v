(* C11 -- shutdown: submit refuses afterwards, idempotent, propagates, joins, returns.
   Statements only.  Gate machine (helpers.ShutdownHelper, any number of threads): Model/Gate.v.
   PARTIAL: propagation down real chains, joining of worker threads and "shutdown always returns"
   are decided on real stacks under the deterministic scheduler (monitor), per component by the
   machines of C10 (cancel-on-shutdown) and C07-C09; not by one cross-layer theorem. *)
From Coq Require Import List Bool Arith.
From ME Require Import Base.Machine Model.Gate.
Import ListNotations.

Definition reachable := reachable_from step init.

(* the first shutdown() wins, every later one is a no-op: the helper returns True at most once *)
Theorem c11_first_shutdown_wins : forall s, reachable s -> wins s <= 1 /\ (flag s = true <-> wins s = 1).
Proof. exact gate_first_shutdown_wins. Qed.

(* after the flag is set, every submit() that takes the gate raises RuntimeError ... *)
Theorem c11_submit_after_shutdown_raises : forall s t s', reachable s -> flag s = true ->
  thr s t = E0 -> step s (Acq t) = Some s' -> thr s' t = ERaise.
Proof. exact gate_submit_after_shutdown_raises. Qed.
(* ... and none ever enters a guarded submit body after the winning shutdown took the gate *)
Theorem c11_no_submit_after_shutdown : forall s, reachable s -> submits_after s = 0.
Proof. exact gate_no_submit_enters_after_win. Qed.

(* a racing submit is entirely before the flip (returns its future) or entirely after (raises):
   the gate is held by at most one thread *)
Theorem c11_racing_submit_atomic : forall s t u, reachable s ->
  holds (thr s t) = true -> holds (thr s u) = true -> t = u.
Proof. exact gate_mutual_exclusion. Qed.

(* a fresh chain of n layers receives exactly one shutdown per layer *)
Theorem c11_chain_shutdown_once_each : forall depth k, shutdown_calls depth (fun _ => false) k = seq k depth.
Proof. exact shutdown_calls_fresh. Qed.

Example c11_nonvacuous : exists s, reachable s /\ flag s = true /\ wins s = 1 /\ thr s 1 = ERaise.
Proof.
  eexists. split.
  - exists [CallShutdown 0; Acq 0; Rel 0 2; CallSubmit 1; Acq 1]. reflexivity.
  - repeat split; reflexivity.
Qed.

Print Assumptions c11_first_shutdown_wins.
Print Assumptions c11_submit_after_shutdown_raises.
Print Assumptions c11_no_submit_after_shutdown.
Print Assumptions c11_racing_submit_atomic.
Print Assumptions c11_chain_shutdown_once_each.
