(* C08 on the programs REGENERATED FROM THE SOURCE (Gen/PollSkel.v, tools/poll2coq.py: the method bodies of PollExecutor /
   PollFuture / PollDescriptor, common._Future and ShutdownHelper.ensure_alive as terms of the IR of Model/PollIR.v).
   PATH CONFORMANCE: for every method and every path through the generated term the sequence of visible operations (and of
   the thread-local reads / writes the machine's instructions stand for) is what Model/Poll.v's [step] executes for that API
   call / callback / yield / loop iteration, with Poll.v's own programs and continuations as the reference - and conversely
   every path of the machine program is a path of the term.
   Nothing but statements; proofs are in Proofs/PollIR_Cont.v (the reference tables ARE what [step] does) and
   Proofs/PollIR_Paths.v (kernel computations over the finite path sets of the generated terms). *)
From Coq Require Import ZArith List Arith Bool.
From ME Require Import Base.Machine Base.Fut Base.GenPrelude Model.Poll Model.PollIR Model.PollIRSem Gen.PollSkel
  Proofs.PollIR_Cont Proofs.PollIR_Paths Proofs.PollIR_Eff Proofs.PollIR_Prog Proofs.Poll_Refute.
Import ListNotations.

(* ---- 1. the reference: [cont_a] / [pm_trans] / the entry programs are [step]'s -------------------------------------------- *)
(* when [step] accepts an event matched against thread t's program i :: rest, the program becomes norm (c ++ rest) where c is
   the alternative [alt_of] (read off the event's pre-state and the fields named in Poll.v) of [cont_a] i *)
Theorem c08_step_continuation_src : forall s te s' t i rest,
  step s te = Some s' -> ev_thread (snd te) = Some t -> thr s t = i :: rest ->
  exists v x c, alt_of s (snd te) i < nalts i /\ cont_a (nfut s) v x i (alt_of s (snd te) i) = Some c /\
                thr s' t = norm s' (c ++ rest).
Proof. exact step_cont_alt. Qed.

(* the silent instruction ICancelFnQ (executor = self._executor; _run_cancel_fn's unlocked scan) is expanded at once, by one of
   its alternatives *)
Theorem c08_norm_continuation_src : forall s j r,
  exists v alt c, alt < nalts (ICancelFnQ j) /\ cont_a 0 v 0 (ICancelFnQ j) alt = Some c /\ norm s (ICancelFnQ j :: r) = c ++ r.
Proof. exact norm_cont. Qed.

Theorem c08_step_frame_src : forall s te s' t t',
  step s te = Some s' -> ev_thread (snd te) = Some t -> t' <> t -> thr s' t' = thr s t'.
Proof. exact step_frame. Qed.

(* the programs [step] installs at the entries *)
Theorem c08_entry_submit_src : forall s ts t s',
  step s (ts, ECallSubmit t) = Some s' -> thr s t = [] /\ thr s' t = [IGAcq; IDSubmit].
Proof. exact entry_submit. Qed.
Theorem c08_entry_cancel_src : forall s ts t j s',
  step s (ts, ECallCancel t j) = Some s' -> thr s t = [] /\ thr s' t = [IAcqM j; ICancelled j].
Proof. exact entry_cancel. Qed.
Theorem c08_entry_notify_src : forall s ts t s',
  step s (ts, ECallNotify t) = Some s' -> thr s t = [] /\ thr s' t = [IEvSet; IRet].
Proof. exact entry_notify. Qed.
Theorem c08_entry_yield_src : forall s ts t j o s',
  step s (ts, EYield t j o) = Some s' ->
  t = poller /\ thr s t = [] /\ (exists sn, pmode s = PBody sn /\ issome (lookup j sn) = true) /\ thr s' t = yield_prog j o.
Proof. exact entry_yield. Qed.
Theorem c08_entry_poll_raise_src : forall s ts t e s',
  step s (ts, EPollRaise t e) = Some s' ->
  t = poller /\ thr s t = [] /\ exists sn, pmode s = PBody sn /\ thr s' t = flat_map (fun p => exc_prog (fst p) e) sn.
Proof. exact entry_poll_raise. Qed.
Theorem c08_entry_env_finish_src : forall s ts t d pre o s',
  step s (ts, EEnvFinish t d pre o) = Some s' -> thr s t = [] /\
  (thr s' t = [] \/ thr s' t = (if dcb s d then resolved_prog d else []) ++ [IRetEnv d]).
Proof. exact entry_env_finish. Qed.
Theorem c08_entry_env_cancel_src : forall s ts t d pre s',
  step s (ts, EEnvCancel t d pre) = Some s' -> thr s t = [] /\
  (thr s' t = [] \/ thr s' t = (if dcb s d then resolved_prog d else []) ++ [IRetEnv d]).
Proof. exact entry_env_cancel. Qed.

(* the poll thread moves along pm_trans: snapshot; call; return / raise; wait (flag set | blocked; woken); clear *)
Theorem c08_poller_cycle_src : forall s te s',
  step s te = Some s' ->
  match pe_of s (snd te) with
  | Some e => pm_trans (pk_of (pmode s)) e = Some (pk_of (pmode s'))
  | None => pmode s' = pmode s
  end.
Proof. exact poller_cycle. Qed.

(* DATA: the state change of [step] for an instruction is the composition of the effects (Model/PollIRSem.v: eff) of the items
   the instruction stands for ([table]; [items_of] adds the early reset of the callback list to IRelMCbs) - every shared field
   (locks, the Future states and outcomes, _delegate / _executor / the callback list, _poll_descriptors, the event flag);
   the ghost fields are not compared.  With c08_step_continuation_src: instruction by instruction the machine does what the
   items of the generated paths say, control and data. *)
Theorem c08_step_effect_src : forall s te s' t i rest,
  step s te = Some s' -> ev_thread (snd te) = Some t -> thr s t = i :: rest ->
  data_eq s' (effs (mkCtx t (instr_j (nfut s) i) (instr_v i) (instr_e i) (ev_pre (snd te)) (ev_inline (snd te)))
                   (items_of i (alt_of s (snd te) i)) s).
Proof. exact step_effect. Qed.
Theorem c08_items_of_table_src : forall i alt, (forall d, i <> IRetEnv d) -> alt < nalts i ->
  exists pat, In (pat, alt) (table i) /\ items_of i alt = pat ++ match i with IRelMCbs _ => [(WCbReset, 0)] | _ => [] end.
Proof. exact items_of_table. Qed.
(* PROGRESS (the converse): when the items of alternative alt of instruction i are enabled AT THE LEVEL OF THE ITEMS
   (Model/PollIRSem.v: vis_enabled - same thread / object, lock free or held by the thread, the reported pre-state is the
   object's state, the answer is what that pre-state gives; reads_ok - the thread-local reads answer what the shared state
   holds; xsec_ok - an X-section without inner visible operation is one event) [step] accepts the event, at the current time,
   and takes exactly that alternative.  (cont_a = None: the answers [step] rejects; IRetB needs the ghost `cancelling`.) *)
Theorem c08_step_progress_src : forall s t i rest alt e vis sil,
  cfgd s = true -> thr s t = i :: rest ->
  In (vis :: sil, alt) (table i) -> cont_a (nfut s) 0 0 i alt <> None ->
  vis_enabled (mkCtx t (instr_j (nfut s) i) (instr_v i) (instr_e i) (ev_pre e) (ev_inline e))
              (match i with IRetB _ => true | _ => false end) vis e s = true ->
  xsec_ok sil e = true -> (forall b, i = IRetB b -> cancelling s t <> None) ->
  reads_ok (mkCtx t (instr_j (nfut s) i) (instr_v i) (instr_e i) (ev_pre e) (ev_inline e)) s sil = true ->
  exists s', step s (clock s, e) = Some s' /\ alt_of s e i = alt.
Proof. exact step_progress. Qed.
Theorem c08_norm_progress_src : forall s j r pat alt,
  In (pat, alt) (table (ICancelFnQ j)) -> reads_ok (mkCtx 0 j 0 0 Pending None) s pat = true ->
  exists v c, cont_a 0 v 0 (ICancelFnQ j) alt = Some c /\ norm s (ICancelFnQ j :: r) = c ++ r.
Proof. exact norm_progress. Qed.

(* non-vacuity of the two: a reachable state with a pending inlined callback, its event, the alternative, the continuation *)
Example c08_continuation_nonvacuous_src :
  let s := state_of (firstn 14 w_cancel) in
  let te := (0%Z, EFD 2 0 0 Finished) in
  accepted (firstn 14 w_cancel) = true /\
  thr s 2 = [IDCancelledQ 0; IRetEnv 0] /\ ev_thread (snd te) = Some 2 /\
  alt_of s (snd te) (IDCancelledQ 0) = 1 /\
  items_of (IDCancelledQ 0) 1 = [(ODCancelled, 0); (RDExc, 0); (WMkDescriptor, 0)] /\
  exists s', step s te = Some s' /\ thr s' 2 = register_prog 0 100 ++ [IRetEnv 0] /\ descs s' = descs s.
Proof. exact cont_nonvacuous. Qed.

(* ---- 2. what conformance means ------------------------------------------------------------------------------------------ *)
Theorem c08_conforms_meaning_src : forall jj vv ee entry ps,
  conforms jj vv ee entry ps = true ->
  (forall p, In p ps -> exists alts, conform jj vv ee 200 entry (clean p) = Some alts /\ In alts (mexplore jj vv ee 200 entry)) /\
  (forall alts, In alts (mexplore jj vv ee 200 entry) -> exists p, In p ps /\ conform jj vv ee 200 entry (clean p) = Some alts).
Proof. exact conforms_spec. Qed.

(* ---- 3. path conformance of the generated methods ------------------------------------------------------------------------- *)
Theorem c08_submit_paths_src : forall j v e, conforms j v e [IGAcq; IDSubmit] (paths_api body MSubmit) = true.
Proof. exact conf_submit. Qed.
Theorem c08_cancel_paths_src : forall j v e, conforms j v e [IAcqM j; ICancelled j] (paths_api body MCancel) = true.
Proof. exact conf_cancel. Qed.
Theorem c08_notify_paths_src : forall j v e, conforms j v e [IEvSet; IRet] (paths_api body MNotify) = true.
Proof. exact conf_notify. Qed.
Theorem c08_delegate_resolved_paths_src : forall j v e, conforms j v e (resolved_prog j) (paths body MDelegateResolved) = true.
Proof. exact conf_delegate_resolved. Qed.
Theorem c08_yield_result_paths_src : forall j v e, conforms j v e (yield_prog j (Ok v)) (paths body MYieldResult) = true.
Proof. exact conf_yield_result. Qed.
Theorem c08_yield_exception_paths_src : forall j v e, conforms j v e (yield_prog j (Err e)) (paths body MYieldException) = true.
Proof. exact conf_yield_exception. Qed.
Theorem c08_clear_executor_paths_src : forall j v e, conforms j v e [IXDereg j] (paths body MClearExecutor) = true.
Proof. exact conf_clear_executor. Qed.
Theorem c08_set_result_paths_src : forall j v e, conforms j v e (res_prog j v) (paths body MSetResult) = true.
Proof. exact conf_set_result. Qed.
Theorem c08_try_set_result_paths_src : forall j v e, conforms j v e (res_prog j v) (paths body MTrySetResult) = true.
Proof. exact conf_try_set_result. Qed.
Theorem c08_copy_exception_paths_src : forall j v e, conforms j v e (exc_prog j e) (paths body MCopyException) = true.
Proof. exact conf_copy_exception. Qed.
Theorem c08_set_exception_paths_src : forall j v e, conforms j v e [IAcqM j; IFSetExc j e] (paths body MSetException) = true.
Proof. exact conf_set_exception. Qed.
Theorem c08_clear_delegate_paths_src : forall j v e, conforms j v e [IAcqMClr j; IRelM j] (paths body MClearDelegate) = true.
Proof. exact conf_clear_delegate. Qed.
Theorem c08_register_poll_paths_src : forall j v e,
  map (@hd item (OFuel, 0)) (paths body MRegisterPoll) = [(WMkDescriptor, 0)] /\
  conforms j v e (register_prog j v) (map (@tl item) (paths body MRegisterPoll)) = true.
Proof. exact conf_register_poll. Qed.
Theorem c08_deregister_poll_paths_src : paths body MDeregisterPoll = [[(OAcq LX, 0); (WDescFilter, 0); (ORel LX, 0)]].
Proof. exact conf_deregister_poll. Qed.
(* one iteration of _poll_loop (with _run_poll_fn inlined) = the cycles of pm_trans; the snapshot is failed by exc_prog *)
Theorem c08_poll_loop_paths_src : forall j v e, loop_conforms j v e (paths body MPollLoop) = true.
Proof. exact conf_poll_loop. Qed.

(* non-vacuity: sizes of the path sets; a wrong reference program is refuted by the same check *)
Example c08_path_counts_src :
  length (paths_api body MSubmit) = 15 /\ length (paths_api body MCancel) = 99 /\ length (paths body MPollLoop) = 13 /\
  length (mexplore 0 0 0 200 [IGAcq; IDSubmit]) = 15 /\ length (mexplore 0 0 0 200 [IAcqM 0; ICancelled 0]) = 91 /\
  cycles 10 KTop = [[0; 1; 2; 4; 7]; [0; 1; 2; 5; 6; 7]; [0; 1; 3; 4; 7]; [0; 1; 3; 5; 6; 7]].
Proof. exact path_counts. Qed.
Example c08_conformance_sensitive_src :
  conforms 0 0 0 [IGAcq] (paths_api body MSubmit) = false /\
  conforms 0 0 0 [IXAcqReg 0 0; IEvSet; IAcqMClr 0; IRelM 0; IXRel] (map (@tl item) (paths body MRegisterPoll)) = false /\
  conforms 0 0 0 [IAcqM 0; IFSetRes 0 0] (paths body MSetResult) = false.
Proof. exact conf_sensitive. Qed.

Print Assumptions c08_step_continuation_src.
Print Assumptions c08_norm_continuation_src.
Print Assumptions c08_step_frame_src.
Print Assumptions c08_entry_submit_src.
Print Assumptions c08_entry_cancel_src.
Print Assumptions c08_entry_notify_src.
Print Assumptions c08_entry_yield_src.
Print Assumptions c08_entry_poll_raise_src.
Print Assumptions c08_entry_env_finish_src.
Print Assumptions c08_entry_env_cancel_src.
Print Assumptions c08_poller_cycle_src.
Print Assumptions c08_step_effect_src.
Print Assumptions c08_items_of_table_src.
Print Assumptions c08_step_progress_src.
Print Assumptions c08_norm_progress_src.
Print Assumptions c08_conforms_meaning_src.
Print Assumptions c08_submit_paths_src.
Print Assumptions c08_cancel_paths_src.
Print Assumptions c08_notify_paths_src.
Print Assumptions c08_delegate_resolved_paths_src.
Print Assumptions c08_yield_result_paths_src.
Print Assumptions c08_yield_exception_paths_src.
Print Assumptions c08_clear_executor_paths_src.
Print Assumptions c08_set_result_paths_src.
Print Assumptions c08_try_set_result_paths_src.
Print Assumptions c08_copy_exception_paths_src.
Print Assumptions c08_set_exception_paths_src.
Print Assumptions c08_clear_delegate_paths_src.
Print Assumptions c08_register_poll_paths_src.
Print Assumptions c08_deregister_poll_paths_src.
Print Assumptions c08_poll_loop_paths_src.
