(* C05 -- Retry: exact attempt accounting, sequential attempts, exact back-off.
   Statements only; kernels are regenerated from retry.py (Gen/RetryGen.v), proofs in
   Proofs/Retry_Spec.v (kernels) and Proofs/Retry_Inv*.v (interleaving machine Model/Retry.v). *)
From Coq Require Import List ZArith QArith Qminmax Bool Arith.
From ME Require Import Base.Machine Base.Fut Base.GenPrelude Gen.RetryGen Proofs.Retry_Spec Model.Retry Proofs.Retry_InvA.
Import ListNotations.

(* delays are min(sleep * exponent^(k-1), max_sleep), for all rational parameters and all k *)
Theorem c05_backoff_formula : forall sleep exponent max_sleep (k : Z),
  sleep_time sleep exponent max_sleep k == Qmin (sleep * Qpower exponent (k - 1)) max_sleep.
Proof. exact sleep_time_spec. Qed.

Theorem c05_should_retry_iff : forall isinst max_attempts bases attempt exc,
  should_retry isinst max_attempts bases attempt exc = true <->
  exists e, exc = Some e /\ (attempt < max_attempts)%Z /\ exists b, In b bases /\ isinst e b = true.
Proof. exact should_retry_spec. Qed.

(* with ExceptionRetryPolicy the callable runs exactly until the first success, the first exception
   outside exception_base, or max_attempts *)
Theorem c05_exception_policy_runs : forall isinst max_attempts bases script fuel,
  (1 <= max_attempts)%Z -> (Z.to_nat max_attempts <= fuel)%nat ->
  let n := seq_attempts isinst max_attempts bases script fuel 1 in
  (1 <= n)%nat /\ (Z.of_nat n <= max_attempts)%Z /\
  (forall i, (1 <= i < n)%nat -> retryable isinst bases (script i)) /\
  (script n = None \/ ~ retryable isinst bases (script n) \/ Z.of_nat n = max_attempts).
Proof. exact exception_policy_runs. Qed.

(* the submit thread's choice: never a job whose attempt is in flight; a cancelled-while-waiting or
   due job first; otherwise the one with the earliest due time *)
Theorem c05_next_job_choice : forall now jobs,
  match get_next_job now jobs with
  | None => forall j, In j jobs -> rj_has_delegate j = true
  | Some r => In r jobs /\ rj_has_delegate r = false /\
              (rj_stop r = true \/ (rj_when r <= now)%Z \/
               forall j, In j jobs -> rj_has_delegate j = false ->
                         rj_stop j = false /\ (now < rj_when j)%Z /\ (rj_when r <= rj_when j)%Z)
  end.
Proof. exact get_next_job_spec. Qed.

(* a policy that raises ends retrying (the callable's own outcome is then copied, see machine) *)
Theorem c05_policy_raise_no_retry : forall st,
  eval_policy false Raises st = (false, None) /\ eval_policy false (Answer true) Raises = (false, None).
Proof. intros; split; reflexivity. Qed.

(* non-vacuity: the defaults regenerated from the source and a concrete evaluation *)
Example c05_defaults : default_max_attempts = 3%Z /\ default_sleep = 1%Z /\ default_exponent = 2%Z /\ default_max_sleep = 120%Z.
Proof. repeat split; reflexivity. Qed.
Example c05_formula_instance : sleep_time 1 2 120 3 == 4 /\ sleep_time 1 2 120 9 == 120.
Proof. split; vm_compute; reflexivity. Qed.
Example c05_runs_instance :
  seq_attempts (fun e b => Nat.eqb e b) 3%Z [7%nat] (fun k => if (k <? 3)%nat then Some 7%nat else None) 5%nat 1%nat = 3%nat.
Proof. reflexivity. Qed.

(* ---- the interleaving machine Model/Retry.v ---------------------------------------------------- *)
Close Scope Q_scope.
Definition reachable := reachable_from step init.

(* attempts of one submission are strictly sequential: at most one delegate future per retry
   future is not done, in every reachable state (any number of submissions, threads, cancels) *)
Theorem c05_attempts_sequential : forall s, reachable s -> forall d1 d2,
  d1 < ndel s -> d2 < ndel s -> dfor s d1 = dfor s d2 ->
  fdone (ds s d1) = false -> fdone (ds s d2) = false -> d1 = d2.
Proof. exact retry_one_inflight. Qed.

(* back-off: an attempt is handed to the delegate no earlier than the `when` of its job record ... *)
Theorem c05_backoff_not_early : forall s, reachable s -> forall j d a ts w,
  In (HDSubmit j d a ts w) (hist s) -> (w <= ts)%Z.
Proof. exact retry_backoff_not_early. Qed.

(* ... and for a retry (attempt a+1, a >= 1) that `when` is the time the policy was evaluated for
   attempt a plus the delay it returned *)
Theorem c05_when_is_retry_time_plus_delay : forall s, reachable s -> forall j d a ts w,
  In (HDSubmit j d (S a) ts w) (hist s) -> 1 <= a ->
  exists delta ts1, In (HRetry j a delta ts1) (hist s) /\ w = (ts1 + delta)%Z.
Proof. exact retry_when_is_retry_plus_delay. Qed.

(* the submit thread's timed wait is computed from the scan it just made: it sleeps exactly until the
   earliest `when` among the jobs waiting for a retry, and only when none of them is due or stopped *)
Theorem c05_wait_is_exact : forall s ts w s', reachable s ->
  step s (ts, EXSec worker w) = Some s' -> thr s worker = [] ->
  forall tau rest, thr s' worker = IWWait (Some tau) :: rest ->
  exists r, In r (jobs s) /\ jdel (recs s r) = None /\ tau = (jwhen (recs s r) - ts)%Z /\
    forall r', In r' (jobs s) -> jdel (recs s r') = None ->
      jstop (recs s r') = false /\ (ts < jwhen (recs s r'))%Z /\ (jwhen (recs s r) <= jwhen (recs s r'))%Z.
Proof. exact retry_wait_exact. Qed.


Print Assumptions c05_backoff_formula.
Print Assumptions c05_should_retry_iff.
Print Assumptions c05_exception_policy_runs.
Print Assumptions c05_next_job_choice.
Print Assumptions c05_policy_raise_no_retry.
Print Assumptions c05_attempts_sequential.
Print Assumptions c05_backoff_not_early.
Print Assumptions c05_when_is_retry_time_plus_delay.
Print Assumptions c05_wait_is_exact.
