(* C10 on the program REGENERATED FROM THE SOURCE: the theorems of Props/C10.v for every reachable state of the
   IR machine (Model/CosIR.v) running Gen/CosSkel.v (tools/skel2coq.py: CancelOnShutdownExecutor.submit /
   .shutdown with ShutdownHelper.__call__ / ensure_alive inlined), and the equivalence of that machine with the
   hand-written acceptor Model/Cos.v.  Nothing but statements; proofs are in Proofs/CosIR_Sim*.v, CosIR_Transfer.v. *)
From Coq Require Import List Arith Bool.
From ME Require Import Base.Machine Base.Fut Model.Cos Model.CosIR Gen.CosSkel
  Proofs.CosIR_Sim Proofs.CosIR_Sim2 Proofs.CosIR_Transfer.
Import ListNotations.

(* the machine the theorems are about: the generic IR semantics applied to the two generated programs *)
Definition src_step : ist -> ev -> option ist := istep submit_prog shutdown_prog.
Definition src_reachable (s : ist) : Prop := reachable_from src_step iinit s.

(* the generated programs never nest the same lock (the IR semantics has no re-entrant acquisition) *)
Theorem c10_generated_programs_wf_src : wf_prog submit_prog = true /\ wf_prog shutdown_prog = true.
Proof. exact generated_programs_wf. Qed.

(* ---- tie: the generated program and Cos.v are trace equivalent ---------------------------------- *)
(* from related states every event is accepted by both machines, with related successors, or rejected by both *)
Theorem c10_lockstep_src : forall s cs e, R s cs ->
  match src_step s e, step cs e with
  | Some s', Some cs' => R s' cs'
  | None, None => True
  | _, _ => False
  end.
Proof. exact lockstep. Qed.

Theorem ir_trace_accepted_by_cos : forall es s, run src_step iinit es = Some s ->
  exists cs, run step init es = Some cs /\ R s cs.
Proof. exact CosIR_Transfer.ir_trace_accepted_by_cos. Qed.

Theorem cos_trace_accepted_by_ir : forall es cs, run step init es = Some cs ->
  exists s, run src_step iinit es = Some s /\ R s cs.
Proof. exact CosIR_Transfer.cos_trace_accepted_by_ir. Qed.

Theorem c10_trace_equivalent_src : forall es, run src_step iinit es <> None <-> run step init es <> None.
Proof. exact ir_cos_trace_equivalent. Qed.

(* the lockstep runner's verdict on a wire trace would be the same with the generated program in place of Cos.v *)
Theorem c10_same_verdict_src : forall ls, iaccept submit_prog shutdown_prog ls = accept ls.
Proof. exact iaccept_eq_accept. Qed.

(* every invariant of Cos.v transfers *)
Theorem c10_invariant_transfer_src : forall (P : st -> Prop),
  (forall cs, reachable_from step init cs -> P cs) ->
  forall s, src_reachable s -> exists cs, R s cs /\ P cs.
Proof. exact ir_invariant_transfer. Qed.

(* ---- the C10 theorems, on the generated program ------------------------------------------------- *)
(* When the shutdown() call that flipped the flag has returned: the wrapped executor has been shut down exactly
   once, and every delegate future ever created is done or has received exactly one cancel(); none more than one. *)
Theorem c10_cover_once_src : forall s, src_reachable s -> ishut_ret (sh s) = true ->
  idshut (sh s) = 1 /\
  forall f, f < icreated (sh s) ->
    icancels (sh s) f <= 1 /\ (fdone (ifs (sh s) f) = true \/ icancels (sh s) f = 1).
Proof. exact ir_cover_once. Qed.

Theorem c10_at_most_once_src : forall s, src_reachable s -> forall f, icancels (sh s) f <= 1.
Proof. exact ir_at_most_once. Qed.

Theorem c10_delegate_shutdown_at_most_once_src : forall s, src_reachable s -> idshut (sh s) <= 1.
Proof. exact ir_dshut_le1. Qed.

(* once the flag is set no thread is between the check and the release of the gate (p ranges over the pcs
   S1 S2 S3 S4 S5 of Cos.v; [at_pc s t p]: thread t's continuation and locals are those pc p stands for) ... *)
Definition past_check (p : pc) : bool :=
  match p with S1 | S2 | S3 _ | S4 _ | S5 _ => true | _ => false end.
Theorem c10_no_submit_in_flight_after_flag_src : forall s, src_reachable s -> iflag (sh s) = true ->
  forall t p, past_check p = true -> ~ at_pc s t p.
Proof. exact ir_no_inflight_after_flag. Qed.

(* ... in terms of the IR alone: once the flag is set, no delegate.submit can happen, from any thread *)
Theorem c10_no_delegate_submit_after_flag_src : forall s, src_reachable s -> iflag (sh s) = true ->
  forall t f d, src_step s (DSubmit t f d) = None.
Proof. exact ir_no_delegate_submit_after_flag. Qed.

(* ... and a submit() (the whole generated program still to run) that takes the gate after the flag flipped is left
   with exactly: release the gate, raise to the caller *)
Theorem c10_submit_after_flag_raises_src : forall s t s', iflag (sh s) = true ->
  ithr s t = TRun (map IS submit_prog ++ [KRet false]) lv0 ->
  src_step s (Acq t LG) = Some s' -> ithr s' t = TRun [KRel LG; KRet true] lv0 /\ iflag (sh s') = true.
Proof. exact ir_submit_after_flag_raises. Qed.

(* every future a call is about to return to its caller is covered *)
Theorem c10_returned_future_covered_src : forall s, src_reachable s -> ishut_ret (sh s) = true ->
  forall t lv f, ithr s t = TRun [KRet false] lv -> l_ret lv = RFut f ->
  fdone (ifs (sh s) f) = true \/ icancels (sh s) f = 1.
Proof. exact ir_returned_covered. Qed.

(* no deadlock: whenever some call is in progress, some thread can take a step *)
Definition thread_event (e : ev) : bool :=
  match e with CallSubmit _ | CallShutdown _ | EnvRun _ _ | EnvFinish _ _ => false | _ => true end.
Theorem c10_no_deadlock_src : forall s, src_reachable s -> (exists t, ithr s t <> TIdle) ->
  exists e s', thread_event e = true /\ src_step s e = Some s'.
Proof. exact ir_no_deadlock. Qed.

(* ---- non-vacuity / examples ------------------------------------------------------------------------ *)
(* submit (thread 0) racing with shutdown (thread 1), both orders at the gate, accepted by the generated program:
   (shut_ret, delegate shutdowns, futures created, cancels of 0 and 1, their states, tracked set, flag) at the end *)
Example c10_race_accepted_src :
  option_map summary (run src_step iinit race_trace) = Some (true, 1, 1, 1, 0, Cancelled, Pending, [], true) /\
  option_map summary (run src_step iinit race_trace2) = Some (true, 1, 0, 0, 0, Pending, Pending, [], true).
Proof. exact ir_race_accepted. Qed.

Example c10_nonvacuous_src : exists s, src_reachable s /\ ishut_ret (sh s) = true /\ icreated (sh s) = 2 /\
  icancels (sh s) 1 = 1 /\ ifs (sh s) 0 = Finished /\ ifs (sh s) 1 = Cancelled.
Proof. exact ir_nonvacuous. Qed.

Example c10_flag_state_nonvacuous_src : exists s, src_reachable s /\ iflag (sh s) = true /\
  ithr s 0 = TRun (map IS submit_prog ++ [KRet false]) lv0 /\ exists s', src_step s (Acq 0 LG) = Some s'.
Proof. exact ir_flag_state_nonvacuous. Qed.

Example c10_returning_state_nonvacuous_src : exists s t lv f, src_reachable s /\ ishut_ret (sh s) = true /\
  ithr s t = TRun [KRet false] lv /\ l_ret lv = RFut f.
Proof. exact ir_returning_state_nonvacuous. Qed.

Print Assumptions c10_generated_programs_wf_src.
Print Assumptions c10_lockstep_src.
Print Assumptions ir_trace_accepted_by_cos.
Print Assumptions cos_trace_accepted_by_ir.
Print Assumptions c10_trace_equivalent_src.
Print Assumptions c10_same_verdict_src.
Print Assumptions c10_invariant_transfer_src.
Print Assumptions c10_cover_once_src.
Print Assumptions c10_at_most_once_src.
Print Assumptions c10_delegate_shutdown_at_most_once_src.
Print Assumptions c10_no_submit_in_flight_after_flag_src.
Print Assumptions c10_no_delegate_submit_after_flag_src.
Print Assumptions c10_submit_after_flag_raises_src.
Print Assumptions c10_returned_future_covered_src.
Print Assumptions c10_no_deadlock_src.
Print Assumptions c10_race_accepted_src.
Print Assumptions c10_nonvacuous_src.
