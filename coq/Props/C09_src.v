(* C09 -- source facts.  The machines and monitors this property rests on were written against, and validated on,
   these definitions of /repo; tools/srcfacts.py regenerates their normal-form digests on every run (coq/Gen/Src_*.v).
   Statements only.  Written by `tools/srcfacts.py --props` from PROP_MODULES. *)
From Coq Require Import List String.
From ME Require Import Model.SrcExpected Gen.Src_timeout Gen.Src_map Gen.Src_common Gen.Src_ftimeout Gen.Src_helpers Gen.Src_event Gen.Src_logwrap Gen.Src_metrics_null
  Proofs.Src_ok_timeout Proofs.Src_ok_map Proofs.Src_ok_common Proofs.Src_ok_ftimeout Proofs.Src_ok_helpers Proofs.Src_ok_event Proofs.Src_ok_logwrap Proofs.Src_ok_metrics_null.

(* more_executors/_impl/timeout.py *)
Theorem c09_source_timeout : Src_timeout.facts = expected_timeout.
Proof. exact src_timeout_ok. Qed.
(* more_executors/_impl/map.py *)
Theorem c09_source_map : Src_map.facts = expected_map.
Proof. exact src_map_ok. Qed.
(* more_executors/_impl/common.py *)
Theorem c09_source_common : Src_common.facts = expected_common.
Proof. exact src_common_ok. Qed.
(* more_executors/_impl/futures/timeout.py *)
Theorem c09_source_ftimeout : Src_ftimeout.facts = expected_ftimeout.
Proof. exact src_ftimeout_ok. Qed.
(* more_executors/_impl/helpers.py *)
Theorem c09_source_helpers : Src_helpers.facts = expected_helpers.
Proof. exact src_helpers_ok. Qed.
(* more_executors/_impl/event.py *)
Theorem c09_source_event : Src_event.facts = expected_event.
Proof. exact src_event_ok. Qed.
(* more_executors/_impl/logwrap.py *)
Theorem c09_source_logwrap : Src_logwrap.facts = expected_logwrap.
Proof. exact src_logwrap_ok. Qed.
(* more_executors/_impl/metrics/null.py *)
Theorem c09_source_metrics_null : Src_metrics_null.facts = expected_metrics_null.
Proof. exact src_metrics_null_ok. Qed.

Print Assumptions c09_source_timeout.
Print Assumptions c09_source_map.
Print Assumptions c09_source_common.
Print Assumptions c09_source_ftimeout.
Print Assumptions c09_source_helpers.
Print Assumptions c09_source_event.
Print Assumptions c09_source_logwrap.
Print Assumptions c09_source_metrics_null.
