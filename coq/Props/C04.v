(* C04 -- no deadlock among API calls and internal threads.  Statements only.
   Generic lock-order theorem: Model/Locks.v, Proofs/Locks_Proofs.v.  PARTIAL: see DESIGN.md. *)
From Coq Require Import List Bool Arith.
From ME Require Import Base.Machine Model.Locks Proofs.Locks_Proofs.
Import ListNotations.

(* If every thread's lock program respects one strict lock order (re-entrant re-acquisition exempt)
   and is balanced, then no reachable state is a deadlock -- any number of threads, locks, steps *)
Theorem c04_lock_order_no_deadlock : forall n progs,
  (forall t, ordered [] (progs t) = true) -> (forall t, n <= t -> progs t = []) ->
  forall s, reachable_from step (init_of progs) s ->
  (exists t, prog s t <> []) -> exists t s', step s t = Some s'.
Proof. exact lock_order_no_deadlock. Qed.

(* the known finding G10 in the abstract: lock 1 = an outer shutdown gate, lock 2 = the retry
   executor's lock.  A submitter takes gate then executor lock; the retry submit thread holds the
   executor lock while inline user code submits again (gate): opposite orders, and they deadlock *)
Theorem c04_retry_inline_nested_submit_refuted :
  exists s, reachable_from step (init_of (fun t => match t with 0 => [Acq 1; Acq 2; Rel 2; Rel 1] | 1 => [Acq 2; Acq 1; Rel 1; Rel 2] | _ => [] end)) s /\
            (exists t, prog s t <> []) /\ forall t, step s t = None.
Proof. exact opposite_orders_deadlock. Qed.

(* non-vacuity: the library's submit path (gate, then executor lock, both re-entrant) is ordered *)
Example c04_submit_path_ordered : ordered [] [Acq 1; Acq 1; Acq 2; Rel 2; Rel 1; Rel 1] = true.
Proof. reflexivity. Qed.

Print Assumptions c04_lock_order_no_deadlock.
Print Assumptions c04_retry_inline_nested_submit_refuted.
