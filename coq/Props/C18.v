(* C18 -- faults in user code stay with their own future; worker threads survive.
   Statements only; each is a fact about one component's machine or law, proved in that component's files:
     map / error functions     Model/MapLaw.v        (a raising function becomes the outcome of its own future)
     poll / cancel function    Model/Poll.v          (a raising poll fails exactly the futures it was shown, the
                                                      poll thread goes on; a raising cancel function vetoes)
     throttle count callable   Model/Throttle.v      (a raising callable keeps the last limit; submit never raises)
     f_zip / f_or / f_and      Model/Comb.v          (Props/Comb_F.v: c18_comb_no_thread_dies)
   PARTIAL: the cross-layer statement ("a fresh submission is still served after any fault on any stack") is
   decided on real stacks under the deterministic scheduler (harness/p_c18.py), not by one theorem. *)
From Coq Require Import ZArith List Bool Arith.
From ME Require Import Base.Machine Base.Fut.
From ME Require Model.MapFut Model.MapLaw Proofs.MapLaw_Proofs.
From ME Require Model.Poll Proofs.Poll_Inv Proofs.Poll_Prov Proofs.Poll_Raise Proofs.Poll_Thms.
From ME Require Base.GenPrelude Gen.ThrottleGen Model.Throttle Proofs.Throttle_Spec Proofs.Throttle_Inv.
Import ListNotations.

(* ---- map / flat_map: an exception from fn or error_fn is the outcome of that future, nothing else -------- *)
Module M.
Import Model.MapFut Model.MapLaw Proofs.MapLaw_Proofs.
Theorem c18_map_fn_raise_is_own_outcome : forall k hasefn ea inner v e,
  map_law k true hasefn (Ok v) (ARaise e) ea inner = Some (Err e).
Proof. exact law_fn_raises. Qed.
Theorem c18_map_error_fn_raise_is_own_outcome : forall k hasfn fa inner e e',
  map_law k hasfn true (Err e) fa (ARaise e') inner = Some (Err e').
Proof. exact law_efn_raises. Qed.
End M.

(* ---- poll: a raising poll function --------------------------------------------------------------------- *)
Module P.
Import Model.Poll Proofs.Poll_Inv Proofs.Poll_Prov Proofs.Poll_Raise Proofs.Poll_Thms.
Definition reach (s : st) : Prop := reachable_from step init s.
(* when the poll thread goes back to waiting after a poll call that raised, every future that call was shown
   is done (failed with that exception unless it already had an outcome) - and the thread IS back waiting *)
Theorem c18_poll_raise_fails_shown : forall s tau e l, reach s ->
  pmode s = PRest tau -> thr s poller = [] -> last_end (hist s) = Some (e, l) ->
  forall j, In j (map fst l) -> fdone (ps s j) = true.
Proof. exact raise_done_lemma. Qed.
(* ... and only those: every outcome a poll future ever gets has a source that belongs to that very future
   (a yield for it, a raising poll call that had been shown it, the failure of its own delegate) *)
Theorem c18_poll_outcomes_have_own_source : forall s j, reach s ->
  forall o ts, In (HSet j o ts) (hist s) -> src (hist s) j o.
Proof. intros s j R. exact (proj2 (set_once_lemma s j R)). Qed.
(* a falsy answer or an exception of the cancel function vetoes that cancel() and nothing else *)
Theorem c18_cancel_fn_raise_vetoes : forall s, reach s -> veto_ok (hist s).
Proof. intros s R. exact (proj2 (cancel_fn_scope_lemma s R)). Qed.
End P.

(* ---- throttle: a raising count callable ----------------------------------------------------------------- *)
Module T.
Import Base.GenPrelude Gen.ThrottleGen Model.Throttle Proofs.Throttle_Spec Proofs.Throttle_Inv.
Definition reachable (s : st) : Prop := reachable_from step init s.
Theorem c18_count_raise_keeps_last : forall s ts t s', step s (ts, ECount t Raises) = Some s' ->
  last s' = last s /\ (forall rest, thr s t = ICount CH :: rest -> hlim s' = last s).
Proof. intros s ts t s' Hx. exact (count_eval_lemma s ts t Raises s' Hx). Qed.
Theorem c18_submit_never_raises : forall s, reachable s -> forall t ts, ~ In (HSubRaise t ts) (hist s).
Proof. exact no_sub_raise_lemma. Qed.
End T.

Print Assumptions M.c18_map_fn_raise_is_own_outcome.
Print Assumptions M.c18_map_error_fn_raise_is_own_outcome.
Print Assumptions P.c18_poll_raise_fails_shown.
Print Assumptions P.c18_poll_outcomes_have_own_source.
Print Assumptions P.c18_cancel_fn_raise_vetoes.
Print Assumptions T.c18_count_raise_keeps_last.
Print Assumptions T.c18_submit_never_raises.
