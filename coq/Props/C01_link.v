(* C01: the per-layer clauses of the reference evaluator Model/Stack.v agree with the component laws
   (MapLaw for map / flat_map / chains, the regenerated retry kernel Gen/RetryGen.v for retry). *)
From Coq Require Import List ZArith Bool Arith Lia.
From ME Require Import Base.GenPrelude Model.MapFut Model.MapLaw Gen.RetryGen Proofs.Retry_Spec Proofs.Stack_Link.
From ME Require Model.Stack.
Import ListNotations.

(* the value embedding is faithful on non-negative payloads, and layers with non-negative tags keep them so *)
Theorem c01_link_inj_faithful : forall o1 o2, nonneg o1 -> nonneg o2 -> inj o1 = inj o2 -> o1 = o2.
Proof. exact inj_faithful. Qed.
Theorem c01_link_nonneg : forall t r o, (0 <= t)%Z -> nonneg o -> nonneg (fst (Stack.apply_fn t r o)).
Proof. exact apply_fn_nonneg. Qed.

(* 1. LMap: fa is the answer of the layer's function when it is called (o = Ok v) *)
Theorem c01_link_map : forall t (r : bool) o (fa : answer) inner,
  (forall v, o = Stack.Ok v -> fa = if r then ARaise (Z.to_nat (2000 + t)) else ARet (Z.to_nat (Stack.tagv t v))) ->
  map_law KMap true false (inj o) fa ARaiseSame inner = Some (inj (fst (Stack.apply_fn t r o))) /\
  snd (Stack.apply_fn t r o) = fst (map_calls true false (inj o)).
Proof. exact link_map. Qed.

(* 2. LFlatMap: the function raises, or returns the future d = f_return(tagged value) *)
Theorem c01_link_flat_map : forall t (r : bool) o d inner,
  (forall v, o = Stack.Ok v -> r = false -> inner d = Some (Ok (Z.to_nat (Stack.tagv t v)))) ->
  map_law KFlat true false (inj o) (if r then ARaise (Z.to_nat (2000 + t)) else ARetFut d) ARaiseSame inner
    = Some (inj (fst (Stack.apply_fn t r o))) /\
  snd (Stack.apply_fn t r o) = fst (map_calls true false (inj o)).
Proof. exact link_flat_map. Qed.

(* 3. a stack of map layers (raising ones included; tags >= 0) is MapLaw's chain, innermost function first *)
Theorem c01_link_chain : forall ls script k, map_only ls -> nonneg (script k) ->
  inj (fst (fst (Stack.eval ls script k))) = vchain (rev (map vfun_of ls)) (inj (script k)) /\
  snd (fst (Stack.eval ls script k)) = S k /\
  snd (Stack.eval ls script k) = vcalls (rev (map vfun_of ls)) (inj (script k)) /\
  nonneg (fst (fst (Stack.eval ls script k))).
Proof. exact link_chain. Qed.
Theorem c01_link_chain_compose : forall ls script k, map_only ls -> nonneg (script k) ->
  inj (fst (fst (Stack.eval ls script k))) = vapply (vcompose_all (rev (map vfun_of ls))) (inj (script k)).
Proof. exact link_chain_compose. Qed.

(* 4. LRetry m: kernel instance should_retry any_exc (Z.of_nat m) [0] (isinstance always true, one base),
   attempts numbered from 1, kscript i = None / Some 0 for success / failure of the i-th evaluation of the
   layers below; any fuel >= m gives the same result as fuel = m *)
Theorem c01_link_retry_fuel : forall eb m f1 f2 a k calls, m - a <= f1 -> m - a <= f2 ->
  Stack.retry_loop eb f1 a m k calls = Stack.retry_loop eb f2 a m k calls.
Proof. exact retry_loop_fuel. Qed.
Theorem c01_link_retry : forall m below script k fuel, m <= fuel ->
  let eb := Stack.eval below script in
  Stack.eval (Stack.LRetry m :: below) script k = Stack.retry_loop eb fuel 1 m k 0 /\
  Stack.eval (Stack.LRetry m :: below) script k =
    run_n eb (seq_attempts any_exc (Z.of_nat m) [0] (kscript eb k) fuel 1 - 1) k 0.
Proof. exact link_retry. Qed.
Theorem c01_link_retry_runs : forall m below script k fuel, 1 <= m -> m <= fuel ->
  let eb := Stack.eval below script in
  let n := seq_attempts any_exc (Z.of_nat m) [0] (kscript eb k) fuel 1 in
  1 <= n <= m /\
  (forall i, 1 <= i < n -> exists e, fst (fst (eb (pos eb k (i - 1)))) = Stack.Err e) /\
  ((exists v, fst (fst (eb (pos eb k (n - 1)))) = Stack.Ok v) \/ n = m) /\
  fst (fst (Stack.eval (Stack.LRetry m :: below) script k)) = fst (fst (eb (pos eb k (n - 1)))) /\
  snd (fst (Stack.eval (Stack.LRetry m :: below) script k)) = pos eb k n.
Proof. exact link_retry_runs. Qed.
Theorem c01_link_retry_zero : forall below script k fuel,
  seq_attempts any_exc 0%Z [0] (kscript (Stack.eval below script) k) fuel 1 = 1 /\
  Stack.eval (Stack.LRetry 0 :: below) script k = (let '(o, k', c) := Stack.eval below script k in (o, k', c)).
Proof. exact link_retry_zero. Qed.

(* 5. transparent layers; poll *)
Theorem c01_link_ident : forall ls script k, Stack.eval (Stack.LIdent :: ls) script k = Stack.eval ls script k.
Proof. exact link_ident. Qed.
Theorem c01_link_poll : forall t below script k,
  Stack.eval (Stack.LPoll t :: below) script k =
    (let '(o, k', c) := Stack.eval below script k in
     let '(o', n) := Stack.apply_fn t false o in (o', k', c + n)) /\
  Stack.eval (Stack.LPoll t :: below) script k = Stack.eval (Stack.LMap t false :: below) script k.
Proof. exact link_poll. Qed.

Print Assumptions c01_link_inj_faithful.
Print Assumptions c01_link_nonneg.
Print Assumptions c01_link_map.
Print Assumptions c01_link_flat_map.
Print Assumptions c01_link_chain.
Print Assumptions c01_link_chain_compose.
Print Assumptions c01_link_retry_fuel.
Print Assumptions c01_link_retry.
Print Assumptions c01_link_retry_runs.
Print Assumptions c01_link_retry_zero.
Print Assumptions c01_link_ident.
Print Assumptions c01_link_poll.
