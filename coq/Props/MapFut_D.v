(* Statements about the MapFuture/FlatMapFuture machine (Model/MapFut.v) for C13 and C02. *)
From Coq Require Import List Bool Arith.
From ME Require Import Base.Machine Base.Fut Model.MapFut Model.MapLaw Proofs.MapFut_InvD.
Import ListNotations.

Definition reachable := reachable_from step init.
Definition inner_of (s : st) (d : nat) : option outcome :=
  if fstate_eqb (es s d) Finished then eout s d else None.

(* C13: fn and error_fn are each called at most once per future, and never both *)
Theorem c13_fn_at_most_once : forall s, reachable s -> forall l1 j d a l2,
  hist s = l1 ++ HFn j d a :: l2 -> (forall d' a', ~ In (HFn j d' a') l2) /\ (forall d' a', ~ In (HEfn j d' a') (hist s)).
Proof. exact mapfut_fn_once. Qed.
Theorem c13_efn_at_most_once : forall s, reachable s -> forall l1 j d a l2,
  hist s = l1 ++ HEfn j d a :: l2 -> (forall d' a', ~ In (HEfn j d' a') l2) /\ (forall d' a', ~ In (HFn j d' a') (hist s)).
Proof. exact mapfut_efn_once. Qed.

(* C13: whatever outcome a map / flat_map future is resolved with is the one the sequential law
   gives for its input's outcome and the answers of the user functions it called *)
Theorem c13_outcome_law : forall s, reachable s -> forall j o, In (HSet j o) (hist s) ->
  exists d din, In (HNew j d) (hist s) /\ eout s d = Some din /\ es s d = Finished /\
    match din with
    | Ok _ => if mfn s j then exists fa, In (HFn j d fa) (hist s) /\ apply_ans (mkind s j) fa din (inner_of s) = Some o
              else o = din
    | Err _ => if mefn s j then exists ea, In (HEfn j d ea) (hist s) /\ apply_ans (mkind s j) ea din (inner_of s) = Some o
               else o = din
    end.
Proof. exact mapfut_outcome_law. Qed.

(* C02: the terminal outcome is set at most once and never changes *)
Theorem c02_terminal_once : forall s, reachable s -> forall l1 j o l2,
  hist s = l1 ++ HSet j o :: l2 ->
  (forall o', ~ In (HSet j o') l2) /\ ~ In (HCancelled j) l2 /\ ~ In (HCancelled j) l1 /\ (forall o', ~ In (HSet j o') l1) /\
  ms s j = Finished /\ mout s j = Some o.
Proof. exact mapfut_terminal_once. Qed.

(* C02: cancel() returns a bool; True means cancelled and it stays cancelled; False on a future that
   finished normally; (no program ever contains IRetRaise: cancel never raises) *)
Theorem c02_cancel_true_stays : forall s, reachable s -> forall j,
  In (HCancelRet j true) (hist s) -> fcancelled (ms s j) = true.
Proof. exact mapfut_cancel_true_stays. Qed.
Theorem c02_cancel_false_on_finished : forall s, reachable s -> forall l1 j b l2,
  hist s = l1 ++ HCancelRet j b :: l2 -> (exists o, In (HSet j o) l2) -> b = false.
Proof. exact mapfut_cancel_false_on_finished. Qed.
Theorem c02_no_api_call_raises : forall s, reachable s -> forall t, ~ In IRetRaise (thr s t) /\ ~ In IDead (thr s t).
Proof. exact mapfut_no_raise. Qed.

(* C02: every done-callback runs at most once, only once the future is done, and -- when nothing is
   in progress any more -- exactly once if the future is done, whether it was added before, during
   or after completion *)
Theorem c02_callback_at_most_once : forall s, reachable s -> forall l1 j c l2,
  hist s = l1 ++ HCb j c :: l2 -> ~ In (HCb j c) l2 /\ ((exists o, In (HSet j o) l2) \/ In (HCancelled j) l2).
Proof. exact mapfut_callback_once. Qed.
Definition quiescent (s : st) := forall t, thr s t = [].
Theorem c02_callback_exactly_once_at_quiescence : forall s, reachable s -> quiescent s -> forall j c,
  In c (mreg s j) -> fdone (ms s j) = true -> In (HCb j c) (hist s).
Proof. exact mapfut_callback_all_run. Qed.

Print Assumptions c13_fn_at_most_once.
Print Assumptions c13_efn_at_most_once.
Print Assumptions c13_outcome_law.
Print Assumptions c02_terminal_once.
Print Assumptions c02_cancel_true_stays.
Print Assumptions c02_cancel_false_on_finished.
Print Assumptions c02_no_api_call_raises.
Print Assumptions c02_callback_at_most_once.
Print Assumptions c02_callback_exactly_once_at_quiescence.
