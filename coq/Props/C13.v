(* C13 -- map / flat_map laws.  Statements only.  Pure law: Model/MapLaw.v (proofs in
   Proofs/MapLaw_Proofs.v); interleaving machine: Model/MapFut.v (proofs in Proofs/MapFut_Inv*.v). *)
From Coq Require Import List Bool Arith.
From ME Require Import Base.Machine Base.Fut Model.MapFut Model.MapLaw Proofs.MapLaw_Proofs.
Import ListNotations.

(* a successful input yields fn(result); a failed input yields error_fn(exception) *)
Theorem c13_success_uses_fn : forall k ea inner v a, map_law k true true (Ok v) a ea inner = apply_ans k a (Ok v) inner.
Proof. exact law_success_fn. Qed.
Theorem c13_failure_uses_error_fn : forall k fa inner e a, map_law k true true (Err e) fa a inner = apply_ans k a (Err e) inner.
Proof. exact law_failure_efn. Qed.
(* without error_fn the original exception object is the outcome, unchanged *)
Theorem c13_failure_without_error_fn : forall k hasfn fa ea inner e, map_law k hasfn false (Err e) fa ea inner = Some (Err e).
Proof. exact law_failure_no_efn. Qed.
(* omitted functions act as identity *)
Theorem c13_identity_defaults : forall fa ea inner o, map_law KMap false false o fa ea inner = Some o.
Proof. exact law_identity_default. Qed.
(* an exception raised by fn / error_fn becomes the outcome; re-raising the same exception keeps it *)
Theorem c13_fn_raises : forall k hasefn ea inner v e, map_law k true hasefn (Ok v) (ARaise e) ea inner = Some (Err e).
Proof. exact law_fn_raises. Qed.
Theorem c13_error_fn_raises : forall k hasfn fa inner e e', map_law k hasfn true (Err e) fa (ARaise e') inner = Some (Err e').
Proof. exact law_efn_raises. Qed.
Theorem c13_reraise_same_keeps_exception : forall k hasfn fa inner e, map_law k hasfn true (Err e) fa ARaiseSame inner = Some (Err e).
Proof. exact law_reraise_same_keeps. Qed.
(* flat_map: a non-future yields TypeError; a returned future is flattened *)
Theorem c13_flat_map_non_future : forall hasefn ea inner v x, map_law KFlat true hasefn (Ok v) (ARet x) ea inner = Some (Err type_error).
Proof. exact law_flat_non_future. Qed.
Theorem c13_flat_map_flattens : forall hasefn ea inner v d, map_law KFlat true hasefn (Ok v) (ARetFut d) ea inner = inner d.
Proof. exact law_flat_flattens. Qed.
(* fn and error_fn are each called at most once and only for their own case *)
Theorem c13_calls_own_case : forall hasfn hasefn o,
  fst (map_calls hasfn hasefn o) <= 1 /\ snd (map_calls hasfn hasefn o) <= 1 /\
  (fst (map_calls hasfn hasefn o) = 1 -> exists v, o = Ok v) /\
  (snd (map_calls hasfn hasefn o) = 1 -> exists e, o = Err e) /\
  fst (map_calls hasfn hasefn o) + snd (map_calls hasfn hasefn o) <= 1.
Proof. exact calls_own_case. Qed.
(* chains compose, for chains of any length: mapping with g then h ... equals mapping with the composition *)
Theorem c13_chains_compose : forall gs o, vchain gs o = vapply (vcompose_all gs) o.
Proof. exact vchain_compose. Qed.
Theorem c13_chain_calls_at_most_once_each : forall gs o, vcalls gs o <= length gs.
Proof. exact vcalls_le. Qed.

Example c13_compose_instance :
  vchain [VRet (fun v => v + 1); VRet (fun v => v * 2); VRaise (fun v => v)] (Ok 3) = Err 8.
Proof. reflexivity. Qed.

Print Assumptions c13_success_uses_fn.
Print Assumptions c13_failure_without_error_fn.
Print Assumptions c13_reraise_same_keeps_exception.
Print Assumptions c13_flat_map_non_future.
Print Assumptions c13_calls_own_case.
Print Assumptions c13_chains_compose.
Print Assumptions c13_chain_calls_at_most_once_each.
Print Assumptions c13_failure_uses_error_fn.
Print Assumptions c13_identity_defaults.
Print Assumptions c13_fn_raises.
Print Assumptions c13_error_fn_raises.
Print Assumptions c13_flat_map_flattens.
