(* Second batch of statements for C03 / C06 on the MapFuture/FlatMapFuture machine: the two items left
   open in Props/MapFut_E.v (c03_map_lost_field_none, c06_map_cancel_forwards_current).
   [hist s] is NEWEST FIRST. *)
From Coq Require Import List Bool Arith ZArith Lia.
From ME Require Import Base.Machine Base.Fut Model.MapFut Model.MapLaw Proofs.MapFut_InvD
  Proofs.MapFut_E1 Proofs.MapFut_E2 Proofs.MapFut_E3 Proofs.MapFut_E4 Proofs.MapFut_E7 Proofs.MapFut_E8
  Proofs.MapFut_E9 Proofs.MapFut_E10.
Import ListNotations.

Definition reachable := reachable_from step init.
Definition quiescent (s : st) := forall t, thr s t = [].

(* number of fn / error_fn calls of j in a history *)
Definition calls_in (l : list hev) (j : nat) : nat :=
  length (filter (fun h => match h with HFn j' _ _ | HEfn j' _ _ => Nat.eqb j j' | _ => false end) l).
(* as in Props/MapFut_E.v *)
Definition depends_on (s : st) (j d : nat) : Prop :=
  (mkind s j = KFlat /\ exists d0 din, In (HNew j d0) (hist s) /\ eout s d0 = Some din /\ es s d0 = Finished /\
     match din with
     | Ok _ => mfn s j = true /\ In (HFn j d0 (ARetFut d)) (hist s)
     | Err _ => mefn s j = true /\ In (HEfn j d0 (ARetFut d)) (hist s)
     end)
  \/ (calls_in (hist s) j = 0 /\ In (HNew j d) (hist s)).
(* [current_delegate k l j d]: read off history l, d is the delegate j (of kind k) depends on at that moment:
   the original delegate while no user function was called, or the future fn / error_fn of a flat_map
   future returned *)
Definition current_delegate (k : kind) (l : list hev) (j d : nat) : Prop :=
  (calls_in l j = 0 /\ In (HNew j d) l) \/
  (k = KFlat /\ exists d0, In (HFn j d0 (ARetFut d)) l \/ In (HEfn j d0 (ARetFut d)) l).

(* C03 (d), exact shape (closes TODO-PROOF c03_map_lost_field_none): at quiescence a pending future either
   still points at the not-done delegate it depends on and is registered on it, or is LOST: its delegate was
   cancelled, _delegate is None and it is registered nowhere *)
Theorem c03_map_no_lost_exact : forall s, reachable s -> quiescent s -> forall j, j < nfut s ->
  fdone (ms s j) = false ->
  exists d, depends_on s j d /\
    ((mdel s j = Some d /\ In j (ecbs s d) /\ fdone (es s d) = false) \/
     (mdel s j = None /\ (forall d', ~ In j (ecbs s d')) /\ fcancelled (es s d) = true)).
Proof. exact mapfut_no_lost_exact. Qed.
Theorem c03_map_field_registered_at_quiescence : forall s, reachable s -> quiescent s -> forall j d,
  mdel s j = Some d -> In j (ecbs s d).
Proof. exact mapfut_field_registered. Qed.
(* in EVERY reachable state the _delegate field names the delegate the future currently depends on *)
Theorem c03_map_field_is_dependency : forall s, reachable s -> forall j d, j < nfut s ->
  mdel s j = Some d -> depends_on s j d.
Proof. exact mapfut_field_is_dependency. Qed.

(* C06 (b) with the CURRENT delegate (closes TODO-PROOF c06_map_cancel_forwards_current): cancel() holds M_j
   from its first check to the delegate cancel, nobody else writes _delegate meanwhile, and _delegate names
   the current dependency *)
Theorem c06_map_cancel_forwards_to_current_delegate : forall s, reachable s -> forall l1 j d b l2,
  hist s = l1 ++ HDCancel j d b :: l2 -> current_delegate (mkind s j) l2 j d.
Proof. exact mapfut_dcancel_on_current_delegate. Qed.
Theorem c06_map_cancel_forwards_current : forall s, reachable s -> forall l1 j l2,
  hist s = l1 ++ HCancelRet j true :: l2 ->
  exists d la lb, l2 = la ++ HDCancel j d true :: lb /\ current_delegate (mkind s j) lb j d.
Proof. exact mapfut_cancel_forwards_current. Qed.

Print Assumptions c03_map_no_lost_exact.
Print Assumptions c03_map_field_registered_at_quiescence.
Print Assumptions c03_map_field_is_dependency.
Print Assumptions c06_map_cancel_forwards_to_current_delegate.
Print Assumptions c06_map_cancel_forwards_current.
