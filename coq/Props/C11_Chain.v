(* C11 -- shutdown: the chain of a whole stack (Model/Chain.v).  Statements only; proofs are in
   Proofs/Chain_*.v.  c : cfg is an arbitrary chain (any number of layers of any kinds over the base,
   layer 0); any number of threads, each calling shutdown(k, wait, kw) / submit(k) on ANY layer, at
   top level or from inside the base executor's submit, in all interleavings.
   Ghost history (newest first):  HWin t k w kw = this shutdown(k) call flipped flag k;
   HDown t k w kw = layer k calls its delegate's shutdown(w, kw);  HSdRet t k won = a shutdown(k)
   call returned;  HEnter/HRaise t k = a submit passed gate k with the flag clear / set;
   HAcq t k held = t takes G_k (not re-entrantly) while holding the gates in held.
   cnt (is_down k) l = number of HDown _ k _ _ in l;  cdn s k = that number for hist s;
   inside k p = number of pending releases of G_k in program p;  pend s i = some thread has a
   winning shutdown(i) call that has not returned yet. *)
From Coq Require Import List Arith Bool.
From ME Require Import Base.Machine Model.Chain Proofs.Chain_Gate Proofs.Chain_Tok Proofs.Chain_Prop
  Proofs.Chain_Lock Proofs.Chain_Inv.
Import ListNotations.

Definition reachable (c : cfg) := reachable_from (step c) init.

(* (1) once_each: whatever mix of callers on whatever layers, layer k calls its delegate's shutdown at
   most once; the call is made by the thread whose shutdown(k) won, with exactly the winning call's
   arguments (wait, kwargs), and the winner is unique. *)
Theorem c11_chain_once_each : forall c s, reachable c s -> forall k,
  cnt (is_down k) (hist s) <= 1 /\
  forall t w kw, In (HDown t k w kw) (hist s) ->
    In (HWin t k w kw) (hist s) /\
    forall u w' kw', In (HWin u k w' kw') (hist s) -> u = t /\ w' = w /\ kw' = kw.
Proof. exact chain_once_each. Qed.

(* (2) propagated: when the winning shutdown(k) call is about to return, layer k has called down exactly
   once and, for every layer j below: j has received exactly one shutdown call from the layer above
   and (j >= 1) is flagged -- unless a winning shutdown of an intermediate layer i (j < i < k) is
   still in progress in some thread: that call was started directly by a user (or reached first), the
   call coming down the chain lost against it and, under the adopted reading, returned at once. *)
Theorem c11_chain_propagated : forall c s, reachable c s -> forall t k jn r,
  prog s t = ISdRet k jn true :: r ->
  cdn s k = 1 /\
  forall j, j < k ->
    (cdn s (S j) = 1 /\ (1 <= j -> flag s j = true)) \/ (exists i, j < i /\ i < k /\ pend s i).
Proof. exact chain_propagated. Qed.

(* ... and without that exception the statement is false (depth 3, a user shutting down layer 2
   while another shuts down layer 3): *)
Theorem c11_chain_propagated_strict_refuted : exists s t k jn r j, reachable ex_cfg s /\
  prog s t = ISdRet k jn true :: r /\ 1 <= j /\ j < k /\ flag s j = false /\ cdn s (S j) = 0.
Proof. exact chain_propagated_strict_refuted. Qed.

(* with wait=True the winner returns only after the layer's own worker thread has exited *)
Theorem c11_chain_joined : forall c s t k r s', reachable c s ->
  prog s t = ISdRet k true true :: r -> step c s (SdRet t k) = Some s' -> wdead s k = true.
Proof.
  intros c s t k r s' _ P H. simpl in H. rewrite P in H. simpl in H.
  destruct (wdead s k); [reflexivity|]. rewrite andb_false_r in H. discriminate.
Qed.

(* (3) submit_after: a submit(k) that got past the gate did so before any shutdown(k) returned ... *)
Theorem c11_chain_submit_after_hist : forall c s, reachable c s ->
  forall l1 l2 t k, hist s = l1 ++ HEnter t k :: l2 -> forall u b, ~ In (HSdRet u k b) l2.
Proof. exact chain_enter_before_ret. Qed.

(* ... and once a shutdown(k) has returned, a submit(k) taking the gate (freshly or re-entrantly)
   raises at layer k: what is left of that call is releasing G_k and raising, layer k-1 is not called *)
Theorem c11_chain_submit_after : forall c s, reachable c s ->
  forall u k b, In (HSdRet u k b) (hist s) -> 0 < k ->
  forall t r e s', prog s t = IAcqSub k :: r -> (e = Acq t k \/ e = ReAcq t k) -> step c s e = Some s' ->
  prog s' t = IRelSub k false :: ISubRet k false :: r /\
  hist s' = HRaise t k :: match e with Acq _ _ => [HAcq t k (held_by c s t)] | _ => [] end ++ hist s.
Proof. exact chain_submit_after. Qed.

(* (4) racing_submit: the gate is exclusive (its re-entrant sections belong to one thread), and while
   a thread is inside a section of G_k -- a submit between its flag test and its release -- flag k
   can only be flipped by that same thread's own nested shutdown: a submit from another thread is
   entirely before the flip (returns a future) or entirely after it (raises) *)
Theorem c11_chain_gate_mutex : forall c s, reachable c s -> forall k t u,
  0 < inside k (prog s t) -> 0 < inside k (prog s u) -> t = u.
Proof. exact chain_gate_mutex. Qed.
Theorem c11_chain_racing_submit : forall c s, reachable c s -> forall k t e s',
  0 < inside k (prog s t) -> step c s e = Some s' -> flag s k = false -> flag s' k = true -> e = ReAcq t k.
Proof. exact chain_racing. Qed.

(* (5) lock_order: as long as no callable has called back into the stack (nested = false), a gate is
   only ever taken while holding gates of layers strictly above ... *)
Theorem c11_chain_lock_order : forall c s, reachable c s -> nested s = false ->
  forall t k held, In (HAcq t k held) (hist s) -> forall j, In j held -> k < j.
Proof. exact chain_lock_order. Qed.

(* ... hence no set of threads waits for each other's gates: a set L in which every thread waits
   (want) for a gate owned by another member of L is empty *)
Theorem c11_chain_no_gate_deadlock : forall c s, reachable c s -> nested s = false ->
  forall L : list nat,
    (forall t, In t L -> exists k u, want s t = Some k /\ gown s k = Some u /\ u <> t /\ In u L) -> L = [].
Proof. exact chain_no_gate_deadlock. Qed.

(* a callable that calls back above the gates its thread holds breaks both (caller-made inversion) *)
Theorem c11_chain_lock_order_refuted : exists s t k held j, reachable inv_cfg s /\
  In (HAcq t k held) (hist s) /\ In j held /\ j < k.
Proof. exact chain_lock_order_refuted. Qed.
Theorem c11_chain_no_gate_deadlock_refuted : exists s L, reachable inv_cfg s /\ L <> [] /\
  forall t, In t L -> exists k u, want s t = Some k /\ gown s k = Some u /\ u <> t /\ In u L.
Proof. exact chain_no_gate_deadlock_refuted. Qed.

(* (6) idempotent: the shutdown(k) that wins does so before any shutdown(k) call has returned; every
   later call loses, and by (1) only a winner's thread ever calls down *)
Theorem c11_chain_idempotent : forall c s, reachable c s ->
  forall l1 l2 t k w kw, hist s = l1 ++ HWin t k w kw :: l2 -> forall u b, ~ In (HSdRet u k b) l2.
Proof. exact chain_win_before_ret. Qed.

(* non-vacuity: depth 3 (map, retry, poll), shutdown callers on layers 3 and 2, a racing submit *)
Example c11_chain_nonvacuous : exists s, reachable ex_cfg s /\ nested s = false /\
  flag s 1 = true /\ flag s 2 = true /\ flag s 3 = true /\ bcalls s = 1 /\ wdead s 3 = true /\
  cdn s 1 = 1 /\ cdn s 2 = 1 /\ cdn s 3 = 1 /\
  In (HEnter 2 3) (hist s) /\ In (HRaise 2 2) (hist s) /\ In (HLose 0 2) (hist s) /\
  In (HDown 1 2 false 1) (hist s) /\ In (HDown 0 3 true 0) (hist s) /\ In (HSdRet 0 3 true) (hist s).
Proof. exact chain_nonvacuous. Qed.

Print Assumptions c11_chain_once_each.
Print Assumptions c11_chain_propagated.
Print Assumptions c11_chain_propagated_strict_refuted.
Print Assumptions c11_chain_joined.
Print Assumptions c11_chain_submit_after_hist.
Print Assumptions c11_chain_submit_after.
Print Assumptions c11_chain_gate_mutex.
Print Assumptions c11_chain_racing_submit.
Print Assumptions c11_chain_lock_order.
Print Assumptions c11_chain_no_gate_deadlock.
Print Assumptions c11_chain_lock_order_refuted.
Print Assumptions c11_chain_no_gate_deadlock_refuted.
Print Assumptions c11_chain_idempotent.
Print Assumptions c11_chain_nonvacuous.
