(* C04 (ThrottleExecutor part) -- no deadlock among API calls and the hand-over thread.
   Statements over the machine Model/Throttle.v.  Locks of the model: the shutdown gate G, the executor lock X,
   the AtomicInt lock A, the lock M_j of each ThrottleFuture.  Proofs: Proofs/Throttle_L1.v, L1b (ids in programs
   are allocated), L2 (lock typing of programs), L3 (the typing is an invariant), L4 (the lemmas used here).

   Covered: waiting for LOCKS.  Not covered (not lock waits): a thread parked in event.wait() -- in particular a
   blocking submit() parks while it HOLDS G, so a thread waiting for G can wait as long as that submit is parked
   (30 s fallback; for ever with count = 0: finding G14) -- and shutdown(wait=True) joining the hand-over thread.
   In c04_throttle_no_deadlock such a parked thread counts as "not blocked on a lock": the chain ends there. *)
From Coq Require Import ZArith List Bool Arith Lia.
From ME Require Import Base.Machine Base.Fut Base.GenPrelude Gen.ThrottleGen Model.Throttle
  Proofs.Throttle_L2 Proofs.Throttle_L4.
Import ListNotations.

Definition reachable (s : st) : Prop := reachable_from step init s.

(* 1. Lock bookkeeping.  Every lock has at most one owner (owner s L is an option).  For every thread t there is
   exactly one held-set h its program is typed from (wfh: the program releases exactly h and nothing else), and t
   owns a lock iff it is in h: the owner is the thread whose program carries the release, a non-owner carries none. *)
Theorem c04_throttle_lock_owner : forall s, reachable s -> forall t,
  exists h, wfh (ds s) h (thr s t) = true /\ (forall h', wfh (ds s) h' (thr s t) = true -> h' = h) /\
            forall L, owner s L = Some t <-> holds_lock h L = true.
Proof. exact lock_owner_lemma. Qed.
Theorem c04_throttle_lock_owner_unique : forall s L t u, owner s L = Some t -> owner s L = Some u -> t = u.
Proof. intros s L t u E1 E2. congruence. Qed.

(* 2. Lock order.  The nestings that occur (nesting_ok): G alone, then X (submit);  X alone, then A (hand-over
   loop);  M_j alone, then X or A (cancel(): queue removal / inline done-callback);  A alone (done-callback);
   M_j alone.  They embed in the strict order G < M_j < X < A: whatever a thread holds is strictly below the
   lock its next instruction acquires (no re-entrant acquisition is modelled; none occurs). *)
Theorem c04_throttle_nesting : forall s, reachable s -> forall t L, req (thr s t) = Some L ->
  exists h, owns s t h /\ nesting_ok h (thr s t) = true.
Proof. exact nesting_lemma. Qed.
Theorem c04_throttle_lock_order : forall s, reachable s -> forall t L, req (thr s t) = Some L ->
  forall L', owner s L' = Some t -> rank L' < rank L.
Proof. exact lock_order_lemma. Qed.

(* 3. No lock deadlock.  From every thread, following "is waiting for the lock owned by" reaches a thread whose
   next instruction is not an acquisition of a lock someone holds (unblocks: finitely many steps, by construction
   of the inductive predicate); nobody waits for itself; along the chain the rank of the requested lock strictly
   increases, so the chain has no cycle and at most 4 threads. *)
Theorem c04_throttle_no_deadlock : forall s, reachable s -> forall t, unblocks s t.
Proof. exact no_deadlock_lemma. Qed.
Theorem c04_throttle_wait_chain_rank : forall s, reachable s -> forall t u, blocked_on s t = Some u ->
  u <> t /\ (blocked_on s u <> None -> want_rank s u < want_rank s t).
Proof. exact blocked_rank. Qed.

(* a concrete accepted trace: thread 1 is inside submit() holding G, about to enter its X-section; thread 2 calls
   submit() and is blocked behind it on G; thread 1 itself is not blocked *)
Definition c04_trace : list (list Z) := [[0; 0; 0; 0; 0; 1]; [0; 3; 1]; [0; 12; 1]; [0; 3; 2]]%Z.
Example c04_throttle_blocked_behind :
  exists s, reachable s /\ thr s 2 = [IAcqG GSub] /\ blocked_on s 2 = Some 1 /\ blocked_on s 1 = None /\
            req (thr s 1) = Some LX /\ owner s LG = Some 1.
Proof.
  eexists. split; [exists (match decode_all c04_trace with Some es => es | None => [] end); vm_compute; reflexivity|].
  repeat split; reflexivity.
Qed.

Print Assumptions c04_throttle_lock_owner.
Print Assumptions c04_throttle_lock_owner_unique.
Print Assumptions c04_throttle_nesting.
Print Assumptions c04_throttle_lock_order.
Print Assumptions c04_throttle_no_deadlock.
Print Assumptions c04_throttle_wait_chain_rank.
