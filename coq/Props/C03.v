(* C03 -- no future is lost.  Statements only.
   Generic wake-up protocol of the four worker loops: Model/EventLoop.v (model + proof);
   derived futures: Model/MapFut.v (machine theorems are added from Proofs/MapFut_InvE.v);
   retry timing: C05's theorems (c05_wait_is_exact, c05_backoff_not_early). *)
From Coq Require Import List Bool Arith.
From ME Require Import Base.Machine Model.EventLoop.
Import ListNotations.

Definition reachable := reachable_from step init.

(* producers "mutate, then set"; the worker "scans, waits, clears, rescans": a worker blocked in
   wait() with unseen work has a producer between its mutation and its set() -- for any number of
   producers and every placement of their two steps relative to the worker's scan / wait / clear *)
Theorem c03_no_lost_wakeup : forall s, reachable s -> wp s = WBlocked false -> work s > 0 ->
  exists t, prod s t = PMutated.
Proof. exact no_lost_wakeup. Qed.

(* hence at quiescence (every producer call returned, worker asleep and not notified) no work is
   pending: progress never hinges on a fallback timer *)
Theorem c03_quiescent_no_unseen_work : forall s, reachable s ->
  wp s = WBlocked false -> (forall t, prod s t = PIdle) -> work s = 0.
Proof. exact quiescent_no_unseen_work. Qed.

(* the order "wait, then clear" matters: the loop with "clear, then wait" loses a wake-up *)
Theorem c03_reversed_loop_refuted :
  exists s, reachable_from step_reversed init s /\ wp s = WBlocked false /\ work s = 1 /\ forall t, prod s t = PIdle.
Proof. exact reversed_loop_loses_wakeup. Qed.

Example c03_nonvacuous : exists s, reachable s /\ wp s = WBlocked true /\ work s = 1.
Proof. eexists. split; [exists [WorkerScan; WorkerWait; ProdMutate 3; ProdSet 3]; reflexivity|split; reflexivity]. Qed.

Print Assumptions c03_no_lost_wakeup.
Print Assumptions c03_quiescent_no_unseen_work.
Print Assumptions c03_reversed_loop_refuted.
