(* C07 -- Throttle: never more than count in flight, FIFO hand-over, no idle capacity.
   Statements over the machine Model/Throttle.v (reachable states, ghost history); kernels regenerated
   from throttle.py (Gen/ThrottleGen.v).  Proofs: Proofs/Throttle_Spec.v (kernels), Proofs/Throttle_Inv.v
   (single incrementer, limit), Proofs/Throttle_Fifo.v (FIFO), Proofs/Throttle_Wake.v (no lost wake-up). *)
From Coq Require Import ZArith List Bool Arith Lia.
From ME Require Import Base.Machine Base.Fut Base.GenPrelude Gen.ThrottleGen Model.Throttle
  Proofs.Throttle_Spec Proofs.Throttle_Inv Proofs.Throttle_Fifo Proofs.Throttle_Wake Proofs.Throttle_Wait
  Proofs.Throttle_TokC Proofs.Throttle_TokD Proofs.Throttle_TokX.
Import ListNotations.
Local Open Scope Z_scope.

Definition reachable (s : st) : Prop := reachable_from step init s.

(* ---- witnesses: implementation histories recorded by the harness (corpus/C07), in wire format ------- *)
Definition g11_trace : list (list Z) :=
  [[0; 0; 1; 0; 0; 1]; [0; 3; 1]; [0; 12; 1]; [0; 1]; [0; 24; 0]; [0; 25; 0]; [0; 26; 0; 0]; [0; 16; 0; 1]; [0; 23; 1]; [0; 29; 1]; [0; 13; 1]; [0; 7; 1; 0]; [0; 3; 1]; [0; 12; 1]; [0; 16; 1; 0]; [0; 16; 1; 0]; [0; 16; 1; 0]; [0; 17; 0; 0]; [0; 18; 0]; [0; 24; 0]; [0; 26; 0; 0]; [0; 31; 0]; [0; 16; 1; 1]; [0; 27; 0]; [0; 28; 0]; [0; 25; 0]; [0; 15; 0; 0; 0; 0; 0]; [0; 11; 0; 5; 0; 0]; [0; 8; 0; 0]; [0; 9; 0; 0]; [0; 11; 0; 5; 0; 0]; [0; 26; 0; 1]; [0; 16; 0; 1]].
Definition g4_trace : list (list Z) :=
  [[0; 0; 1; 0; 1; 0]; [0; 3; 1]; [0; 12; 1]; [0; 23; 1]; [0; 1]; [0; 24; 0]; [0; 31; 0]; [0; 27; 0]; [0; 28; 0]; [0; 25; 0]; [0; 15; 0; 0; 0; 0; 0]; [0; 11; 0; 5; 0; 0]; [0; 8; 0; 0]; [0; 9; 0; 0]; [0; 11; 0; 5; 0; 0]; [0; 26; 0; 1]; [0; 16; 0; 1]; [0; 29; 1]; [0; 13; 1]; [0; 7; 1; 0]; [0; 17; 0; 0]; [0; 18; 0]; [0; 24; 0]; [0; 25; 0]; [0; 26; 0; 1]; [0; 16; 0; 1]].
Definition g14_trace : list (list Z) :=
  [[0; 0; 1; 0; 0; 0]; [0; 3; 1]; [0; 12; 1]; [0; 16; 1; 1]; [0; 1]; [0; 24; 0]; [0; 25; 0]; [0; 26; 0; 0]; [0; 16; 0; 1]; [1; 5; 2; 0]].
Definition events_of (w : list (list Z)) : list (Z * ev) := match decode_all w with Some es => es | None => [] end.

(* ---- 1. never more than count in flight ------------------------------------------------------------ *)
(* At every hand-over (the hand-over thread's commitment: popleft + incr, before delegate.submit) the
   running count after it is within the limit the hand-over thread obtained for this iteration
   (None = unlimited: no constraint).  The running count is incremented only there and decremented
   only by done-callbacks of delegate futures. *)
Theorem c07_inflight_le_count : forall s, reachable s ->
  forall j r t ts, In (HAdmit j r (Some t) ts) (hist s) -> r <= t.
Proof. exact inflight_le_count_lemma. Qed.

(* whenever the hand-over thread is about to increment, there is room under its limit -- although other
   threads decrement concurrently and the test reads the counter without its lock *)
Theorem c07_pending_increment_fits : forall s, reachable s ->
  pending_incr (thr s H) = true -> forall t, hlim s = Some t -> running s < t.
Proof. exact pending_incr_lemma. Qed.

(* the count callable: its answer is the value in force; when it raises, the last value stays in force
   (for the hand-over thread's next admission loop as well) *)
Theorem c07_count_eval : forall s ts t a s', step s (ts, ECount t a) = Some s' ->
  last s' = eval_throttle (last s) a /\
  (forall rest, thr s t = ICount CH :: rest -> hlim s' = eval_throttle (last s) a).
Proof. exact count_eval_lemma. Qed.
Theorem c07_count_raise_keeps_last : forall s ts t s', step s (ts, ECount t Raises) = Some s' ->
  last s' = last s /\ (forall rest, thr s t = ICount CH :: rest -> hlim s' = last s).
Proof. intros s ts t s' Hx. exact (count_eval_lemma s ts t Raises s' Hx). Qed.

(* the admission loop as a whole (kernel regenerated from the source; no concurrent decrement): splits the
   queue in order, counts each admitted job, stays within the limit, stops only when throttled or empty *)
Theorem c07_admission_kernel : forall lim q r adm rest r',
  admission lim r q = (adm, rest, r') ->
  adm ++ rest = q /\ r' = r + Z.of_nat (length adm) /\
  (forall t, lim = Some t -> r <= t -> r' <= t) /\
  (rest <> [] -> throttled lim r' = true) /\
  (adm <> [] -> throttled lim r = false).
Proof. exact admission_spec. Qed.

(* ---- 2. FIFO hand-over ----------------------------------------------------------------------------- *)
(* The sequence of delegate.submit calls is a prefix of the enqueue order with the futures cancelled while
   queued removed; what follows are the jobs already taken off the queue but not yet submitted (in
   order), then the queue itself. *)
Theorem c07_fifo_handover : forall s, reachable s ->
  live (cancq (hist s)) (enqs (hist s)) = dsubs (hist s) ++ pend s ++ qu s.
Proof. exact fifo_handover_lemma. Qed.
Theorem c07_fifo_queue : forall s, reachable s ->
  live (cancq (hist s)) (enqs (hist s)) = pops (hist s) ++ qu s /\ NoDup (enqs (hist s)).
Proof. exact fifo_queue_lemma. Qed.

(* ---- 3. no idle capacity -------------------------------------------------------------------------- *)
(* No lost wake-up for the hand-over thread, for every kind of count: if it is blocked in event.wait()
   without having been notified, the shared flag is clear and no thread is about to call event.set(), then
   the queue is empty or the running count has reached the limit the hand-over thread obtained last.
   (So it never sits out a fallback timer on admissible work; the fallback only serves a count callable
   whose answer changes without any event.) *)
Definition handover_blocked_unnotified (s : st) : Prop :=
  exists rest g tau since, thr s H = IWoke WH :: rest /\ wst s H = Some (g, tau, since) /\ egen s = g.
Definition no_setter_pending (s : st) : Prop := forall t, ~ In IEvSet (thr s t).

Theorem c07_no_lost_wakeup : forall s, reachable s -> shut s = false ->
  handover_blocked_unnotified s -> eflag s = false -> no_setter_pending s ->
  qu s = [] \/ throttled (hlim s) (running s) = true.
Proof. exact no_lost_wakeup_lemma. Qed.

(* static count c: at quiescence nothing is queued or c jobs are running (c = None: nothing is queued) *)
Theorem c07_no_idle_capacity_static : forall s, reachable s -> started s = true -> dyn s = false -> shut s = false ->
  handover_blocked_unnotified s -> eflag s = false -> no_setter_pending s ->
  qu s = [] \/ exists c, last s = Some c /\ c <= running s.
Proof. exact no_idle_capacity_lemma. Qed.

(* a changed dynamic count takes effect by the periodic re-check at the latest: every wait of the hand-over
   thread has a timeout between 2 and 30 (loop_wait: 2 when nothing was running at its read, else 30) *)
Theorem c07_recheck_bound : forall s, reachable s ->
  forall tau run ts, In (HHWait tau run ts) (hist s) -> 2 <= tau <= 30.
Proof. exact recheck_bound_lemma. Qed.

(* ---- 4. blocking mode ------------------------------------------------------------------------------ *)
(* submit() decides to wait only after reading a queue length >= count, and goes on only after reading
   a length < count, or when count is None (unlimited) *)
Theorem c07_blocking_decision : forall s, reachable s -> forall t v q ts,
  (In (HBlock t v q ts) (hist s) -> exists x, v = Some x /\ x <= q) /\
  (In (HGo t v q ts) (hist s) -> v = None \/ exists x, v = Some x /\ q < x).
Proof. exact blocking_decision_lemma. Qed.

(* "blocks only while the queue already holds count entries" is FALSE for the code as it is (finding G11):
   a blocking submit() can be parked on the shared event with room in the queue, the flag clear, no
   notification pending, every other thread idle or blocked -- only the 30 s fallback releases it.
   (The hand-over thread takes jobs off the queue without notifying, and it clears the shared event.) *)
Definition parked_with_room (s : st) (t : nat) : Prop :=
  exists v g tau since rest,
    thr s t = IWoke (WSub (Some v)) :: rest /\ wst s t = Some (g, tau, since) /\ egen s = g /\ eflag s = false /\ qlen s < v.
Definition handover_blocked (s : st) : Prop :=
  exists g tau since, thr s H = [IWoke WH] /\ wst s H = Some (g, tau, since) /\ egen s = g.
Definition others_idle (s : st) (t : nat) : Prop := forall u, u <> t -> u <> H -> thr s u = [].

Theorem c07_blocking_submit_prompt_refuted :
  exists s t, reachable s /\ blk s = true /\ shut s = false /\ parked_with_room s t /\ handover_blocked s /\ others_idle s t.
Proof.
  eexists. exists 1%nat. split; [exists (events_of g11_trace); vm_compute; reflexivity|].
  split; [reflexivity|]. split; [reflexivity|]. split; [|split].
  - do 5 eexists. repeat split; reflexivity.
  - do 3 eexists. repeat split; reflexivity.
  - intros u Hu1 Hu2. destruct u as [|u]; [exfalso; apply Hu2; reflexivity|].
    destruct u as [|u]; [exfalso; apply Hu1; reflexivity|]. reflexivity.
Qed.

(* submit() works for every count value in blocking mode too (G4 repaired in /repo): it never raises out of
   _block_until_ready, and with count = None it goes on without waiting *)
Theorem c07_blocking_never_raises : forall s, reachable s -> forall t ts, ~ In (HSubRaise t ts) (hist s).
Proof. exact no_sub_raise_lemma. Qed.
Theorem c07_blocking_none_never_blocks : forall q, block_ready q None = Some true.
Proof. exact block_ready_none. Qed.
Example c07_blocking_none_goes_on :
  exists s, reachable s /\ blk s = true /\ last s = None /\ In (HGo 1 None 0 0) (hist s) /\ enqs (hist s) = [0%nat].
Proof.
  eexists. split; [exists (events_of g4_trace); vm_compute; reflexivity|].
  repeat split; try reflexivity. vm_compute. auto 10.
Qed.

(* side remark (G14, properties C04/C11): while a blocking submit() is parked it holds the shutdown gate, so a
   concurrent shutdown() cannot even start; with count = 0 this lasts for ever *)
Example c07_shutdown_waits_for_parked_submit :
  exists s, reachable s /\ gown s = Some 1%nat /\
            thr s 2 = [IAcqG (GShut false)] /\ (exists rest, thr s 1 = IWoke (WSub (Some 0)) :: rest) /\ do_acq_g s 2 = None.
Proof.
  eexists. split; [exists (events_of g14_trace); vm_compute; reflexivity|].
  repeat split; try reflexivity. eexists. reflexivity.
Qed.

(* non-vacuity: a concrete history in which a job is handed over under limit 1 and a second one queued behind it *)
Example c07_nonvacuous :
  exists s, reachable s /\ In (HAdmit 0 1 (Some 1) 0) (hist s) /\ dsubs (hist s) = [0%nat] /\ enqs (hist s) = [0%nat] /\ running s = 1.
Proof.
  eexists. split; [exists (events_of g11_trace); vm_compute; reflexivity|].
  repeat split; try reflexivity. vm_compute. auto 10.
Qed.

(* ---- 1b. the TRUE in-flight number (token invariant over the programs of all threads, Proofs/Throttle_Tok*.v) ---
   The number of delegate futures created and not yet done never exceeds the running count -- the increment precedes
   delegate.submit of the same job, a future the delegate runs inline is created done, a future finished before
   add_done_callback(_delegate_future_done) keeps its token in the pending registration, and a decrement is only ever
   pending for a done future. *)
Theorem c07_inflight_true : forall s, reachable s ->
  Z.of_nat (length (filter (fun d => negb (fdone (ds s d))) (seq 0 (ndel s)))) <= running s.
Proof. exact inflight_true_lemma. Qed.
(* stronger: futures in flight plus jobs the hand-over thread has committed to but not yet submitted *)
Theorem c07_inflight_plus_committed : forall s, reachable s -> inflight s + committed s <= running s.
Proof. exact inflight_committed_lemma. Qed.
Theorem c07_decrement_only_for_done_future : forall s, reachable s ->
  forall t d, In (IAcqA (ADecr d)) (thr s t) -> fdone (ds s d) = true.
Proof. exact decr_only_when_done_lemma. Qed.
(* at the admission instant (popleft + incr) and at delegate.submit itself, under the limit of the current iteration,
   the futures in flight INCLUDING the new one are within the limit *)
Theorem c07_inflight_at_admit : forall s ts tid rest s',
  reachable s -> step s (ts, EAcqA tid) = Some s' -> thr s tid = IAcqA AIncr :: rest ->
  forall t, hlim s = Some t -> inflight s' + committed s' <= t.
Proof. exact inflight_at_admit_lemma. Qed.
Theorem c07_inflight_at_delegate_submit : forall s ts tid d inl s',
  reachable s -> step s (ts, EDSubmit tid d inl) = Some s' ->
  forall t, hlim s = Some t -> inflight s + 1 <= t /\ inflight s' <= t.
Proof. exact inflight_at_dsubmit_lemma. Qed.
Example c07_inflight_true_nonvacuous :
  exists s, reachable s /\ ndel s = 2%nat /\ fdone (ds s 0) = true /\ fdone (ds s 1) = false /\
            inflight s = 1 /\ committed s = 0 /\ running s = 1.
Proof. exact inflight_true_nonvacuous. Qed.
Example c07_inflight_at_delegate_submit_nonvacuous :
  exists s s', reachable s /\ step s (0, EDSubmit 0 1 None) = Some s' /\ hlim s = Some 2 /\
               inflight s + 1 = 2 /\ inflight s' = 2 /\ running s' = 2.
Proof. exact inflight_at_dsubmit_nonvacuous. Qed.



Print Assumptions c07_inflight_le_count.
Print Assumptions c07_inflight_true.
Print Assumptions c07_inflight_plus_committed.
Print Assumptions c07_decrement_only_for_done_future.
Print Assumptions c07_inflight_at_admit.
Print Assumptions c07_inflight_at_delegate_submit.
Print Assumptions c07_inflight_true_nonvacuous.
Print Assumptions c07_inflight_at_delegate_submit_nonvacuous.
Print Assumptions c07_pending_increment_fits.
Print Assumptions c07_count_eval.
Print Assumptions c07_count_raise_keeps_last.
Print Assumptions c07_admission_kernel.
Print Assumptions c07_fifo_handover.
Print Assumptions c07_fifo_queue.
Print Assumptions c07_no_lost_wakeup.
Print Assumptions c07_no_idle_capacity_static.
Print Assumptions c07_recheck_bound.
Print Assumptions c07_blocking_decision.
Print Assumptions c07_blocking_submit_prompt_refuted.
Print Assumptions c07_blocking_never_raises.
Print Assumptions c07_blocking_none_never_blocks.
