(* C03 -- Poll: no future is lost, and progress does not hinge on the poll interval.
   Statements over every QUIESCENT state reachable in Model/Poll.v: every client / environment thread is outside
   the library (empty program) and the poll thread is parked in poll_event.wait() with no wake-up pending.
   Vocabulary: Proofs/Poll_N1.v .. Poll_N7.v (quiescent, waits_for_delegate, in_polling_stage, delegate_cancelled,
   delegate_failed, reg_after_snap), Proofs/Poll_Inv.v (owed_of, last_snap).
     waits_for_delegate s j   the delegate of j is not done and PollFuture._delegate_resolved is registered on it
     in_polling_stage s j     the executor's list holds a descriptor (j, v), v the result of j's delegate, and the
                              poll thread's wait is timed (wblock = Some (interval, since))
     delegate_cancelled s j   the delegate future of j is cancelled
     delegate_failed s j      the delegate future of j finished with an exception *)
(* The model includes EEnvCancel (somebody else cancels a delegate future).  With it case (iii) of poll_no_lost is
   REACHABLE -- defect G1 of the library: PollFuture._delegate_resolved returns silently on a cancelled delegate and
   the poll future stays pending for ever (c03_poll_lost_after_foreign_cancel_refuted, c03_poll_lost_for_ever).
   Two statements proved for the model WITHOUT that event are false now and are gone:
     c03_poll_no_lost_strong (case (iii) excluded) and c03_poll_cancelled_delegate_resolved
     (quiescent, delegate cancelled -> poll future done); the witness w_foreign_cancel refutes both. *)
From Coq Require Import ZArith List Bool.
From ME Require Import Base.Machine Base.Fut Model.Poll
     Proofs.Poll_Inv Proofs.Poll_Prov Proofs.Poll_Refute Proofs.Poll_N1 Proofs.Poll_N3 Proofs.Poll_N4 Proofs.Poll_N5
     Proofs.Poll_NoDup Proofs.Poll_N6 Proofs.Poll_N7 Proofs.Poll_N10 Proofs.Poll_N11.
Import ListNotations.

Definition reach (s : st) : Prop := reachable_from step init s.

(* quiescent s := (forall t, t <> poller -> thr s t = []) /\ pmode s = PBlocked /\ wnotif s = false.
   The parked poll thread has no program of its own either: *)
Theorem c03_poll_quiescent_all_idle : forall s, reach s -> quiescent s -> forall t, thr s t = [].
Proof. exact quiescent_all. Qed.

(* (a) poll_no_lost: in a reachable quiescent state a poll future that is not done is in exactly one of
   (i) waiting for its delegate with the callback registered, (ii) the polling stage, (iii) "delegate cancelled"
   (by somebody else: the known defect G1, reachable, see (b)); and (iv) its delegate has not failed. *)
Theorem c03_poll_no_lost : forall s j, reach s -> quiescent s -> j < nfut s -> fdone (ps s j) = false ->
  (waits_for_delegate s j /\ ~ in_polling_stage s j /\ ~ delegate_cancelled s j \/
   in_polling_stage s j /\ ~ waits_for_delegate s j /\ ~ delegate_cancelled s j \/
   delegate_cancelled s j /\ ~ waits_for_delegate s j /\ ~ in_polling_stage s j) /\
  ~ delegate_failed s j.
Proof. exact no_lost_lemma. Qed.

(* case (iii) is the defect: nothing in the library will ever resolve such a future -- no callback is parked on the
   delegate, no thread holds its _delegate_resolved / _register_poll, it was never registered, has no descriptor *)
Theorem c03_poll_cancelled_delegate_lost : forall s j, reach s -> quiescent s -> j < nfut s ->
  fdone (ps s j) = false -> delegate_cancelled s j ->
  dcb s j = false /\ tok s j = None /\ nreg j (hist s) = 0 /\ ~ In j (map fst (descs s)).
Proof. exact cancelled_delegate_lost_lemma. Qed.

(* (iv) read positively: a failed delegate has failed its poll future by the time the failing call returned *)
Theorem c03_poll_failed_delegate_resolved : forall s j e, reach s -> quiescent s -> j < nfut s ->
  dout s j = Some (Err e) -> fdone (ps s j) = true.
Proof. exact failed_delegate_resolved_lemma. Qed.

(* (ii): "the wait is timed" means the timeout wake-up is enabled as soon as the interval is over, whatever else
   happens: progress in the polling stage needs no further set() *)
Theorem c03_poll_timed_wait : forall s, reach s -> quiescent s ->
  exists tau since, wblock s = Some (tau, since) /\
    forall ts, (clock s <= ts)%Z -> (since + tau <= ts)%Z ->
    exists s', step s (ts, EWWoke 1) = Some s' /\ pmode s' = PClear /\ clock s' = ts.
Proof. exact timed_wait_lemma. Qed.

(* (a) promptness half, quiescent form of c08_prompt_poll: in a reachable quiescent state no set() of the poll
   event (registration or notify()) is unanswered, no descriptor was appended after the poll thread's latest
   snapshot, and every listed descriptor was in that snapshot (hence shown to the latest poll call): a future
   never becomes eligible for polling behind the back of a sleeping poll thread. *)
Theorem c03_poll_quiescent_prompt : forall s, reach s -> quiescent s ->
  owed_of (hist s) = None /\ reg_after_snap (hist s) = false /\
  (forall j v, In (j, v) (descs s) -> exists l, last_snap (hist s) = Some l /\ In (j, v) l).
Proof. exact quiescent_prompt_lemma. Qed.

(* (b) poll_lost_after_foreign_cancel_refuted: "every pending future makes progress" is refuted by a concrete
   accepted trace -- submit, the poll thread goes to sleep, somebody else cancels the delegate future (EEnvCancel,
   wire code 26), _delegate_resolved runs and returns: a reachable quiescent state in which the delegate is
   cancelled and the poll future is Pending, has no outcome, no descriptor, was never registered, and neither a
   parked callback nor a thread is left to resolve it *)
Example c03_poll_lost_after_foreign_cancel_refuted :
  let s := state_of w_foreign_cancel in
  accepted w_foreign_cancel = true /\ quiescent s /\ nfut s = 1 /\
  ds s 0 = Cancelled /\ ps s 0 = Pending /\ pout s 0 = None /\
  descs s = [] /\ dcb s 0 = false /\ tok s 0 = None /\ nreg 0 (hist s) = 0.
Proof. exact foreign_cancel_example. Qed.

(* three poll intervals later (timed wake-ups at 2, 4, 6): still Pending, the poll calls were shown nothing *)
Example c03_poll_lost_later_example :
  let s := state_of w_foreign_cancel_later in
  accepted w_foreign_cancel_later = true /\ quiescent s /\ clock s = 6%Z /\
  ds s 0 = Cancelled /\ ps s 0 = Pending /\ descs s = [] /\ last_snap (hist s) = Some [].
Proof. exact foreign_cancel_later_example. Qed.

(* ... and for ever: from a reachable quiescent state in which the delegate of a pending poll future j is
   cancelled, along EVERY continuation that contains no call of cancel() on j itself, j stays pending, its
   delegate cancelled, it never gets a descriptor and no snapshot (hence no poll call) ever contains it.
   no_cancel_of j es := forall e, In e es -> forall t, snd e <> ECallCancel t j. *)
Theorem c03_poll_lost_for_ever : forall s j es s', reach s -> quiescent s -> j < nfut s ->
  delegate_cancelled s j -> fdone (ps s j) = false ->
  run step s es = Some s' -> no_cancel_of j es ->
  fdone (ps s' j) = false /\ delegate_cancelled s' j /\ ~ In j (map fst (descs s')) /\
  (forall l ts, In (HSnap l ts) (hist s') -> ~ In j (map fst l)).
Proof. exact lost_for_ever_lemma. Qed.

(* the hypothesis no_cancel_of is needed: a cancel() by the client on the lost poll future does resolve it
   (delegate.cancel() answers True for the already cancelled delegate, no descriptor so no veto) *)
Example c03_poll_lost_then_cancel_example :
  let s := state_of w_foreign_cancel_then_cancel in
  accepted w_foreign_cancel_then_cancel = true /\ quiescent s /\
  ds s 0 = Cancelled /\ ps s 0 = CancelledNotified /\ descs s = [].
Proof. exact foreign_cancel_then_cancel_example. Qed.

(* for comparison, PollFuture.cancel() on a future whose delegate is still pending: the library cancels the
   delegate itself and then the poll future *)
Example c03_poll_cancel_example :
  let s := state_of w_cancel_pending in
  accepted w_cancel_pending = true /\ quiescent s /\ nfut s = 1 /\
  ds s 0 = Cancelled /\ ps s 0 = CancelledNotified /\ descs s = [] /\ dcb s 0 = false.
Proof. exact cancel_example. Qed.

(* (c) poll_done_not_registered: in a reachable quiescent state a done poll future has no descriptor in the
   executor's list (its deregistration ran inside the resolving call); relates to C12 / stale descriptors.  With
   c08_descriptor_exact: descs s = descs_of (hist s), so the next snapshot shows no resolved future. *)
Theorem c03_poll_done_not_registered : forall s j, reach s -> quiescent s ->
  fdone (ps s j) = true -> ~ In j (map fst (descs s)).
Proof. exact done_not_registered_lemma. Qed.

(* read the other way round: every descriptor listed in a quiescent state belongs to a pending, existing future *)
Theorem c03_poll_quiescent_descs_pending : forall s j v, reach s -> quiescent s ->
  In (j, v) (descs s) -> fdone (ps s j) = false /\ j < nfut s.
Proof. exact quiescent_descs_pending_lemma. Qed.

(* the fact behind it (any reachable state): _register_poll never appends a descriptor for a future that is
   already done -- when a thread is about to take X for the append, the future is still pending *)
Theorem c03_poll_registered_not_done : forall s t j v l, reach s ->
  thr s t = IXAcqReg j v :: l -> fdone (ps s j) = false.
Proof. exact registered_not_done_lemma. Qed.

(* (d) non-vacuity of (a): a reachable quiescent state with one resolved future (0), one waiting for its delegate
   (1) and one in the polling stage (2) *)
Example c03_poll_three_example :
  let s := state_of w_three in
  accepted w_three = true /\ quiescent s /\ nfut s = 3 /\
  (ps s 0 = Finished /\ pout s 0 = Some (Ok 7)) /\
  (ps s 1 = Pending /\ waits_for_delegate s 1) /\
  (ps s 2 = Pending /\ in_polling_stage s 2) /\
  descs s = [(2, 200)] /\ last_snap (hist s) = Some [(2, 200)] /\ wblock s = Some (2, 1)%Z.
Proof. exact three_example. Qed.

Print Assumptions c03_poll_quiescent_all_idle.
Print Assumptions c03_poll_no_lost.
Print Assumptions c03_poll_cancelled_delegate_lost.
Print Assumptions c03_poll_failed_delegate_resolved.
Print Assumptions c03_poll_timed_wait.
Print Assumptions c03_poll_quiescent_prompt.
Print Assumptions c03_poll_lost_after_foreign_cancel_refuted.
Print Assumptions c03_poll_lost_later_example.
Print Assumptions c03_poll_lost_for_ever.
Print Assumptions c03_poll_lost_then_cancel_example.
Print Assumptions c03_poll_done_not_registered.
Print Assumptions c03_poll_quiescent_descs_pending.
Print Assumptions c03_poll_registered_not_done.
Print Assumptions c03_poll_cancel_example.
Print Assumptions c03_poll_three_example.
