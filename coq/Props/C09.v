(* C09 -- Timeouts fire exactly once, never early, and at the deadline.
   Statements about every reachable state of the TimeoutExecutor model (Model/Timeout.v, the machine
   the implementation histories are replayed on) and about the kernels regenerated from timeout.py
   (Gen/TimeoutGen.v).  Proofs: Proofs/Timeout_Spec.v (kernels), Proofs/Timeout_Inv.v (machine). *)
From Coq Require Import List ZArith Bool Arith Lia.
From ME Require Import Base.Machine Base.Fut Base.GenPrelude Gen.TimeoutGen Model.Timeout
                       Proofs.Timeout_Spec Proofs.Timeout_Inv.
Import ListNotations.
Local Open Scope Z_scope.

Definition reachable (s : st) : Prop := reachable_from step init s.

(* ---- kernels (regenerated from the source on every run) ---------------------------------------- *)
(* never_early, kernel level: _partition_jobs classifies a job overdue iff it is in _jobs, its
   future answered "not done" and its deadline is strictly before the clock reading *)
Theorem c09_partition_overdue : forall isdone now jobs j,
  In j (snd (partition_jobs isdone now jobs)) <-> In j jobs /\ isdone j = false /\ tj_deadline j < now.
Proof. exact partition_overdue. Qed.

Theorem c09_partition_pending : forall isdone now jobs j,
  In j (fst (partition_jobs isdone now jobs)) <-> In j jobs /\ isdone j = false /\ now <= tj_deadline j.
Proof. exact partition_pending. Qed.

(* pending and overdue are order-preserving filters of _jobs; nothing is lost *)
Theorem c09_partition_filters : forall isdone now jobs,
  partition_jobs isdone now jobs = (filter (keep_b isdone now) jobs, filter (ovd_b isdone now) jobs).
Proof. exact partition_jobs_spec. Qed.

Theorem c09_partition_complete : forall isdone now jobs j, In j jobs ->
  isdone j = true \/ In j (fst (partition_jobs isdone now jobs)) \/ In j (snd (partition_jobs isdone now jobs)).
Proof. exact partition_complete. Qed.

(* wait_time = max(earliest pending deadline - now, 0), None iff nothing is pending *)
Theorem c09_wait_time : forall pend now, pend <> [] ->
  exists m, wait_time pend now = Some (Z.max (m - now) 0) /\
            In m (map tj_deadline pend) /\ forall j, In j pend -> m <= tj_deadline j.
Proof. exact wait_time_spec. Qed.

Theorem c09_deadline : forall now tmo, deadline_of now tmo = now + tmo.
Proof. exact deadline_of_spec. Qed.

(* ---- the interleaving machine ---------------------------------------------------------------- *)
(* never_early: every cancel attempt of the job thread on future j happens at a time strictly
   after the deadline stored in j's job record ... *)
Theorem c09_never_early : forall s, reachable s ->
  forall j dl ts, In (HAttempt j dl ts) (hist s) -> dl < ts.
Proof. exact never_early_l. Qed.

(* ... and that deadline is at least (creation time of the future) + (its default or per-call
   timeout): the attempt comes strictly later than creation + timeout *)
Theorem c09_never_early_creation : forall s, reachable s ->
  forall j dl ts, In (HAttempt j dl ts) (hist s) ->
  exists d tmo ts0, In (HNew j d tmo ts0) (hist s) /\ ts0 + tmo <= dl /\ dl < ts.
Proof. exact never_early_creation_l. Qed.

(* at_most_once: no future is attempted twice, whatever is submitted, completed or cancelled meanwhile *)
Theorem c09_at_most_once : forall s, reachable s -> NoDup (atts (hist s)).
Proof. exact at_most_once_l. Qed.

(* every attempt stems from a partition whose clock reading exceeded the deadline, in the same
   iteration (the partition ran no later than the attempt) *)
Theorem c09_attempt_from_partition : forall s, reachable s ->
  forall j dl ts, In (HAttempt j dl ts) (hist s) ->
  exists now pend ovd, In (HPart now pend ovd) (hist s) /\ In (mkjob j dl) ovd /\ dl < now /\ now <= ts.
Proof. exact attempt_from_partition_l. Qed.

(* overdue_cancelled_this_iteration: a job a partition classified overdue has been attempted, or
   its cancel is still ahead of the job thread in this very iteration (the thread is not at a
   loop-control point: it cannot reach the next partition or a wait before the attempt) *)
Theorem c09_overdue_cancelled_this_iteration : forall s, reachable s ->
  forall now pend ovd job, In (HPart now pend ovd) (hist s) -> In job ovd ->
  (exists ts, In (HAttempt (tj_id job) (tj_deadline job) ts) (hist s)) \/
  (In job (tcs (thr s jt)) /\ match thr s jt with i :: _ => loopctl i = false | [] => False end).
Proof. exact overdue_attempted_l. Qed.

(* sleep_le_earliest: the timeout the job thread is about to hand to event.wait() was computed, at
   clock reading wclk, as at most (deadline - wclk) for EVERY job in _jobs -- including jobs
   appended after the partition, because the code reads the live list -- unless the event is
   already set or a set() is the very next step of some thread *)
Theorem c09_sleep_le_earliest : forall s, reachable s ->
  forall tau r, thr s jt = IWWait tau :: r ->
  forall job, In job (jobs s) -> cov s tau job \/ evf s = true \/ pendset s.
Proof. exact sleep_le_earliest_l. Qed.

(* no_lost_wakeup: while the job thread is blocked in wait() and has not been notified, every job
   in _jobs is covered by the timeout it sleeps with, or the submitter that appended it is just
   about to call set() (its next visible operation) *)
Theorem c09_no_lost_wakeup : forall s, reachable s ->
  forall r tau since, thr s jt = IWWoke :: r -> wblock s = Some (tau, since) -> wnotif s = false ->
  forall job, In job (jobs s) -> cov s tau job \/ pendset s.
Proof. exact no_lost_wakeup_l. Qed.

(* early_completion_keeps_outcome: an outcome, once set on the returned future, is never replaced
   (in particular not by a later cancel attempt) ... *)
Theorem c09_outcome_kept : forall s, reachable s ->
  forall j o ts, In (HSet j o ts) (hist s) -> rs s j = Finished /\ rout s j = Some o.
Proof. exact inv2_reach. Qed.

(* ... and a future whose outcome was set no later than its deadline never receives a cancel attempt
   from the job thread (contrapositive: attempt and outcome both present => outcome after deadline) *)
Theorem c09_completed_before_deadline_no_attempt : forall s, reachable s ->
  forall j dl ts' o ts, In (HAttempt j dl ts') (hist s) -> In (HSet j o ts) (hist s) -> dl < ts.
Proof. exact set_before_deadline_no_attempt_l. Qed.

(* TODO-PROOF (not a safety property of the machine; decided on implementation histories by the
   monitor harness/timeout_monitor.py, pattern timeout:late):
     "a future still not done at its deadline D receives its attempt no later than the first timer
      expiry after D"  --  needs progress/fairness of the job thread and the timer, which a trace
   acceptor does not express.  Its safety skeleton is proved above: the thread never plans to sleep
   past the earliest deadline in _jobs (c09_sleep_le_earliest), no wake-up is lost
   (c09_no_lost_wakeup), and a job found overdue is attempted before the thread can wait again
   (c09_overdue_cancelled_this_iteration). *)

(* ---- non-vacuity: an implementation history (two submissions, per-call timeout 1 and default 2;
   the first times out and is cancelled, the second completes one tick before its deadline) ------- *)
Definition c09_trace : list (list Z) :=
  [[0; 4; 0]; [0; 24; 0; 0]; [0; 5; 0]; [0; 16; 1; 0; 0]; [0; 0; 1; 1]; [0; 13; 1]; [0; 15; 1; 0; 0; 0; 0]; [0; 8; 1; 0]; [0; 9; 1; 0]; [0; 11; 1; 5; 0; 0]; [0; 8; 1; 0]; [0; 10; 1; 1; 0; 0]; [0; 9; 1; 0]; [0; 24; 1; 0]; [0; 3; 1]; [0; 6; 1]; [0; 14; 1]; [0; 7; 1; 0]; [0; 2; 1; 0; 0]; [0; 8; 1; 0]; [0; 10; 1; 1; 0; 0]; [0; 9; 1; 0]; [0; 7; 1; 0]; [0; 0; 1; 2]; [0; 13; 1]; [0; 15; 1; 1; 0; 0; 0]; [0; 8; 1; 1]; [0; 9; 1; 1]; [0; 11; 1; 5; 1; 0]; [0; 8; 1; 1]; [0; 10; 1; 1; 1; 0]; [0; 9; 1; 1]; [0; 24; 1; 0]; [0; 3; 1]; [0; 6; 1]; [0; 14; 1]; [0; 7; 1; 0]; [0; 17; 0]; [0; 18]; [0; 4; 0]; [0; 24; 0; 0]; [0; 10; 0; 1; 0; 0]; [0; 10; 0; 1; 1; 0]; [0; 5; 0]; [0; 24; 0; 0]; [0; 16; 1; 1; 1]; [1; 17; 1]; [1; 18]; [1; 4; 0]; [1; 24; 0; 1]; [1; 10; 0; 1; 0; 0]; [1; 10; 0; 1; 1; 0]; [1; 5; 0]; [1; 19; 2; 1; 0]; [1; 21; 2; 1; 1; 0; 1]; [1; 8; 2; 1]; [1; 9; 2; 1]; [1; 11; 2; 0; 1; 4]; [1; 24; 0; 1]; [1; 16; 1; 1; 0]; [1; 8; 2; 1]; [1; 10; 2; 4; 1; 0]; [1; 9; 2; 1]; [1; 6; 2]; [1; 17; 0]; [1; 18]; [1; 4; 0]; [1; 24; 0; 1]; [1; 10; 0; 1; 0; 0]; [1; 10; 0; 1; 1; 4]; [1; 5; 0]; [1; 24; 0; 1]; [1; 16; 1; 1; 0]; [2; 17; 1]; [2; 18]; [2; 4; 0]; [2; 24; 0; 2]; [2; 10; 0; 1; 0; 0]; [2; 5; 0]; [2; 8; 0; 0]; [2; 10; 0; 0; 0; 0]; [2; 10; 0; 1; 0; 0]; [2; 11; 0; 2; 0; 0]; [2; 11; 0; 0; 0; 2]; [2; 10; 0; 2; 0; 0]; [2; 10; 0; 3; 0; 2]; [2; 9; 0; 0]; [2; 6; 0]; [2; 12; 0; 0; 0; 0]; [2; 16; 0; 0; 0]; [2; 18]; [2; 4; 0]; [2; 24; 0; 2]; [2; 5; 0]; [2; 16; 1; 0; 0]].

Definition is_attempt (h : hev) : bool := match h with HAttempt _ _ _ => true | _ => false end.
Definition is_set (h : hev) : bool := match h with HSet _ _ _ => true | _ => false end.

Example c09_trace_accepted : accept c09_trace = [-1].
Proof. vm_compute. reflexivity. Qed.

Example c09_nonvacuous :
  match decode_all c09_trace with
  | Some es => match run step init es with
               | Some s => existsb is_attempt (hist s) && existsb is_set (hist s) &&
                           fcancelled (rs s 0%nat) && fstate_eqb (rs s 1%nat) Finished
               | None => false
               end
  | None => false
  end = true.
Proof. vm_compute. reflexivity. Qed.

Print Assumptions c09_partition_overdue.
Print Assumptions c09_wait_time.
Print Assumptions c09_never_early.
Print Assumptions c09_never_early_creation.
Print Assumptions c09_at_most_once.
Print Assumptions c09_attempt_from_partition.
Print Assumptions c09_overdue_cancelled_this_iteration.
Print Assumptions c09_sleep_le_earliest.
Print Assumptions c09_no_lost_wakeup.
Print Assumptions c09_outcome_kept.
Print Assumptions c09_completed_before_deadline_no_attempt.
Print Assumptions c09_partition_pending.
Print Assumptions c09_partition_filters.
Print Assumptions c09_partition_complete.
Print Assumptions c09_deadline.
