(* C20 -- metrics.  Statements only.
   Queue gauges (retry_queue, throttle_queue): Model/QGauge.v is in lockstep with the real executors
   (harness/p_c20q.py: executor lock, every container mutation, every gauge update); the theorems below
   turn its local pairing discipline into the global laws of the property.
   exec_inprogress / exec_total and future_inprogress / future_total / future_cancel / future_error:
   Model/ExecGauge.v in lockstep (harness/p_c20e.py), theorems in Props/C20_exec.v.
   PARTIAL for the rest: that the done-callback of every finished future runs, and the remaining counters
   (timeout, retry_total, poll_*, shutdown_cancel), are decided by comparing the stand-in registry with reality
   on real stacks (harness/p_c20.py); the abstract pairing law is Model/Metrics.v. *)
From Coq Require Import List ZArith Bool Arith.
From ME Require Import Base.Machine Model.Metrics Model.QGauge Proofs.QGauge_Inv.
Import ListNotations.

(* ---- queue gauges, machine in lockstep with retry.py / throttle.py --------------------------------- *)
(* at quiescence -- indeed whenever the executor lock is free -- the gauge is the number of queued entries *)
Theorem c20_queue_gauge_eq_at_rest : forall s i, QGauge_Inv.reachable s ->
  QGauge.owner s i = None -> QGauge.gauge s i = Z.of_nat (length (QGauge.q s i)).
Proof. exact gauge_eq_at_rest. Qed.
(* never negative on the way, not even in the middle of a critical section *)
Theorem c20_queue_gauge_never_negative : forall s i, QGauge_Inv.reachable s -> (0 <= QGauge.gauge s i)%Z.
Proof. exact gauge_nonneg. Qed.
(* inside a section it is off by at most one entry *)
Theorem c20_queue_gauge_within_one : forall s i, QGauge_Inv.reachable s ->
  (Z.abs (QGauge.gauge s i - Z.of_nat (length (QGauge.q s i))) <= 1)%Z.
Proof. exact gauge_within_one. Qed.
(* queue and gauge are only ever touched by the holder of the executor lock *)
Theorem c20_queue_touched_only_by_holder : forall s e s' i, QGauge.step s e = Some s' ->
  (QGauge.q s' i <> QGauge.q s i \/ QGauge.gauge s' i <> QGauge.gauge s i) ->
  exists t, QGauge.owner s i = Some t /\ QGauge.owner s' i = Some t.
Proof. exact touched_only_by_holder. Qed.
(* a removal path without its decrement (retry._cancel and throttle._do_cancel before the repairs G7 / G7b)
   leaves the gauge above reality at rest *)
Theorem c20_queue_missing_dec_refuted :
  exists s, reachable_from QGauge.step_nodec QGauge.init s /\ QGauge.owner s 0 = None /\ QGauge.q s 0 = [] /\ QGauge.gauge s 0 = 1%Z.
Proof. exact QGauge_Inv.gauge_drift_without_dec_refuted. Qed.

(* non-vacuity: an implementation history of p_c20q (two retry layers; submit, hand-over, retry, cancel) *)
Definition c20_trace : list (list Z) :=
  [[0; 0; 0]; [1; 0; 0]; [0; 1; 0]; [1; 1; 0]; [0; 0; 1]; [2; 0; 1; 0]; [4; 0; 1]; [1; 0; 1]; [0; 0; 0]; [3; 0; 0; 0]; [5; 0; 0]; [1; 0; 0];
   [0; 0; 1]; [2; 0; 1; 1]; [4; 0; 1]; [1; 0; 1]; [0; 1; 0]; [2; 1; 0; 2]; [4; 1; 0]; [1; 1; 0]; [0; 1; 0]; [3; 1; 0; 2]; [5; 1; 0]; [1; 1; 0];
   [0; 0; 0]; [1; 0; 0]; [0; 0; 0]; [3; 0; 0; 1]; [5; 0; 0]; [1; 0; 0]; [0; 1; 0]; [2; 1; 0; 3]; [4; 1; 0]; [1; 1; 0]; [0; 1; 0]; [3; 1; 0; 3];
   [5; 1; 0]; [1; 1; 0]; [0; 0; 0]; [1; 0; 0]; [0; 0; 1]; [2; 0; 1; 4]; [4; 0; 1]]%Z.
Example c20_trace_accepted : QGauge.accept c20_trace = [-1]%Z.
Proof. vm_compute. reflexivity. Qed.
Example c20_queue_nonvacuous :
  exists s, QGauge_Inv.reachable s /\ QGauge.owner s 0 = Some 1 /\ QGauge.q s 0 = [4] /\ QGauge.gauge s 0 = 1%Z /\ QGauge.q s 1 = [].
Proof.
  destruct (QGauge.decode_all c20_trace) as [es|] eqn:E; [|discriminate].
  destruct (run QGauge.step QGauge.init es) as [s|] eqn:R; [|vm_compute in E; inversion E; subst; vm_compute in R; discriminate].
  exists s. split; [exists es; exact R|].
  vm_compute in E. inversion E; subst. vm_compute in R. inversion R; subst. repeat split; reflexivity.
Qed.

(* ---- the abstract pairing law (every series that pairs inc with dec) ---------------------------------- *)
Theorem c20_gauge_matches_container_partial : forall s, reachable_from Metrics.step Metrics.init s -> Metrics.gauge s = Z.of_nat (length (Metrics.queue s)).
Proof. exact gauge_matches. Qed.
Theorem c20_gauge_never_negative_partial : forall s, reachable_from Metrics.step Metrics.init s -> (0 <= Metrics.gauge s)%Z.
Proof. exact Metrics.gauge_nonneg. Qed.
(* the cancel-while-queued path without a decrement (retry._cancel and throttle._do_cancel before
   their repair) leaves the gauge above reality *)
Theorem c20_missing_dec_refuted : exists s, reachable_from (step_gen false) Metrics.init s /\ Metrics.queue s = [] /\ Metrics.gauge s = 1%Z.
Proof. exact Metrics.gauge_drift_without_dec_refuted. Qed.

Print Assumptions c20_queue_gauge_eq_at_rest.
Print Assumptions c20_queue_gauge_never_negative.
Print Assumptions c20_queue_gauge_within_one.
Print Assumptions c20_queue_touched_only_by_holder.
Print Assumptions c20_queue_missing_dec_refuted.
Print Assumptions c20_queue_nonvacuous.
Print Assumptions c20_gauge_matches_container_partial.
Print Assumptions c20_gauge_never_negative_partial.
Print Assumptions c20_missing_dec_refuted.
