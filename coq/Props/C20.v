(* C20 -- metrics.  Statements only.  PARTIAL: the pairing law is proved on an abstract container
   (Model/Metrics.v); that every enqueue/dequeue path of retry.py / throttle.py and every future's
   life is paired is decided by comparing the stand-in registry with reality on real stacks. *)
From Coq Require Import List ZArith Bool Arith.
From ME Require Import Base.Machine Model.Metrics.
Import ListNotations.

Theorem c20_gauge_matches_container_partial : forall s, reachable_from step init s -> gauge s = Z.of_nat (length (queue s)).
Proof. exact gauge_matches. Qed.
Theorem c20_gauge_never_negative_partial : forall s, reachable_from step init s -> (0 <= gauge s)%Z.
Proof. exact gauge_nonneg. Qed.
(* the cancel-while-queued path without a decrement (retry._cancel and throttle._do_cancel before
   their repair) leaves the gauge above reality *)
Theorem c20_missing_dec_refuted : exists s, reachable_from (step_gen false) init s /\ queue s = [] /\ gauge s = 1%Z.
Proof. exact gauge_drift_without_dec_refuted. Qed.

Print Assumptions c20_gauge_matches_container_partial.
Print Assumptions c20_gauge_never_negative_partial.
Print Assumptions c20_missing_dec_refuted.
