(* C15 -- f_zip / f_sequence / f_traverse.  Statements only.  Kernel regenerated from futures/zip.py. *)
From Coq Require Import List Bool Arith ZArith.
From ME Require Import Base.Machine Base.Fut Base.GenPrelude Gen.ZipGen Proofs.Comb_Spec.
Import ListNotations.

Theorem c15_zip_update_closed_form : forall done remaining f,
  zip_update done remaining f =
  if done then (true, remaining, false, false, false, false)
  else if v_cancelled f then (true, remaining, false, false, false, true)
  else if v_failed f then (true, remaining, false, false, true, false)
  else if Z.eqb (remaining - 1) 0 then (true, (remaining - 1)%Z, true, true, false, false)
  else (false, (remaining - 1)%Z, true, false, false, false).
Proof. exact zip_update_spec. Qed.

Theorem c15_tuple_class_threshold : tuple_classes = 20%Z.
Proof. exact tuple_classes_20. Qed.

Print Assumptions c15_zip_update_closed_form.
Print Assumptions c15_tuple_class_threshold.
