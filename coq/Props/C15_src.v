(* C15 -- source facts.  The machines and monitors this property rests on were written against, and validated on,
   these definitions of /repo; tools/srcfacts.py regenerates their normal-form digests on every run (coq/Gen/Src_*.v).
   Statements only.  Written by `tools/srcfacts.py --props` from PROP_MODULES. *)
From Coq Require Import List String.
From ME Require Import Model.SrcExpected Gen.Src_fzip Gen.Src_fbase Gen.Src_fsequence Gen.Src_fcheck Gen.Src_common Gen.Src_futures_init Gen.Src_logwrap Gen.Src_metrics_null
  Proofs.Src_ok_fzip Proofs.Src_ok_fbase Proofs.Src_ok_fsequence Proofs.Src_ok_fcheck Proofs.Src_ok_common Proofs.Src_ok_futures_init Proofs.Src_ok_logwrap Proofs.Src_ok_metrics_null.

(* more_executors/_impl/futures/zip.py *)
Theorem c15_source_fzip : Src_fzip.facts = expected_fzip.
Proof. exact src_fzip_ok. Qed.
(* more_executors/_impl/futures/base.py *)
Theorem c15_source_fbase : Src_fbase.facts = expected_fbase.
Proof. exact src_fbase_ok. Qed.
(* more_executors/_impl/futures/sequence.py *)
Theorem c15_source_fsequence : Src_fsequence.facts = expected_fsequence.
Proof. exact src_fsequence_ok. Qed.
(* more_executors/_impl/futures/check.py *)
Theorem c15_source_fcheck : Src_fcheck.facts = expected_fcheck.
Proof. exact src_fcheck_ok. Qed.
(* more_executors/_impl/common.py *)
Theorem c15_source_common : Src_common.facts = expected_common.
Proof. exact src_common_ok. Qed.
(* more_executors/_impl/futures/__init__.py *)
Theorem c15_source_futures_init : Src_futures_init.facts = expected_futures_init.
Proof. exact src_futures_init_ok. Qed.
(* more_executors/_impl/logwrap.py *)
Theorem c15_source_logwrap : Src_logwrap.facts = expected_logwrap.
Proof. exact src_logwrap_ok. Qed.
(* more_executors/_impl/metrics/null.py *)
Theorem c15_source_metrics_null : Src_metrics_null.facts = expected_metrics_null.
Proof. exact src_metrics_null_ok. Qed.

Print Assumptions c15_source_fzip.
Print Assumptions c15_source_fbase.
Print Assumptions c15_source_fsequence.
Print Assumptions c15_source_fcheck.
Print Assumptions c15_source_common.
Print Assumptions c15_source_futures_init.
Print Assumptions c15_source_logwrap.
Print Assumptions c15_source_metrics_null.
