(* C17, continued -- f_nocancel on a machine.  Statements only.
   Model/NoCancel.v: a NoCancelFuture is a MapFuture of Model/MapFut.v's machine (the machine of C02 / C06 / C13, in lockstep with
   the real MapFuture protocol in p_c17m) with two things REGENERATED from futures/nocancel.py (Gen/Proxy2Gen.v): the body of the
   overridden cancel() (`return False`: no visible operation, the inherited _Future.cancel -- the only code that reaches
   _me_cancel / delegate.cancel() -- is not reachable through the wrapper) and the constructor's map function (the identity
   lambda: its answer is the delegate's value).  Everything else (the delegate completing, failing or being cancelled by someone
   else at any time, other futures, callbacks, any number of threads) is the unchanged MapFut machine.
   Proofs: Proofs/NoCancel_*.v (a new invariant of the MapFut machine: every cancel-path instruction and every forwarded cancel of
   future j is preceded by a cancel() CALL on j). *)
From Coq Require Import ZArith List Bool Arith String.
From ME Require Import Base.Machine Base.Fut Base.GenPrelude Base.ProxyPrelude Gen.Proxy2Gen Model.MapFut Model.NoCancel
  Proofs.MapFut_D0 Proofs.MapFut_D2 Proofs.NoCancel_Inv Proofs.NoCancel_Thm.
Import ListNotations.

(* ---- on the MapFut machine itself: without a cancel() call on j nothing of j's cancel path ever happens ---------- *)
Theorem c17_map_delegate_cancel_needs_call :
  forall s : st, reachable s -> forall (j d : nat) (b : bool), In (HDCancel j d b) (hist s) -> In (HCancelCall j) (hist s).
Proof. exact mapfut_dcancel_needs_call. Qed.

Theorem c17_map_no_call_no_cancel :
  forall s : st,
         reachable s ->
         forall j : nat,
         ~ In (HCancelCall j) (hist s) ->
         (forall (d : nat) (b : bool), ~ In (HDCancel j d b) (hist s)) /\
         ~ In (HCancelled j) (hist s) /\ fcancelled (ms s j) = false /\ (forall (t : nat) (i : instr), In i (thr s t) -> cinstr i <> Some j).
Proof. exact mapfut_no_call_no_cancel. Qed.

(* ---- the NoCancelFuture machine ---------------------------------------------------------------------------- *)
(* its base component is a reachable state of the MapFut machine: every theorem of Props/MapFut_D.v / MapFut_E.v / C13.v applies *)
Theorem c17_nocancel_base_reachable :
  forall s : ncst, ncreachable s -> reachable (base s).
Proof. exact nc_base_reachable. Qed.

(* for any state of the underlying future and any number of cancel() calls on the wrapper, by any threads, in any interleaving:
   no cancel() reaches the underlying future on the wrapper's behalf, the wrapper is never cancelled, no thread is on its cancel path *)
Theorem c17_nocancel_underlying_receives_no_cancel :
  forall s : ncst,
         ncreachable s ->
         forall j : nat,
         isnc s j = true ->
         (forall (d : nat) (b : bool), ~ In (HDCancel j d b) (hist (base s))) /\
         ~ In (HCancelled j) (hist (base s)) /\
         fcancelled (ms (base s) j) = false /\ (forall (t : nat) (i : instr), In i (thr (base s) t) -> cinstr i <> Some j).
Proof. exact nc_underlying_receives_no_cancel. Qed.

(* one cancel() call: the answer is False and the whole base machine -- the underlying future included -- is untouched *)
Theorem c17_nocancel_cancel_is_noop :
  forall (s : ncst) (t j : nat) (s' : ncst),
         nstep s (NCancel t j) = Some s' -> base s' = base s /\ isnc s' = isnc s /\ nans s' j = false :: nans s j.
Proof. exact nc_cancel_is_noop. Qed.

(* it can be called at any time, any number of times *)
Theorem c17_nocancel_cancel_enabled :
  forall (s : ncst) (t j : nat),
         isnc s j = true -> j < nfut (base s) -> thr (base s) t = [] -> exists s' : ncst, nstep s (NCancel t j) = Some s'.
Proof. exact nc_cancel_enabled. Qed.

Theorem c17_nocancel_cancel_any_number :
  forall (s : ncst) (t j n : nat),
         isnc s j = true ->
         j < nfut (base s) ->
         thr (base s) t = [] ->
         exists s' : ncst,
           run nstep s (repeat (NCancel t j) n) = Some s' /\ base s' = base s /\ isnc s' = isnc s /\ nans s' j = (repeat false n ++ nans s j)%list.
Proof. exact nc_cancel_any_number. Qed.

Theorem c17_nocancel_every_answer_false :
  forall s : ncst, ncreachable s -> forall (j : nat) (b : bool), In b (nans s j) -> b = false.
Proof. exact nc_every_answer_false. Qed.

(* everything else is mirrored: whatever outcome the wrapper is ever given is the underlying future's own outcome (value or the
   same exception object), by C13's law for the identity function and no error function *)
Theorem c17_nocancel_outcome_mirrors :
  forall s : ncst,
         ncreachable s ->
         forall j : nat,
         isnc s j = true ->
         forall o : outcome,
         In (HSet j o) (hist (base s)) ->
         exists d : nat,
           In (HNew j d) (hist (base s)) /\
           eout (base s) d = Some o /\ es (base s) d = Finished /\ ms (base s) j = Finished /\ mout (base s) j = Some o.
Proof. exact nc_outcome_mirrors. Qed.

(* a wrapper that is done (it is never cancelled) carries the underlying future's own outcome *)
Theorem c17_nocancel_done_means_mirrored :
  forall s : ncst,
         ncreachable s ->
         forall j : nat,
         isnc s j = true ->
         fdone (ms (base s) j) = true ->
         exists (d : nat) (o : outcome),
           In (HNew j d) (hist (base s)) /\
           eout (base s) d = Some o /\ es (base s) d = Finished /\ ms (base s) j = Finished /\ mout (base s) j = Some o.
Proof. exact nc_done_means_mirrored. Qed.

(* at rest a still-pending wrapper waits, registered, for an underlying future that is not done -- or the underlying future was cancelled
   by someone else (then the wrapper stays pending: the known finding G1 of MapFuture, witness below) *)
Theorem c17_nocancel_pending_at_rest :
  forall s : ncst,
         ncreachable s ->
         (forall t : nat, thr (base s) t = []) ->
         forall j : nat,
         isnc s j = true ->
         fdone (ms (base s) j) = false ->
         exists d : nat,
           In (HNew j d) (hist (base s)) /\ (In j (ecbs (base s) d) /\ fdone (es (base s) d) = false \/ fcancelled (es (base s) d) = true).
Proof. exact nc_pending_at_rest. Qed.

(* the machine's restriction on the identity lambda's answer excludes nothing *)
Theorem c17_nocancel_identity_answer_exists :
  forall s : ncst,
         ncreachable s ->
         forall (t j d : nat) (rest : list instr),
         thr (base s) t = IUserFn j d :: rest ->
         exists v : nat, eout (base s) d = Some (Ok v) /\ es (base s) d = Finished /\ (isnc s j = true -> fn_answer_ok s t (ARet v) = true).
Proof. exact nc_identity_answer_exists. Qed.


(* ---- non-vacuity -------------------------------------------------------------------------------------------------- *)
(* f_nocancel(7); three cancel() calls from two threads while 7 is pending; 7 finishes with 5; the wrapper is resolved with 5;
   one more cancel() *)
Definition w_nc : list ncev :=
  [NNew 0 0 7; NBase (EAcqM 0 0); NBase (ERelM 0 0); NBase (EFE 0 5 7 Pending); NBase (ERet 0 0);
   NCancel 2 0; NCancel 2 0; NCancel 3 0;
   NBase (EEnvFinish 1 7 Pending (Ok 5)); NBase (EAcqM 1 0); NBase (ERelM 1 0); NBase (EFE 1 0 7 Finished);
   NBase (EUserFn 1 (ARet 5)); NBase (EAcqM 1 0); NBase (EFM 1 4 0 Pending); NBase (ERelM 1 0);
   NCancel 2 0].
Example c17_nocancel_witness : exists s, run nstep ncinit w_nc = Some s /\ isnc s 0 = true /\
  nans s 0 = [false; false; false; false] /\ ms (base s) 0 = Finished /\ mout (base s) 0 = Some (Ok 5) /\ es (base s) 7 = Finished /\
  hist (base s) = [HSet 0 (Ok 5); HFn 0 7 (ARet 5); HEnvDone 7 (Ok 5); HNew 0 7].
Proof. eexists. split; [vm_compute; reflexivity|]. repeat split; vm_compute; reflexivity. Qed.
(* a failing delegate: the wrapper fails with the same exception 9 *)
Definition w_nc_fail : list ncev :=
  [NNew 0 0 7; NBase (EAcqM 0 0); NBase (ERelM 0 0); NBase (EFE 0 5 7 Pending); NBase (ERet 0 0); NCancel 2 0;
   NBase (EEnvFinish 1 7 Pending (Err 9)); NBase (EAcqM 1 0); NBase (ERelM 1 0); NBase (EFE 1 0 7 Finished);
   NBase (EAcqM 1 0); NBase (ERelM 1 0); NBase (EAcqM 1 0); NBase (EFM 1 6 0 Pending); NBase (ERelM 1 0); NBase (EFM 1 1 0 Finished)].
Example c17_nocancel_witness_failed : exists s, run nstep ncinit w_nc_fail = Some s /\ isnc s 0 = true /\ nans s 0 = [false] /\
  ms (base s) 0 = Finished /\ mout (base s) 0 = Some (Err 9) /\ eout (base s) 7 = Some (Err 9).
Proof. eexists. split; [vm_compute; reflexivity|]. repeat split; vm_compute; reflexivity. Qed.
(* the underlying future cancelled by its owner (not through the wrapper): the wrapper's cancel() still says False and the wrapper stays
   pending at rest (G1) *)
Definition w_nc_foreign : list ncev :=
  [NNew 0 0 7; NBase (EAcqM 0 0); NBase (ERelM 0 0); NBase (EFE 0 5 7 Pending); NBase (ERet 0 0); NCancel 2 0;
   NBase (EEnvCancel 1 7 Pending); NBase (EAcqM 1 0); NBase (ERelM 1 0); NBase (EFE 1 0 7 Cancelled); NCancel 2 0].
Example c17_nocancel_witness_foreign_cancel : exists s, run nstep ncinit w_nc_foreign = Some s /\ isnc s 0 = true /\ nans s 0 = [false; false] /\
  ms (base s) 0 = Pending /\ es (base s) 7 = Cancelled /\ hist (base s) = [HEnvCancel 7; HNew 0 7] /\ thr (base s) 1 = [] /\ thr (base s) 2 = [].
Proof. eexists. split; [vm_compute; reflexivity|]. repeat split; vm_compute; reflexivity. Qed.
(* what the machine excludes: the inherited cancel() through the wrapper, and an identity lambda answering something else *)
Example c17_nocancel_rejects :
  run nstep ncinit [NNew 0 0 7; NBase (EAcqM 0 0); NBase (ERelM 0 0); NBase (EFE 0 5 7 Pending); NBase (ERet 0 0); NBase (ECallCancel 1 0)] = None /\
  run nstep ncinit (firstn 12 w_nc ++ [NBase (EUserFn 1 (ARet 6))]) = None /\
  (exists s, run nstep ncinit (firstn 12 w_nc) = Some s /\ thr (base s) 1 = [IUserFn 0 7; ICatch]).
Proof. repeat split; try (vm_compute; reflexivity). eexists. split; vm_compute; reflexivity. Qed.
(* the regenerated facts the theorems rest on *)
Example c17_nocancel_generated_facts :
  nocancel_cancel_body = NCReturnConst false /\ nocancel_map_fn = NFIdentity /\ nocancel_error_fn = NFAbsent /\ nocancel_overrides = ["cancel"%string].
Proof. repeat split; reflexivity. Qed.

Print Assumptions c17_map_delegate_cancel_needs_call.
Print Assumptions c17_map_no_call_no_cancel.
Print Assumptions c17_nocancel_base_reachable.
Print Assumptions c17_nocancel_underlying_receives_no_cancel.
Print Assumptions c17_nocancel_cancel_is_noop.
Print Assumptions c17_nocancel_cancel_enabled.
Print Assumptions c17_nocancel_cancel_any_number.
Print Assumptions c17_nocancel_every_answer_false.
Print Assumptions c17_nocancel_outcome_mirrors.
Print Assumptions c17_nocancel_done_means_mirrored.
Print Assumptions c17_nocancel_pending_at_rest.
Print Assumptions c17_nocancel_identity_answer_exists.
